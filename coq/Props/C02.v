(* C02 — property theorems only.  Proofs are in C02/Proofs.v, C02/Sqrt.v, C02/Format.v, C02/Nearest.v, C02/NearestOps.v and Base/DecFacts.v.
   The theorems are about the specification model (Base/DecRound.v); the C kernel is tied to it by the correspondence check only.
   "Correctly rounded" is the predicate of C02/Exact.v (read its header): the candidate set is fixed by the EXACT value x, not by the result. *)
From Coq Require Import ZArith NArith Bool List.
From DV Require Import Base.Dec Base.DecFacts Base.DecRound C02.Model C02.Proofs C02.Sqrt C02.Format C02.Exact C02.Nearest C02.NearestOps.
Import ListNotations.
Open Scope Z_scope.

(* ------------------------------------------------------------------ correctly rounded: the predicate determines the result *)
(* HEADLINE (uniqueness).  x is the exact non-negative magnitude (Quot X Y e = X / Y * 10^e with Y > 0, or Root X e = sqrt (X * 10^e)), s the sign.
   correctly_rounded x s o says: if x reaches the overflow threshold (10^34 - 1/2) * 10^6111, o is null; otherwise o is a decimal128 datum r
   with sign s whose value is c * 10^q, where q is the exponent fixed by the magnitude of x (the unique q >= -6176 with x < 10^34 * 10^q and,
   unless q = -6176, 10^33 * 10^q <= x) and c is x / 10^q rounded to the nearest integer, half-way cases to the even one.  Every comparison
   with x is an integer comparison by cross-multiplication (pt_cmp).  Two results that satisfy the predicate for the same x and s are equal as
   numbers: both null, or data with the same value (veq: the representation - trailing zeros, clamping - is not fixed, FEEL reduces anyway). *)
Theorem C02_correctly_rounded_unique : forall x s o1 o2, exact_wf x ->
  correctly_rounded x s o1 -> correctly_rounded x s o2 -> oveq o1 o2.
Proof. exact correctly_rounded_unique. Qed.
Theorem C02_rounds_to_unique : forall x s r1 r2, exact_wf x -> rounds_to x s r1 -> rounds_to x s r2 -> veq r1 r2.
Proof. exact rounds_to_unique. Qed.
(* the exponent and the coefficient are each determined by x *)
Theorem C02_quantum_unique : forall x q1 q2, exact_wf x -> quantum x q1 -> quantum x q2 -> q1 = q2.
Proof. exact quantum_unique. Qed.
Theorem C02_nearest_even_unique : forall x c1 c2 q, exact_wf x -> nearest_even x c1 q -> nearest_even x c2 q -> c1 = c2.
Proof. exact nearest_even_unique. Qed.

(* HEADLINE.  The rounding step every operation ends with is correctly rounded, for EVERY sign, coefficient (any size, zero included) and
   exponent: round34 s m e is THE decimal128 nearest to m * 10^e (ties to even), null exactly on overflow. *)
Theorem C02_round34_correctly_rounded : forall s m e, correctly_rounded (Quot m 1 e) s (round34 s m e).
Proof. exact round34_correctly_rounded. Qed.

(* The same with the quantum written out: the exponent e1 = target_exp m e is computed from the operands (not from the result), the datum d is
   c units of 10^e1, c * 10^e1 lies within half a unit of the exact value m * 10^e, c is even on an exact tie, and nothing is rounded when
   e1 = e.  All values are written at the common base exponent b.  (The tie clause speaks of the result's own coefficient c.) *)
Theorem C02_round34_nearest_even : forall s m e d, (0 < m)%N -> round34 s m e = Some d ->
  let e1 := target_exp m e in let b := Z.min e ETINY in
  neg d = s /\ ETINY <= expo d <= ETOP /\
  exists c : N,
    Z.of_N (coef d) * 10 ^ (expo d - b) = Z.of_N c * 10 ^ (e1 - b) /\
    2 * Z.abs (Z.of_N c * 10 ^ (e1 - b) - Z.of_N m * 10 ^ (e - b)) <= 10 ^ (e1 - b) /\
    (2 * Z.abs (Z.of_N c * 10 ^ (e1 - b) - Z.of_N m * 10 ^ (e - b)) = 10 ^ (e1 - b) -> N.even c = true) /\
    (e1 = e -> c = m).
Proof. exact round34_nearest_even_result. Qed.

Theorem C02_round_half_even : forall m drop, (0 < drop)%N ->
  let p := (10 ^ drop)%N in let q := round_half_even m drop in
  2 * Z.abs (Z.of_N q * Z.of_N p - Z.of_N m) <= Z.of_N p /\
  (2 * Z.abs (Z.of_N q * Z.of_N p - Z.of_N m) = Z.of_N p -> N.even q = true).
Proof. exact round_half_even_spec. Qed.

(* representable values are returned unchanged (also: a literal of up to 34 significant digits is exact, C07) *)
Theorem C02_round_exact : forall s m e, (m < 10 ^ PREC)%N -> ETINY <= e <= ETOP -> round34 s m e = Some (mkdec s m e).
Proof. exact round34_exact. Qed.

(* every result of the rounding step is a decimal128 datum: coefficient below 10^34, exponent -6176..6111 (so no operation of the model can
   return anything but a finite number or null) *)
Theorem C02_round34_in_format : forall s m e d, round34 s m e = Some d -> in_format d = true.
Proof. exact round34_in_format. Qed.

(* ------------------------------------------------------------------ every arithmetic operation is correctly rounded *)
(* * and integer powers: the exact product / power *)
Theorem C02_mul_correctly_rounded : forall a b,
  correctly_rounded (Quot (coef a * coef b) 1 (expo a + expo b)) (xorb (neg a) (neg b)) (dmul a b).
Proof. exact dmul_correctly_rounded. Qed.
Theorem C02_pow_nat_correctly_rounded : forall a n,
  correctly_rounded (Quot (coef a ^ n) 1 (expo a * Z.of_N n)) (neg a && N.odd n) (dpow_nat a n).
Proof. exact dpow_nat_correctly_rounded. Qed.

(* + - modulo: the exact integer sum / difference / remainder z at the smaller exponent e; the sign is the sign of z, an exact zero gets the
   sign IEEE prescribes (zsign z zs = if z = 0 then zs else z < 0) *)
Theorem C02_add_correctly_rounded : forall a b, let e := emin2 a b in let z := scaled a e + scaled b e in
  correctly_rounded (Quot (Z.abs_N z) 1 e) (zsign z (neg a && neg b)) (dadd a b).
Proof. exact dadd_correctly_rounded. Qed.
Theorem C02_sub_correctly_rounded : forall a b, let e := emin2 a b in let z := scaled a e - scaled b e in
  correctly_rounded (Quot (Z.abs_N z) 1 e) (zsign z (neg a && negb (neg b))) (dsub a b).
Proof. exact dsub_correctly_rounded. Qed.
Theorem C02_mod_correctly_rounded : forall a b, coef b <> 0%N -> let e := emin2 a b in
  let z := scaled a e - scaled b e * floor_div a b in
  correctly_rounded (Quot (Z.abs_N z) 1 e) (zsign z (neg b)) (dmod a b).
Proof. exact dmod_correctly_rounded. Qed.

(* HEADLINE for division: for EVERY pair of finite decimals with a non-zero divisor (any coefficient size, any exponent, zero dividend
   included) ddiv a b is the correctly rounded exact rational quotient coef a / coef b * 10^(expo a - expo b) with the sign (sign a xor sign b):
   null exactly when the quotient reaches the overflow threshold, otherwise THE nearest decimal128 (ties to even; 34 digits, or the subnormal
   grid), the exponent being fixed by the quotient.  Proof: ddiv computes at least 36 quotient digits (C02_div_quotient_digits) and a sticky
   digit; that number and the exact quotient compare alike with every multiple of ten units of the last computed digit. *)
Theorem C02_div_correctly_rounded : forall a b, (0 < coef b)%N ->
  correctly_rounded (Quot (coef a) (coef b) (expo a - expo b)) (xorb (neg a) (neg b)) (ddiv a b).
Proof. exact ddiv_nearest. Qed.
Theorem C02_div_quotient_digits : forall ca cb, (0 < ca)%N -> (0 < cb)%N ->
  let k := Z.to_N (Z.max 0 (36 + Z.of_N (ndigits cb) - Z.of_N (ndigits ca))) in
  (10 ^ 35 <= ca * 10 ^ k / cb)%N.
Proof. exact ddiv_quotient_digits. Qed.

(* HEADLINE for sqrt: for EVERY finite decimal d that is zero or not negative (any coefficient size, any exponent) dsqrt d is the correctly
   rounded exact square root sqrt (coef d * 10^(expo d)) (comparisons with the root are comparisons of squares).  Proof: dsqrt computes a
   floor root of at least 36 digits (C02_sqrt_root_digits) and a sticky digit. *)
Theorem C02_sqrt_correctly_rounded : forall d, coef d = 0%N \/ neg d = false ->
  correctly_rounded (Root (coef d) (expo d)) (neg d) (dsqrt d).
Proof. exact dsqrt_nearest. Qed.
Theorem C02_sqrt_root_digits : forall c, (0 < c)%N ->
  let k := Z.to_N (Z.max 0 (36 - Z.of_N (ndigits c) / 2)) in
  (10 ^ 35 <= N.sqrt (c * 10 ^ (2 * k)))%N.
Proof. exact dsqrt_root_digits. Qed.

(* what FEEL sees is the reduced result (f_add = reduced (dadd ..), ... f_sqrt = reduced (dsqrt ..)): still the correct rounding *)
Theorem C02_reduce_correctly_rounded : forall x s o, correctly_rounded x s o -> correctly_rounded x s (reduced o).
Proof. exact reduced_correctly_rounded. Qed.

(* the counter-instance of the audit: a = 10^34 - 3, b = 1.  The model returns the exact quotient; the predicate accepts it and REJECTS 1E+34,
   which the earlier statement of C02_div_correctly_rounded (div_weak_statement, kept in C02/Exact.v for this example only) accepted. *)
Example C02_audit_counterexample :
  ddiv (mkdec false 9999999999999999999999999999999997 0) (mkdec false 1 0) = Some (mkdec false 9999999999999999999999999999999997 0) /\
  rounds_to (Quot 9999999999999999999999999999999997 1 0) false (mkdec false 9999999999999999999999999999999997 0) /\
  ~ rounds_to (Quot 9999999999999999999999999999999997 1 0) false (mkdec false 1 34) /\
  div_weak_statement (mkdec false 9999999999999999999999999999999997 0) (mkdec false 1 0) (mkdec false 1 34).
Proof. exact audit_counterexample. Qed.

(* the predicate singles out the result: the computed value satisfies it, its neighbour does not (2/3; both kinds of exact tie; ties on the
   subnormal grid; overflow; sqrt 2) *)
Example C02_correctly_rounded_nonvacuous :
  rounds_to (Quot 2 3 0) false (mkdec false 6666666666666666666666666666666667 (-34)) /\
  ~ rounds_to (Quot 2 3 0) false (mkdec false 6666666666666666666666666666666666 (-34)) /\
  rounds_to (Quot 9999999999999999999999999999999999 2 0) false (mkdec false 5 33) /\
  ~ rounds_to (Quot 9999999999999999999999999999999999 2 0) false (mkdec false 4999999999999999999999999999999999 0) /\
  rounds_to (Quot 9999999999999999999999999999999997 2 0) false (mkdec false 4999999999999999999999999999999998 0) /\
  ~ rounds_to (Quot 9999999999999999999999999999999997 2 0) false (mkdec false 4999999999999999999999999999999999 0) /\
  rounds_to (Quot 1 2 (-6176)) false (mkdec false 0 (-6176)) /\
  ~ rounds_to (Quot 1 2 (-6176)) false (mkdec false 1 (-6176)) /\
  rounds_to (Quot 3 2 (-6176)) false (mkdec false 2 (-6176)) /\
  overflows (Quot 1 1 6211) /\ ddiv (mkdec false 1 6111) (mkdec false 1 (-100)) = None /\
  in_range (Quot 99999999999999999999999999999999994 1 6110) /\
  rounds_to (Root 2 0) false (mkdec false 1414213562373095048801688724209698 (-33)) /\
  ~ rounds_to (Root 2 0) false (mkdec false 1414213562373095048801688724209699 (-33)).
Proof. exact correctly_rounded_examples. Qed.

(* the square root of a non-negative decimal128 datum exists (never null: no overflow, no underflow) *)
Theorem C02_sqrt_defined : forall d, in_format d = true -> coef d = 0%N \/ neg d = false -> exists r, dsqrt d = Some r.
Proof. exact dsqrt_defined. Qed.

(* ... and is null exactly for a negative non-zero operand *)
Theorem C02_sqrt_null_iff : forall d, in_format d = true -> (dsqrt d = None <-> coef d <> 0%N /\ neg d = true).
Proof. exact dsqrt_none_iff. Qed.

Example C02_sqrt_nonvacuous :
  dsqrt (mkdec false 2 0) = Some (mkdec false 1414213562373095048801688724209698 (-33)) /\
  f_sqrt (mkdec false 16 0) = Some (mkdec false 4 0) /\
  f_sqrt (mkdec false 1 (-6176)) = Some (mkdec false 1 (-3088)) /\
  f_sqrt (mkdec false 9999999999999999999999999999999999 6111) = Some (mkdec false 3162277660168379331998893544432718 3039) /\
  dsqrt (mkdec true 0 (-3)) = Some (mkdec true 0 (-2)) /\
  dsqrt (mkdec true 1 0) = None.
Proof. exact sqrt_values. Qed.

(* + and * are exact when the exact result is representable at the operands' exponent *)
Theorem C02_add_exact : forall a b, Z.abs (scaled a (emin2 a b) + scaled b (emin2 a b)) < 10 ^ 34 -> ETINY <= emin2 a b <= ETOP ->
  exists r, dadd a b = Some r /\ expo r = emin2 a b /\ sval r = scaled a (emin2 a b) + scaled b (emin2 a b).
Proof. exact dadd_exact. Qed.
Theorem C02_mul_exact : forall a b, (coef a * coef b < 10 ^ PREC)%N -> ETINY <= expo a + expo b <= ETOP ->
  dmul a b = Some (mkdec (xorb (neg a) (neg b)) (coef a * coef b) (expo a + expo b)).
Proof. exact dmul_exact. Qed.

(* comparison is by value: equal numbers compare equal whatever their trailing zeros; equality is an equivalence, < is transitive, antisymmetric *)
Theorem C02_trailing_zeros_equal : forall s c e k, 0 <= k -> dcmp (mkdec s c e) (mkdec s (c * 10 ^ Z.to_N k)%N (e - k)) = Eq.
Proof. exact trailing_zeros_equal. Qed.
(* comparison answers "equal" exactly when the two values, read at ANY common exponent e, are the same integer (veq is the case e = emin2 a b) *)
Theorem C02_cmp_eq_iff_value : forall a b e, e <= expo a -> e <= expo b -> (dcmp a b = Eq <-> scaled a e = scaled b e).
Proof. exact dcmp_eq_iff_value_at. Qed.
Theorem C02_cmp_antisym : forall a b, dcmp b a = CompOpp (dcmp a b).
Proof. exact dcmp_antisym. Qed.
Theorem C02_value_eq_trans : forall a b c, veq a b -> veq b c -> veq a c.
Proof. exact veq_trans. Qed.
Theorem C02_cmp_lt_trans : forall a b c, dcmp a b = Lt -> dcmp b c = Lt -> dcmp a c = Lt.
Proof. exact dcmp_lt_trans. Qed.
(* reduce-after-operation does not change the value *)
Theorem C02_reduce_value : forall d, veq (dreduce d) d.
Proof. exact dreduce_value. Qed.

(* floor and ceiling are the integer floor and ceiling of the value *)
Theorem C02_floor_spec : forall d, expo d < 0 -> zfloor d * 10 ^ (- expo d) <= sval d < (zfloor d + 1) * 10 ^ (- expo d).
Proof. exact zfloor_spec. Qed.
Theorem C02_ceiling_spec : forall d, expo d < 0 -> (zceil d - 1) * 10 ^ (- expo d) < sval d <= zceil d * 10 ^ (- expo d).
Proof. exact zceil_spec. Qed.

(* modulo (Spec): the exact remainder a - b*floor(a/b), with the sign of the divisor *)
Theorem C02_mod_exact_remainder : forall a b, coef b <> 0%N ->
  let e := emin2 a b in let r := scaled a e - scaled b e * floor_div a b in
  r = (scaled a e) mod (scaled b e) /\ ((0 <= r < scaled b e) \/ (scaled b e < r <= 0)).
Proof. exact dmod_exact_remainder. Qed.

(* null exactly when the result is undefined or out of range (a result of the model is a finite datum by construction: the type dec has no
   Infinity and no NaN): division is null iff the divisor is zero or the exact quotient reaches the overflow threshold; modulo likewise with the
   exact remainder (which cannot reach it for operands in format); for sqrt see C02_sqrt_null_iff *)
Theorem C02_div_null_iff : forall a b,
  ddiv a b = None <-> coef b = 0%N \/ ((0 < coef b)%N /\ overflows (Quot (coef a) (coef b) (expo a - expo b))).
Proof. exact ddiv_none_iff. Qed.
Theorem C02_mod_null_iff : forall a b, let e := emin2 a b in let z := scaled a e - scaled b e * floor_div a b in
  dmod a b = None <-> coef b = 0%N \/ (coef b <> 0%N /\ overflows (Quot (Z.abs_N z) 1 e)).
Proof. exact dmod_none_iff. Qed.

(* the code's modulo (every step rounded) is not the Spec: known finding modulo-stepwise-rounding *)
Theorem C02_mod_steps_refuted : exists a b, mod_known a b = true /\ f_mod a b = Some (mkdec false 1 0) /\ f_mod_steps a b = Some (mkdec false 1 6).
Proof. exact mod_steps_refuted. Qed.

Example C02_nonvacuous :
  f_add (mkdec false 15 (-1)) (mkdec false 25 (-1)) = Some (mkdec false 4 0) /\
  f_div (mkdec false 2 0) (mkdec true 3 0) = Some (mkdec true 6666666666666666666666666666666667 (-34)) /\
  f_mul (mkdec false 1 6144) (mkdec false 10 0) = None /\
  f_mul (mkdec false 1 (-3100)) (mkdec false 15 (-3077)) = Some (mkdec false 2 (-6176)) /\
  f_cmp (mkdec false 10 (-1)) (mkdec false 100 (-2)) = Eq.
Proof. exact model_nontrivial. Qed.

(* ------------------------------------------------------------------ every result is a decimal128 datum, or null *)
(* HEADLINE.  For ALL operands in format (coefficient < 10^34, exponent -6176..6111) every operator and method of the model that produces a
   number gives either null (None) or a datum in format: + - * / modulo (the Spec and the stepwise ImplModel) negation abs floor ceiling
   truncation sqrt decimal(n, scale) and integer powers, including the reduce-after-operation step.  (The type dec has no Infinity / NaN.) *)
Theorem C02_results_in_format : forall a b, in_format a = true -> in_format b = true ->
  (forall r, f_add a b = Some r -> in_format r = true) /\
  (forall r, f_sub a b = Some r -> in_format r = true) /\
  (forall r, f_mul a b = Some r -> in_format r = true) /\
  (forall r, f_div a b = Some r -> in_format r = true) /\
  (forall r, f_mod a b = Some r -> in_format r = true) /\
  (forall r, f_mod_steps a b = Some r -> in_format r = true) /\
  (forall r, f_neg a = Some r -> in_format r = true) /\
  (forall r, f_abs a = Some r -> in_format r = true) /\
  (forall r, f_floor a = Some r -> in_format r = true) /\
  (forall r, f_ceiling a = Some r -> in_format r = true) /\
  (forall r, f_trunc a = Some r -> in_format r = true) /\
  (forall r, f_sqrt a = Some r -> in_format r = true) /\
  (forall scale r, f_decimal a scale = Some r -> in_format r = true) /\
  (forall n r, f_pow_nat a n = Some r -> in_format r = true).
Proof. exact results_in_format. Qed.

(* the operations that end with the rounding step need no hypothesis at all on the operands (any coefficient size, any exponent) *)
Theorem C02_rounded_results_in_format : forall a b,
  (forall r, f_add a b = Some r -> in_format r = true) /\
  (forall r, f_sub a b = Some r -> in_format r = true) /\
  (forall r, f_mul a b = Some r -> in_format r = true) /\
  (forall r, f_div a b = Some r -> in_format r = true) /\
  (forall r, f_mod a b = Some r -> in_format r = true) /\
  (forall r, f_mod_steps a b = Some r -> in_format r = true) /\
  (forall r, f_sqrt a = Some r -> in_format r = true) /\
  (forall n r, f_pow_nat a n = Some r -> in_format r = true).
Proof. exact rounded_results_in_format. Qed.

(* reduce-after-operation and decimal() keep a datum in format *)
Theorem C02_reduce_in_format : forall d, in_format d = true -> in_format (dreduce d) = true.
Proof. exact dreduce_in_format. Qed.
Theorem C02_decimal_in_format : forall d scale, in_format d = true -> -6111 <= scale < 6176 -> in_format (drescale d scale) = true.
Proof. exact drescale_in_format. Qed.

(* null is not a way out: the rounding step gives None EXACTLY when the exact value m * 10^e reaches the overflow threshold
   (10^34 - 1/2) * 10^6111 (written at the base exponent b = min e ETINY, doubled); below it there always is a result *)
Theorem C02_null_iff_overflow : forall s m e, let b := Z.min e ETINY in
  round34 s m e = None <-> (2 * 10 ^ 34 - 1) * 10 ^ (ETOP - b) <= 2 * Z.of_N m * 10 ^ (e - b).
Proof. exact round34_none_iff_overflow. Qed.
Theorem C02_defined_iff_in_range : forall s m e, let b := Z.min e ETINY in
  (exists r, round34 s m e = Some r) <-> 2 * Z.of_N m * 10 ^ (e - b) < (2 * 10 ^ 34 - 1) * 10 ^ (ETOP - b).
Proof. exact round34_defined_iff_in_range. Qed.
Theorem C02_mul_null_iff_overflow : forall a b, let e := expo a + expo b in let b0 := Z.min e ETINY in
  dmul a b = None <-> (2 * 10 ^ 34 - 1) * 10 ^ (ETOP - b0) <= 2 * Z.of_N (coef a * coef b) * 10 ^ (e - b0).
Proof. exact dmul_none_iff_overflow. Qed.
Theorem C02_add_null_iff_overflow : forall a b, let e := emin2 a b in let b0 := Z.min e ETINY in
  dadd a b = None <-> (2 * 10 ^ 34 - 1) * 10 ^ (ETOP - b0) <= 2 * Z.abs (scaled a e + scaled b e) * 10 ^ (e - b0).
Proof. exact dadd_none_iff_overflow. Qed.

Example C02_overflow_nonvacuous :
  round34 false 9999999999999999999999999999999999 6111 = Some (mkdec false 9999999999999999999999999999999999 6111) /\
  round34 false 99999999999999999999999999999999994 6110 = Some (mkdec false 9999999999999999999999999999999999 6111) /\
  round34 false 99999999999999999999999999999999995 6110 = None /\
  round34 false 1 6144 = Some (mkdec false 1000000000000000000000000000000000 6111) /\
  round34 false 1 6145 = None /\
  dmul (mkdec false 1 6144) (mkdec false 10 0) = None /\
  dadd (mkdec false 9999999999999999999999999999999999 6111) (mkdec false 5 6110) = None /\
  dadd (mkdec false 9999999999999999999999999999999999 6111) (mkdec false 4 6110) = Some (mkdec false 9999999999999999999999999999999999 6111).
Proof. exact overflow_examples. Qed.

Example C02_format_nonvacuous :
  f_floor (mkdec true 5 (-1)) = Some (mkdec true 1 0) /\
  f_ceiling (mkdec true 5 (-1)) = Some (mkdec false 0 0) /\
  f_decimal (mkdec false 9999999999999999999999999999999999 0) (-1) = Some (mkdec false 1000000000000000000000000000000000 1) /\
  f_decimal (mkdec false 1 20) 20 = Some (mkdec false 1 20) /\
  f_decimal (mkdec false 1 0) 6176 = None /\
  f_mul (mkdec false 1000000000000000000000000000000000 6111) (mkdec false 1 0) = Some (mkdec false 1000000000000000000000000000000000 6111) /\
  f_neg (mkdec true 0 (-6176)) = Some (mkdec false 0 (-6176)) /\
  f_neg (mkdec false 9999999999999999999999999999999999 6111) = Some (mkdec true 9999999999999999999999999999999999 6111) /\
  f_div (mkdec false 1 (-6176)) (mkdec false 2 0) = Some (mkdec false 0 0) /\
  f_pow_nat (mkdec false 1 3072) 2 = Some (mkdec false 1000000000000000000000000000000000 6111) /\
  f_pow_nat (mkdec false 10 3072) 2 = None /\
  f_pow_nat (mkdec true 3 0) 72 = Some (mkdec false 2252839954493917441184014787477264 1) /\
  in_format (mkdec false 9999999999999999999999999999999999 6111) = true /\
  in_format (mkdec true 0 (-6176)) = true /\
  in_format (mkdec false 10000000000000000000000000000000000 0) = false /\
  in_format (mkdec false 1 6112) = false.
Proof. exact format_examples. Qed.

(* computed quotients: 1/3, 2/3, -2/3, two exact ties (35-digit quotients ending in 5: one goes up to the even neighbour, one down), an exact
   quotient, overflow -> null, a tie on the subnormal grid going to zero and one going up, gradual underflow of 1E-6143 / 3, a zero dividend
   (an exact zero with the sign of the quotient), a zero divisor *)
Example C02_div_nonvacuous :
  ddiv (mkdec false 1 0) (mkdec false 3 0) = Some (mkdec false 3333333333333333333333333333333333 (-34)) /\
  ddiv (mkdec false 2 0) (mkdec false 3 0) = Some (mkdec false 6666666666666666666666666666666667 (-34)) /\
  ddiv (mkdec true 2 0) (mkdec false 3 0) = Some (mkdec true 6666666666666666666666666666666667 (-34)) /\
  ddiv (mkdec false 9999999999999999999999999999999999 0) (mkdec false 2 0) = Some (mkdec false 5000000000000000000000000000000000 0) /\
  ddiv (mkdec false 9999999999999999999999999999999997 0) (mkdec false 2 0) = Some (mkdec false 4999999999999999999999999999999998 0) /\
  f_div (mkdec false 1 0) (mkdec false 8 0) = Some (mkdec false 125 (-3)) /\
  ddiv (mkdec false 1 6111) (mkdec false 1 (-100)) = None /\
  ddiv (mkdec false 1 (-6176)) (mkdec false 2 0) = Some (mkdec false 0 (-6176)) /\
  ddiv (mkdec false 3 (-6176)) (mkdec false 2 0) = Some (mkdec false 2 (-6176)) /\
  ddiv (mkdec false 1 (-6143)) (mkdec false 3 0) = Some (mkdec false 333333333333333333333333333333333 (-6176)) /\
  ddiv (mkdec true 0 5) (mkdec false 3 0) = Some (mkdec true 0 5) /\
  ddiv (mkdec false 1 0) (mkdec false 0 0) = None.
Proof. exact div_values. Qed.

Print Assumptions C02_correctly_rounded_unique.
Print Assumptions C02_rounds_to_unique.
Print Assumptions C02_quantum_unique.
Print Assumptions C02_nearest_even_unique.
Print Assumptions C02_round34_correctly_rounded.
Print Assumptions C02_round34_nearest_even.
Print Assumptions C02_round_half_even.
Print Assumptions C02_round_exact.
Print Assumptions C02_round34_in_format.
Print Assumptions C02_mul_correctly_rounded.
Print Assumptions C02_pow_nat_correctly_rounded.
Print Assumptions C02_add_correctly_rounded.
Print Assumptions C02_sub_correctly_rounded.
Print Assumptions C02_mod_correctly_rounded.
Print Assumptions C02_div_correctly_rounded.
Print Assumptions C02_div_quotient_digits.
Print Assumptions C02_sqrt_correctly_rounded.
Print Assumptions C02_sqrt_root_digits.
Print Assumptions C02_reduce_correctly_rounded.
Print Assumptions C02_audit_counterexample.
Print Assumptions C02_correctly_rounded_nonvacuous.
Print Assumptions C02_sqrt_defined.
Print Assumptions C02_sqrt_null_iff.
Print Assumptions C02_sqrt_nonvacuous.
Print Assumptions C02_add_exact.
Print Assumptions C02_mul_exact.
Print Assumptions C02_trailing_zeros_equal.
Print Assumptions C02_cmp_eq_iff_value.
Print Assumptions C02_cmp_antisym.
Print Assumptions C02_value_eq_trans.
Print Assumptions C02_cmp_lt_trans.
Print Assumptions C02_reduce_value.
Print Assumptions C02_floor_spec.
Print Assumptions C02_ceiling_spec.
Print Assumptions C02_mod_exact_remainder.
Print Assumptions C02_div_null_iff.
Print Assumptions C02_mod_null_iff.
Print Assumptions C02_mod_steps_refuted.
Print Assumptions C02_nonvacuous.
Print Assumptions C02_results_in_format.
Print Assumptions C02_rounded_results_in_format.
Print Assumptions C02_reduce_in_format.
Print Assumptions C02_decimal_in_format.
Print Assumptions C02_null_iff_overflow.
Print Assumptions C02_defined_iff_in_range.
Print Assumptions C02_mul_null_iff_overflow.
Print Assumptions C02_add_null_iff_overflow.
Print Assumptions C02_overflow_nonvacuous.
Print Assumptions C02_format_nonvacuous.
Print Assumptions C02_div_nonvacuous.
