(* C06 -- node kinds, abstract actions and declared stack effects of the grammar symbols: the definitions behind the stack-safety
   theorem of coq/C06/ActionsProofs.v (kept apart so that `bad_rules` can still be evaluated when the theorem breaks).
   Owner: ext-actions.  No proofs here. *)
From Coq Require Import List NArith ZArith Bool Arith String FMapPositive.
From DV Require Import Gen.LalrTables C06.Lr C06.Actions.
Import ListNotations.

(* ------------------------------------------------------------------ node kinds: what the actions test with `if let` *)
Inductive kind :=
| KOther | KCommaList | KContext | KContextType | KExpressionList | KParamTypes | KIterationContexts
| KNamedParams | KPositionalParams | KQuantifiedContexts | KFormalParams | KQualifiedName.

Definition kind_of (n : ast) : kind :=
  match n with
  | ACommaList _ => KCommaList | AContext _ => KContext | AContextType _ => KContextType | AExpressionList _ => KExpressionList
  | AParamTypes _ => KParamTypes | AIterationContexts _ => KIterationContexts | ANamedParams _ => KNamedParams
  | APositionalParams _ => KPositionalParams | AQuantifiedContexts _ => KQuantifiedContexts | AFormalParams _ => KFormalParams
  | AQualifiedName _ => KQualifiedName
  | _ => KOther
  end.

Definition kind_n (k : kind) : nat :=
  match k with
  | KOther => 0 | KCommaList => 1 | KContext => 2 | KContextType => 3 | KExpressionList => 4 | KParamTypes => 5
  | KIterationContexts => 6 | KNamedParams => 7 | KPositionalParams => 8 | KQuantifiedContexts => 9 | KFormalParams => 10
  | KQualifiedName => 11
  end.
Definition kind_eqb (a b : kind) : bool := Nat.eqb (kind_n a) (kind_n b).

Fixpoint kinds_eqb (a b : list kind) : bool :=
  match a, b with
  | [], [] => true
  | x :: a', y :: b' => kind_eqb x y && kinds_eqb a' b'
  | _, _ => false
  end.

(* ------------------------------------------------------------------ abstract token values: what the actions test on the value stack *)
Inductive aval := AVName | AVNameDateTime | AVBuiltIn | AVNumeric | AVString | AVBoolean | AVNull | AVAny.

Definition vmatch (a : aval) (v : tval) : Prop :=
  match a with
  | AVName => exists n, v = VName n
  | AVNameDateTime => exists n, v = VNameDateTime n
  | AVBuiltIn => exists n, v = VBuiltInTypeName n
  | AVNumeric => exists b c, v = VNumeric b c
  | AVString => exists s, v = VString s
  | AVBoolean => exists b, v = VBoolean b
  | AVNull => v = VTok tok_Null
  | AVAny => True
  end.

Definition aval_n (a : aval) : nat :=
  match a with AVName => 0 | AVNameDateTime => 1 | AVBuiltIn => 2 | AVNumeric => 3 | AVString => 4 | AVBoolean => 5 | AVNull => 6 | AVAny => 7 end.
Definition aval_eqb (a b : aval) : bool := Nat.eqb (aval_n a) (aval_n b).

Definition aidx (avs : list aval) (k : nat) : option aval := match k with O => None | S j => nth_error avs j end.

(* ------------------------------------------------------------------ the actions on kinds; None = the action would fail, index out of
   bounds, drop a node, or test something the known part of the stacks does not determine *)
Definition apop1 (k : kind) (ks : list kind) : option (list kind) := match ks with _ :: st => Some (k :: st) | [] => None end.
Definition apop2 (k : kind) (ks : list kind) : option (list kind) := match ks with _ :: _ :: st => Some (k :: st) | _ => None end.
Definition apop3 (k : kind) (ks : list kind) : option (list kind) := match ks with _ :: _ :: _ :: st => Some (k :: st) | _ => None end.

Definition atail (kc : kind) (ks : list kind) : option (list kind) :=
  match ks with
  | [] => None
  | k1 :: st => if kind_eqb k1 kc then match st with _ :: st' => Some (kc :: st') | [] => None end else Some (kc :: st)
  end.

Definition apop_if (kc kout : kind) (ks : list kind) : option (list kind) :=
  match ks with k1 :: st => if kind_eqb k1 kc then Some (kout :: st) else None | [] => None end.

Definition ahas (av : option aval) (want : aval) : bool := match av with Some a => aval_eqb a want | None => false end.

Definition apush_if (av : option aval) (want : aval) (k : kind) (ks : list kind) : option (list kind) :=
  if ahas av want then Some (k :: ks) else None.

Definition aapply (a : act) (len : nat) (avs : list aval) (ks : list kind) : option (list kind) :=
  match a with
  | Act_addition | Act_comparison_eq | Act_comparison_ge | Act_comparison_gt | Act_comparison_in | Act_comparison_le
  | Act_comparison_lt | Act_comparison_nq | Act_conjunction | Act_context_entry | Act_disjunction | Act_division | Act_every
  | Act_exponentiation | Act_filter | Act_for | Act_function_definition | Act_function_invocation | Act_function_type
  | Act_instance_of | Act_interval | Act_iteration_context_value_single | Act_multiplication | Act_quantified_expression
  | Act_some | Act_subtraction => apop2 KOther ks
  | Act_between | Act_if | Act_iteration_context_value_range => apop3 KOther ks
  | Act_between_begin | Act_context_begin | Act_context_end | Act_every_begin | Act_for_begin | Act_formal_parameters_begin
  | Act_iteration_context_variable_name_begin | Act_quantified_expression_variable_name_begin | Act_some_begin | Act_type_name
  | Act_unary_tests_begin => Some ks
  | Act_comparison_unary_ge | Act_comparison_unary_gt | Act_comparison_unary_le | Act_comparison_unary_lt
  | Act_function_body | Act_function_body_external | Act_function_invocation_no_parameters | Act_list_type | Act_negation
  | Act_range_type => apop1 KOther ks
  | Act_built_in_type_name => apush_if (aidx avs 1) AVBuiltIn KOther ks
  | Act_context_entry_tail => atail KContext ks
  | Act_context_type_entry | Act_formal_parameter_with_type =>
    match ks with _ :: st => if ahas (aidx avs len) AVName then Some (KOther :: st) else None | [] => None end
  | Act_context_type_entry_tail => atail KContextType ks
  | Act_empty_context => Some (KContext :: ks)
  | Act_expression_list_tail => atail KExpressionList ks
  | Act_formal_parameter_without_type => apush_if (aidx avs len) AVName KOther ks
  | Act_formal_parameters_empty => Some (KFormalParams :: ks)
  | Act_formal_parameters_first => apop1 KFormalParams ks
  | Act_formal_parameters_tail => match ks with _ :: st => apop_if KFormalParams KFormalParams st | [] => None end
  | Act_function_type_parameters_empty => Some (KParamTypes :: ks)
  | Act_function_type_parameters_tail => atail KParamTypes ks
  | Act_interval_end => match aidx avs 1 with Some _ => apop1 KOther ks | None => None end
  | Act_interval_start => match aidx avs len with Some _ => apop1 KOther ks | None => None end
  | Act_iteration_context_variable_name | Act_quantified_expression_variable_name | Act_key_name | Act_name =>
    apush_if (aidx avs 1) AVName KOther ks
  | Act_iteration_contexts_tail => atail KIterationContexts ks
  | Act_key_string | Act_literal_at | Act_literal_string => apush_if (aidx avs 1) AVString KOther ks
  | Act_list => apop_if KCommaList KOther ks
  | Act_list_empty => Some (KCommaList :: ks)
  | Act_list_tail => atail KCommaList ks
  | Act_literal_boolean => apush_if (aidx avs 1) AVBoolean KOther ks
  | Act_literal_date_time => apush_if (aidx avs 2) AVNameDateTime KOther ks
  | Act_literal_null => apush_if (aidx avs 1) AVNull KOther ks
  | Act_literal_numeric => apush_if (aidx avs 1) AVNumeric KOther ks
  | Act_named_parameter => if ahas (aidx avs 3) AVName then apop1 KOther ks else None
  | Act_named_parameters_tail => atail KNamedParams ks
  | Act_path => match ks with _ :: st => if ahas (aidx avs 1) AVName then Some (KOther :: st) else None | [] => None end
  | Act_path_names => if ahas (aidx avs 3) AVName && ahas (aidx avs 1) AVName then Some (KOther :: ks) else None
  | Act_positional_parameters_tail => atail KPositionalParams ks
  | Act_qualified_name => apush_if (aidx avs 1) AVName KQualifiedName ks
  | Act_qualified_name_tail => if ahas (aidx avs 3) AVName then apop_if KQualifiedName KQualifiedName ks else None
  | Act_quantified_expressions_tail => atail KQuantifiedContexts ks
  | Act_unary_tests_irrelevant => Some (KOther :: ks)
  | Act_unary_tests_negated => apop_if KExpressionList KOther ks
  end.

(* ------------------------------------------------------------------ typing of the concrete stacks (top first) *)
Definition ntyped (ks : list kind) (ns : list ast) : Prop := map kind_of (firstn (List.length ks) ns) = ks.
Definition vtyped (avs : list aval) (vs : list tval) : Prop := Forall2 vmatch avs (firstn (List.length avs) vs).

(* the action succeeds, leaves a stack whose known part has the kinds ks', and does not touch what lies below the known part *)
Definition sound_step (ks : list kind) (ns : list ast) (r : ares) (ks' : list kind) : Prop :=
  exists ns', r = ROk ns' /\ ntyped ks' ns' /\ skipn (List.length ks') ns' = skipn (List.length ks) ns.

(* ------------------------------------------------------------------ the `if let AstNode::K(..)` tests against kinds *)
Definition is_spec (is_k : ast -> option (list ast)) (kc : kind) : Prop :=
  forall n, if kind_eqb (kind_of n) kc then exists l, is_k n = Some l else is_k n = None.

(* ------------------------------------------------------------------ declared effects of the grammar symbols on the node stack
   (P, Q): the symbol consumes nodes of the kinds P from below (top first) and leaves nodes of the kinds Q (top first).
   A symbol not listed (every terminal, every mid-rule action that only talks to the lexer) has the one effect ([], []).
   All effects of one symbol consume the same number of nodes. *)
Definition eff : Type := (list kind * list kind)%type.
Definition O1 : list eff := [([], [KOther])].
Definition E2 : list eff := [([], [KOther]); ([], [KContext])].               (* an expression: a Context or anything else *)
Definition opt (k : kind) : list eff := [([], []); ([], [k])].                (* `*_tail`: nothing after the last item, else the collection *)

Definition sigs : list (string * list eff) := [
  ("$accept", [([], [KOther]); ([], [KContext]); ([], [KExpressionList])]);
  ("feel", [([], [KOther]); ([], [KContext]); ([], [KExpressionList])]);
  ("expression", E2); ("boxed_expression", E2); ("textual_expression", E2);
  ("textual_expressions", [([], [KExpressionList])]);
  ("unary_tests", [([], [KOther]); ([], [KExpressionList])]);
  ("positive_unary_tests", [([], [KExpressionList])]);
  ("comparison_in", [([], [KExpressionList])]);
  ("simple_positive_unary_test", O1); ("interval", O1); ("interval_start", O1); ("interval_end", O1);
  ("endpoint", [([], [KOther]); ([], [KQualifiedName])]);
  ("simple_value", [([], [KOther]); ([], [KQualifiedName])]);
  ("literal", O1); ("simple_literal", O1);
  ("$@7", O1);                                                                (* literal_date_time: the name of the function *)
  ("context", [([], [KContext])]); ("context_entries", [([], [KContext])]); ("context_entry", O1);
  ("context_entry_tail", opt KContext); ("key", O1);
  ("list", O1); ("list_items", [([], [KCommaList])]); ("list_tail", opt KCommaList);
  ("parameters", [([KOther], [KOther]); ([KContext], [KOther])]);             (* consumes the invoked expression *)
  ("named_parameters", [([], [KNamedParams])]); ("named_parameter", O1); ("named_parameters_tail", opt KNamedParams);
  ("positional_parameters", [([], [KPositionalParams])]); ("positional_parameters_tail", opt KPositionalParams);
  ("qualified_name", [([], [KQualifiedName])]);
  ("type", [([], [KOther]); ([], [KQualifiedName]); ([], [KContextType])]);
  ("context_type_entries", [([], [KContextType])]); ("context_type_entry", O1); ("context_type_entry_tail", opt KContextType);
  ("function_type_parameters", [([], [KParamTypes])]); ("function_type_parameters_tail", opt KParamTypes);
  ("iteration_contexts", [([], [KIterationContexts])]); ("iteration_context", O1);
  ("$@16", O1);                                                               (* iteration_context_variable_name *)
  ("iteration_context_value", [([KOther], [KOther])]);                        (* consumes the variable name *)
  ("quantified_expressions", [([], [KQuantifiedContexts])]); ("quantified_expression", O1);
  ("$@18", O1);                                                               (* quantified_expression_variable_name *)
  ("function_definition", O1);
  ("formal_parameters", [([], [KFormalParams])]);
  ("$@20", [([KOther], [KFormalParams])]);                                    (* formal_parameters_first *)
  ("formal_parameters_tail", [([KFormalParams], [KFormalParams])]);
  ("$@21", [([KOther; KFormalParams], [KFormalParams])]);                     (* formal_parameters_tail: appends to the collection below *)
  ("formal_parameter", O1); ("external", O1)]%string.

Definition sig_of (s : string) : list eff :=
  match find (fun p => String.eqb (fst p) s) sigs with Some (_, l) => l | None => [([], [])] end.

Definition preconds (s : string) : list (list kind) := map fst (sig_of s).

(* the values the lexer attaches to the terminals (a nonterminal leaves YyState) *)
Definition aval_of (s : string) : aval :=
  if String.eqb s "NAME"%string then AVName else
  if String.eqb s "NAME_DATE_TIME"%string then AVNameDateTime else
  if String.eqb s "BUILT_IN_TYPE_NAME"%string then AVBuiltIn else
  if String.eqb s "NUMERIC"%string then AVNumeric else
  if String.eqb s "STRING"%string then AVString else
  if String.eqb s "BOOLEAN"%string then AVBoolean else
  if String.eqb s "NULL"%string then AVNull else AVAny.

(* the symbols in front of a mid-rule action `$@k` in the one rule it occurs in: they lie on the stacks when `$@k` is reduced *)
Fixpoint before (x : string) (rhs : list string) : option (list string) :=
  match rhs with
  | [] => None
  | y :: r => if String.eqb x y then Some [] else match before x r with Some p => Some (y :: p) | None => None end
  end.

Definition ctx_of (lhs : string) : list string :=
  match flat_map (fun r => match before lhs (snd (snd r)) with Some p => [p] | None => [] end) grammar_rules with
  | [p] => p
  | _ => []
  end.

Definition avals (lhs : string) (rhs : list string) : list aval := map aval_of (rev (ctx_of lhs ++ rhs)).

Fixpoint prefix_eqb (p st : list kind) : bool :=
  match p, st with
  | [], _ => true
  | x :: p', y :: st' => kind_eqb x y && prefix_eqb p' st'
  | _ :: _, [] => false
  end.

(* the known parts of the node stack after one more symbol: every effect of the symbol whose P lies on top applies;
   None when no effect applies (what the symbol needs is not guaranteed to be there) *)
Definition step_sym (sts : list (list kind)) (s : string) : option (list (list kind)) :=
  fold_right (fun st acc =>
    match acc with
    | None => None
    | Some out =>
      match filter (fun e => prefix_eqb (fst e) st) (sig_of s) with
      | [] => None
      | alts => Some (map (fun e => snd e ++ skipn (List.length (fst e)) st) alts ++ out)
      end
    end) (Some []) sts.

Definition stacks_after (rhs : list string) (sts : list (list kind)) : option (list (list kind)) :=
  fold_left (fun acc s => match acc with Some x => step_sym x s | None => None end) rhs (Some sts).

Definition aact (r : Z) (len : nat) (avs : list aval) (ks : list kind) : option (list kind) :=
  match ract_at r with
  | RNoAction => Some ks
  | RAct a => aapply a len avs ks
  | RUnknown => None
  end.

Definition eff_in (p q : list kind) (l : list eff) : bool := existsb (fun e => kinds_eqb (fst e) p && kinds_eqb (snd e) q) l.

(* rule r = lhs: rhs is well typed: from every P the left-hand side may consume, through every combination of effects of the
   right-hand side symbols, the action succeeds on kinds and leaves a Q with (P, Q) a declared effect of the left-hand side *)
Definition rule_ok (rule : Z * (string * list string)) : bool :=
  let '(r, (lhs, rhs)) := rule in
  let avs := avals lhs rhs in
  forallb (fun p0 =>
    match stacks_after rhs [p0] with
    | None => false
    | Some sts =>
      forallb (fun st => match aact r (List.length rhs) avs st with Some q => eff_in p0 q (sig_of lhs) | None => false end) sts
    end) (preconds lhs).

(* the grammar read from feel.y fits the tables: rules numbered 1..n with n + 1 = |YY_R2|, right-hand side lengths = YY_R2,
   and two rules have the same left-hand side name exactly when YY_R1 gives them the same symbol number *)
Definition grammar_fits : bool :=
  forallb (fun p => (fst (fst p) =? Z.of_nat (snd p))%Z) (combine grammar_rules (seq 1 (List.length grammar_rules)))
  && Nat.eqb (S (List.length grammar_rules)) (List.length yy_r2)
  && forallb (fun r => Z.of_nat (List.length (snd (snd r))) =? zn t_r2 (fst r))%Z grammar_rules
  && forallb (fun r1 => forallb (fun r2 =>
       Bool.eqb (String.eqb (fst (snd r1)) (fst (snd r2))) (zn t_r1 (fst r1) =? zn t_r1 (fst r2))%Z) grammar_rules) grammar_rules.

(* the reduce arms of lalr.rs run, for every rule, the action feel.y names in that rule (same rules, same names, same order) *)
Fixpoint arms_eqb (a b : list (Z * string)) : bool :=
  match a, b with
  | [], [] => true
  | (r1, n1) :: a', (r2, n2) :: b' => (r1 =? r2)%Z && String.eqb n1 n2 && arms_eqb a' b'
  | _, _ => false
  end.
Definition arms_fit : bool := arms_eqb rule_actions grammar_actions.

Definition sigs_uniform : bool :=
  forallb (fun s => match snd s with [] => false | e :: l => forallb (fun e' => Nat.eqb (List.length (fst e')) (List.length (fst e))) l end) sigs.

Definition all_rules_ok : bool := grammar_fits && arms_fit && sigs_uniform && forallb rule_ok grammar_rules.

(* the rules that do not type (for the check's report when the theorem below breaks) *)
Definition bad_rules : list Z := map fst (filter (fun r => negb (rule_ok r)) grammar_rules).

(* what `reduce` in lalr.rs runs for a rule *)
Definition run_action (r : Z) (len : nat) (vs : list tval) (ns : list ast) : ares :=
  match ract_at r with RNoAction => ROk ns | RAct a => apply_act a len vs ns | RUnknown => RPanic end.
