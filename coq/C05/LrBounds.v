(* C05 — every table index the LALR driver (feel-parser/src/parser.rs, Parser::parse) computes is inside its table, for all
   states x all lexer tokens and all rules x all states, on the tables regenerated from feel-parser/src/lalr.rs.
   Finite sweep by vm_compute, lifted to a quantified statement; the bound is the size of the tables themselves.
   Not covered: that the state stack is deeper than the right-hand side being reduced (an LR invariant of the automaton,
   sampled by the totality run) and termination of the loop.  (owner: builder-total) *)
From Coq Require Import ZArith List Bool Lia.
From DV Require Import Gen.LalrTables Gen.LalrTokens.
Import ListNotations.
Open Scope Z_scope.

Definition zlen (l : list Z) : Z := Z.of_nat (length l).
Definition zn (l : list Z) (i : Z) : Z := nth (Z.to_nat i) l 0.
Definition idx_ok (l : list Z) (i : Z) : bool := (0 <=? i) && (i <? zlen l).
Definition in_i16 (z : Z) : bool := (-32768 <=? z) && (z <=? 32767).

Definition nstates : Z := zlen yy_pact.
Definition nrules : Z := zlen yy_r1.
Definition state_ok (s : Z) : bool := (0 <=? s) && (s <? nstates) && idx_ok yy_pact s && idx_ok yy_def_act s.

(* Reduce with rule r: YY_R2[r], YY_R1[r] - YY_N_TOKENS (usize subtraction), YY_P_GOTO[lhs], YY_DEF_GOTO[lhs] as the new state *)
Definition rule_ok (r : Z) : bool :=
  idx_ok yy_r2 r && idx_ok yy_r1 r && (0 <=? zn yy_r2 r) && (yy_n_tokens <=? zn yy_r1 r) &&
  (let lhs := zn yy_r1 r - yy_n_tokens in idx_ok yy_p_goto lhs && idx_ok yy_def_goto lhs && state_ok (zn yy_def_goto lhs)).

(* yy_char -> yy_token *)
Definition token_ok (c : Z) : bool := (c <=? tok_YyEof) || (c =? tok_YyError) || idx_ok yy_translate c.
Definition token_code (c : Z) : Z := if c <=? tok_YyEof then 0 else zn yy_translate c.

(* Action::NewState followed by Default / Shift / Reduce selection, in state st with lexer token c *)
Definition newstate_ok (st c : Z) : bool :=
  state_ok st &&
  (let r := zn yy_def_act st in (r =? 0) || rule_ok r) &&
  (let n0 := zn yy_pact st in
   if n0 =? yy_pact_n_inf then true else
   token_ok c &&
   (if (tok_YyEof <? c) && (c =? tok_YyError) then true else
    let code := token_code c in
    in_i16 code && in_i16 (n0 + code) &&
    (let n := n0 + code in
     if (n <? 0) || (yy_last <? n) then true else
     idx_ok yy_check n && idx_ok yy_table n &&
     (if negb (zn yy_check n =? code) then true else
      let a := zn yy_table n in
      if a <=? 0 then (a =? yy_table_n_inf) || (in_i16 (- a) && rule_ok (- a)) else state_ok a)))).

(* the goto after a reduction by rule r when `top` is the state uncovered on the stack *)
Definition goto_ok (r top : Z) : bool :=
  let lhs := zn yy_r1 r - yy_n_tokens in
  let i := zn yy_p_goto lhs + top in
  in_i16 top && in_i16 i &&
  (if (0 <=? i) && (i <=? yy_last) then idx_ok yy_check i && (if zn yy_check i =? top then idx_ok yy_table i && state_ok (zn yy_table i) else true) else true).

Definition zrange (n : Z) : list Z := map Z.of_nat (seq 0 (Z.to_nat n)).

Lemma forallb2 {A B} (f : A -> B -> bool) la lb : forallb (fun a => forallb (f a) lb) la = true -> forall a b, In a la -> In b lb -> f a b = true.
Proof. intros H a b Ha Hb. rewrite forallb_forall in H. specialize (H a Ha). cbv beta in H. rewrite forallb_forall in H. exact (H b Hb). Qed.

Definition rule_row (r : Z) (tops : list Z) : bool := (r =? 0) || (rule_ok r && forallb (goto_ok r) tops).

Lemma sweep_states_true : forallb (fun st => forallb (newstate_ok st) all_token_values) (zrange nstates) = true.
Proof. vm_compute. reflexivity. Qed.
Lemma sweep_rules_true : forallb (fun r => rule_row r (zrange nstates)) (zrange nrules) = true.
Proof. vm_compute. reflexivity. Qed.
Lemma sweep_sizes_true :
  (zlen yy_r1 =? zlen yy_r2) && (zlen yy_check =? zlen yy_table) && (yy_last + 1 =? zlen yy_table) && (zlen yy_pact =? zlen yy_def_act) && (zlen yy_p_goto =? zlen yy_def_goto) = true.
Proof. vm_compute. reflexivity. Qed.
Lemma state_ok_0 : state_ok 0 = true.
Proof. vm_compute. reflexivity. Qed.
Lemma state_ok_final : state_ok yy_final = true.
Proof. vm_compute. reflexivity. Qed.

Lemma in_zrange : forall n x, 0 <= x < n -> In x (zrange n).
Proof.
  intros n x H. unfold zrange. apply in_map_iff. exists (Z.to_nat x). split; [apply Z2Nat.id; lia|].
  apply in_seq. lia.
Qed.

Lemma lr_states_in_bounds : forall st c, 0 <= st < nstates -> In c all_token_values -> newstate_ok st c = true.
Proof.
  intros st c Hst Hc. pose proof (in_zrange _ _ Hst) as Hi.
  exact (forallb2 newstate_ok (zrange nstates) all_token_values sweep_states_true st c Hi Hc).
Qed.

Lemma lr_rules_in_bounds : forall r top, 1 <= r < nrules -> 0 <= top < nstates -> rule_ok r = true /\ goto_ok r top = true.
Proof.
  intros r top Hr Ht. pose proof sweep_rules_true as HB.
  destruct Hr as [Hr1 Hr2].
  assert (Hr0 : 0 <= r < nrules) by (split; [apply Z.le_trans with 1; [apply Z.le_0_1 | exact Hr1] | exact Hr2]).
  pose proof (in_zrange _ _ Hr0) as Hi. pose proof (in_zrange _ _ Ht) as Hj.
  pose proof (proj1 (forallb_forall (fun r => rule_row r (zrange nstates)) (zrange nrules)) HB r Hi) as E.
  cbv beta in E. unfold rule_row in E.
  apply orb_true_iff in E. destruct E as [E | E]; [apply Z.eqb_eq in E; subst r; exfalso; apply Hr1; reflexivity|].
  apply andb_true_iff in E. destruct E as [E1 E2]. split; [exact E1|].
  exact (proj1 (forallb_forall (goto_ok r) (zrange nstates)) E2 top Hj).
Qed.

Theorem lr_tables_in_bounds :
  (forall st c, 0 <= st < nstates -> In c all_token_values -> newstate_ok st c = true) /\
  (forall r top, 1 <= r < nrules -> 0 <= top < nstates -> rule_ok r = true /\ goto_ok r top = true) /\
  state_ok 0 = true /\ state_ok yy_final = true.
Proof. exact (conj lr_states_in_bounds (conj lr_rules_in_bounds (conj state_ok_0 state_ok_final))). Qed.

(* not vacuous: the tables have states, rules and tokens, and some (state, token) pair really shifts and some really reduces *)
Lemma lr_nonvacuous : 100 < nstates /\ 100 < nrules /\ (50 < length all_token_values)%nat /\
  existsb (fun st => existsb (fun c => let n := zn yy_pact st + token_code c in
      negb (zn yy_pact st =? yy_pact_n_inf) && (0 <=? n) && (n <=? yy_last) && (zn yy_check n =? token_code c) && (0 <? zn yy_table n)) all_token_values) (zrange nstates) = true /\
  existsb (fun st => existsb (fun c => let n := zn yy_pact st + token_code c in
      negb (zn yy_pact st =? yy_pact_n_inf) && (0 <=? n) && (n <=? yy_last) && (zn yy_check n =? token_code c) && (zn yy_table n <? 0) && negb (zn yy_table n =? yy_table_n_inf)) all_token_values) (zrange nstates) = true.
Proof. vm_compute. repeat split; try reflexivity. lia. Qed.
