"""C07 — numbers print as plain decimal text that denotes exactly their value.
Proof: coq/Props/C07.v (every sign, coefficient and exponent).  Correspondence: FeelNumber Display / jsonify / Debug /
from_str, FEEL literals and string(), xsd input conversion of the working tree vs coq/C07/Model.v; the laws of the
property (plain shape, JSON shape, exact value, read-back) are evaluated on the implementation's own output."""
import json
import re
from decimal import Decimal

from vlib import core

HEADER = ('From Coq Require Import ZArith NArith List Ascii String.\nFrom DV Require Import Base.Dec C07.Model.\n'
          'Import ListNotations.\nOpen Scope string_scope.\n')

PLAIN = re.compile(r'-?[0-9]+(\.[0-9]+)?\Z')
JSONNUM = re.compile(r'-?(0|[1-9][0-9]*)(\.[0-9]+)?([eE][+-]?[0-9]+)?\Z')


MODEL_TERM = '(show_rle (Some (to_sci %s)), show_rle (print %s))'


def unrle(t):
    """Some [(text, zeros); ...] -> text; None -> None"""
    if not getattr(t, 'args', None):
        return None
    return ''.join(x + '0' * z for x, z in t.args[0])


def dec_text(sign, coef, exp):
    return '%s%dE%+d' % ('-' if sign else '', coef, exp)


def dec_coq(sign, coef, exp):
    return '(mkdec %s %d%%N (%d)%%Z)' % ('true' if sign else 'false', coef, exp)


def exact(sign, coef, exp):
    return Decimal((1 if sign else 0, tuple(int(c) for c in str(coef)), exp))


def same_value(text, d):
    """exact comparison (Decimal comparisons do not round)"""
    try:
        return Decimal(text) == d
    except Exception:
        return False


def coefficients(ctx, n_random):
    r = ctx.rng
    cs = [0, 1, 7, 10, 15, 100, 1230, 9999999, 10 ** 16, 10 ** 17 - 1, 12345678901234567, 10 ** 32, 10 ** 33 - 1, 10 ** 33, 10 ** 34 - 1,
          1234567890123456789012345678901234, 1234567890123456789012345678900000, 5 * 10 ** 33]
    for _ in range(n_random):
        L = r.randint(1, 34)
        c = r.randint(10 ** (L - 1), 10 ** L - 1)
        if r.random() < 0.4:
            z = r.randint(1, L)
            c = c // 10 ** z * 10 ** z or 10 ** (L - 1)
        cs.append(c)
    return cs


def exponents(ctx):
    r = ctx.rng
    if ctx.quick:
        es = list(range(-6176, -6168)) + list(range(-48, 42)) + list(range(6104, 6112)) + [r.randint(-6176, 6111) for _ in range(40)]
    else:
        es = list(range(-6176, 6112))
    return es


def law_failure(p, j, rb, d):
    """The property's laws on the implementation's own output.  Returns (key, text) or None."""
    if not PLAIN.match(p):
        return 'plain', 'Display text %r is not of the form -?digits(.digits)?' % p[:80]
    if not same_value(p, d):
        return 'value', 'Display text %r does not denote the value %s' % (p[:80], d)
    if j != p and not (JSONNUM.match(j) and same_value(j, d)):
        return 'json', 'jsonify text %r is not a JSON number of the same value' % j[:80]
    if not JSONNUM.match(j):
        return 'json', 'jsonify text %r is not a valid JSON number' % j[:80]
    if rb is not True:
        return 'readback', 'reading the Display text %r back with from_str does not give an equal number' % p[:80]
    return None


def literal_cases(ctx):
    """FEEL numeric literals of up to 34 significant digits, with their exact value."""
    r = ctx.rng
    out = []
    fixed = [('0', ''), ('0', '0'), ('00012', '5000'), ('1', ''), ('', '5'), ('0', '00000015'), ('123456789012345678901234567890', '1234'),
             ('0', '0' * 40 + '1234567890123456789012345678901234'), ('9' * 34, ''), ('1' + '0' * 60, ''), ('0', '0' * 6142 + '1' * 34)]
    for _ in range(ctx.pick(300, 5000)):
        L = r.randint(1, 34)
        k = r.randint(0, L)
        digs = ''.join(r.choice('0123456789') for _ in range(L))
        ip, fp = digs[:k], digs[k:]
        if r.random() < 0.3:
            fp = '0' * r.randint(1, 30) + fp
            ip = ip.lstrip('0')
        if r.random() < 0.2:
            ip = ip + '0' * r.randint(1, 40) if ip.strip('0') else ip
            fp = fp.rstrip('0') if r.random() < 0.5 else ''
            if len((ip + fp).lstrip('0').rstrip('0')) > 34:
                continue
        fixed.append((ip, fp))
    for ip, fp in fixed:
        if ip == '' and fp == '':
            continue
        text = (ip + '.' + fp) if fp else ip
        if ip == '':
            text = '.' + fp
        sig = (ip + fp).lstrip('0')
        if len(sig.rstrip('0')) > 34 and len(sig) > 34:
            continue
        out.append(text)
    return out


def run(ctx):
    ctx.proof_gate()
    from props.c02 import refresh_c_kernel
    refresh_c_kernel()
    ctx.build_harness()
    r = ctx.rng
    # ---------------------------------------------------------------- 1. every (sign, coefficient, exponent) class through from_string
    cs = coefficients(ctx, ctx.pick(10, 12))
    es = exponents(ctx)
    cases = []
    for e in es:
        for c in (cs if -60 <= e <= 60 else r.sample(cs[:12], 3) + r.sample(cs[12:], ctx.pick(5, 3))):
            for s in ((False, True) if c % 3 != 1 or ctx.quick else (r.random() < 0.5,)):
                cases.append((s, c, e))
    corpus = [(True, 15, -8), (True, 1, -7), (False, 0, 3), (True, 0, 3), (True, 0, -2), (False, 1, 6111), (True, 10 ** 34 - 1, 6111), (True, 10 ** 34 - 1, -6176)]
    cases = corpus + cases
    reqs = []
    for s, c, e in cases:
        t = dec_text(s, c, e)
        reqs.append({'op': 'from_string', 'a': t})
        reqs.append({'op': 'sci', 'a': t})
    impl = ctx.run_impl('num', reqs)
    model = ctx.run_model(HEADER, [MODEL_TERM % (dec_coq(*k), dec_coq(*k)) for k in cases], shard_size=max(50, len(cases) // 16 + 1))
    hist = {}
    for i, k in enumerate(cases):
        s, c, e = k
        got, sci = impl[2 * i], impl[2 * i + 1]
        m_sci, m_print = model[i]
        m_sci, m_print = unrle(m_sci), unrle(m_print)
        ctx.evaluations += 1
        nd = len(str(c))
        branch = ('E+' if e > 0 else ('E-' if nd + e < -5 else ('int' if e == 0 else ('split' if nd + e > 0 else '0.'))))
        key = (s, nd if nd in (1, 2, 33, 34) else 17, c % 10 == 0, c == 0, branch)
        ctx.nontrivial.add(key)
        hist[branch] = hist.get(branch, 0) + 1
        case = {'operand': dec_text(s, c, e), 'sign': s, 'coefficient': str(c), 'exponent': e}
        if 'r' not in got or not isinstance(got['r'], dict):
            ctx.violation('FeelNumber::from_string/to_string crashed or returned no number: %s' % json.dumps(got)[:200], case, impl=got)
            continue
        g = got['r']
        d = exact(s, c, e)
        lf = law_failure(g['p'], g['j'], g['rb'], d)
        ctx.corr_checked += 1
        if lf:
            kind, text = lf
            ctx.violation(text, case, impl=g, model=m_print)
            continue
        if not same_value(g['n'], d):
            ctx.violation('Debug text %r does not denote the value %s' % (g['n'], d), case, impl=g)
            continue
        if sci.get('r') != m_sci:
            ctx.corr_broken('decQuadToString vs to_sci', case, sci.get('r'), m_sci)
        elif g['p'] != m_print or g['j'] != m_print:
            ctx.corr_broken('Display/jsonify vs print', case, [g['p'][:100], g['j'][:100]], (m_print or 'None')[:100])
        elif len(ctx.samples) < 4 and branch in ('E-', 'E+') and s and len(g['p']) < 60:
            ctx.sample({'operand': case['operand'], 'scientific': m_sci, 'printed': g['p']})
    # ---------------------------------------------------------------- 2. results of arithmetic print as plain text of their value
    ops = ['add', 'sub', 'mul', 'div', 'neg', 'abs', 'round', 'floor', 'ceiling', 'sqrt', 'rem']
    areqs = []
    for _ in range(ctx.pick(1500, 40000)):
        op = r.choice(ops)
        s1, c1, e1 = r.choice(cases)
        s2, c2, e2 = r.choice(cases)
        if r.random() < 0.7:
            e1 = r.randint(-40, 40)
            e2 = r.randint(-40, 40)
        b = dec_text(s2, c2, e2) if op != 'round' else str(r.randint(-40, 40))
        areqs.append({'op': op, 'a': dec_text(s1, c1, e1), 'b': b})
    aimpl = ctx.run_impl('num', areqs)
    for q, got in zip(areqs, aimpl):
        ctx.evaluations += 1
        g = got.get('r')
        if g is None and 'r' in got:
            continue   # None from sqrt of a negative number
        if not isinstance(g, dict):
            ctx.violation('arithmetic crashed: %s' % json.dumps(got)[:200], q, impl=got)
            continue
        if g['n'] in ('Infinity', '-Infinity', 'NaN', '-NaN', 'sNaN'):
            continue   # non-finite results are the subject of C02, not of printing
        d = Decimal(g['n'])
        lf = law_failure(g['p'], g['j'], g['rb'], d)
        ctx.corr_checked += 1
        hist['arith'] = hist.get('arith', 0) + 1
        if lf:
            ctx.violation('result of %s: %s' % (q['op'], lf[1]), q, impl=g)
    # ---------------------------------------------------------------- 3. literals in FEEL text, string(), typed input data
    lits = literal_cases(ctx)
    freqs = []
    for t in lits:
        freqs.append({'e': t})
        freqs.append({'e': 'string(-%s)' % t})
    fimpl = ctx.run_impl('feel', freqs)
    xreqs = [{'op': r.choice(['xsd_decimal', 'xsd_integer', 'xsd_double', 'parse']), 'a': ('-' if i % 2 else '') + t} for i, t in enumerate(lits)]
    ximpl = ctx.run_impl('num', xreqs)
    for i, t in enumerate(lits):
        ctx.evaluations += 1
        d = Decimal('0' + t)
        representable = d == 0 or (d.adjusted() <= 6144 and d.as_tuple().exponent >= -6176)
        if not representable:
            continue
        lit, st = fimpl[2 * i], fimpl[2 * i + 1]
        case = {'literal': t}
        v = lit.get('v')
        ctx.corr_checked += 1
        hist['literal'] = hist.get('literal', 0) + 1
        if not isinstance(v, dict) or 'n' not in v:
            ctx.violation('FEEL literal %s does not evaluate to a number: %s' % (t[:60], json.dumps(lit)[:100]), case, impl=lit)
            continue
        if not same_value(v['n'], d) or not same_value(v['p'], d) or not PLAIN.match(v['p']):
            ctx.violation('FEEL literal %s evaluates to %s / prints %s' % (t[:60], v['n'], v['p'][:60]), case, impl=v)
            continue
        sv = st.get('v')
        if not isinstance(sv, str) or not PLAIN.match(sv) or not same_value(sv, d.copy_negate()):
            ctx.violation('string(-%s) = %r is not the plain text of the value' % (t[:60], sv if not isinstance(sv, str) else sv[:80]), {'expression': 'string(-%s)' % t}, impl=st)
            continue
        x = ximpl[i]
        xd = d.copy_negate() if i % 2 else d
        g = x.get('r')
        if not isinstance(g, dict):
            ctx.violation('%s("%s") is not accepted: %s' % (xreqs[i]['op'], xreqs[i]['a'][:60], json.dumps(x)[:100]), xreqs[i], impl=x)
            continue
        if not same_value(g['n'], xd) or law_failure(g['p'], g['j'], g['rb'], xd):
            ctx.violation('%s("%s") gives %s, printed %s' % (xreqs[i]['op'], xreqs[i]['a'][:60], g['n'], g['p'][:60]), xreqs[i], impl=g)
    return ctx.finish(
        rule='finite decimal128 data (sign x coefficient shapes of 1..34 digits with and without trailing zeros, zero x exponents: %s) built with '
             'FeelNumber::from_string; Display, jsonify, Debug, decQuadToString text and from_str read-back compared with the model and checked '
             'against the exact value; plus results of random arithmetic, FEEL literals of up to 34 significant digits (also under string(-x)) and '
             'xsd input conversion.  non-trivial = distinct (sign, length class, trailing zero, zero, notation branch)' % (
                 'boundary bands and random' if ctx.quick else 'every exponent -6176..6111'),
        extra_cov={'exhaustive': False, 'branch_histogram': hist, 'grid_cases': len(cases)},
        assumptions=['decQuadFromString builds exactly the datum written in the operand text (checked through the independent Debug text and read-back)',
                     'exactness is judged with CPython decimal comparisons (exact, context-free)'],
        trusted=['decNumber C library (decQuadToString / decQuadFromString): modelled by to_sci, sampled']
    )


def replay(ctx, path):
    obj = json.load(open(path))
    case = obj['case']
    ctx.build_harness()
    if 'operand' in case:
        got = ctx.run_impl('num', [{'op': 'from_string', 'a': case['operand']}, {'op': 'sci', 'a': case['operand']}])
        k = (case['sign'], int(case['coefficient']), case['exponent'])
        m = ctx.run_model(HEADER, [MODEL_TERM % (dec_coq(*k), dec_coq(*k))])[0]
        m = (unrle(m[0]), unrle(m[1]))
        print('operand        :', case['operand'])
        print('implementation :', json.dumps(got)[:400])
        print('model          :', str(m)[:400])
        g = got[0].get('r')
        fail = (not isinstance(g, dict)) or law_failure(g['p'], g['j'], g['rb'], exact(*k)) or g['p'] != m[1]
    elif 'op' in case:
        got = ctx.run_impl('num', [case])[0]
        print('request        :', json.dumps(case))
        print('implementation :', json.dumps(got)[:400])
        g = got.get('r')
        fail = not isinstance(g, dict) or (g['n'] not in ('Infinity', '-Infinity', 'NaN') and law_failure(g['p'], g['j'], g['rb'], Decimal(g['n'])))
    else:
        e = case.get('expression') or case['literal']
        got = ctx.run_impl('feel', [{'e': e}])[0]
        print('expression     :', e[:200])
        print('implementation :', json.dumps(got)[:400])
        v = got.get('v')
        if 'literal' in case:
            d = Decimal('0' + case['literal'])
            fail = not isinstance(v, dict) or not same_value(v.get('n'), d) or not same_value(v.get('p'), d)
        else:
            fail = not isinstance(v, str) or not PLAIN.match(v)
    print('REPRODUCED' if fail else 'not reproduced')
    return 1 if fail else 0


MANIFEST = dict(
    technique='Coq proof (case analysis over the notation branches, for every sign, coefficient and exponent) with model/code correspondence',
    text='Theorems (coq/Props/C07.v, closed under the global context) hold for every sign, every coefficient and every exponent: the printed text is '
         'produced without trap, is a JSON number without exponent, and denotes exactly the value; literal exactness; the behaviour of the original '
         'function is refuted on two classes. The model (decQuadToString as to-scientific-string + a transliteration of scientific_to_plain) is tied '
         'to the code by comparing Display, jsonify and the raw scientific text on a grid of signs, coefficient shapes and exponents, and the laws '
         'are evaluated on the implementation output for grid values, arithmetic results, FEEL literals and xsd input.',
    note='Trusted: Coq kernel + vm_compute, hand-written model (correspondence-checked), decNumber string conversion (sampled, not verified), CPython decimal for exact comparison, harness.')
