(* C06 — from TEXT to TREE: the lexer model, the reading of its tokens as tokens of the Spec parser and the Spec parser, composed
   with the round-trip theorems of C06.Fuel / C06.Proofs.  Owner: ext-lexer. *)
From Coq Require Import List NArith Bool Arith Lia.
From DV Require Import C06.Model C06.Lexer C06.LexerProofs C06.Proofs C06.Fuel.
From DV Require C10.Model.
Import ListNotations.

(* ------------------------------------------------------------------ side conditions on a token list of the Spec *)

(* type numbers are positions in type_words, member names positions in the scope keys *)
Definition tok_wf (keys : list str) (t : token) : bool :=
  match t with
  | TInst ty => (ty <? 6)%N
  | TDot n => (n <? N.of_nat (length keys))%N
  | _ => true
  end.

(* the between flag of the lexer along the token list: it is set by `between` and cleared by the `and` that follows, whatever the
   nesting; the word `and` while the flag is set would be delivered as the separator.  flag_ok fails exactly on the class of the
   known finding between-lower-bound-and (a conjunction or another between inside the lower bound of a between) *)
Fixpoint flag_ok (b : bool) (ts : list token) : bool :=
  match ts with
  | [] => true
  | TBetween :: r => flag_ok true r
  | TBand :: r => b && flag_ok false r
  | TOp And :: r => negb b && flag_ok b r
  | _ :: r => flag_ok b r
  end.

(* the dictionary of atoms: every atom number is written as a literal or as a scope key, and read back *)
Definition atoms_ok (keys : list str) (enc : N -> ltoken) (dec : ltoken -> option N) : Prop :=
  forall a, is_atom_tok (enc a) = true /\ dec (enc a) = Some a /\ tok_ok keys flags0 (enc a) = true.

(* ------------------------------------------------------------------ abs after conc *)

Lemma pos_of_nth : forall (l : list str) n i, nodup_str l = true -> n < length l ->
  pos_of (nth n l []) l i = Some (i + N.of_nat n)%N.
Proof.
  induction l as [|x l IH]; intros n i Hd Hn; [cbn in Hn; lia|].
  cbn [nodup_str] in Hd. apply andb_true_iff in Hd. destruct Hd as [Hx Hd]. apply negb_true_iff in Hx.
  destruct n as [|n].
  - cbn [nth pos_of]. rewrite str_eqb_refl. f_equal. lia.
  - cbn [nth pos_of]. cbn [length] in Hn.
    assert (E : NM.str_eqb x (nth n l []) = false).
    { unfold NM.mem in Hx. destruct (NM.str_eqb x (nth n l [])) eqn:E; [|reflexivity].
      assert (Hin : In (nth n l []) l) by (apply nth_In; lia).
      assert (existsb (NM.str_eqb x) l = true) by (apply existsb_exists; eexists; split; [exact Hin|exact E]). congruence. }
    rewrite E. rewrite IH by (exact Hd || lia). f_equal. lia.
Qed.

Lemma pos_of_nth_str : forall (l : list str) n, nodup_str l = true -> (n <? N.of_nat (length l))%N = true ->
  pos_of (nth_str l n) l 0 = Some n.
Proof.
  intros l n Hd Hn. apply N.ltb_lt in Hn. unfold nth_str. rewrite pos_of_nth by (exact Hd || lia). f_equal. lia.
Qed.

Lemma abs_conc : forall keys enc dec t rest, atoms_ok keys enc dec -> keys_ok keys = true -> tok_wf keys t = true ->
  abs keys dec (conc keys enc t ++ rest) = match abs keys dec rest with Some ts => Some (t :: ts) | None => None end.
Proof.
  intros keys enc dec t rest Ha Hk Hw. destruct t as [a|o| | | | | | |ty|n]; cbn [conc app]; try reflexivity.
  - destruct (Ha a) as [H1 [H2 _]]. destruct (enc a) as [k|s|b| |b c|s|m|m|m]; try discriminate H1; cbn [abs tok_op is_atom_tok]; rewrite H2; reflexivity.
  - destruct o; reflexivity.
  - cbn [tok_wf] in Hw. cbn [abs]. rewrite (pos_of_nth_str type_words ty eq_refl Hw). reflexivity.
  - cbn [tok_wf] in Hw. cbn [abs].
    assert (Hd : nodup_str keys = true) by (unfold keys_ok in Hk; rewrite !andb_true_iff in Hk; tauto).
    rewrite (pos_of_nth_str keys n Hd Hw). reflexivity.
Qed.

Lemma abs_conc_all : forall keys enc dec ts, atoms_ok keys enc dec -> keys_ok keys = true -> forallb (tok_wf keys) ts = true ->
  abs keys dec (conc_all keys enc ts) = Some ts.
Proof.
  intros keys enc dec ts Ha Hk. induction ts as [|t r IH]; intros Hw; [reflexivity|].
  cbn [forallb] in Hw. apply andb_true_iff in Hw. destruct Hw as [Ht Hr]. unfold conc_all. cbn [flat_map].
  rewrite abs_conc by assumption. fold (conc_all keys enc r). rewrite (IH Hr). reflexivity.
Qed.

(* ------------------------------------------------------------------ the concrete token list is printable *)

Lemma atom_tok_ok : forall keys fl l, is_atom_tok l = true -> f_type fl = false -> tok_ok keys flags0 l = true -> tok_ok keys fl l = true.
Proof.
  intros keys [u b ty ti] l Hl Hty H. cbn [f_type] in Hty. subst ty. destruct l; try discriminate Hl; exact H.
Qed.

Lemma in_mem : forall k keys, In k keys -> NM.mem k keys = true.
Proof. intros k keys H. unfold NM.mem. apply existsb_exists. exists k. split; [exact H|apply str_eqb_refl]. Qed.

Lemma printable_conc : forall keys enc dec, atoms_ok keys enc dec -> forall ts u b ti,
  flag_ok b ts = true -> forallb (tok_wf keys) ts = true ->
  printable_from keys {| f_unary := u; f_between := b; f_type := false; f_tillin := ti |} (conc_all keys enc ts) = true.
Proof.
  intros keys enc dec Ha. induction ts as [|t r IH]; intros u b ti Hf Hw; [reflexivity|].
  cbn [forallb] in Hw. apply andb_true_iff in Hw. destruct Hw as [Ht Hr]. unfold conc_all. cbn [flat_map]. fold (conc_all keys enc r).
  destruct t as [a|o| | | | | | |ty|n]; cbn [conc app printable_from].
  - destruct (Ha a) as [H1 [_ H3]]. rewrite (atom_tok_ok keys {| f_unary := u; f_between := b; f_type := false; f_tillin := ti |} (enc a) H1 eq_refl H3). cbn [andb].
    replace (tok_flags {| f_unary := u; f_between := b; f_type := false; f_tillin := ti |} (enc a))
      with {| f_unary := false; f_between := b; f_type := false; f_tillin := ti |}
      by (destruct (enc a) as [k|s|c| |c d|s|m|m|m]; try discriminate H1; reflexivity).
    apply IH; [exact Hf|exact Hr].
  - destruct o; cbn [flag_ok] in Hf; try (cbn [op_tok tok_ok andb]; apply IH; assumption).
    apply andb_true_iff in Hf. destruct Hf as [Hb Hf]. cbn [op_tok tok_ok f_between]. rewrite Hb. cbn [andb]. apply IH; assumption.
  - apply IH; assumption.
  - apply IH; assumption.
  - apply IH; assumption.
  - apply IH; assumption.
  - cbn [flag_ok] in Hf. apply (IH false true ti Hf Hr).
  - cbn [flag_ok] in Hf. apply andb_true_iff in Hf. destruct Hf as [Hb Hf]. cbn [tok_ok f_between]. rewrite Hb. cbn [andb]. apply (IH false false ti Hf Hr).
  - cbn [tok_wf] in Ht. cbn [tok_ok tok_flags clr_unary set_type f_unary f_between f_type f_tillin andb].
    replace (NM.mem (nth_str type_words ty) type_words) with true.
    + cbn [andb]. apply (IH false b ti Hf Hr).
    + symmetry. apply in_mem. unfold nth_str. apply nth_In. apply N.ltb_lt in Ht. cbn [length type_words]. lia.
  - cbn [tok_wf] in Ht. cbn [tok_ok tok_flags clr_unary f_unary f_between f_type f_tillin andb negb].
    replace (NM.mem (nth_str keys n) keys) with true.
    + cbn [andb]. apply (IH false b ti Hf Hr).
    + symmetry. apply in_mem. unfold nth_str. apply nth_In. apply N.ltb_lt in Ht. lia.
Qed.

(* ------------------------------------------------------------------ text level *)

Section Text.
  Variable keys : list str.
  Variable enc : N -> ltoken.
  Variable dec : ltoken -> option N.
  Hypothesis Hkeys : keys_ok keys = true.
  Hypothesis Hatoms : atoms_ok keys enc dec.

  (* what the Spec parser makes of a token list, it makes of the text printed from it: a space after every token ... *)
  Theorem parse_text_unlex : forall ts, flag_ok false ts = true -> forallb (tok_wf keys) ts = true ->
    parse_text keys dec (unlex (conc_all keys enc ts)) = parse_tokens ts.
  Proof.
    intros ts Hf Hw. unfold parse_text. rewrite lex_unlex; [|exact Hkeys|].
    - rewrite abs_conc_all by assumption. reflexivity.
    - apply (printable_conc keys enc dec Hatoms ts false false false Hf Hw).
  Qed.

  (* ... or any layout of the modelled grammar before the first token and, behind a space, after every token *)
  Theorem parse_text_layout : forall ts lead gaps, flag_ok false ts = true -> forallb (tok_wf keys) ts = true ->
    forallb piece_ok lead = true -> forallb gap_ok gaps = true ->
    parse_text keys dec (render_layout lead ++ unlex_lay gaps (conc_all keys enc ts)) = parse_tokens ts.
  Proof.
    intros ts lead gaps Hf Hw Hl Hg. unfold parse_text. rewrite lex_unlex_layout; try assumption.
    - rewrite abs_conc_all by assumption. reflexivity.
    - apply (printable_conc keys enc dec Hatoms ts false false false Hf Hw).
  Qed.

  Theorem text_roundtrip_min : forall t, flag_ok false (render_min t) = true -> forallb (tok_wf keys) (render_min t) = true ->
    parse_text keys dec (unlex (conc_all keys enc (render_min t))) = Some t.
  Proof. intros t Hf Hw. rewrite parse_text_unlex by assumption. apply roundtrip_min_tokens. Qed.

  Theorem text_roundtrip_full : forall t, flag_ok false (render_full t) = true -> forallb (tok_wf keys) (render_full t) = true ->
    parse_text keys dec (unlex (conc_all keys enc (render_full t))) = Some t.
  Proof. intros t Hf Hw. rewrite parse_text_unlex by assumption. apply roundtrip_full_tokens. Qed.

  Theorem text_roundtrip_min_layout : forall t lead gaps,
    flag_ok false (render_min t) = true -> forallb (tok_wf keys) (render_min t) = true ->
    forallb piece_ok lead = true -> forallb gap_ok gaps = true ->
    parse_text keys dec (render_layout lead ++ unlex_lay gaps (conc_all keys enc (render_min t))) = Some t.
  Proof. intros t lead gaps Hf Hw Hl Hg. rewrite parse_text_layout by assumption. apply roundtrip_min_tokens. Qed.

  Theorem text_roundtrip_full_layout : forall t lead gaps,
    flag_ok false (render_full t) = true -> forallb (tok_wf keys) (render_full t) = true ->
    forallb piece_ok lead = true -> forallb gap_ok gaps = true ->
    parse_text keys dec (render_layout lead ++ unlex_lay gaps (conc_all keys enc (render_full t))) = Some t.
  Proof. intros t lead gaps Hf Hw Hl Hg. rewrite parse_text_layout by assumption. apply roundtrip_full_tokens. Qed.
End Text.

(* ------------------------------------------------------------------ the hypotheses are met *)

(* a dictionary for every key set: atom a is the numeral of a + 1 ones *)
Definition enc_unary (a : N) : ltoken := LNum (repeat 49%N (S (N.to_nat a))) [].
Definition dec_unary (l : ltoken) : option N := match l with LNum b [] => Some (N.of_nat (length b) - 1)%N | _ => None end.

Lemma atoms_unary : forall keys, atoms_ok keys enc_unary dec_unary.
Proof.
  intros keys a. split; [reflexivity|]. split.
  - unfold enc_unary, dec_unary. rewrite repeat_length. f_equal. lia.
  - unfold enc_unary. cbn [tok_ok repeat]. unfold digits_ok. cbn [forallb]. rewrite andb_true_r.
    change (NM.is_digit 49) with true. cbn [andb]. induction (N.to_nat a) as [|n IH]; [reflexivity|]. cbn [repeat forallb]. exact IH.
Qed.

(* a mixed dictionary on the keys a b c d: odd atoms are names, even atoms numerals *)
Definition keys_ex : list str := [[97]; [98]; [99]; [100]]%N.
Definition enc_ex (a : N) : ltoken := if N.odd a then LName (nth_str keys_ex (a / 2)) else enc_unary (a / 2).
Definition dec_ex (l : ltoken) : option N :=
  match l with
  | LName n => match pos_of n keys_ex 0 with Some i => Some (2 * i + 1)%N | None => None end
  | _ => match dec_unary l with Some k => Some (2 * k)%N | None => None end
  end.

(* ( a + 11 ) * b between 1 and ( - c ) instance of number . d *)
Definition tree_ex : tree :=
  Btw (Bin Mul (Bin Add (Atom 1) (Atom 2)) (Atom 3)) (Atom 0) (Path (Inst (Neg (Atom 5)) 0) 3).

Lemma text_example :
  keys_ok keys_ex = true /\ flag_ok false (render_min tree_ex) = true /\ forallb (tok_wf keys_ex) (render_min tree_ex) = true /\
  unlex (conc_all keys_ex enc_ex (render_min tree_ex)) =
    [40; 32; 97; 32; 43; 32; 49; 49; 32; 41; 32; 42; 32; 98; 32; 98; 101; 116; 119; 101; 101; 110; 32; 49; 32; 97; 110; 100; 32; 40; 32; 45; 32; 99; 32; 41; 32; 105; 110; 115; 116; 97; 110; 99; 101; 32; 111; 102; 32; 110; 117; 109; 98; 101; 114; 32; 46; 32; 100; 32]%N /\
  parse_text keys_ex dec_ex (unlex (conc_all keys_ex enc_ex (render_min tree_ex))) = Some tree_ex.
Proof. vm_compute. repeat split; reflexivity. Qed.

(* the side condition flag_ok is needed: a conjunction as the lower bound of a between is printed without parentheses by render_min
   (the Spec parser tells the two `and` apart by their token), and the lexer turns the first `and` into the separator *)
Definition tree_band : tree := Btw (Atom 1) (Bin And (Atom 3) (Atom 5)) (Atom 7).

Lemma text_band_witness :
  flag_ok false (render_min tree_band) = false /\ parse_tokens (render_min tree_band) = Some tree_band /\
  parse_text keys_ex dec_ex (unlex (conc_all keys_ex enc_ex (render_min tree_band))) = Some (Bin And (Btw (Atom 1) (Atom 3) (Atom 5)) (Atom 7)).
Proof. vm_compute. repeat split; reflexivity. Qed.
