"""C04 — a decision's value is its logic evaluated over its requirement graph.
Proof: coq/Props/C04.v — the recursive closure wiring of decision.rs / business_knowledge_model.rs / decision_service.rs
(ImplModel `run`) computes what the invoked element DENOTES (Spec `denote`, coq/C04/Denote.v: a value by recursion over the
acyclic graph, the environment of a logic written as a priority list; C04_impl_is_denotation) on every acyclic graph, for
every sufficient fuel, over an abstract expression evaluator; inputs outside the requirement closure have no influence;
neither fuel-exhaustion answer reaches the result (C04_fuel_sufficient_all).
Correspondence: generated acyclic DRGs (inputs, decisions with literal / context / invocation / relation logic, knowledge
models invoked literally and by boxed invocation and requiring knowledge models and services, decision services with
input / encapsulated / output decisions) serialised to DMN XML, every invocable invoked through evaluate_invocable with
several input contexts; compared with impl_invoke / denote instantiated with the tiny evaluator `teval`.
The literal fragment has numbers as decimal128 data (small, negative, around 10^17 where products begin to be rounded, literals
of more than 34 digits), strings (+ concatenates, every other mix is null) and knowledge models with repeated formal parameter
names (the last argument stays bound); numbers are compared by value, at every size.
Invocation shapes: knowledge models AND decision services are invoked by FEEL calls (one argument per parameter, missing trailing
arguments, one argument too many, named arguments with every / not every parameter named) and by boxed invocations with every subset
of the parameters bound (all, all but one, none, some, a binding that names no parameter), from decisions that themselves require
the inputs / decisions the parameters are named after (a parameter without a binding is null inside a service and left to the dynamic
scope inside a knowledge model - EInvoke / VSvc / VBkm of the tiny evaluator say exactly that; the named call is translated into the
model's positional call or ENull by `desugar_named`, the Coq expression language has no constructor for it)."""
import decimal
import json
import os
import re
from decimal import Decimal

decimal.getcontext().prec = 200          # exact handling of 34-digit coefficients (as props/c01.py)
decimal.getcontext().Emax = 999999
decimal.getcontext().Emin = -999999

from vlib import core
from vlib.coqterm import App

HEADER = ('From Coq Require Import List NArith ZArith Bool.\nFrom DV Require Import C04.Model C04.Denote.\nImport ListNotations.\nOpen Scope N_scope.\n')
XHEAD = '<?xml version="1.0" encoding="UTF-8"?><definitions namespace="ns1" name="m1" id="d1" xmlns="https://www.omg.org/spec/DMN/20191111/MODEL/">'


# ------------------------------------------------------------------ names
RENAME = {}       # per-graph: knowledge-model id -> a two-word FEEL name (set by run_graphs around the serialisation of one graph)


def nm(n, G=None):
    """the DMN/FEEL name of a model name number"""
    if n in RENAME:
        return RENAME[n]
    if n >= 3000:
        return 'zz%d' % (n - 3000)
    if n >= 2000:
        return 'c%d' % (n - 2000)
    if n >= 1000:
        return 'p%d' % (n - 1000)
    return 'n%d' % n


def num_of(name):
    m = re.fullmatch(r'(zz|c|p|n)(\d+)', name)
    return {'zz': 3000, 'c': 2000, 'p': 1000, 'n': 0}[m.group(1)] + int(m.group(2)) if m else None


# ------------------------------------------------------------------ expressions
# ('null',) ('num', z) ('str', text) ('var', n) ('add', a, b) ('mul', a, b) ('call', f, (args)) ('invoke', f, ((p, e), ..)) ('ctx', ((k, e), ..), res|None) ('rel', (cols), ((cells..), ..))
# ('calln', f, ((p, e), ..), (formal parameters of f))  the FEEL call with NAMED arguments f(p: e, ..).  The Coq expression language has no
#   constructor for it: the check translates it (`desugar_named`) into the model's positional call when every formal parameter is named
#   (arguments in the order of the formal parameters, other names dropped) and into ENull when a formal parameter is not named -
#   eval_function_named of feel-evaluator/src/builders.rs ("invalid number of arguments"); the value is then computed by the model.
BOXED = ('invoke', 'ctx', 'rel')


def desugar_named(e):
    given = dict(e[2])
    if all(p in given for p in e[3]):
        return ('call', e[1], tuple(given[p] for p in e[3]))
    return ('null',)


def text(e, fg=()):
    """FEEL text of a literal expression.  fg: names the logic does not require (unknown when the text is parsed): they are written
    in parentheses, because the lexer reads `zz1 + 3` with an unknown zz1 as ONE name "zz1+3" (names may contain + * and digits;
    lexing is C10's subject) and `zz1 + "a"` is then a syntax error"""
    k = e[0]
    if k == 'null':
        return 'null'
    if k == 'num':
        return str(e[1])
    if k == 'str':
        return '"%s"' % e[1]
    if k == 'var':
        return '(%s)' % nm(e[1]) if e[1] in fg else nm(e[1])
    if k in ('add', 'mul'):
        return '(%s %s %s)' % (text(e[1], fg), '+' if k == 'add' else '*', text(e[2], fg))
    if k == 'call':
        return '%s(%s)' % (nm(e[1]), ', '.join(text(a, fg) for a in e[2]))
    if k == 'calln':
        return '%s(%s)' % (nm(e[1]), ', '.join('%s: %s' % (nm(p), text(a, fg)) for p, a in e[2]))
    raise ValueError('boxed expression inside a literal: %r' % (e,))


def esc(s):
    return s.replace('&', '&amp;').replace('<', '&lt;').replace('>', '&gt;')


def box(e, fg=()):
    k = e[0]
    if k == 'invoke':
        return ('<invocation><literalExpression><text>%s</text></literalExpression>' % nm(e[1]) +
                ''.join('<binding><parameter name="%s"/>%s</binding>' % (nm(p), box(x, fg)) for p, x in e[2]) + '</invocation>')
    if k == 'ctx':
        return ('<context>' + ''.join('<contextEntry><variable name="%s"/>%s</contextEntry>' % (nm(kk), box(x, fg)) for kk, x in e[1]) +
                ('<contextEntry>%s</contextEntry>' % box(e[2], fg) if e[2] is not None else '') + '</context>')
    if k == 'rel':
        return ('<relation>' + ''.join('<column name="%s"/>' % nm(c) for c in e[1]) +
                ''.join('<row>' + ''.join(box(x, fg) for x in row) + '</row>' for row in e[2]) + '</relation>')
    return '<literalExpression><text>%s</text></literalExpression>' % esc(text(e, fg))


def coq_e(e):
    k = e[0]
    if k == 'null':
        return 'ENull'
    if k == 'num':
        return '(enum (%d)%%Z)' % e[1]       # enum z = ENum (num_lit z): the decimal128 nearest to the integer written
    if k == 'str':
        return '(EStr %s)' % coq_str(e[1])
    if k == 'var':
        return '(EVar %d)' % e[1]
    if k in ('add', 'mul'):
        return '(%s %s %s)' % ('EAdd' if k == 'add' else 'EMul', coq_e(e[1]), coq_e(e[2]))
    if k == 'call':
        return '(ECall %d [%s])' % (e[1], '; '.join(coq_e(a) for a in e[2]))
    if k == 'calln':
        return coq_e(desugar_named(e))
    if k == 'invoke':
        return '(EInvoke %d [%s])' % (e[1], '; '.join('(%d, %s)' % (p, coq_e(x)) for p, x in e[2]))
    if k == 'ctx':
        return '(ECtx [%s] %s)' % ('; '.join('(%d, %s)' % (kk, coq_e(x)) for kk, x in e[1]), 'None' if e[2] is None else '(Some %s)' % coq_e(e[2]))
    return '(ERel [%s] [%s])' % ('; '.join(str(c) for c in e[1]), '; '.join('[%s]' % '; '.join(coq_e(x) for x in row) for row in e[2]))


def coq_str(t):
    return '[%s]' % '; '.join(str(ord(c)) for c in t)


def nl(l):
    return '[%s]' % '; '.join(str(x) for x in l)


# ------------------------------------------------------------------ graphs
# node: dict(kind='input'|'dec'|'bkm'|'svc', id, ...)   name number = id
def coq_node(n):
    k = n['kind']
    if k == 'input':
        return 'NInput %d' % n['id']
    if k == 'dec':
        return 'NDec %d %s %s %s %s %s' % (n['id'], coq_e(n['logic']), nl(n['rk']), nl(n['rd']), nl(n['ri']), nl(n['callable']))
    if k == 'bkm':
        return 'NBkm %d %s %s %s %s' % (n['id'], nl(n['params']), coq_e(n['body']), nl(n['rk']), nl(n['callable']))
    return 'NSvc %d %s %s %s %s' % (n['id'], nl(n['ins']), nl(n['indecs']), nl(n['encs']), nl(n['outs']))


def coq_graph(G):
    return '[%s]' % ';\n  '.join('(%d, %s)' % (n['id'], coq_node(n)) for n in G)


def xml_of(G, rng, elname=None):
    """elname: decision id -> name of the decision ELEMENT where it differs from the name of the decision's variable (logic, requirements and results go by the variable)"""
    elname = elname or {}
    parts = [XHEAD]
    nodes = list(G)
    rng.shuffle(nodes)                      # document order of the elements is irrelevant
    for n in nodes:
        k, i = n['kind'], n['id']
        if k == 'input':
            parts.append('<inputData name="%s" id="e%d"><variable name="%s" typeRef="number"/></inputData>' % (nm(i), i, nm(i)))
        elif k == 'dec':
            parts.append('<decision name="%s" id="e%d"><variable name="%s"/>' % (elname.get(i, nm(i)), i, nm(i)) +
                         ''.join('<informationRequirement><requiredDecision href="#e%d"/></informationRequirement>' % r for r in n['rd']) +
                         ''.join('<informationRequirement><requiredInput href="#e%d"/></informationRequirement>' % r for r in n['ri']) +
                         ''.join('<knowledgeRequirement><requiredKnowledge href="#e%d"/></knowledgeRequirement>' % r for r in n['rk']) +
                         box(n['logic'], n.get('foreign', ())) + '</decision>')
        elif k == 'bkm':
            # the VARIABLE's several-word name may be written with any white space between its words (the FEEL name is the normal form: one blank); the
            # element's name attribute stays in normal form: evaluate_invocable looks an invocable up by the attribute as it is written
            sp = lambda t: t.replace(' ', rng.choice([' ', '  ', ' \n  ', '\t']))
            parts.append('<businessKnowledgeModel name="%s" id="e%d"><variable name="%s"/><encapsulatedLogic>' % (nm(i), i, sp(nm(i))) +
                         ''.join('<formalParameter name="%s"/>' % nm(p) for p in n['params']) + box(n['body']) + '</encapsulatedLogic>' +
                         ''.join('<knowledgeRequirement><requiredKnowledge href="#e%d"/></knowledgeRequirement>' % r for r in n['rk']) +
                         '</businessKnowledgeModel>')
        else:
            parts.append('<decisionService name="%s" id="e%d"><variable name="%s"/>' % (nm(i), i, nm(i)) +
                         ''.join('<outputDecision href="#e%d"/>' % r for r in n['outs']) +
                         ''.join('<encapsulatedDecision href="#e%d"/>' % r for r in n['encs']) +
                         ''.join('<inputDecision href="#e%d"/>' % r for r in n['indecs']) +
                         ''.join('<inputData href="#e%d"/>' % r for r in n['ins']) + '</decisionService>')
    parts.append('</definitions>')
    return ''.join(parts)


def by_id(G):
    return {n['id']: n for n in G}


def kclosure(B, rk):
    out = []
    for r in rk:
        n = B.get(r)
        if n is None:
            continue
        if n['kind'] == 'svc':
            out.append(r)
        elif n['kind'] == 'bkm':
            out += kclosure(B, n['rk'])
    return sorted(set(out))


def svc_params(B, s):
    return [i for i in s['ins'] if B[i]['kind'] == 'input'] + [d for d in s['indecs'] if B[d]['kind'] == 'dec']


def closure_names(B, i, seen=None):
    """names whose input entries may influence node i (python copy, only used to craft inputs; the verdict uses Coq's)"""
    seen = set() if seen is None else seen
    if i in seen or i not in B:
        return set()
    seen.add(i)
    n = B[i]
    k = n['kind']
    out = {i}
    if k == 'dec':
        out |= set(n['ri'])
        for r in n['rk'] + n['rd'] + n['callable']:
            out |= closure_names(B, r, seen)
    elif k == 'bkm':
        out |= set(n['params'])
        for r in n['rk'] + n['callable']:
            out |= closure_names(B, r, seen)
    elif k == 'svc':
        out |= set(n['ins']) | set(n['indecs'])
        for r in n['indecs'] + n['encs'] + n['outs']:
            out |= closure_names(B, r, seen)
    return out


# numbers around the 34 digits of decimal128: 10^17 squared is the first product that is rounded; literals of more than
# 34 digits are rounded (half-even) when they are read
BIGS = [10 ** 17, 10 ** 17 + 1, 10 ** 17 - 1, 33333333333333333, 316227766016837933, 10 ** 33, 5 * 10 ** 33, 10 ** 34 - 1, 10 ** 34, 10 ** 34 + 1,
        99999999999999999999999999999999995, 99999999999999999999999999999999985, 12345678901234567890123456789012345678]
STRS = ['a', 'b', 'ab', '', '\u00e9', 'x y']


def gen_lit(rng):
    r = rng.random()
    if r < 0.66:
        return ('num', rng.randint(0, 5))
    if r < 0.72:
        return ('num', -rng.randint(1, 3))
    if r < 0.86:
        return ('num', rng.choice(BIGS))
    return ('str', rng.choice(STRS))


def gen_strexp(rng, names, depth):
    """an operand meant to be a string: a literal, a name (whatever it is bound to), a concatenation"""
    r = rng.random()
    if depth > 0 and r < 0.3:
        return ('add', gen_strexp(rng, names, depth - 1), gen_strexp(rng, names, depth - 1))
    if names and r < 0.5:
        return ('var', rng.choice(names))
    return ('str', rng.choice(STRS))


def gen_call(rng, f, ps, arg):
    """a FEEL call of f with formal parameters ps; arg() makes an argument.  Mostly one argument per parameter; also fewer arguments
    (missing trailing arguments: no call, null), one argument too many (ignored), and the call with NAMED arguments: every parameter
    named, a parameter not named (null), a name that is no parameter (ignored)"""
    r = rng.random()
    ps = list(ps)
    if r < 0.64 or not ps:
        n = len(ps)
        if ps and 0.5 <= r < 0.64:
            n = rng.choice([len(ps) - 1, len(ps) - 1, 0, len(ps) + 1])
        return ('call', f, tuple(arg() for _ in range(n)))
    uniq = sorted(set(ps))
    q = rng.random()
    if q < 0.5:
        named = list(uniq)
    elif q < 0.8:
        named = list(uniq)
        named.remove(rng.choice(named))                     # a formal parameter is not named
    else:
        named = rng.sample(uniq, rng.randint(1, len(uniq)))
    if rng.random() < 0.25 or not named:
        named.append(rng.choice([x for x in (1003, 2005, 3002) if x not in named]))      # a name that is no parameter of f
    rng.shuffle(named)
    return ('calln', f, tuple((p, arg()) for p in named), tuple(ps))


def gen_arith(rng, names, calls, depth, B):
    """an expression of the literal fragment over names; calls = [(function name id, [formal parameters])]"""
    r = rng.random()
    if depth <= 0 or r < 0.25:
        if names and rng.random() < 0.75:
            return ('var', rng.choice(names))
        return gen_lit(rng)
    if calls and r < 0.55:
        f, ps = rng.choice(calls)
        return gen_call(rng, f, ps, lambda: gen_arith(rng, names, calls, depth - 1, B))
    if 0.55 <= r < 0.63:
        return ('add', gen_strexp(rng, names, 1), gen_strexp(rng, names, 1))
    return (rng.choice(['add', 'add', 'mul']), gen_arith(rng, names, calls, depth - 1, B), gen_arith(rng, names, calls, depth - 1, B))


def gen_bindings(rng, ps, names, arg):
    """the bindings of a boxed invocation of a function with formal parameters ps: every subset is generated - all parameters (in any
    order; a repeated parameter name is bound twice), all but one, none, some - and sometimes a binding for a name that is no
    parameter.  A parameter without a binding must be null inside a decision service and is left to the dynamic scope inside a
    knowledge model, whatever the invoking decision has under that name."""
    ps = list(ps)
    r = rng.random()
    if r < 0.4 or not ps:
        bound = list(ps)
    else:
        uniq = sorted(set(ps))
        if r < 0.7:
            # prefer to leave out a parameter whose name the invoker has in its own context
            seen = [x for x in uniq if x in names]
            uniq.remove(rng.choice(seen if seen and rng.random() < 0.7 else uniq))
            bound = uniq
        elif r < 0.85:
            bound = []
        else:
            bound = rng.sample(uniq, rng.randint(0, len(uniq)))
    if rng.random() < 0.15:
        bound.append(rng.choice([1003, 2006, 3002]))
    rng.shuffle(bound)
    return tuple((p, arg()) for p in bound)


def gen_logic(rng, names, calls, B, depth=2, allow_boxed=True):
    """a boxed expression: literal, context, invocation or relation (boxed kinds nest in boxed positions); the functions of `calls`
    (knowledge models AND decision services) are invoked by FEEL calls and by boxed invocations"""
    r = rng.random()
    if not allow_boxed or depth <= 0 or r < 0.4:
        return gen_arith(rng, names, calls, 2, B)
    if r < 0.6 and calls:
        f, ps = rng.choice(calls)
        return ('invoke', f, gen_bindings(rng, ps, names, lambda: gen_logic(rng, names, calls, B, depth - 1, rng.random() < 0.3)))
    if r < 0.9:
        n = rng.randint(1, 3)
        keys = rng.sample(range(2001, 2007), n)
        es, vis = [], list(names)
        for kk in keys:
            es.append((kk, gen_logic(rng, vis, calls, B, depth - 1, rng.random() < 0.4)))
            vis = vis + [kk]
        res = gen_arith(rng, vis, calls, 1, B) if rng.random() < 0.4 else None
        return ('ctx', tuple(es), res)
    cols = tuple(rng.sample(range(2001, 2005), 2))
    return ('rel', cols, tuple(tuple(gen_arith(rng, names, calls, 1, B) for _ in cols) for _ in range(rng.randint(1, 2))))


def fn_params(B, f):
    """formal parameters of the function value a required knowledge model / decision service is bound to"""
    return list(B[f]['params']) if B[f]['kind'] == 'bkm' else svc_params(B, B[f])


def gen_graph(rng, size, allow_bkm_svc=True):
    G, B = [], {}
    nid = [0]

    def new(kind, **kw):
        nid[0] += 1
        n = dict(kind=kind, id=nid[0], **kw)
        G.append(n)
        B[n['id']] = n
        return n

    for _ in range(rng.randint(2, 3)):
        new('input')
    while len(G) < size:
        inputs = [n['id'] for n in G if n['kind'] == 'input']
        decs = [n['id'] for n in G if n['kind'] == 'dec']
        bkms = [n['id'] for n in G if n['kind'] == 'bkm']
        svcs = [n['id'] for n in G if n['kind'] == 'svc']
        r = rng.random()
        if r < 0.2:
            rk = rng.sample(bkms, min(len(bkms), rng.choice([0, 1, 1, 2])))
            if allow_bkm_svc and svcs and rng.random() < 0.35:
                rk.append(rng.choice(svcs))
            params = [1001, 1002][:rng.randint(1, 2)]
            q = rng.random()
            if q < 0.18:
                # a repeated formal parameter name: the arguments are bound one after the other, the last one stays
                params = rng.choice([[1001, 1001], [1001, 1002, 1001], [1002, 1001, 1001], [1001, 1001, 1002]])
            elif q < 0.5:
                # a formal parameter named like an input data: bound, it hides the invoker's entry of that name; without a binding
                # (boxed invocation) the body sees whatever the invoking scope has under the name
                params = rng.choice([[rng.choice(inputs)], [rng.choice(inputs), 1002], [1001, rng.choice(inputs)]])
            calls = [(b, fn_params(B, b)) for b in rk]
            body = gen_logic(rng, params, calls, B, depth=1)
            new('bkm', params=params, body=body, rk=rk, callable=kclosure(B, rk))
        elif r < 0.32 and decs:
            outs = rng.sample(decs, min(len(decs), rng.choice([1, 1, 1, 2])))
            need_d, need_i = set(), set()
            for o in outs:
                need_d |= set(B[o]['rd'])
                need_i |= set(B[o]['ri'])
            need_d -= set(outs)
            encs, indecs = [], []
            for d in sorted(need_d):
                if rng.random() < 0.5:
                    encs.append(d)
                    need_i |= set(B[d]['ri'])
                    indecs += [x for x in B[d]['rd'] if x not in outs and x not in need_d]
                else:
                    indecs.append(d)
            ins = sorted(need_i)
            if rng.random() < 0.2 and ins:
                ins = ins[:-1]                     # an input the service does not pass on: the decisions see null
            new('svc', ins=ins, indecs=sorted(set(indecs)), encs=encs, outs=outs)
        else:
            ri = rng.sample(inputs, rng.randint(0, min(2, len(inputs))))
            rd = rng.sample(decs, min(len(decs), rng.choice([0, 1, 1, 2, 2])))
            rk = rng.sample(bkms, min(len(bkms), rng.choice([0, 0, 1, 2])))
            if svcs and rng.random() < 0.3:
                rk.append(rng.choice(svcs))
            if rk and rng.random() < 0.6:
                # the invoker also requires, itself, what its functions take as parameters (the input data and input decisions of a
                # required service, an input a knowledge model names a parameter after): its context then has entries named like the
                # parameters, with their own values - which an invocation that does not bind such a parameter must not pick up
                for f in rk:
                    for x in fn_params(B, f):
                        if x < 1000 and rng.random() < 0.7:
                            if B[x]['kind'] == 'input' and x not in ri:
                                ri.append(x)
                            elif B[x]['kind'] == 'dec' and x not in rd:
                                rd.append(x)
            calls = [(f, fn_params(B, f)) for f in rk]
            names = ri + rd
            fg = []
            if rng.random() < 0.25:
                # the logic also mentions a name it does not require (an input, a decision, a fresh name): it must see null whatever the caller supplies
                foreign = [x for x in inputs + decs if x not in names] + [3001, 3002]
                fg = [rng.choice(foreign)]
                names = names + fg
            logic = gen_logic(rng, names, calls, B)
            new('dec', logic=logic, rk=rk, rd=rd, ri=ri, callable=kclosure(B, rk), foreign=fg)
    return G


def witness_graphs():
    """the shapes of the two defects fixed for this property, and the ones the property text lists"""
    W = []
    # boxed context entries must not stay visible after the context: {inner: {secret: 42}, probe: secret}
    W.append([dict(kind='input', id=1),
              dict(kind='dec', id=2, rk=[], rd=[], ri=[1], callable=[],
                   logic=('ctx', ((2001, ('ctx', ((2002, ('num', 42)),), None)), (2003, ('var', 2002))), None))])
    # a knowledge model that requires a decision service calls it as a function
    W.append([dict(kind='input', id=1),
              dict(kind='dec', id=2, rk=[], rd=[], ri=[1], callable=[], logic=('add', ('var', 1), ('num', 1))),
              dict(kind='svc', id=3, ins=[1], indecs=[], encs=[], outs=[2]),
              dict(kind='bkm', id=4, params=[1001], body=('mul', ('call', 3, (('var', 1001),)), ('num', 10)), rk=[3], callable=[3]),
              dict(kind='dec', id=5, rk=[4], rd=[], ri=[1], callable=[3], logic=('call', 4, (('var', 1),))),
              dict(kind='dec', id=6, rk=[3], rd=[2], ri=[1], callable=[3], logic=('add', ('call', 3, (('var', 1),)), ('var', 2)))])
    # diamond; a decision required directly and through a service; knowledge model requiring a knowledge model
    W.append([dict(kind='input', id=1), dict(kind='input', id=2),
              dict(kind='dec', id=3, rk=[], rd=[], ri=[1, 2], callable=[], logic=('add', ('var', 1), ('var', 2))),
              dict(kind='dec', id=4, rk=[], rd=[3], ri=[1], callable=[], logic=('mul', ('var', 3), ('var', 1))),
              dict(kind='dec', id=5, rk=[], rd=[3], ri=[2], callable=[], logic=('add', ('var', 3), ('var', 2))),
              dict(kind='dec', id=6, rk=[], rd=[4, 5], ri=[], callable=[], logic=('add', ('var', 4), ('var', 5))),
              dict(kind='bkm', id=7, params=[1001], body=('add', ('var', 1001), ('num', 1)), rk=[], callable=[]),
              dict(kind='bkm', id=8, params=[1001, 1002], body=('mul', ('call', 7, (('var', 1001),)), ('var', 1002)), rk=[7], callable=[]),
              dict(kind='svc', id=9, ins=[1], indecs=[3], encs=[4], outs=[6, 4]),
              dict(kind='dec', id=10, rk=[8, 9], rd=[6], ri=[1], callable=[9],
                   logic=('ctx', ((2001, ('invoke', 8, ((1002, ('var', 6)), (1001, ('var', 1))))), (2002, ('call', 9, (('var', 1), ('var', 6))))), None))])
    # the three places where an earlier tiny evaluator differed from the code: "a" + "b" (and the null mixes), formal parameters
    # (p1, p1) called as f(1, 2) and by a boxed invocation with two bindings of p1, a * a + 1 at a = 10^17 (35 digits), a literal
    # of 35 digits, -3 * 0
    W.append([dict(kind='input', id=1),
              dict(kind='bkm', id=2, params=[1001, 1001], body=('var', 1001), rk=[], callable=[]),
              dict(kind='dec', id=3, rk=[2], rd=[], ri=[], callable=[], logic=('call', 2, (('num', 1), ('num', 2)))),
              dict(kind='dec', id=4, rk=[], rd=[], ri=[], callable=[], logic=('add', ('str', 'a'), ('str', 'b'))),
              dict(kind='dec', id=5, rk=[], rd=[], ri=[1], callable=[], logic=('add', ('mul', ('var', 1), ('var', 1)), ('num', 1))),
              dict(kind='dec', id=6, rk=[], rd=[4], ri=[], callable=[],
                   logic=('ctx', ((2001, ('add', ('var', 4), ('str', 'c'))), (2002, ('add', ('var', 4), ('num', 1))), (2003, ('mul', ('var', 4), ('var', 4))),
                                  (2004, ('add', ('null',), ('str', 'a')))), None)),
              dict(kind='dec', id=7, rk=[2], rd=[], ri=[], callable=[], logic=('invoke', 2, ((1001, ('num', 1)), (1001, ('str', 'z'))))),
              dict(kind='dec', id=8, rk=[], rd=[5], ri=[], callable=[],
                   logic=('rel', (2001, 2002), ((('add', ('mul', ('num', 10 ** 17), ('num', 10 ** 17)), ('num', 1)), ('num', 99999999999999999999999999999999995)),
                                                (('mul', ('num', -3), ('num', 0)), ('mul', ('var', 5), ('var', 5))))))])
    # the input decision of a service requires and invokes that service (the shape repaired by /repo 6a3e4f8: the service takes the
    # value of its input decision from the provided input and never evaluates it; before, evaluation recursed until the stack overflowed)
    W.append([dict(kind='input', id=1),
              dict(kind='dec', id=2, rk=[], rd=[], ri=[1], callable=[], logic=('add', ('var', 1), ('var', 4))),   # mentions 4 without requiring it
              dict(kind='svc', id=3, ins=[1], indecs=[4], encs=[], outs=[2]),
              dict(kind='dec', id=4, rk=[3], rd=[], ri=[1], callable=[3], logic=('call', 3, (('var', 1), ('num', 5))))])
    # a boxed invocation that does not bind every parameter of a decision service: the unbound input data (n1) / input decision (n6)
    # is null inside the service although the invoking decision requires n1 / n6 itself and so has them in its own context; the same
    # with a knowledge model whose parameter is named like an input (unbound: the body sees the invoker's n1 - dynamic scope);
    # FEEL calls with a missing trailing argument and named calls with a missing name are null as a whole
    pair = ('ctx', ((2001, ('var', 1)), (2002, ('var', 2))), None)
    W.append([dict(kind='input', id=1), dict(kind='input', id=2),
              dict(kind='dec', id=3, rk=[], rd=[], ri=[1, 2], callable=[], logic=pair),
              dict(kind='svc', id=4, ins=[1, 2], indecs=[], encs=[], outs=[3]),
              dict(kind='dec', id=5, rk=[4], rd=[], ri=[1, 2], callable=[4], logic=('invoke', 4, ((2, ('num', 10)),))),                       # {c1: null, c2: 10}
              dict(kind='dec', id=6, rk=[], rd=[], ri=[1], callable=[], logic=('add', ('var', 1), ('num', 1))),
              dict(kind='dec', id=7, rk=[], rd=[6], ri=[2], callable=[], logic=('ctx', ((2001, ('var', 6)), (2002, ('var', 2))), None)),
              dict(kind='svc', id=8, ins=[2], indecs=[6], encs=[], outs=[7]),
              dict(kind='dec', id=9, rk=[8], rd=[6], ri=[2], callable=[8], logic=('invoke', 8, ())),                                            # {c1: null, c2: null}
              dict(kind='dec', id=10, rk=[8], rd=[6], ri=[2], callable=[8],
                   logic=('ctx', ((2003, ('invoke', 8, ((2, ('var', 2)),))), (2004, ('invoke', 8, ((6, ('num', 7)), (2, ('num', 8))))),
                                  (2005, ('call', 8, (('var', 2),))), (2006, ('calln', 8, ((6, ('num', 7)),), (2, 6)))), None)),
              dict(kind='bkm', id=11, params=[1, 1002], body=('ctx', ((2001, ('var', 1)), (2002, ('var', 1002))), None), rk=[], callable=[]),
              dict(kind='dec', id=12, rk=[11], rd=[], ri=[1], callable=[],
                   logic=('ctx', ((2003, ('invoke', 11, ((1002, ('num', 5)),))), (2004, ('invoke', 11, ((1, ('num', 7)), (1002, ('num', 5))))),
                                  (2005, ('call', 11, (('num', 7),))), (2006, ('calln', 11, ((1002, ('num', 5)), (1, ('num', 7))), (1, 1002)))), None))])
    # boxed expressions of one kind in the positions of another: a boxed invocation whose binding formula is a boxed CONTEXT (with and without
    # a result entry) or another boxed invocation, as decision logic, as knowledge-model body and as the value of a context entry; the kind of the
    # outer expression must not be taken from what it contains (seeded change C04_g: the parser looked for a context among all descendants)
    inner = ('ctx', ((2001, ('var', 1)), (2002, ('mul', ('var', 1), ('num', 3)))), None)
    inner_res = ('ctx', ((2001, ('var', 1)),), ('add', ('var', 2001), ('num', 1)))
    W.append([dict(kind='input', id=1),
              dict(kind='bkm', id=2, params=[1001, 1002], body=('ctx', ((2003, ('var', 1001)), (2004, ('var', 1002))), None), rk=[], callable=[]),
              dict(kind='dec', id=3, rk=[2], rd=[], ri=[1], callable=[], logic=('invoke', 2, ((1001, inner), (1002, ('num', 2))))),
              dict(kind='dec', id=4, rk=[2], rd=[], ri=[1], callable=[], logic=('invoke', 2, ((1001, inner_res), (1002, ('invoke', 2, ((1001, ('num', 7)), (1002, inner))))))),
              dict(kind='bkm', id=5, params=[1001], body=('invoke', 2, ((1001, ('ctx', ((2005, ('var', 1001)),), None)), (1002, ('num', 9)))), rk=[2], callable=[]),
              dict(kind='dec', id=6, rk=[5, 2], rd=[], ri=[1], callable=[],
                   logic=('ctx', ((2006, ('invoke', 5, ((1001, inner),))), (2001, ('invoke', 2, ((1001, inner_res), (1002, ('var', 1))))), (2002, ('var', 2001))), None))])
    return W


def gen_invocation_graph(rng, size, cap):
    """a generated graph extended with invoking decisions: for one or two of its functions (decision services first, knowledge models)
    decisions (as many as fit below `cap` nodes) drawn from: one per subset class of the parameters - all bound, all but one (each
    choice), none - as a boxed invocation, a FEEL call with a missing trailing argument, a named call with a missing name; the invoking decision mostly requires the inputs /
    decisions the parameters are named after, so its own context has (other) values under the names of the unbound parameters"""
    for attempt in range(50):
        G = gen_graph(rng, size + attempt // 10)
        B = by_id(G)
        fns = [n['id'] for n in G if n['kind'] in ('svc', 'bkm') and fn_params(B, n['id'])]
        if any(B[f]['kind'] == 'svc' for f in fns):
            break
    first = 'svc' if rng.random() < 0.7 else 'bkm'           # mostly a decision service; else a knowledge model, one with a parameter named like an input if there is one
    if first == 'bkm' and not any(B[f]['kind'] == 'bkm' and any(x < 1000 for x in fn_params(B, f)) for f in fns):
        inputs = [n['id'] for n in G if n['kind'] == 'input']
        params = rng.choice([[rng.choice(inputs)], [rng.choice(inputs), 1002], [1001, rng.choice(inputs)], inputs[:2]])
        rk = rng.sample(fns, min(len(fns), rng.choice([0, 0, 1])))
        n = dict(kind='bkm', id=len(G) + 1, params=params, body=gen_logic(rng, params, [(f, fn_params(B, f)) for f in rk], B, depth=1), rk=rk, callable=kclosure(B, rk))
        G.append(n)
        B[n['id']] = n
        fns.append(n['id'])
    fns.sort(key=lambda f: (B[f]['kind'] != first, all(x >= 1000 for x in fn_params(B, f)), rng.random()))
    # (the graph stays below `cap` nodes: the fuel of `denote` is the number of nodes + 1 and evaluating it costs 2^fuel)
    for f in fns[:1]:
        ps = fn_params(B, f)
        uniq = sorted(set(ps))
        shapes = [('invoke', list(ps))] + [('invoke', [x for x in uniq if x != p]) for p in uniq] + [('invoke', [])]
        if len(uniq) > 2:
            shapes.append(('invoke', rng.sample(uniq, len(uniq) - 2)))
        drop = rng.choice(uniq)
        shapes += [('call', len(ps) - 1), ('calln', [x for x in uniq if x != drop])]
        rng.shuffle(shapes)
        for kind, arg in shapes:
            if len(G) >= cap:
                break
            ri, rd = [], []
            for x in uniq:
                if x < 1000 and rng.random() < 0.85:
                    (ri if B[x]['kind'] == 'input' else rd).append(x)
            others = [n['id'] for n in G if n['kind'] == 'input' and n['id'] not in ri]
            if others and rng.random() < 0.4:
                ri.append(rng.choice(others))
            names = ri + rd
            calls = [(f, ps)]
            val = lambda: gen_arith(rng, names, [], 1, B) if rng.random() < 0.6 else gen_lit(rng)
            if kind == 'invoke':
                bound = list(arg)
                rng.shuffle(bound)
                e = ('invoke', f, tuple((p, val()) for p in bound))
            elif kind == 'call':
                e = ('call', f, tuple(val() for _ in range(arg)))
            else:
                e = ('calln', f, tuple((p, val()) for p in arg) or ((1003, val()),), tuple(ps))
            q = rng.random()
            if q < 0.25:
                e = ('ctx', ((2001, e), (2002, gen_arith(rng, names + [2001], calls, 1, B))), None)      # the invocation as a context entry
            elif q < 0.35 and kind != 'invoke':
                e = ('add', e, gen_lit(rng))
            n = dict(kind='dec', id=len(G) + 1, logic=e, rk=[f], rd=rd, ri=ri, callable=kclosure(B, [f]), foreign=[])
            G.append(n)
            B[n['id']] = n
    return G


def sub_exprs(e):
    yield e
    k = e[0]
    if k in ('add', 'mul'):
        kids = [e[1], e[2]]
    elif k == 'call':
        kids = list(e[2])
    elif k in ('calln', 'invoke'):
        kids = [x for _, x in e[2]]
    elif k == 'ctx':
        kids = [x for _, x in e[1]] + ([e[2]] if e[2] is not None else [])
    elif k == 'rel':
        kids = [x for row in e[2] for x in row]
    else:
        kids = []
    for x in kids:
        for y in sub_exprs(x):
            yield y


def shapes_of(G):
    """the invocation shapes a graph contains (histogram keys)"""
    B = by_id(G)
    out = set()
    for n in G:
        if n['kind'] not in ('dec', 'bkm'):
            continue
        own = set(n['ri'] + n['rd']) if n['kind'] == 'dec' else set(n['params'])
        for e in sub_exprs(n['logic'] if n['kind'] == 'dec' else n['body']):
            if e[0] == 'invoke' and e[1] in B:
                what = 'decision service' if B[e[1]]['kind'] == 'svc' else 'knowledge model'
                ps, bound = set(fn_params(B, e[1])), set(p for p, _ in e[2])
                if ps <= bound:
                    out.add('graphs: boxed invocation of a %s, every parameter bound' % what)
                else:
                    out.add('graphs: boxed invocation of a %s, a parameter without binding' % what)
                    if not bound:
                        out.add('graphs: boxed invocation of a %s, no binding at all' % what)
                    if n['kind'] == 'dec' and (ps - bound) & own:
                        out.add('graphs: boxed invocation of a %s, the invoking decision requires an input / decision named like the unbound parameter' % what)
                if bound - ps:
                    out.add('graphs: boxed invocation with a binding that names no parameter')
            elif e[0] == 'call' and e[1] in B and len(e[2]) != len(fn_params(B, e[1])):
                out.add('graphs: FEEL call with %s arguments than parameters' % ('fewer' if len(e[2]) < len(fn_params(B, e[1])) else 'more'))
            elif e[0] == 'calln':
                out.add('graphs: FEEL call with named arguments, %s' % ('every parameter named' if set(e[3]) <= set(p for p, _ in e[2]) else 'a parameter not named'))
    return out


def order_of(G):
    return [n['id'] for n in G]          # generation order is a topological order


def input_sets(rng, G, B, n):
    """input contexts for invocable n: (label, entries dict name-number -> int|None, base index or None)"""
    cl = closure_names(B, n['id'])
    rel = sorted(x for x in cl if x >= 1000 or B[x]['kind'] == 'input' or (n['kind'] == 'svc' and x in n['indecs']))
    def val():
        r = rng.random()
        if r < 0.82:
            return rng.randint(1, 6)
        if r < 0.95:
            return rng.choice(BIGS)
        return rng.choice(STRS)             # a string for number-typed input data is null; a parameter / input decision keeps it
    full = {x: val() for x in rel}
    sets = [('full', full, None)]
    others = [m['id'] for m in G if m['id'] not in cl] + [3001, 3002, 1003, 2001]
    extra = dict(full)
    for x in rng.sample(others, min(len(others), 3)):
        extra[x] = rng.randint(7, 9)
    sets.append(('full+unrelated', extra, 0))
    if rel:
        part = dict(full)
        del part[rng.choice(rel)]
        sets.append(('partial', part, None))
        pe = dict(part)
        pe[3001] = 9
        sets.append(('partial+unrelated', pe, 2))
    sets.append(('empty', {}, None))
    ovr = [x for x in cl if x < 1000 and x != n['id'] and B[x]['kind'] == 'dec']
    if ovr:
        o = dict(full)
        o[rng.choice(ovr)] = rng.choice([50, 50, 10 ** 17, 'ab'])
        sets.append(('override', o, None))
    return sets


def ctx_text(d):
    return '{' + ', '.join('%s: %s' % (nm(k), 'null' if v is None else '"%s"' % v if isinstance(v, str) else str(v)) for k, v in sorted(d.items())) + '}'


def coq_env(d):
    return '[%s]' % '; '.join('(%d, %s)' % (k, 'VNull' if v is None else 'VStr %s' % coq_str(v) if isinstance(v, str) else 'vnum (%d)%%Z' % v)
                              for k, v in sorted(d.items()))


def numc(d):
    """canonical form of a number: the normalised exact decimal (numbers are compared by value: 1E+1 = 10, -0 = 0)"""
    d = Decimal(d)
    return ('n', '0' if d == 0 else str(d.normalize()))


def norm(j):
    if j is None:
        return None
    if isinstance(j, str):
        return ('s', j)
    if isinstance(j, list):
        return ('l', tuple(norm(x) for x in j))
    if isinstance(j, dict):
        if 'n' in j:
            try:
                d = Decimal(j['n'])
                if d.is_finite():
                    return numc(d)
            except Exception:
                pass
            return ('?', json.dumps(j))
        if 'c' in j:
            return ('c', tuple(sorted((kk, norm(x)) for kk, x in j['c'])))
        if 'f' in j:
            return ('f', j['f'])
    return ('?', json.dumps(j))


def features(x, out):
    """what a model value exercises: strings, numbers beyond 17 digits, numbers with a positive exponent (a rounded product / sum / literal)"""
    if isinstance(x, App):
        if x.name == 'VStr':
            out.add('value holds a string')
        elif x.name == 'VNum':
            d = x.args[0]
            if d['coef'] >= 10 ** 17:
                out.add('value holds a number of 18..34 digits')
            if d['expo'] > 0:
                out.add('value holds a number with exponent > 0 (rounded to 34 digits)')
            if d['neg']:
                out.add('value holds a negative number or -0')
        elif x.name == 'VList':
            for y in x.args[0]:
                features(y, out)
        elif x.name == 'VCtx':
            for _, y in x.args[0]:
                features(y, out)
    return out


def term_val(x):
    if isinstance(x, App):
        if x.name == 'VNull':
            return None
        if x.name == 'VNum':
            d = x.args[0]
            return numc(Decimal((1 if d['neg'] else 0, tuple(int(c) for c in str(d['coef'])), d['expo'])))
        if x.name == 'VStr':
            return ('s', ''.join(chr(c) for c in x.args[0]))
        if x.name == 'VList':
            return ('l', tuple(term_val(y) for y in x.args[0]))
        if x.name == 'VCtx':
            return ('c', tuple(sorted((nm(kk), term_val(y)) for kk, y in x.args[0])))
        if x.name in ('VBkm', 'VSvc'):
            return ('f', len(x.args[0] if x.name == 'VBkm' else x.args[1]))
    return ('?', repr(x))


def run_graphs(ctx, graphs, tag='g'):
    rng = ctx.rng
    reqs, index, defs, terms = [], [], [], []
    for gi, G in enumerate(graphs):
        B = by_id(G)
        calls, idx = [], []
        # in a third of the models some decision elements are named differently from their variables: a decision is invoked by its element name,
        # everything that reads its value (requiring decisions, service outputs) goes by the variable
        elname = {n['id']: 'E' + nm(n['id']) for n in G if n['kind'] == 'dec' and rng.random() < 0.5} if rng.random() < 0.33 else {}
        # in a quarter of the models some knowledge models have two-word names, written in the document with other white space than the one blank of
        # the normal form that the logic texts use (seeded change C04_j: the function was bound under the spelling of the document)
        RENAME.clear()
        if rng.random() < 0.25:
            RENAME.update({n['id']: 'k n%d' % n['id'] for n in G if n['kind'] == 'bkm' and rng.random() < 0.6})
        for n in G:
            if n['kind'] == 'input':
                continue
            for label, d, base in input_sets(rng, G, B, n):
                calls.append([elname.get(n['id'], nm(n['id'])), ctx_text(d)])
                idx.append((n['id'], label, d, base))
        reqs.append({'xml': xml_of(G, rng, elname), 'calls': calls})
        RENAME.clear()
        index.append(idx)
        order = order_of(G)
        fuel = len(G) + 1
        # one self-contained term per graph: (topo_ok, callable_ok && fuel certificate, closure names, [(impl_invoke, denote) per call]);
        # graph_fuel_auto: the static bound of C04_graph_fuel_sufficient / C04_fuel_sufficient_all holds for this graph
        terms.append('(let G := %s in let O := %s in (topo_ok G O, (callable_ok G, graph_fuel_auto G O), map (fun id => (id, closure_names G O id)) O, [%s]))'
                     % (coq_graph(G), nl(order), '; '.join('(impl_invoke teval true G %d %d %s, denote teval G %d %s)' % (fuel, i, coq_env(d), i, coq_env(d))
                                                           for (i, label, d, base) in idx)))
    impl = ctx.run_impl('model', reqs, shards=16)
    model = ctx.run_model(HEADER, terms, shard_size=max(10, len(terms) // 16 + 1), tag='%s%d' % (tag, os.getpid()))
    out = []
    for gi, G in enumerate(graphs):
        topo, cok, cl, vals = model[gi]
        head = (topo, cok, cl)
        ans = impl[gi]
        ok = isinstance(ans, dict) and ans.get('build') == 'ok' and len(ans.get('results', [])) == len(index[gi])
        rows = []
        for ci, (i, label, d, base) in enumerate(index[gi]):
            rows.append({'id': i, 'label': label, 'input': d, 'base': base, 'call': reqs[gi]['calls'][ci],
                         'impl': ans['results'][ci] if ok else {'load': ans if not isinstance(ans, dict) else {k: ans.get(k) for k in ('parse', 'build', 'build_msg', 'parse_msg', 'crash', 'panic')}},
                         'model': vals[ci]})
        out.append({'G': G, 'xml': reqs[gi]['xml'], 'head': head, 'rows': rows})
    return out


def describe(G):
    return [coq_node(n) for n in G]


def judge(ctx, res, stats):
    for g in res:
        G = g['G']
        B = by_id(G)
        topo, (cok, fuel_ok), cl = g['head']
        cl = dict(cl)
        stats['graphs: fuel certified (graph_fuel_auto)' if fuel_ok else 'graphs: fuel NOT certified by the static bound'] = \
            stats.get('graphs: fuel certified (graph_fuel_auto)' if fuel_ok else 'graphs: fuel NOT certified by the static bound', 0) + 1
        if not topo or not cok:
            ctx.broken.append('generator: graph is not topologically ordered / callable sets are not the knowledge closure: %s' % describe(G))
            continue
        kinds = set(n['kind'] for n in G)
        shape = ('svc' in kinds, 'bkm' in kinds, any(n['kind'] == 'dec' and n['logic'][0] in BOXED for n in G))
        # rows of one invocable share a base for the non-interference law
        start = {}
        for ri, row in enumerate(g['rows']):
            start.setdefault(row['id'], ri)
        for ri, row in enumerate(g['rows']):
            ctx.evaluations += 1
            n = B[row['id']]
            case = {'invocable': row['call'][0], 'input': row['call'][1], 'kind': n['kind'], 'node': coq_node(n), 'graph': describe(G), 'xml': g['xml']}
            if 'v' not in row['impl']:
                ctx.violation('loading or invoking a generated model failed: %s' % json.dumps(row['impl'])[:300], case, impl=row['impl'])
                break
            got = norm(row['impl']['v'])
            im, sp = term_val(row['model'][0]), term_val(row['model'][1])
            stats[n['kind']] = stats.get(n['kind'], 0) + 1
            for ft in features(row['model'][1], set()):
                stats[ft] = stats.get(ft, 0) + 1
            stats['in:' + row['label']] = stats.get('in:' + row['label'], 0) + 1
            if got is not None:
                ctx.nontrivial.add((id(g), row['id'], row['label']))
            ctx.corr_checked += 1
            # non-interference, on the implementation's own outputs
            if row['base'] is not None:
                brow = g['rows'][start[row['id']] + row['base']]
                diff = [k for k in set(row['input']) ^ set(brow['input'])] + [k for k in set(row['input']) & set(brow['input']) if row['input'][k] != brow['input'][k]]
                if all(k not in cl.get(row['id'], []) for k in diff) and 'v' in brow['impl'] and norm(brow['impl']['v']) != got:
                    ctx.violation('input entries outside the requirement closure change the result of %s: %s gives %s, %s gives %s'
                                  % (row['call'][0], brow['call'][1], json.dumps(brow['impl']['v']), row['call'][1], json.dumps(row['impl']['v'])), case, impl=row['impl'], model={'base': brow['impl']})
                    continue
            if got == sp:
                if got != im:
                    ctx.corr_broken('run (recursive wiring)', case, row['impl']['v'], repr(im))
                continue
            ctx.violation('%s %s invoked with %s returns %s; its logic evaluated over its requirement graph gives %s'
                          % (n['kind'], row['call'][0], row['call'][1], json.dumps(row['impl']['v']), repr(sp)), case, impl=row['impl'], model={'spec': repr(sp), 'impl_model': repr(im)})
    return stats


def typed_service_witness(ctx):
    """Typed variables (the generated graphs are untyped): a decision service whose own variable, output decision and input decision have DIFFERENT declared
    types, called as a FEEL function (the arguments of a FEEL call are coerced to the declared types of the formal parameters) and by a boxed invocation.
    Each parameter of the service carries the type of the input decision / input data it stands for, so a conforming argument arrives unchanged and the
    service computes its output decision over it (seeded change C04_i: the parameter of an input decision was given the type of the service's variable)."""
    xml = (XHEAD +
           '<inputData name="pts" id="i1"><variable name="pts" typeRef="number"/></inputData>'
           '<inputData name="tag" id="i2"><variable name="tag" typeRef="string"/></inputData>'
           '<decision name="score" id="d1"><variable name="score" typeRef="number"/><informationRequirement><requiredInput href="#i1"/></informationRequirement>'
           '<literalExpression><text>pts * 2</text></literalExpression></decision>'
           '<decision name="grade" id="d2"><variable name="grade" typeRef="string"/><informationRequirement><requiredDecision href="#d1"/></informationRequirement>'
           '<literalExpression><text>if score >= 50 then "pass" else "fail"</text></literalExpression></decision>'
           '<decisionService name="grading" id="s1"><variable name="grading" typeRef="string"/><outputDecision href="#d2"/><inputDecision href="#d1"/></decisionService>'
           '<decision name="word" id="d3"><variable name="word" typeRef="string"/><informationRequirement><requiredInput href="#i2"/></informationRequirement>'
           '<literalExpression><text>tag + "!"</text></literalExpression></decision>'
           '<decision name="size" id="d4"><variable name="size" typeRef="number"/><informationRequirement><requiredDecision href="#d3"/></informationRequirement>'
           '<informationRequirement><requiredInput href="#i1"/></informationRequirement><literalExpression><text>string length(word) + pts</text></literalExpression></decision>'
           '<decisionService name="sizing" id="s2"><variable name="sizing" typeRef="number"/><outputDecision href="#d4"/><inputDecision href="#d3"/><inputData href="#i1"/></decisionService>'
           '<decision name="report" id="d5"><variable name="report" typeRef="string"/><informationRequirement><requiredInput href="#i1"/></informationRequirement>'
           '<knowledgeRequirement><requiredKnowledge href="#s1"/></knowledgeRequirement><literalExpression><text>"r: " + grading(pts + 10)</text></literalExpression></decision>'
           '<decision name="boxed" id="d6"><variable name="boxed" typeRef="string"/><informationRequirement><requiredInput href="#i1"/></informationRequirement>'
           '<knowledgeRequirement><requiredKnowledge href="#s1"/></knowledgeRequirement><invocation><literalExpression><text>grading</text></literalExpression>'
           '<binding><parameter name="score"/><literalExpression><text>pts + 10</text></literalExpression></binding></invocation></decision>'
           '<decision name="measure" id="d7"><variable name="measure" typeRef="number"/><informationRequirement><requiredInput href="#i1"/></informationRequirement>'
           '<informationRequirement><requiredInput href="#i2"/></informationRequirement><knowledgeRequirement><requiredKnowledge href="#s2"/></knowledgeRequirement>'
           '<literalExpression><text>sizing(pts + 1, tag + tag) * 10</text></literalExpression></decision>'
           '<decision name="named" id="d8"><variable name="named" typeRef="number"/><informationRequirement><requiredInput href="#i1"/></informationRequirement>'
           '<informationRequirement><requiredInput href="#i2"/></informationRequirement><knowledgeRequirement><requiredKnowledge href="#s2"/></knowledgeRequirement>'
           '<literalExpression><text>sizing(word: tag, pts: 100) + pts</text></literalExpression></decision></definitions>')
    calls, want = [], []
    for pts, tag in ((5, 'ab'), (40, 'xyz'), (45, ''), (90, 'q')):
        c = '{pts: %d, tag: "%s"}' % (pts, tag)
        g = lambda sc: 'pass' if sc >= 50 else 'fail'
        for name, w in (('report', ('s', 'r: ' + g(pts + 10))), ('boxed', ('s', g(pts + 10))), ('measure', numc((len(tag + tag) + pts + 1) * 10)), ('named', numc(len(tag) + 100 + pts)),
                        ('grade', ('s', g(pts * 2))), ('size', numc(len(tag) + 1 + pts))):
            calls.append([name, c])
            want.append(w)
    ans = ctx.run_impl('model', [{'xml': xml, 'calls': calls}])[0]
    if not isinstance(ans, dict) or ans.get('build') != 'ok' or len(ans.get('results', [])) != len(calls):
        ctx.violation('the typed-service witness model was not built / evaluated: %s' % json.dumps(ans)[:300], {'xml': xml})
        return
    for call, r, w in zip(calls, ans['results'], want):
        ctx.evaluations += 1
        ctx.corr_checked += 1
        got = norm(r.get('v')) if 'v' in r else ('?', json.dumps(r))
        if got != w:
            ctx.violation('decision %s invoked with %s returns %s; its logic evaluated over its requirement graph (typed decision services called as functions) gives %s'
                          % (call[0], call[1], json.dumps(r)[:200], repr(w)), {'invocable': call[0], 'input': call[1], 'xml': xml}, impl=r, model=repr(w))


def run(ctx):
    ctx.proof_gate()
    ctx.build_harness()
    rng = ctx.rng
    graphs = witness_graphs()
    for _ in range(ctx.pick(230, 2300)):
        graphs.append(gen_graph(rng, rng.randint(4, ctx.pick(10, 14))))
    for _ in range(ctx.pick(90, 800)):
        graphs.append(gen_invocation_graph(rng, rng.randint(5, ctx.pick(7, 9)), ctx.pick(12, 14)))
    stats = {}
    res = run_graphs(ctx, graphs)
    judge(ctx, res, stats)
    for g in res[:3]:
        ctx.sample({'graph': describe(g['G']), 'calls': [[r['call'], r['impl']] for r in g['rows'][:4]]})
    sizes = {}
    for G in graphs:
        sizes[len(G)] = sizes.get(len(G), 0) + 1
        for key in shapes_of(G):
            stats[key] = stats.get(key, 0) + 1
        src = repr([n.get('logic') or n.get('body') for n in G])
        for key, hit in (('graphs: a knowledge model with a repeated formal parameter name', any(n['kind'] == 'bkm' and len(set(n['params'])) < len(n['params']) for n in G)),
                         ('graphs: string literal in a logic', "('str'," in src),
                         ('graphs: literal of 17+ digits in a logic', re.search(r"\('num', \d{17,}\)", src) is not None),
                         ('graphs: literal of 35+ digits in a logic (rounded when read)', re.search(r"\('num', \d{35,}\)", src) is not None)):
            if hit:
                stats[key] = stats.get(key, 0) + 1
    typed_service_witness(ctx)
    return ctx.finish(
        rule='acyclic DRGs of 4..%d nodes generated node by node (each node requires earlier nodes): number-typed inputs; decisions with literal, boxed context (entries seeing earlier entries, '
             'optional result entry, nested boxed values), boxed invocation and relation logic; knowledge models with 1-3 parameters (18 %% of them with a repeated parameter name) invoked by f(x) and by '
             'boxed invocation, requiring knowledge models and decision services, 32 %% of them with a parameter named like an input data; decision services with input / encapsulated / output decisions '
             '(one or two outputs) required as functions; every required function (knowledge model or service) is invoked by FEEL calls - one argument per parameter, missing trailing arguments (null), one argument too many, '
             'NAMED arguments with every parameter named / a parameter not named (null) / a name that is no parameter - and by boxed invocations whose bindings are a subset of the parameters: all (40 %%), all but one '
             '(preferably one the invoker has in its own context), none, a random subset, sometimes a binding that names no parameter; 60 %% of the decisions with knowledge requirements also require the inputs / decisions '
             'their functions\' parameters are named after; %d further graphs (of at most %d nodes: denote costs 2^nodes) add to a generated graph one invoking decision per shape for one function (70 %% a service): '
             'boxed invocation with all / all but one (each) / none of the parameters bound, FEEL call without the last argument, named call without one name, the invoker requiring 85 %% of the inputs / decisions named like '
             'the parameters, bound values being other expressions / literals, a quarter of the invocations as a boxed context entry; literals: '
             'integers 0..5, -1..-3, numbers around 10^17 / 10^33 / 10^34 and literals of 35 and 38 digits, strings (6 texts, the empty one and a non-ASCII one among them); + and * over them and over '
             'names, 8 %% of the operators a + between string-valued operands; every invocable is invoked with: all relevant inputs (values 1..6, 13 %% numbers of 17..38 digits, 5 %% strings), '
             'the same plus entries named like nodes outside its requirement closure or fresh names (non-interference, judged on the implementation alone), a partial input, the empty input, and an '
             'input that names a required decision; plus hand-written witnesses (context entry leak, service required by a knowledge model, diamond through a service, string + string and its null mixes, '
             'formal parameters (p1, p1) called positionally and by boxed invocation, a * a + 1 at a = 10^17, -3 * 0, boxed invocation of a service leaving out an input data / an input decision the invoker requires itself, '
             'the same for a knowledge model with a parameter named like an input). numbers are compared by value at every size (no case is skipped). '
             'non-trivial = non-null result' % (ctx.pick(10, 14), ctx.pick(90, 800), ctx.pick(12, 14)),
        extra_cov={'exhaustive': False, 'graphs': len(graphs), 'graph_sizes': sizes, 'histogram': stats},
        assumptions=['logic is drawn from the modelled expression language (integer literals of any length, string literals, + *, names, calls, boxed context / invocation / relation); '
                     'a FEEL call with named arguments is not a constructor of the Coq expression language: the check translates it into the positional call (every formal parameter named) or into null '
                     '(a formal parameter not named), as eval_function_named does, and the model evaluates the translation; '
                     'a name the logic does not require is written in parentheses (unparenthesised, the lexer reads `zz1 + 3` with an unknown zz1 as the single name "zz1+3": C10)',
                     'element and variable names are unique within a model (formal parameter names of a knowledge model may repeat and may be the name of an input data); input data are number-typed (a string supplied for them is null); output variables and formal parameters are untyped',
                     'interpretive choice: an input entry named like a required decision or knowledge model replaces its value (FeelContext::overwrite; this is how a decision service hands its input decisions to the encapsulated decisions); '
                     'the input decisions of a service are parameters: their values are taken from the input context, null when absent',
                     'a logic may call the decision services of its knowledge requirement closure (callable_ok checks the annotation on every generated graph)'],
        trusted=['FEEL parsing and evaluation of the generated literal expressions (abstracted by the tiny evaluator teval: sampled here; proved equal to the FEEL evaluator model of C01 on the shared fragment, C04_teval_is_feel_eval)',
                 'decimal128 + and * as specified in coq/Base/DecRound.v (C02 ties them to the code)'])


def replay(ctx, path):
    obj = json.load(open(path))
    c = obj.get('case')
    if not c or 'xml' not in c:
        print(json.dumps(obj, indent=1)[:3000])
        return 1
    ctx.build_harness()
    ans = ctx.run_impl('model', [{'xml': c['xml'], 'calls': [[c['invocable'], c['input']]]}])[0]
    print('graph         :')
    for l in c.get('graph', []):
        print('   ', l)
    print('invocable     :', c['invocable'], ' input:', c['input'])
    print('implementation:', json.dumps(ans)[:600])
    print('recorded      :', json.dumps(obj.get('impl')), ' expected:', json.dumps(obj.get('model')))
    print('what          :', obj.get('what'))
    same = isinstance(ans, dict) and ans.get('results') and ans['results'][0] == obj.get('impl')
    print('REPRODUCED' if same else 'not reproduced (the implementation now answers differently)')
    return 1 if same else 0


MANIFEST = dict(
    technique='Coq proof (the recursive closure wiring computes an independent denotational Spec written as a value-by-recursion over the acyclic graph with priority-list environments; fuel sufficiency with the answer at exhaustion as a parameter; non-interference; over an abstract expression evaluator, instantiated with the evaluator of the check) with model/code correspondence on generated DRGs',
    text='Theorems (coq/Props/C04.v, 33, closed under the global context). INDEPENDENT SPEC (coq/C04/Denote.v): denote eval G id inp, a value by recursion over the acyclic requirement graph (fuel = number of nodes + 1; C04_denote_fuel_irrelevant), written without the closure body / run / zip / overwrite: a decision denotes the value of its logic in an environment given as a priority list read by lookup - supplied entries named like a required decision or knowledge function, then required decisions bound to what THEY denote, required services as function values, knowledge models and transitively their knowledge requirements (dynamic scoping), required inputs bound to the supplied number-typed value, nothing else (C04_denote_decision, C04_denote_scope); a decision service denotes the value(s) of its output decisions on {input data, input decisions: supplied values} (input decisions are parameters, never evaluated: decision_service.rs after 6a3e4f8, mirrored by the ImplModel). C04_impl_is_denotation: for EVERY acyclic graph (inputs, decisions, knowledge models requiring knowledge models and services, services with input/encapsulated/output decisions), every element, every input context and every fuel >= |order|, the ImplModel of the closures of decision.rs / business_knowledge_model.rs / decision_service.rs (phases, set_entry / zip / overwrite, evaluation order) equals denote, over ANY evaluator that uses its service call-back extensionally and reads its scope by look-up (teval does: C04_teval_ext, C04_teval_reads_by_lookup; instance C04_impl_is_denotation_teval). The theorem fails for the pinned variant: C04_orig_is_not_denotation (the witness of C04_knowledge_service_orig_refuted, denote = 20, orig = null). C04_denote_irrelevant_inputs / C04_irrelevant_inputs: entries outside the requirement closure have no influence. FUEL: run answers `out` and the tiny evaluator null when fuel is used up; with that answer as a parameter (run_d, tev_d) C04_run_fuel_sufficient (more fuel than nodes), C04_tev_fuel_sufficient (ranked scope: need e = depth + call level * body depth), C04_graph_fuel_sufficient and C04_fuel_sufficient_all (graph_fuel_ok + first-order inputs: ImplModel with ANY exhaustion answer of the closures = denotation with ANY exhaustion answer of the evaluator) show no exhaustion answer reaches a result; the check evaluates graph_fuel_auto for every generated graph (all certified). The older theorems C04_refines, C04_invoke_refines, C04_fuel_sufficient, C04_diamond_agree, C04_spec_fixpoint, C04_decision_scope / _sees, C04_service_outputs relate run to spec_step, which tabulates the SAME closure body: they say that recursion scheme, fuel and requesting path do not matter (also for the defective variant), not that the wiring is right. The tiny evaluator is tied to the FEEL evaluator model of C01 (C04_teval_is_feel_eval, coq/C04/LinkC01.v): on null, numbers, strings, names, + *, literal invocation of knowledge-model function values and boxed contexts with or without result entry it EQUALS C01 eval_spec and the scope-stack machine run_impl on the translated expression and environment, whenever the evaluation stays in that fragment within 60 levels (C04_teval_feel_corners: "a"+"b" = "ab", f(1,2) with parameters (x,x) = 2, a*a+1 at a = 10^17 = 1E+34, -3*0 = -0 in teval, in C01 and in the real code). Tied to the code by generated DMN documents (literal, boxed context, boxed invocation, relation logic; BKMs invoked literally and boxed, some with repeated parameter names; services as functions, one whose input decision requires and invokes it; knowledge models and services invoked by boxed invocations with every subset of the parameters bound from decisions that have entries named like the unbound parameters, FEEL calls with missing trailing / named arguments; string operands; numbers up to 38 digits, compared by value at every size) evaluated through evaluate_invocable and compared with denote teval (and impl_invoke teval); non-interference is also judged on the implementation alone.',
    note='Trusted: Coq kernel + vm_compute, hand-written model of the wiring (correspondence-checked, not verified), the tiny evaluator standing for the FEEL evaluator on the generated expression fragment, harness. Interpretive choices listed in the evidence (input entries named like a required decision override it; service input decisions are parameters). Decision tables and boxed function definitions as logic are not generated (C03 / C01). The fuel bound does not cover knowledge models that call each other through the dynamic scope of a common caller (acyclic requirements, endless evaluation): not generated.')
