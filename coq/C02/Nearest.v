(* C02/Nearest.v — facts about the predicate of C02/Exact.v:
   1. the comparison pt_cmp is a cut: it can be read at any common scale, it is monotone in the point, strictly so;
   2. UNIQUENESS: for a given exact value x the exponent q (quantum), the rounded coefficient c (nearest_even), hence the value of a
      correctly rounded result, are determined (rounds_to_unique, correctly_rounded_unique);
   3. the rounding step round34 is correctly rounded for EVERY m, e (round34_correctly_rounded), from the value lemmas of C02/Proofs.v
      and C02/Format.v;
   4. the sticky-digit transfer: if x and x' compare alike with every decimal point that is a multiple of 10^(E+1) and x' has at least
      35 digits above 10^E, then a correct rounding of x' is a correct rounding of x (used for division and square root). *)
From Coq Require Import ZArith NArith Bool List Lia.
From DV Require Import Base.Dec Base.DecFacts Base.DecRound C02.Model C02.Proofs C02.Sqrt C02.Format C02.Exact.
Open Scope Z_scope.

(* ---------------------------------------------------------------- 1. pt_cmp at a common scale *)
Lemma cmp_scale : forall a b T, 0 < T -> Z.compare (a * T) (b * T) = Z.compare a b.
Proof. intros a b T HT. symmetry. apply Zmult_compare_compat_r. lia. Qed.

Lemma pow10_pos : forall k, 0 <= k -> 0 < 10 ^ k.
Proof. intros k Hk. apply Z.pow_pos_nonneg; lia. Qed.

Lemma pow10_cut : forall a b, 0 <= b <= a -> 10 ^ a = 10 ^ (a - b) * 10 ^ b.
Proof. intros a b H. rewrite <- Z.pow_add_r by lia. f_equal. lia. Qed.

Lemma pt_cmp_quot_at : forall X Y e n k B, (0 < Y)%N -> B <= k -> B <= e ->
  pt_cmp n k (Quot X Y e) = Z.compare (n * Z.of_N Y * 10 ^ (k - B)) (Z.of_N X * 10 ^ (e - B)).
Proof.
  intros X Y e n k B HY Hk He. unfold pt_cmp. destruct (n <? 0) eqn:En.
  - apply Z.ltb_lt in En. symmetry. apply Z.compare_lt_iff.
    pose proof (pow10_pos (k - B) ltac:(lia)). pose proof (pow10_pos (e - B) ltac:(lia)).
    assert (n * Z.of_N Y < 0) by nia. assert (0 <= Z.of_N X * 10 ^ (e - B)) by nia. nia.
  - cbv zeta. set (m := Z.min k e). assert (Hm : B <= m /\ m <= k /\ m <= e) by (unfold m; lia).
    rewrite (pow10_cut (k - B) (m - B)), (pow10_cut (e - B) (m - B)) by lia.
    replace (k - B - (m - B)) with (k - m) by lia. replace (e - B - (m - B)) with (e - m) by lia.
    rewrite !Z.mul_assoc. symmetry. apply cmp_scale. apply pow10_pos. lia.
Qed.

Lemma pt_cmp_root_at : forall X e n k B, 0 <= n -> B <= k -> 2 * B <= e ->
  pt_cmp n k (Root X e) = Z.compare ((n * 10 ^ (k - B)) ^ 2) (Z.of_N X * 10 ^ (e - 2 * B)).
Proof.
  intros X e n k B Hn Hk He. unfold pt_cmp. assert (n <? 0 = false) as -> by (apply Z.ltb_ge; lia).
  cbv zeta. set (m := Z.min (2 * k) e). assert (Hm : 2 * B <= m /\ m <= 2 * k /\ m <= e) by (unfold m; lia).
  assert (E1 : (n * 10 ^ (k - B)) ^ 2 = n ^ 2 * 10 ^ (2 * k - m) * 10 ^ (m - 2 * B)).
  { rewrite <- Z.mul_assoc, <- Z.pow_add_r by lia. replace (2 * k - m + (m - 2 * B)) with ((k - B) + (k - B)) by lia.
    rewrite Z.pow_add_r by lia. rewrite !Z.pow_2_r. ring. }
  rewrite E1, (pow10_cut (e - 2 * B) (m - 2 * B)) by lia. replace (e - 2 * B - (m - 2 * B)) with (e - m) by lia.
  rewrite !Z.mul_assoc. symmetry. apply cmp_scale. apply pow10_pos. lia.
Qed.

(* a negative point lies below x *)
Lemma pt_cmp_neg : forall n k x, n < 0 -> pt_cmp n k x = Lt.
Proof. intros n k x H. unfold pt_cmp. apply Z.ltb_lt in H. rewrite H. reflexivity. Qed.

(* strict monotonicity: P1 < P2 (compared at a common scale B) and x <= P1 give x < P2 *)
Lemma pt_cmp_lt : forall x n1 k1 n2 k2 B, exact_wf x -> B <= k1 -> B <= k2 ->
  n1 * 10 ^ (k1 - B) < n2 * 10 ^ (k2 - B) -> pt_cmp n1 k1 x <> Lt -> pt_cmp n2 k2 x = Gt.
Proof.
  intros x n1 k1 n2 k2 B Hwf H1 H2 Hlt Hc.
  destruct (Z.lt_ge_cases n1 0) as [N1|N1]; [exfalso; apply Hc; apply pt_cmp_neg; exact N1|].
  pose proof (pow10_pos (k1 - B) ltac:(lia)) as P1. pose proof (pow10_pos (k2 - B) ltac:(lia)) as P2.
  assert (N2 : 0 < n2) by nia.
  destruct x as [X Y e|X e]; cbn [exact_wf] in Hwf.
  - set (B0 := Z.min B e). assert (HB0 : B0 <= B /\ B0 <= e) by (unfold B0; lia).
    rewrite (pt_cmp_quot_at X Y e n1 k1 B0) in Hc by lia. rewrite (pt_cmp_quot_at X Y e n2 k2 B0) by lia.
    rewrite (pow10_cut (k1 - B0) (B - B0)) in Hc by lia. rewrite (pow10_cut (k2 - B0) (B - B0)) by lia.
    replace (k1 - B0 - (B - B0)) with (k1 - B) in Hc by lia. replace (k2 - B0 - (B - B0)) with (k2 - B) by lia.
    pose proof (pow10_pos (B - B0) ltac:(lia)) as PT.
    set (a1 := n1 * 10 ^ (k1 - B)) in *. set (a2 := n2 * 10 ^ (k2 - B)) in *. set (T := 10 ^ (B - B0)) in *.
    set (V := Z.of_N X * 10 ^ (e - B0)) in *. set (y := Z.of_N Y) in *. assert (Hy : 0 < y) by (unfold y; lia).
    replace (n1 * y * (10 ^ (k1 - B) * T)) with (a1 * (y * T)) in Hc by (unfold a1; ring).
    replace (n2 * y * (10 ^ (k2 - B) * T)) with (a2 * (y * T)) by (unfold a2; ring).
    assert (HyT : 0 < y * T) by nia. clearbody a1 a2 V. set (w := y * T) in *. clearbody w.
    apply Z.compare_gt_iff. destruct (Z.compare_spec (a1 * w) V) as [E|L|G]; [nia|exfalso; apply Hc; reflexivity|nia].
  - set (B0 := Z.min B (e / 2)). pose proof (Z.div_mod e 2 ltac:(lia)) as DM. pose proof (Z.mod_pos_bound e 2 ltac:(lia)) as MB.
    assert (HB0 : B0 <= B /\ 2 * B0 <= e) by (unfold B0; lia).
    rewrite (pt_cmp_root_at X e n1 k1 B0) in Hc by lia. rewrite (pt_cmp_root_at X e n2 k2 B0) by lia.
    rewrite (pow10_cut (k1 - B0) (B - B0)) in Hc by lia. rewrite (pow10_cut (k2 - B0) (B - B0)) by lia.
    replace (k1 - B0 - (B - B0)) with (k1 - B) in Hc by lia. replace (k2 - B0 - (B - B0)) with (k2 - B) by lia.
    pose proof (pow10_pos (B - B0) ltac:(lia)) as PT.
    set (a1 := n1 * 10 ^ (k1 - B)) in *. set (a2 := n2 * 10 ^ (k2 - B)) in *. set (T := 10 ^ (B - B0)) in *.
    set (V := Z.of_N X * 10 ^ (e - 2 * B0)) in *.
    replace (n1 * (10 ^ (k1 - B) * T)) with (a1 * T) in Hc by (unfold a1; ring).
    replace (n2 * (10 ^ (k2 - B) * T)) with (a2 * T) by (unfold a2; ring).
    assert (Ha1 : 0 <= a1) by (unfold a1; nia). clearbody a1 a2 V T.
    rewrite Z.pow_2_r in *. apply Z.compare_gt_iff.
    assert (a1 * T < a2 * T) by nia. assert (0 <= a1 * T) by nia.
    destruct (Z.compare_spec (a1 * T * (a1 * T)) V) as [E|L|G]; [nia|exfalso; apply Hc; reflexivity|nia].
Qed.

(* equal points compare alike *)
Lemma pt_cmp_eqv : forall x n1 k1 n2 k2 B, exact_wf x -> B <= k1 -> B <= k2 ->
  n1 * 10 ^ (k1 - B) = n2 * 10 ^ (k2 - B) -> pt_cmp n1 k1 x = pt_cmp n2 k2 x.
Proof.
  intros x n1 k1 n2 k2 B Hwf H1 H2 Heq.
  pose proof (pow10_pos (k1 - B) ltac:(lia)) as P1. pose proof (pow10_pos (k2 - B) ltac:(lia)) as P2.
  destruct (Z.lt_ge_cases n1 0) as [N1|N1].
  { assert (n2 < 0) by nia. rewrite !pt_cmp_neg by lia. reflexivity. }
  assert (N2 : 0 <= n2) by nia.
  destruct x as [X Y e|X e]; cbn [exact_wf] in Hwf.
  - set (B0 := Z.min B e). assert (HB0 : B0 <= B /\ B0 <= e) by (unfold B0; lia).
    rewrite (pt_cmp_quot_at X Y e n1 k1 B0), (pt_cmp_quot_at X Y e n2 k2 B0) by lia.
    rewrite (pow10_cut (k1 - B0) (B - B0)), (pow10_cut (k2 - B0) (B - B0)) by lia.
    replace (k1 - B0 - (B - B0)) with (k1 - B) by lia. replace (k2 - B0 - (B - B0)) with (k2 - B) by lia.
    f_equal. replace (n1 * Z.of_N Y * (10 ^ (k1 - B) * 10 ^ (B - B0))) with (n1 * 10 ^ (k1 - B) * (Z.of_N Y * 10 ^ (B - B0))) by ring.
    rewrite Heq. ring.
  - set (B0 := Z.min B (e / 2)). pose proof (Z.div_mod e 2 ltac:(lia)) as DM. pose proof (Z.mod_pos_bound e 2 ltac:(lia)) as MB.
    assert (HB0 : B0 <= B /\ 2 * B0 <= e) by (unfold B0; lia).
    rewrite (pt_cmp_root_at X e n1 k1 B0), (pt_cmp_root_at X e n2 k2 B0) by lia.
    rewrite (pow10_cut (k1 - B0) (B - B0)), (pow10_cut (k2 - B0) (B - B0)) by lia.
    replace (k1 - B0 - (B - B0)) with (k1 - B) by lia. replace (k2 - B0 - (B - B0)) with (k2 - B) by lia.
    f_equal. rewrite !Z.mul_assoc, Heq. reflexivity.
Qed.

(* monotonicity, the four readings: P1 <= P2 *)
Lemma pt_cmp_mono : forall x n1 k1 n2 k2 B, exact_wf x -> B <= k1 -> B <= k2 ->
  n1 * 10 ^ (k1 - B) <= n2 * 10 ^ (k2 - B) ->
  (pt_cmp n1 k1 x = Gt -> pt_cmp n2 k2 x = Gt) /\ (pt_cmp n1 k1 x <> Lt -> pt_cmp n2 k2 x <> Lt) /\
  (pt_cmp n2 k2 x <> Gt -> pt_cmp n1 k1 x <> Gt) /\ (pt_cmp n2 k2 x = Lt -> pt_cmp n1 k1 x = Lt).
Proof.
  intros x n1 k1 n2 k2 B Hwf H1 H2 Hle.
  destruct (Z.eq_dec (n1 * 10 ^ (k1 - B)) (n2 * 10 ^ (k2 - B))) as [E|NE].
  - rewrite (pt_cmp_eqv x n1 k1 n2 k2 B Hwf H1 H2 E). tauto.
  - assert (L : n1 * 10 ^ (k1 - B) < n2 * 10 ^ (k2 - B)) by lia.
    pose proof (pt_cmp_lt x n1 k1 n2 k2 B Hwf H1 H2 L) as S.
    destruct (pt_cmp n1 k1 x) eqn:C1; destruct (pt_cmp n2 k2 x) eqn:C2;
      repeat split; try congruence; intros; try (assert (Lt = Gt \/ Eq = Gt) as [?|?] by (left; apply S; congruence); congruence);
      try (exfalso; assert (Q : Eq <> Lt) by congruence; specialize (S Q); congruence);
      try (exfalso; assert (Q : Gt <> Lt) by congruence; specialize (S Q); congruence).
Qed.

(* ---------------------------------------------------------------- 2. uniqueness *)
Lemma quantum_le : forall x q1 q2, exact_wf x -> quantum x q1 -> quantum x q2 -> q2 <= q1.
Proof.
  intros x q1 q2 Hwf (A1 & A2 & A3) (B1 & B2 & B3). destruct (Z.le_gt_cases q2 q1) as [L|G]; [exact L|exfalso].
  assert (H33 : pt_le_x (10 ^ 33) q2 x) by (apply B3; lia). unfold x_lt_pt, pt_le_x in *.
  destruct (pt_cmp_mono x (10 ^ 34) q1 (10 ^ 33) q2 q1 Hwf ltac:(lia) ltac:(lia)) as (M1 & _).
  - rewrite Z.sub_diag, Z.pow_0_r, Z.mul_1_r. replace (q2 - q1) with (1 + (q2 - q1 - 1)) by lia. rewrite Z.pow_add_r by lia.
    pose proof (pow10_pos (q2 - q1 - 1) ltac:(lia)). change (10 ^ 34) with (10 ^ 33 * 10). rewrite Z.pow_1_r.
    set (t := 10 ^ 33). assert (0 < t) by (unfold t; reflexivity). clearbody t. nia.
  - apply H33. apply M1. exact A2.
Qed.

Lemma quantum_unique : forall x q1 q2, exact_wf x -> quantum x q1 -> quantum x q2 -> q1 = q2.
Proof. intros x q1 q2 Hwf H1 H2. pose proof (quantum_le x q1 q2 Hwf H1 H2). pose proof (quantum_le x q2 q1 Hwf H2 H1). lia. Qed.

Lemma nearest_even_le : forall x c1 c2 q, exact_wf x -> nearest_even x c1 q -> nearest_even x c2 q -> (c2 <= c1)%N.
Proof.
  intros x c1 c2 q Hwf (A1 & A2 & A3) (B1 & B2 & B3). destruct (N.le_gt_cases c2 c1) as [L|G]; [exact L|exfalso].
  unfold pt_le_x, x_le_pt, x_eq_pt in *.
  destruct (Z.eq_dec (10 * Z.of_N c1 + 5) (10 * Z.of_N c2 - 5)) as [E|NE].
  - (* neighbours: x is their common half-way point, both would be even *)
    rewrite <- E in B1, B3.
    assert (T : pt_cmp (10 * Z.of_N c1 + 5) (q - 1) x = Eq) by (destruct (pt_cmp (10 * Z.of_N c1 + 5) (q - 1) x); congruence).
    assert (E1 : N.even c1 = true) by (apply A3; right; exact T).
    assert (E2 : N.even c2 = true) by (apply B3; left; exact T).
    assert (c2 = N.succ c1) by lia. subst c2. rewrite N.even_succ, <- N.negb_even, E1 in E2. discriminate E2.
  - assert (S : pt_cmp (10 * Z.of_N c2 - 5) (q - 1) x = Gt).
    { apply (pt_cmp_lt x (10 * Z.of_N c1 + 5) (q - 1) (10 * Z.of_N c2 - 5) (q - 1) (q - 1) Hwf); [lia|lia| |exact A2].
      rewrite Z.sub_diag, Z.pow_0_r. lia. }
    apply B1. exact S.
Qed.

Lemma nearest_even_unique : forall x c1 c2 q, exact_wf x -> nearest_even x c1 q -> nearest_even x c2 q -> c1 = c2.
Proof.
  intros x c1 c2 q Hwf H1 H2. pose proof (nearest_even_le x c1 c2 q Hwf H1 H2). pose proof (nearest_even_le x c2 c1 q Hwf H2 H1). lia.
Qed.

(* THE uniqueness statement: two data that are correct roundings of the same exact value are equal as numbers *)
Theorem rounds_to_unique : forall x s r1 r2, exact_wf x -> rounds_to x s r1 -> rounds_to x s r2 -> veq r1 r2.
Proof.
  intros x s r1 r2 Hwf (_ & _ & c1 & q1 & Q1 & N1 & V1) (_ & _ & c2 & q2 & Q2 & N2 & V2).
  pose proof (quantum_unique x q1 q2 Hwf Q1 Q2) as Eq. subst q2.
  pose proof (nearest_even_unique x c1 c2 q1 Hwf N1 N2) as Ec. subst c2.
  apply (veq_trans r1 (mkdec s c1 q1) r2); [exact V1 | apply veq_sym; exact V2].
Qed.

Lemma in_range_not_overflows : forall x, in_range x -> overflows x -> False.
Proof. intros x H1 H2. unfold in_range, overflows, x_lt_pt, pt_le_x in *. congruence. Qed.

Theorem correctly_rounded_unique : forall x s o1 o2, exact_wf x ->
  correctly_rounded x s o1 -> correctly_rounded x s o2 -> oveq o1 o2.
Proof.
  intros x s [r1|] [r2|] Hwf H1 H2; cbn [correctly_rounded oveq] in *.
  - destruct H1 as [_ H1]. destruct H2 as [_ H2]. exact (rounds_to_unique x s r1 r2 Hwf H1 H2).
  - destruct H1 as [H1 _]. exact (in_range_not_overflows x H1 H2).
  - destruct H2 as [H2 _]. exact (in_range_not_overflows x H2 H1).
  - exact I.
Qed.

(* ---------------------------------------------------------------- 3. the rounding step is correctly rounded *)
Lemma veq_of_value : forall s d (c : N) q b, neg d = s -> b <= expo d -> b <= q ->
  Z.of_N (coef d) * 10 ^ (expo d - b) = Z.of_N c * 10 ^ (q - b) -> veq d (mkdec s c q).
Proof.
  intros s d c q b Hs Hb1 Hb2 V. unfold veq, scaled, sval, emin2. cbn [neg coef expo]. rewrite Hs.
  set (mn := Z.min (expo d) q). assert (Hmn : b <= mn /\ mn <= expo d /\ mn <= q) by (unfold mn; lia).
  rewrite (pow10_cut (expo d - b) (mn - b)), (pow10_cut (q - b) (mn - b)) in V by lia.
  replace (expo d - b - (mn - b)) with (expo d - mn) in V by lia. replace (q - b - (mn - b)) with (q - mn) in V by lia.
  rewrite !Z.mul_assoc in V. apply Z.mul_cancel_r in V; [|pose proof (pow10_pos (mn - b) ltac:(lia)); lia].
  destruct s; lia.
Qed.

(* an exact value below every positive decimal point is zero; a zero is its own rounding, with the sign asked for *)
Definition is_zero (x : exact) : Prop := forall n k, 0 < n -> pt_cmp n k x = Gt.

Lemma zero_correctly_rounded : forall x s e, is_zero x -> correctly_rounded x s (Some (mkdec s 0 (clamp_exp e))).
Proof.
  intros x s e Hz. cbn [correctly_rounded]. split; [apply Hz; reflexivity|].
  split; [apply clamp_zero_in_format|]. split; [reflexivity|]. exists 0%N, ETINY.
  split; [|split].
  - split; [lia|]. split; [apply Hz; reflexivity|]. intros H; lia.
  - unfold nearest_even, pt_le_x, x_le_pt, x_eq_pt. change (10 * Z.of_N 0 - 5) with (-5). change (10 * Z.of_N 0 + 5) with 5.
    rewrite (pt_cmp_neg (-5)) by lia. rewrite (Hz 5) by lia. split; [discriminate|]. split; [discriminate|]. intros [H|H]; discriminate H.
  - unfold veq, scaled, sval, emin2. cbn [neg coef expo]. change (Z.of_N 0) with 0. destruct s; lia.
Qed.

Lemma quot_zero_is_zero : forall Y e, (0 < Y)%N -> is_zero (Quot 0 Y e).
Proof.
  intros Y e HY n k Hn. rewrite (pt_cmp_quot_at 0 Y e n k (Z.min k e)) by lia. change (Z.of_N 0) with 0. rewrite Z.mul_0_l.
  apply Z.compare_gt_iff. pose proof (pow10_pos (k - Z.min k e) ltac:(lia)). nia.
Qed.

Lemma root_zero_is_zero : forall e, is_zero (Root 0 e).
Proof.
  intros e n k Hn. pose proof (Z.div_mod e 2 ltac:(lia)). pose proof (Z.mod_pos_bound e 2 ltac:(lia)).
  rewrite (pt_cmp_root_at 0 e n k (Z.min k (e / 2))) by lia. change (Z.of_N 0) with 0. rewrite Z.mul_0_l.
  apply Z.compare_gt_iff. pose proof (pow10_pos (k - Z.min k (e / 2)) ltac:(lia)). rewrite Z.pow_2_r. nia.
Qed.

Theorem round34_correctly_rounded : forall s m e, correctly_rounded (Quot m 1 e) s (round34 s m e).
Proof.
  intros s m e. destruct (N.eq_dec m 0) as [Z0|NZ].
  { subst m. unfold round34. cbn [N.eqb]. apply zero_correctly_rounded. apply quot_zero_is_zero. lia. }
  assert (Hm : (0 < m)%N) by lia.
  pose proof (round34_none_iff_overflow s m e) as HO. cbv zeta in HO.
  destruct (round34_rounded_facts m e Hm) as (He1 & [VL VU] & R1 & R2 & R3 & Hnd). cbv zeta in *.
  set (b := Z.min e ETINY) in *. assert (Hb : b <= e /\ b <= ETINY) by (unfold b; lia).
  set (V := Z.of_N m * 10 ^ (e - b)) in *.
  replace (2 * Z.of_N m * 10 ^ (e - b)) with (2 * V) in HO by (unfold V; ring).
  (* every comparison, at the scale b - 1 *)
  assert (AT : forall n k, b - 1 <= k -> pt_cmp n k (Quot m 1 e) = Z.compare (n * 10 ^ (k - (b - 1))) (10 * V)).
  { intros n k Hk. rewrite (pt_cmp_quot_at m 1 e n k (b - 1)) by lia. change (Z.of_N 1) with 1. rewrite Z.mul_1_r.
    f_equal. rewrite (pow10_cut (e - (b - 1)) 1) by lia. replace (e - (b - 1) - 1) with (e - b) by lia. rewrite Z.pow_1_r. unfold V. ring. }
  assert (OV : pt_cmp (10 ^ 35 - 5) (ETOP - 1) (Quot m 1 e) <> Gt <-> (2 * 10 ^ 34 - 1) * 10 ^ (ETOP - b) <= 2 * V).
  { rewrite AT by (unfold ETOP, ETINY in *; lia). replace (ETOP - 1 - (b - 1)) with (ETOP - b) by lia.
    rewrite Z.compare_le_iff. set (H := 10 ^ (ETOP - b)). clearbody H V. lia. }
  destruct (round34 s m e) as [d|] eqn:R.
  2:{ cbn [correctly_rounded]. unfold overflows, pt_le_x. apply OV. apply HO. reflexivity. }
  cbn [correctly_rounded]. split.
  { unfold in_range, x_lt_pt.
    assert (NO : ~ (pt_cmp (10 ^ 35 - 5) (ETOP - 1) (Quot m 1 e) <> Gt)) by (intros C; apply OV in C; apply HO in C; discriminate C).
    destruct (pt_cmp (10 ^ 35 - 5) (ETOP - 1) (Quot m 1 e)); [exfalso; apply NO; discriminate | exfalso; apply NO; discriminate | reflexivity]. }
  destruct (round34_value s m e d Hm R) as (V1 & V2 & V3). cbv zeta in V3. fold b in V3.
  split; [exact (round34_in_format _ _ _ _ R)|]. split; [exact V1|].
  set (nd := Z.of_N (ndigits m)) in *. set (e1 := target_exp m e) in *.
  set (q := Z.max ETINY (e + nd - 34)).
  assert (Hq : b <= q /\ ETINY <= q) by (unfold q; lia).
  pose proof (pow10_pos (q - b) ltac:(lia)) as HQq.
  (* the coefficient c of the result in units of 10^q *)
  assert (EX : exists c : N, Z.of_N (coef d) * 10 ^ (expo d - b) = Z.of_N c * 10 ^ (q - b) /\
             2 * Z.abs (Z.of_N c * 10 ^ (q - b) - V) <= 10 ^ (q - b) /\
             (2 * Z.abs (Z.of_N c * 10 ^ (q - b) - V) = 10 ^ (q - b) -> N.even c = true)).
  { destruct (Z.le_gt_cases e q) as [L|G].
    - assert (E1 : e1 = q) by (unfold q; lia). rewrite E1 in *.
      exists (round_half_even m (Z.to_N (q - e))). split; [exact V3|]. split; [exact R1|].
      intros T. rewrite N_even_Z_even. apply R2. exact T.
    - assert (E1 : e1 = e) by (unfold q in *; lia). specialize (R3 E1). rewrite E1 in *.
      exists (m * 10 ^ Z.to_N (e - q))%N.
      assert (EW : Z.of_N (m * 10 ^ Z.to_N (e - q)) * 10 ^ (q - b) = V).
      { rewrite N2Z.inj_mul, N2Z.inj_pow, Z2N.id by lia. change (Z.of_N 10) with 10. unfold V.
        rewrite <- Z.mul_assoc, <- Z.pow_add_r by lia. f_equal. f_equal. lia. }
      rewrite EW, Z.sub_diag, Z.abs_0. split; [rewrite V3; exact R3|]. split; [lia|]. intros T. exfalso. lia. }
  destruct EX as (c & VC & NC & TC). exists c, q.
  set (Qq := 10 ^ (q - b)) in *. set (W := Z.of_N c * Qq) in *.
  assert (S34 : V < 10 ^ 34 * Qq).
  { eapply Z.lt_le_trans; [exact VU|]. unfold Qq. rewrite <- pow10_split by (clear - Hq; lia). apply pow10_le. unfold q. clear - Hb Hnd. lia. }
  assert (S33 : ETINY < q -> 10 ^ 33 * Qq <= V).
  { intros Hs. eapply Z.le_trans; [|exact VL]. unfold Qq. rewrite <- pow10_split by (clear - Hq; lia). apply pow10_le. unfold q in *. clear - Hb Hnd Hs. lia. }
  assert (P1 : 10 ^ (q - (b - 1)) = 10 * Qq).
  { unfold Qq. rewrite (pow10_cut (q - (b - 1)) 1) by lia. replace (q - (b - 1) - 1) with (q - b) by lia. rewrite Z.pow_1_r. ring. }
  assert (P0 : 10 ^ (q - 1 - (b - 1)) = Qq) by (unfold Qq; f_equal; lia).
  split; [|split].
  - split; [clear - Hq; lia|]. split.
    + unfold x_lt_pt. rewrite AT by (clear - Hq; lia). rewrite P1. apply Z.compare_gt_iff. clearbody Qq V. clear - S34 HQq. lia.
    + intros Hs. unfold pt_le_x. rewrite AT by (clear - Hq; lia). rewrite P1. apply Z.compare_le_iff. specialize (S33 Hs). clearbody Qq V. clear - S33 HQq. lia.
  - unfold nearest_even, pt_le_x, x_le_pt, x_eq_pt. rewrite !AT by (clear - Hq; lia). rewrite P0.
    replace ((10 * Z.of_N c - 5) * Qq) with (10 * W - 5 * Qq) by (unfold W; ring).
    replace ((10 * Z.of_N c + 5) * Qq) with (10 * W + 5 * Qq) by (unfold W; ring).
    rewrite Z.compare_le_iff, Z.compare_ge_iff, !Z.compare_eq_iff.
    split; [clearbody W Qq V; clear - NC HQq; lia|]. split; [clearbody W Qq V; clear - NC HQq; lia|].
    intros T. apply TC. clearbody W Qq V. clear - T HQq. lia.
  - apply (veq_of_value s d c q b V1); [clear - Hb V2; lia | clear - Hq; lia | exact VC].
Qed.

(* the headline of round 1 with its tie clause about the RESULT: the datum d is c units of the target quantum 10^e1 (e1 = target_exp m e is
   fixed by the operands), c * 10^e1 lies within half a quantum of the exact value, c is even on an exact tie, nothing is rounded when e1 = e *)
Theorem round34_nearest_even_result : forall s m e d, (0 < m)%N -> round34 s m e = Some d ->
  let e1 := target_exp m e in let b := Z.min e ETINY in
  neg d = s /\ ETINY <= expo d <= ETOP /\
  exists c : N,
    Z.of_N (coef d) * 10 ^ (expo d - b) = Z.of_N c * 10 ^ (e1 - b) /\
    2 * Z.abs (Z.of_N c * 10 ^ (e1 - b) - Z.of_N m * 10 ^ (e - b)) <= 10 ^ (e1 - b) /\
    (2 * Z.abs (Z.of_N c * 10 ^ (e1 - b) - Z.of_N m * 10 ^ (e - b)) = 10 ^ (e1 - b) -> N.even c = true) /\
    (e1 = e -> c = m).
Proof.
  intros s m e d Hm H. cbv zeta.
  destruct (round34_value s m e d Hm H) as (V1 & V2 & V3). cbv zeta in V3.
  destruct (round34_nearest_even s m e d Hm H) as (_ & _ & A3 & A4 & A5). cbv zeta in *.
  destruct (target_exp_ge m e) as [T1 T2].
  split; [exact V1|]. split; [exact V2|]. exists (round_half_even m (Z.to_N (target_exp m e - e))).
  rewrite V3 in A3, A4, A5. split; [exact V3|]. split; [exact A3|]. split.
  - intros T. destruct (Z.eq_dec (target_exp m e) e) as [E|NE].
    + exfalso. rewrite (A5 E) in T. pose proof (pow10_pos (target_exp m e - Z.min e ETINY) ltac:(lia)). lia.
    + apply A4; [lia | exact T].
  - intros E. rewrite E, Z.sub_diag. reflexivity.
Qed.

(* ---------------------------------------------------------------- 4. the sticky-digit transfer *)
(* x' = m * 10^E is x with everything below 10^(E+1) replaced by one sticky digit.  If the two compare alike with every multiple of
   10^(E+1), and x' >= 10^35 * 10^E (so that the half-way points of its rounding are such multiples), a correct rounding of x' is a
   correct rounding of x, and x' overflows exactly when x does. *)
Lemma sticky_transfer : forall x x' E s o, exact_wf x -> exact_wf x' ->
  (forall n k, E + 1 <= k -> pt_cmp n k x = pt_cmp n k x') ->
  pt_le_x (10 ^ 34) (E + 1) x' ->
  correctly_rounded x' s o -> correctly_rounded x s o.
Proof.
  intros x x' E s o Hwf Hwf' AG H35 CR. unfold pt_le_x in H35.
  assert (QE : forall q, pt_cmp (10 ^ 34) q x' = Gt -> E + 2 <= q).
  { intros q Hq. destruct (Z.le_gt_cases (E + 2) q) as [L|G]; [exact L|exfalso].
    destruct (pt_cmp_mono x' (10 ^ 34) q (10 ^ 34) (E + 1) q Hwf' ltac:(lia) ltac:(lia)) as (M1 & _).
    - rewrite Z.sub_diag, Z.pow_0_r, Z.mul_1_r. pose proof (pow10_pos (E + 1 - q) ltac:(lia)).
      set (t := 10 ^ 34). assert (0 < t) by reflexivity. clearbody t. nia.
    - apply H35. apply M1. exact Hq. }
  assert (OE : ETOP - 1 <= E -> pt_cmp (10 ^ 35 - 5) (ETOP - 1) x' <> Gt /\ pt_cmp (10 ^ 35 - 5) (ETOP - 1) x <> Gt).
  { intros L.
    assert (PO : (10 ^ 35 - 5) * 10 ^ (ETOP - 1 - (ETOP - 1)) <= 10 ^ 34 * 10 ^ (E + 1 - (ETOP - 1))).
    { rewrite Z.sub_diag, Z.pow_0_r, Z.mul_1_r.
      assert (10 ^ 1 <= 10 ^ (E + 1 - (ETOP - 1))) by (apply Z.pow_le_mono_r; lia).
      rewrite Z.pow_1_r in *. set (P := 10 ^ (E + 1 - (ETOP - 1))) in *. clearbody P. clear - H. lia. }
    split.
    - destruct (pt_cmp_mono x' (10 ^ 35 - 5) (ETOP - 1) (10 ^ 34) (E + 1) (ETOP - 1) Hwf' ltac:(lia) ltac:(lia) PO) as (_ & _ & M3 & _).
      apply M3. exact H35.
    - destruct (pt_cmp_mono x (10 ^ 35 - 5) (ETOP - 1) (10 ^ 34) (E + 1) (ETOP - 1) Hwf ltac:(lia) ltac:(lia) PO) as (_ & _ & M3 & _).
      apply M3. rewrite AG by lia. exact H35. }
  destruct o as [r|]; cbn [correctly_rounded] in *.
  - destruct CR as (IR & F & S & c & q & (Q1 & Q2 & Q3) & (N1 & N2 & N3) & VQ).
    unfold in_range, x_lt_pt, pt_le_x, x_le_pt, x_eq_pt in *.
    pose proof (QE q Q2) as Hq.
    assert (HT : E + 1 <= ETOP - 1).
    { destruct (Z.le_gt_cases (E + 1) (ETOP - 1)) as [L|G]; [exact L|exfalso]. destruct (OE ltac:(lia)) as [O1 _]. congruence. }
    split; [rewrite AG by lia; exact IR|]. split; [exact F|]. split; [exact S|]. exists c, q.
    split; [|split; [|exact VQ]].
    + split; [exact Q1|]. split; [unfold x_lt_pt; rewrite AG by lia; exact Q2|]. intros Hs. unfold pt_le_x. rewrite AG by lia. exact (Q3 Hs).
    + unfold nearest_even, pt_le_x, x_le_pt, x_eq_pt. rewrite !AG by lia. split; [exact N1|]. split; [exact N2|exact N3].
  - unfold overflows, pt_le_x in *. destruct (Z.le_gt_cases (E + 1) (ETOP - 1)) as [L|G].
    + rewrite AG by lia. exact CR.
    + destruct (OE ltac:(lia)) as [_ O2]. exact O2.
Qed.
