(* C02 — proofs about the specification model Base/DecRound.v and coq/C02/Model.v. *)
From Coq Require Import ZArith NArith Bool List Lia.
From DV Require Import Base.Dec Base.DecRound C02.Model.
Import ListNotations.
Open Scope Z_scope.

Lemma model_nontrivial :
  f_add (mkdec false 15 (-1)) (mkdec false 25 (-1)) = Some (mkdec false 4 0) /\
  f_div (mkdec false 2 0) (mkdec true 3 0) = Some (mkdec true 6666666666666666666666666666666667 (-34)) /\
  f_mul (mkdec false 1 6144) (mkdec false 10 0) = None /\
  f_mul (mkdec false 1 (-3100)) (mkdec false 15 (-3077)) = Some (mkdec false 2 (-6176)) /\
  f_cmp (mkdec false 10 (-1)) (mkdec false 100 (-2)) = Eq.
Proof. vm_compute. repeat split. Qed.

(* modulo as the code computes it (every step rounded) is not a - b*floor(a/b): modulo(1E+40, 3) *)
Lemma mod_steps_refuted : exists a b, mod_known a b = true /\ f_mod a b = Some (mkdec false 1 0) /\ f_mod_steps a b = Some (mkdec false 1 6).
Proof. exists (mkdec false 1 40), (mkdec false 3 0). vm_compute. repeat split. Qed.

From DV Require Import Base.DecFacts.

(* ---------------------------------------------------------------- one correct rounding: nearest, ties to even *)
(* q' = round_half_even m drop is a nearest multiple: |q' * 10^drop - m| <= 10^drop / 2, and on an exact tie q' is even *)
Lemma round_half_even_spec : forall m drop, (0 < drop)%N ->
  let p := (10 ^ drop)%N in let q := round_half_even m drop in
  2 * Z.abs (Z.of_N q * Z.of_N p - Z.of_N m) <= Z.of_N p /\
  (2 * Z.abs (Z.of_N q * Z.of_N p - Z.of_N m) = Z.of_N p -> N.even q = true).
Proof.
  intros m drop Hd. cbv zeta. unfold round_half_even.
  destruct (drop =? 0)%N eqn:E0; [apply N.eqb_eq in E0; lia|].
  assert (Hp : (10 ^ drop = 2 * (5 * 10 ^ (drop - 1)))%N).
  { replace drop with (N.succ (drop - 1)) at 1 by lia. rewrite N.pow_succ_r'. lia. }
  assert (Hpos : (0 < 5 * 10 ^ (drop - 1))%N).
  { assert (10 ^ (drop - 1) <> 0)%N by (apply N.pow_nonzero; lia). lia. }
  set (h := (5 * 10 ^ (drop - 1))%N) in *. rewrite Hp. clearbody h.
  pose proof (N.div_mod m (2 * h) ltac:(lia)) as DM. pose proof (N.mod_lt m (2 * h) ltac:(lia)) as ML.
  set (q := (m / (2 * h))%N) in *. set (r := (m mod (2 * h))%N) in *. clearbody q r.
  destruct ((h <? r)%N || (r =? h)%N && N.odd q) eqn:C.
  - apply orb_true_iff in C. destruct C as [C|C].
    + apply N.ltb_lt in C. split; [lia|]. intros T. exfalso. lia.
    + apply andb_true_iff in C. destruct C as [C1 C2]. apply N.eqb_eq in C1. split; [lia|]. intros _.
      rewrite N.add_1_r, N.even_succ. exact C2.
  - apply orb_false_iff in C. destruct C as [C1 C2]. apply N.ltb_ge in C1. split; [lia|]. intros T.
    assert (r = h) by lia. apply N.eqb_eq in H. rewrite H in C2. cbn in C2. rewrite <- N.negb_odd, C2. reflexivity.
Qed.

Lemma round_half_even_zero_drop : forall m, round_half_even m 0 = m.
Proof. reflexivity. Qed.

(* a value that is representable is returned unchanged: rounding is the identity on decimal128 data
   (in particular on numeric literals of up to 34 significant digits, C07) *)
Theorem round34_exact : forall s m e, (m < 10 ^ PREC)%N -> ETINY <= e <= ETOP ->
  round34 s m e = Some (mkdec s m e).
Proof.
  intros s m e Hm He. unfold round34. destruct (m =? 0)%N eqn:E0.
  - apply N.eqb_eq in E0. subst m. unfold clamp_exp. rewrite Z.min_r, Z.max_r by lia. reflexivity.
  - apply N.eqb_neq in E0. assert (Hp : (0 < m)%N) by lia.
    pose proof (ndigits_le m PREC Hp Hm) as Hnd. destruct (ndigits_spec m Hp) as [_ Hnd1].
    assert (Ht : target_exp m e = e).
    { unfold target_exp. unfold PREC in *. lia. }
    rewrite Ht, Z.sub_diag. cbn [Z.to_N]. rewrite round_half_even_zero_drop.
    destruct (m =? 10 ^ PREC)%N eqn:E1; [apply N.eqb_eq in E1; lia|].
    assert (EMAX <? e + Z.of_N (ndigits m) - 1 = false) as -> by (apply Z.ltb_ge; unfold EMAX, ETOP, PREC in *; lia).
    assert (ETOP <? e = false) as -> by (apply Z.ltb_ge; lia). reflexivity.
Qed.

(* the shape of the model: exact integer result first, one rounding afterwards *)
Lemma dadd_exact_then_round : forall a b,
  dadd a b = round_Z (scaled a (emin2 a b) + scaled b (emin2 a b)) (emin2 a b) (neg a && neg b).
Proof. reflexivity. Qed.
Lemma dmul_exact_then_round : forall a b,
  dmul a b = round34 (xorb (neg a) (neg b)) (coef a * coef b) (expo a + expo b).
Proof. reflexivity. Qed.

(* exact sums and products of representable data that are themselves representable are returned exactly *)
Theorem dmul_exact : forall a b, (coef a * coef b < 10 ^ PREC)%N -> ETINY <= expo a + expo b <= ETOP ->
  dmul a b = Some (mkdec (xorb (neg a) (neg b)) (coef a * coef b) (expo a + expo b)).
Proof. intros a b H1 H2. unfold dmul. apply round34_exact; assumption. Qed.

Theorem dadd_exact : forall a b, Z.abs (scaled a (emin2 a b) + scaled b (emin2 a b)) < 10 ^ 34 -> ETINY <= emin2 a b <= ETOP ->
  exists r, dadd a b = Some r /\ expo r = emin2 a b /\ sval r = scaled a (emin2 a b) + scaled b (emin2 a b).
Proof.
  intros a b H1 H2. unfold dadd, exact_add, round_Z.
  set (z := scaled a (emin2 a b) + scaled b (emin2 a b)) in *.
  rewrite round34_exact; [| | exact H2].
  - eexists. split; [reflexivity|]. split; [reflexivity|]. unfold sval. cbn [neg coef].
    destruct (z =? 0) eqn:Ez.
    + apply Z.eqb_eq in Ez. rewrite Ez. cbn. destruct (neg a && neg b); reflexivity.
    + destruct (z <? 0) eqn:Ez2; [apply Z.ltb_lt in Ez2 | apply Z.ltb_ge in Ez2]; rewrite N2Z.inj_abs_N; lia.
  - change (10 ^ PREC)%N with (Z.to_N (10 ^ 34)). apply N2Z.inj_lt. rewrite N2Z.inj_abs_N, Z2N.id by lia. exact H1.
Qed.

(* ---------------------------------------------------------------- integral values *)
Lemma zfloor_spec : forall d, expo d < 0 ->
  zfloor d * 10 ^ (- expo d) <= sval d < (zfloor d + 1) * 10 ^ (- expo d).
Proof.
  intros d He. unfold zfloor. assert (0 <=? expo d = false) as -> by (apply Z.leb_gt; exact He).
  assert (Hp : 0 < 10 ^ (- expo d)) by (apply Z.pow_pos_nonneg; lia).
  pose proof (Z.div_mod (sval d) (10 ^ (- expo d)) ltac:(lia)). pose proof (Z.mod_pos_bound (sval d) (10 ^ (- expo d)) Hp). nia.
Qed.

Lemma zceil_spec : forall d, expo d < 0 ->
  (zceil d - 1) * 10 ^ (- expo d) < sval d <= zceil d * 10 ^ (- expo d).
Proof.
  intros d He. unfold zceil. assert (0 <=? expo d = false) as -> by (apply Z.leb_gt; exact He).
  assert (Hp : 0 < 10 ^ (- expo d)) by (apply Z.pow_pos_nonneg; lia).
  pose proof (Z.div_mod (- sval d) (10 ^ (- expo d)) ltac:(lia)). pose proof (Z.mod_pos_bound (- sval d) (10 ^ (- expo d)) Hp). nia.
Qed.

Lemma zfloor_integer : forall d, 0 <= expo d -> zfloor d = sval d * 10 ^ expo d /\ zceil d = sval d * 10 ^ expo d.
Proof. intros d He. unfold zfloor, zceil. assert (0 <=? expo d = true) as -> by (apply Z.leb_le; exact He). split; reflexivity. Qed.

(* ---------------------------------------------------------------- modulo: the exact remainder has the sign of the divisor *)
Lemma dmod_exact_remainder : forall a b, coef b <> 0%N ->
  let e := emin2 a b in let r := scaled a e - scaled b e * floor_div a b in
  r = (scaled a e) mod (scaled b e) /\ ((0 <= r < scaled b e) \/ (scaled b e < r <= 0)).
Proof.
  intros a b Hb. cbv zeta. unfold floor_div.
  assert (Hs : scaled b (emin2 a b) <> 0).
  { unfold scaled, sval. assert (0 < 10 ^ (expo b - emin2 a b)) by (apply Z.pow_pos_nonneg; unfold emin2; lia).
    destruct (neg b); nia. }
  rewrite <- Z.mod_eq by exact Hs. split; [reflexivity|].
  destruct (Z.lt_trichotomy (scaled b (emin2 a b)) 0) as [L|[L|L]]; [right | contradiction | left].
  - apply Z.mod_neg_bound. exact L.
  - apply Z.mod_pos_bound. exact L.
Qed.

(* undefined results are null *)
Lemma div_by_zero_null : forall a b, coef b = 0%N -> ddiv a b = None /\ dmod a b = None.
Proof. intros a b H. unfold ddiv, dmod, dis_zero. rewrite H. split; reflexivity. Qed.
Lemma sqrt_negative_null : forall a, coef a <> 0%N -> neg a = true -> dsqrt a = None.
Proof. intros a H1 H2. unfold dsqrt, dis_zero. apply N.eqb_neq in H1. rewrite H1, H2. reflexivity. Qed.

(* ---------------------------------------------------------------- HEADLINE: round34 returns a nearest decimal128, ties to even *)
Lemma target_exp_ge : forall m e, e <= target_exp m e /\ ETINY <= target_exp m e.
Proof. intros. unfold target_exp. lia. Qed.

Lemma pow10_split : forall a b, 0 <= a -> 0 <= b -> 10 ^ (a + b) = 10 ^ a * 10 ^ b.
Proof. intros. apply Z.pow_add_r; assumption. Qed.

(* the value of the result, written at the common base exponent b = min e ETINY, equals the rounded coefficient c1 at the target exponent *)
Lemma some_inj : forall (A : Type) (x y : A), Some x = Some y -> x = y.
Proof. intros A x y H. injection H as H. exact H. Qed.

Lemma round34_value : forall s m e d, (0 < m)%N -> round34 s m e = Some d ->
  let e1 := target_exp m e in let c1 := round_half_even m (Z.to_N (e1 - e)) in let b := Z.min e ETINY in
  neg d = s /\ ETINY <= expo d <= ETOP /\
  Z.of_N (coef d) * 10 ^ (expo d - b) = Z.of_N c1 * 10 ^ (e1 - b).
Proof.
  intros s m e d Hm H. cbv zeta. unfold round34 in H.
  assert (m =? 0 = false)%N as E0 by (apply N.eqb_neq; lia). rewrite E0 in H.
  destruct (target_exp_ge m e) as [T1 T2].
  set (e1 := target_exp m e) in *. set (c1 := round_half_even m (Z.to_N (e1 - e))) in *. set (b := Z.min e ETINY).
  assert (Hb : b <= e /\ b <= ETINY) by (unfold b; lia).
  destruct (c1 =? 10 ^ PREC)%N eqn:Ec.
  - apply N.eqb_eq in Ec.
    destruct (EMAX <? e1 + 1 + Z.of_N (ndigits (10 ^ (PREC - 1))) - 1) eqn:Eo; [discriminate H|]. clear Eo.
    destruct (ETOP <? e1 + 1) eqn:Et.
    + apply Z.ltb_lt in Et. apply some_inj in H. subst d. cbn [neg coef expo]. split; [reflexivity|]. split; [unfold ETINY, ETOP; lia|].
      rewrite Ec, N2Z.inj_mul, !N2Z.inj_pow, Z2N.id by lia. change (Z.of_N 10) with 10. change (Z.of_N (PREC - 1)) with 33. change (Z.of_N PREC) with 34.
      replace (e1 - b) with ((e1 + 1 - ETOP) + (ETOP - b) - 1) by lia.
      rewrite <- Z.mul_assoc, <- pow10_split by (unfold ETINY, ETOP in *; lia).
      rewrite <- !pow10_split by (unfold ETINY, ETOP in *; lia). f_equal. lia.
    + apply Z.ltb_ge in Et. apply some_inj in H. subst d. cbn [neg coef expo]. split; [reflexivity|]. split; [lia|].
      rewrite Ec, !N2Z.inj_pow. change (Z.of_N 10) with 10. change (Z.of_N (PREC - 1)) with 33. change (Z.of_N PREC) with 34.
      rewrite <- !pow10_split by (unfold ETINY in *; lia). f_equal. lia.
  - destruct (EMAX <? e1 + Z.of_N (ndigits c1) - 1) eqn:Eo; [discriminate H|]. clear Eo.
    destruct (ETOP <? e1) eqn:Et.
    + apply Z.ltb_lt in Et. apply some_inj in H. subst d. cbn [neg coef expo]. split; [reflexivity|]. split; [unfold ETINY, ETOP; lia|].
      rewrite N2Z.inj_mul, N2Z.inj_pow, Z2N.id by lia. change (Z.of_N 10) with 10.
      rewrite <- Z.mul_assoc, <- pow10_split by (unfold ETINY, ETOP in *; lia). f_equal. f_equal. lia.
    + apply Z.ltb_ge in Et. apply some_inj in H. subst d. cbn [neg coef expo]. split; [reflexivity|]. split; [lia|]. reflexivity.
Qed.

Theorem round34_nearest_even : forall s m e d, (0 < m)%N -> round34 s m e = Some d ->
  let e1 := target_exp m e in let b := Z.min e ETINY in
  neg d = s /\ ETINY <= expo d <= ETOP /\
  2 * Z.abs (Z.of_N (coef d) * 10 ^ (expo d - b) - Z.of_N m * 10 ^ (e - b)) <= 10 ^ (e1 - b) /\
  (e < e1 -> 2 * Z.abs (Z.of_N (coef d) * 10 ^ (expo d - b) - Z.of_N m * 10 ^ (e - b)) = 10 ^ (e1 - b) ->
   N.even (round_half_even m (Z.to_N (e1 - e))) = true) /\
  (e1 = e -> Z.of_N (coef d) * 10 ^ (expo d - b) = Z.of_N m * 10 ^ (e - b)).
Proof.
  intros s m e d Hm H. destruct (round34_value s m e d Hm H) as (V1 & V2 & V3). cbv zeta in *.
  destruct (target_exp_ge m e) as [T1 T2].
  set (e1 := target_exp m e) in *. set (b := Z.min e ETINY) in *.
  assert (Hb : b <= e /\ b <= ETINY) by (unfold b; lia).
  split; [exact V1|]. split; [exact V2|]. rewrite V3.
  assert (Hsplit : 10 ^ (e1 - b) = 10 ^ (e1 - e) * 10 ^ (e - b)).
  { rewrite <- pow10_split by lia. f_equal. lia. }
  assert (Hq : 0 < 10 ^ (e - b)) by (apply Z.pow_pos_nonneg; lia).
  destruct (Z.eq_dec e1 e) as [Eq|Ne].
  - rewrite Eq, Z.sub_diag. cbn [Z.to_N]. rewrite round_half_even_zero_drop.
    rewrite Z.sub_diag, Z.abs_0. split; [lia|]. split; [lia|]. intros _. reflexivity.
  - assert (Hd : (0 < Z.to_N (e1 - e))%N) by lia.
    destruct (round_half_even_spec m (Z.to_N (e1 - e)) Hd) as [R1 R2]. cbv zeta in R1, R2.
    rewrite N2Z.inj_pow, Z2N.id in R1, R2 by lia. change (Z.of_N 10) with 10 in R1, R2.
    set (c1 := Z.of_N (round_half_even m (Z.to_N (e1 - e)))) in *.
    assert (Hfac : c1 * 10 ^ (e1 - b) - Z.of_N m * 10 ^ (e - b) = (c1 * 10 ^ (e1 - e) - Z.of_N m) * 10 ^ (e - b)) by (rewrite Hsplit; ring).
    rewrite Hfac, Z.abs_mul, (Z.abs_eq (10 ^ (e - b))) by lia. rewrite Hsplit.
    split; [nia|]. split; [|intros; lia].
    intros _ T. apply R2. nia.
Qed.

(* ---------------------------------------------------------------- every result is a decimal128 datum: coefficient below 10^34 *)
Lemma round_half_even_bound : forall m drop k, (m < 10 ^ (k + drop))%N -> (round_half_even m drop <= 10 ^ k)%N.
Proof.
  intros m drop k H. unfold round_half_even. destruct (drop =? 0)%N eqn:E0.
  - apply N.eqb_eq in E0. subst drop. rewrite N.add_0_r in H. lia.
  - rewrite N.pow_add_r in H.
    assert (Hq : (m / 10 ^ drop < 10 ^ k)%N).
    { apply N.div_lt_upper_bound; [apply N.pow_nonzero; lia | lia]. }
    destruct ((5 * 10 ^ (drop - 1) <? m mod 10 ^ drop)%N || (m mod 10 ^ drop =? 5 * 10 ^ (drop - 1))%N && N.odd (m / 10 ^ drop)); lia.
Qed.

Theorem round34_in_format : forall s m e d, round34 s m e = Some d -> in_format d = true.
Proof.
  intros s m e d H. unfold in_format.
  destruct (m =? 0)%N eqn:E0.
  - unfold round34 in H. rewrite E0 in H. apply some_inj in H. subst d. cbn [coef expo]. unfold clamp_exp.
    apply andb_true_iff. split; [apply andb_true_iff; split|].
    + reflexivity.
    + apply Z.leb_le. lia.
    + apply Z.leb_le. unfold ETINY, ETOP. lia.
  - apply N.eqb_neq in E0. assert (Hm : (0 < m)%N) by lia.
    destruct (round34_value s m e d Hm H) as (_ & V2 & _).
    assert (Hc : (coef d < 10 ^ PREC)%N).
    { unfold round34 in H. assert (m =? 0 = false)%N as E0' by (apply N.eqb_neq; lia). rewrite E0' in H.
      destruct (target_exp_ge m e) as [T1 T2].
      destruct (ndigits_spec m Hm) as [[_ U] P1].
      assert (Tn : Z.of_N (ndigits m) - 34 <= target_exp m e - e) by (unfold target_exp, PREC; lia).
      set (e1 := target_exp m e) in *. set (c1 := round_half_even m (Z.to_N (e1 - e))) in *.
      assert (Hc1 : (c1 <= 10 ^ PREC)%N).
      { unfold c1. apply round_half_even_bound.
        eapply N.lt_le_trans; [exact U|]. apply N.pow_le_mono_r; [lia|]. unfold PREC. lia. }
      destruct (c1 =? 10 ^ PREC)%N eqn:Ec.
      - destruct (EMAX <? e1 + 1 + Z.of_N (ndigits (10 ^ (PREC - 1))) - 1) eqn:Eo; [discriminate H|].
        apply Z.ltb_ge in Eo. change (ndigits (10 ^ (PREC - 1))) with 34%N in Eo.
        destruct (ETOP <? e1 + 1) eqn:Et.
        + apply Z.ltb_lt in Et. exfalso. unfold EMAX, ETOP in *. lia.
        + apply some_inj in H. subst d. cbn [coef]. change (10 ^ (PREC - 1) < 10 ^ PREC)%N. reflexivity.
      - apply N.eqb_neq in Ec. assert (Hlt : (c1 < 10 ^ PREC)%N) by lia.
        destruct (EMAX <? e1 + Z.of_N (ndigits c1) - 1) eqn:Eo; [discriminate H|]. apply Z.ltb_ge in Eo.
        destruct (ETOP <? e1) eqn:Et.
        + apply Z.ltb_lt in Et. apply some_inj in H. subst d. cbn [coef].
          destruct (N.eq_dec c1 0) as [Z0|NZ]; [rewrite Z0, N.mul_0_l; apply N.neq_0_lt_0, N.pow_nonzero; lia|].
          destruct (ndigits_spec c1 ltac:(lia)) as [[_ U1] _].
          assert (Hk : (ndigits c1 + Z.to_N (e1 - ETOP) <= PREC)%N) by (unfold EMAX, ETOP, PREC in *; lia).
          eapply N.lt_le_trans; [apply N.mul_lt_mono_pos_r; [apply N.neq_0_lt_0, N.pow_nonzero; lia | exact U1]|].
          rewrite <- N.pow_add_r. apply N.pow_le_mono_r; lia.
        + apply some_inj in H. subst d. cbn [coef]. exact Hlt. }
    apply andb_true_iff. split; [apply andb_true_iff; split|].
    + apply N.ltb_lt. exact Hc.
    + apply Z.leb_le. lia.
    + apply Z.leb_le. lia.
Qed.

(* ---------------------------------------------------------------- the sticky-digit argument of division *)
(* q = n / b with one extra digit that only says whether the division left a remainder: as soon as at least two digits
   are dropped, rounding 10*q + sticky is rounding the exact quotient n / b: nearest, ties to even.
   (ddiv produces at least 36 quotient digits, so at least three digits are dropped.) *)
Lemma div_sticky : forall n b D, (0 < b)%N -> (2 <= D)%N ->
  let q := (n / b)%N in let r := (n mod b)%N in
  let m := (10 * q + (if (r =? 0)%N then 0 else 1))%N in
  let c := Z.of_N (round_half_even m D) in let P := Z.of_N (10 ^ (D - 1)) in
  2 * Z.abs (c * P * Z.of_N b - Z.of_N n) <= P * Z.of_N b /\
  (2 * Z.abs (c * P * Z.of_N b - Z.of_N n) = P * Z.of_N b -> Z.even c = true).
Proof.
  intros n b D Hb HD. cbv zeta.
  pose proof (N.div_mod n b ltac:(lia)) as DM. pose proof (N.mod_lt n b ltac:(lia)) as ML.
  set (q := (n / b)%N) in *. set (r := (n mod b)%N) in *.
  set (s := (if (r =? 0)%N then 0 else 1)%N).
  assert (Hs : ((s = 0 /\ r = 0) \/ (s = 1 /\ 0 < r))%N).
  { unfold s. destruct (r =? 0)%N eqn:E; [apply N.eqb_eq in E | apply N.eqb_neq in E]; lia. }
  (* P = 10^(D-1) = 2H with H a multiple of 5 *)
  assert (HP : exists H, ((10 ^ (D - 1) = 2 * H)%N /\ (0 < H)%N)).
  { exists (5 * 10 ^ (D - 2))%N. split.
    - replace (D - 1)%N with (N.succ (D - 2)) by lia. rewrite N.pow_succ_r'. lia.
    - assert (10 ^ (D - 2) <> 0)%N by (apply N.pow_nonzero; lia). lia. }
  destruct HP as (H & HP & HH).
  unfold round_half_even. assert (D =? 0 = false)%N as -> by (apply N.eqb_neq; lia).
  assert (HpD : (10 ^ D = 10 * 10 ^ (D - 1))%N).
  { replace D with (N.succ (D - 1)) at 1 by lia. apply N.pow_succ_r'. }
  rewrite HpD, HP. set (P := (2 * H)%N) in *.
  (* q = Q*P + R1 *)
  pose proof (N.div_mod q P ltac:(lia)) as DQ. pose proof (N.mod_lt q P ltac:(lia)) as MQ.
  set (Q := (q / P)%N) in *. set (R1 := (q mod P)%N) in *.
  assert (Hm : (10 * q + s = 10 * P * Q + (10 * R1 + s))%N) by lia.
  assert (Hlt : (10 * R1 + s < 10 * P)%N) by lia.
  assert (Ediv : ((10 * q + s) / (10 * P) = Q)%N).
  { symmetry. apply (N.div_unique _ _ Q (10 * R1 + s)); [exact Hlt | exact Hm]. }
  assert (Emod : ((10 * q + s) mod (10 * P) = 10 * R1 + s)%N).
  { symmetry. apply (N.mod_unique _ _ Q (10 * R1 + s)); [exact Hlt | exact Hm]. }
  rewrite Ediv, Emod. clear Ediv Emod.
  assert (Hn : Z.of_N n = (Z.of_N Q * Z.of_N P + Z.of_N R1) * Z.of_N b + Z.of_N r) by lia.
  destruct ((5 * P <? 10 * R1 + s)%N || (10 * R1 + s =? 5 * P)%N && N.odd Q) eqn:C.
  - (* rounded up *)
    rewrite N2Z.inj_add. change (Z.of_N 1) with 1.
    assert (Hup : (H < R1 \/ (R1 = H /\ s = 1) \/ (R1 = H /\ s = 0 /\ N.odd Q = true))%N).
    { apply orb_true_iff in C. destruct C as [C|C].
      - apply N.ltb_lt in C. unfold P in C. lia.
      - apply andb_true_iff in C. destruct C as [C1 C2]. apply N.eqb_eq in C1. unfold P in C1. right. right. split; [lia | split; [lia | exact C2]]. }
    assert (HPb : Z.of_N P = 2 * Z.of_N H) by (unfold P; lia).
    destruct Hup as [U|[U|U]].
    + assert (Z.of_N H + 1 <= Z.of_N R1) by lia. split; [nia|]. intros T. exfalso. nia.
    + destruct U as [U1 U2]. subst R1. split; [nia|]. intros T. exfalso. nia.
    + destruct U as (U1 & U2 & U3). subst R1. split; [nia|]. intros _.
      rewrite Z.add_1_r, Z.even_succ. destruct Q as [|pq]; [discriminate U3 | destruct pq; cbn in U3 |- *; (reflexivity || discriminate U3)].
  - (* rounded down *)
    apply orb_false_iff in C. destruct C as [C1 C2]. apply N.ltb_ge in C1.
    assert (HPb : Z.of_N P = 2 * Z.of_N H) by (unfold P; lia).
    assert (Hdn : (R1 < H \/ (R1 = H /\ s = 0 /\ N.odd Q = false))%N).
    { destruct (N.lt_trichotomy R1 H) as [L|[L|L]]; [left; exact L | right | unfold P in C1; lia].
      assert (s = 0)%N by (unfold P in C1; lia). split; [exact L|]. split; [assumption|].
      assert ((10 * R1 + s =? 5 * P)%N = true) as E by (apply N.eqb_eq; unfold P; lia). rewrite E in C2. exact C2. }
    destruct Hdn as [U|U].
    + assert (Z.of_N R1 + 1 <= Z.of_N H) by lia. split; [nia|]. intros T. exfalso. nia.
    + destruct U as (U1 & U2 & U3). subst R1. split; [nia|]. intros _.
      rewrite <- Z.negb_odd. apply negb_true_iff. destruct Q as [|pq]; [reflexivity | destruct pq; cbn in U3 |- *; (reflexivity || discriminate U3)].
Qed.

(* ddiv always drops at least three digits of 10*q + sticky, so div_sticky applies to every quotient *)
Lemma ndigits_ge : forall n k, (10 ^ k <= n)%N -> (k < ndigits n)%N.
Proof.
  intros n k H. assert (Hp : (0 < n)%N). { assert (10 ^ k <> 0)%N by (apply N.pow_nonzero; lia). lia. }
  destruct (ndigits_spec n Hp) as [[_ U] _].
  apply (N.pow_lt_mono_r_iff 10); [lia|]. lia.
Qed.

Lemma ddiv_quotient_digits : forall ca cb, (0 < ca)%N -> (0 < cb)%N ->
  let k := Z.to_N (Z.max 0 (36 + Z.of_N (ndigits cb) - Z.of_N (ndigits ca))) in
  (10 ^ 35 <= ca * 10 ^ k / cb)%N.
Proof.
  intros ca cb Ha Hb. cbv zeta.
  destruct (ndigits_spec ca Ha) as [[La _] Pa]. destruct (ndigits_spec cb Hb) as [[_ Ub] Pb].
  set (k := Z.to_N (Z.max 0 (36 + Z.of_N (ndigits cb) - Z.of_N (ndigits ca)))).
  apply N.div_le_lower_bound; [lia|].
  assert (Hk : (ndigits cb + 35 <= (ndigits ca - 1) + k)%N) by (unfold k; lia).
  assert (H1 : (cb * 10 ^ 35 <= 10 ^ (ndigits cb + 35))%N).
  { rewrite N.pow_add_r. apply N.mul_le_mono_r. lia. }
  assert (H2 : (10 ^ (ndigits cb + 35) <= 10 ^ ((ndigits ca - 1) + k))%N) by (apply N.pow_le_mono_r; lia).
  assert (H3 : (10 ^ ((ndigits ca - 1) + k) <= ca * 10 ^ k)%N).
  { rewrite N.pow_add_r. apply N.mul_le_mono_r. exact La. }
  lia.
Qed.

Theorem ddiv_drops_at_least_3 : forall ca cb e, (0 < ca)%N -> (0 < cb)%N ->
  let k := Z.to_N (Z.max 0 (36 + Z.of_N (ndigits cb) - Z.of_N (ndigits ca))) in
  let q := (ca * 10 ^ k / cb)%N in
  forall s, (s <= 1)%N -> 3 <= target_exp (10 * q + s) e - e.
Proof.
  intros ca cb e Ha Hb. cbv zeta. intros s Hs.
  pose proof (ddiv_quotient_digits ca cb Ha Hb) as Hq. cbv zeta in Hq.
  set (q := (ca * 10 ^ Z.to_N (Z.max 0 (36 + Z.of_N (ndigits cb) - Z.of_N (ndigits ca))) / cb)%N) in *.
  assert (H36 : (10 ^ 36 <= 10 * q + s)%N).
  { replace 36%N with (N.succ 35) by reflexivity. rewrite N.pow_succ_r'. set (x := (10 ^ 35)%N) in *. clearbody x. lia. }
  pose proof (ndigits_ge _ _ H36) as Hn. unfold target_exp, PREC. lia.
Qed.

(* ---------------------------------------------------------------- the sticky-digit argument of the square root *)
(* s = floor(sqrt n) with one extra digit saying whether n is a perfect square: as soon as at least two digits are dropped,
   rounding 10*s + sticky is rounding sqrt n: c is nearest ((2c-1)P/2 <= sqrt n <= (2c+1)P/2, written with squares), ties to even. *)
Lemma sqrt_sticky : forall n D, (2 <= D)%N ->
  let s := N.sqrt n in let m := (10 * s + (if (s * s =? n)%N then 0 else 1))%N in
  let c := Z.of_N (round_half_even m D) in let P := Z.of_N (10 ^ (D - 1)) in
  4 * Z.of_N n <= ((2 * c + 1) * P) ^ 2 /\ (0 < c -> ((2 * c - 1) * P) ^ 2 <= 4 * Z.of_N n) /\
  (4 * Z.of_N n = ((2 * c + 1) * P) ^ 2 -> Z.even c = true) /\
  (0 < c -> 4 * Z.of_N n = ((2 * c - 1) * P) ^ 2 -> Z.even c = true).
Proof.
  intros n D HD. cbv zeta.
  pose proof (N.sqrt_spec n ltac:(lia)) as [SL SU].
  set (s := N.sqrt n) in *.
  set (t := (if (s * s =? n)%N then 0 else 1)%N).
  assert (Ht : ((t = 0 /\ s * s = n) \/ (t = 1 /\ s * s < n))%N).
  { unfold t. destruct (s * s =? n)%N eqn:E; [apply N.eqb_eq in E | apply N.eqb_neq in E]; lia. }
  assert (HP : exists H, ((10 ^ (D - 1) = 2 * H)%N /\ (0 < H)%N)).
  { exists (5 * 10 ^ (D - 2))%N. split.
    - replace (D - 1)%N with (N.succ (D - 2)) by lia. rewrite N.pow_succ_r'. lia.
    - assert (10 ^ (D - 2) <> 0)%N by (apply N.pow_nonzero; lia). lia. }
  destruct HP as (H & HP & HH).
  unfold round_half_even. assert (D =? 0 = false)%N as -> by (apply N.eqb_neq; lia).
  assert (HpD : (10 ^ D = 10 * 10 ^ (D - 1))%N).
  { replace D with (N.succ (D - 1)) at 1 by lia. apply N.pow_succ_r'. }
  rewrite HpD, HP. set (P := (2 * H)%N) in *.
  pose proof (N.div_mod s P ltac:(lia)) as DQ. pose proof (N.mod_lt s P ltac:(lia)) as MQ.
  set (Q := (s / P)%N) in *. set (R1 := (s mod P)%N) in *.
  assert (Hm : (10 * s + t = 10 * P * Q + (10 * R1 + t))%N) by lia.
  assert (Hlt : (10 * R1 + t < 10 * P)%N) by lia.
  assert (Ediv : ((10 * s + t) / (10 * P) = Q)%N).
  { symmetry. apply (N.div_unique _ _ Q (10 * R1 + t)); [exact Hlt | exact Hm]. }
  assert (Emod : ((10 * s + t) mod (10 * P) = 10 * R1 + t)%N).
  { symmetry. apply (N.mod_unique _ _ Q (10 * R1 + t)); [exact Hlt | exact Hm]. }
  rewrite Ediv, Emod. clear Ediv Emod.
  assert (HPb : Z.of_N P = 2 * Z.of_N H) by (unfold P; lia).
  assert (Hs : Z.of_N s = Z.of_N Q * Z.of_N P + Z.of_N R1) by lia.
  assert (ZL : Z.of_N s * Z.of_N s <= Z.of_N n) by nia.
  assert (ZU : Z.of_N n < (Z.of_N s + 1) * (Z.of_N s + 1)).
  { assert (N.succ s = s + 1)%N as Es by lia. rewrite Es in SU. nia. }
  rewrite !Z.pow_2_r.
  set (zs := Z.of_N s) in *. set (zn := Z.of_N n) in *. set (zQ := Z.of_N Q) in *. set (zH := Z.of_N H) in *. set (zR := Z.of_N R1) in *.
  assert (Hnn : 0 <= zQ /\ 0 <= zR /\ 0 < zH /\ 0 <= zs) by (unfold zQ, zR, zH, zs; lia).
  assert (HR : zR < 2 * zH) by (unfold zR, zH; lia).
  set (W := zQ * (2 * zH)) in *.
  assert (HW : 0 <= W) by (unfold W; nia).
  assert (HsW : zs = W + zR) by (unfold W; lia).
  assert (sq_le : forall a b, 0 <= a <= b -> a * a <= b * b) by (intros; nia).
  assert (sq_lt : forall a b, 0 <= a < b -> a * a < b * b) by (intros; nia).
  assert (E3 : (2 * (zQ + 1) + 1) * (2 * zH) = 2 * (W + 3 * zH)) by (unfold W; ring).
  assert (E1 : (2 * (zQ + 1) - 1) * (2 * zH) = 2 * (W + zH)) by (unfold W; ring).
  assert (E1' : (2 * zQ + 1) * (2 * zH) = 2 * (W + zH)) by (unfold W; ring).
  assert (E0 : (2 * zQ - 1) * (2 * zH) = 2 * (W - zH)) by (unfold W; ring).
  assert (HQW : 0 < zQ -> 2 * zH <= W).
  { intros Hq. unfold W. replace (2 * zH) with (1 * (2 * zH)) at 1 by ring. apply Z.mul_le_mono_nonneg_r; lia. }
  clearbody W.
  destruct ((5 * P <? 10 * R1 + t)%N || (10 * R1 + t =? 5 * P)%N && N.odd Q) eqn:C.
  - rewrite N2Z.inj_add. change (Z.of_N 1) with 1. fold zQ.
    assert (Hup : ((H < R1)%N \/ (R1 = H /\ t = 1%N) \/ (R1 = H /\ t = 0%N /\ N.odd Q = true))).
    { apply orb_true_iff in C. destruct C as [C|C].
      - apply N.ltb_lt in C. unfold P in C. lia.
      - apply andb_true_iff in C. destruct C as [C1 C2]. apply N.eqb_eq in C1. unfold P in C1. right. right. split; [lia | split; [lia | exact C2]]. }
    rewrite HPb, E3, E1.
    pose proof (sq_le (zs + 1) (W + 3 * zH) ltac:(lia)) as S3.
    split; [lia|]. split; [|split; [intros T; exfalso; lia|]].
    + intros _. destruct Hup as [U|[U|U]].
      * pose proof (sq_le (W + zH) zs ltac:(unfold zR, zH in *; lia)). lia.
      * pose proof (sq_le (W + zH) zs ltac:(unfold zR, zH in *; lia)). lia.
      * pose proof (sq_le (W + zH) zs ltac:(unfold zR, zH in *; lia)). lia.
    + intros _ T. destruct Hup as [U|[U|U]].
      * exfalso. pose proof (sq_lt (W + zH) zs ltac:(unfold zR, zH in *; lia)). lia.
      * exfalso. assert (zs = W + zH) as Ez by (unfold zR, zH in *; lia).
        assert (zs * zs < zn) by (unfold zs, zn; lia). rewrite Ez in *. lia.
      * destruct U as (_ & _ & U3). rewrite Z.add_1_r, Z.even_succ. unfold zQ.
        destruct Q as [|pq]; [discriminate U3 | destruct pq; cbn in U3 |- *; (reflexivity || discriminate U3)].
  - fold zQ. apply orb_false_iff in C. destruct C as [C1 C2]. apply N.ltb_ge in C1.
    assert (Hdn : ((R1 < H)%N \/ (R1 = H /\ t = 0%N /\ N.odd Q = false))).
    { destruct (N.lt_trichotomy R1 H) as [L|[L|L]]; [left; exact L | right | unfold P in C1; lia].
      assert (t = 0)%N by (unfold P in C1; lia). split; [exact L|]. split; [assumption|].
      assert ((10 * R1 + t =? 5 * P)%N = true) as E by (apply N.eqb_eq; unfold P; lia). rewrite E in C2. exact C2. }
    rewrite HPb, E1', E0.
    assert (L4 : 0 < zQ -> 2 * (W - zH) * (2 * (W - zH)) < 4 * zn).
    { intros Hq. specialize (HQW Hq). pose proof (sq_lt (W - zH) zs ltac:(lia)). lia. }
    destruct Hdn as [U|U].
    + pose proof (sq_le (zs + 1) (W + zH) ltac:(unfold zR, zH in *; lia)) as S1.
      split; [lia|]. split; [intros Hq; specialize (L4 Hq); lia|]. split; [intros T; exfalso; lia | intros Hq T; exfalso; specialize (L4 Hq); lia].
    + destruct U as (U1 & U2 & U3).
      assert (zs = W + zH) as Ez by (unfold zR, zH in *; lia).
      assert (zs * zs = zn) as Esq by (unfold zs, zn; lia).
      assert (Ev : Z.even zQ = true).
      { unfold zQ. rewrite <- Z.negb_odd. apply negb_true_iff. destruct Q as [|pq]; [reflexivity | destruct pq; cbn in U3 |- *; (reflexivity || discriminate U3)]. }
      rewrite Ez in Esq.
      split; [lia|]. split; [intros Hq; specialize (L4 Hq); lia|]. split; [intros _; exact Ev | intros _ _; exact Ev].
Qed.
