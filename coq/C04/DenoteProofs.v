(* C04/DenoteProofs.v — the ImplModel computes the denotation (C04/Denote.v), for every acyclic graph. *)
From Coq Require Import List NArith ZArith Bool Arith Lia.
From DV Require Import C04.Model C04.Proofs C04.Denote.
Import ListNotations.

(* ---------------- lookup in the lists the Spec is written with ---------------- *)
Lemma lookup_none_mem n (e : env) : lookup n e = None <-> mem n (map fst e) = false.
Proof. induction e as [|[k v] r IH]; [split; reflexivity|]. cbn [lookup map fst]. unfold mem in *. cbn [existsb].
  destruct (N.eqb n k); cbn [orb]; [split; discriminate | exact IH]. Qed.

Lemma lookup_some_mem n (e : env) : mem n (map fst e) = true -> exists v, lookup n e = Some v.
Proof. intros H. destruct (lookup n e) as [v|] eqn:E; [exists v; reflexivity|]. apply lookup_none_mem in E. congruence. Qed.

Lemma lookup_filter_key (q : N -> bool) n (e : env) :
  lookup n (filter (fun kv => q (fst kv)) e) = if q n then lookup n e else None.
Proof. induction e as [|[k v] r IH]; [destruct (q n); reflexivity|]. cbn [filter fst]. destruct (q k) eqn:Q; cbn [lookup].
  - destruct (N.eqb n k) eqn:E; [apply N.eqb_eq in E; subst; rewrite Q; reflexivity | exact IH].
  - rewrite IH. destruct (N.eqb n k) eqn:E; [apply N.eqb_eq in E; subst; rewrite Q; reflexivity | reflexivity]. Qed.

Lemma lookup_map_key (g : N -> value) n (l : list N) :
  lookup n (map (fun k => (k, g k)) l) = if mem n l then Some (g n) else None.
Proof. induction l as [|k r IH]; [reflexivity|]. cbn [map lookup]. unfold mem in *. cbn [existsb].
  destruct (N.eqb n k) eqn:E; cbn [orb]; [apply N.eqb_eq in E; subst; reflexivity | exact IH]. Qed.

Lemma lookup_fold_set (g : N -> value) n (l : list N) : forall acc,
  lookup n (fold_left (fun a k => set k (g k) a) l acc) = if mem n l then Some (g n) else lookup n acc.
Proof. induction l as [|k r IH]; intros acc; [reflexivity|]. cbn [fold_left]. rewrite IH. unfold mem. cbn [existsb]. fold (mem n r).
  destruct (mem n r); [rewrite orb_true_r; reflexivity|]. rewrite orb_false_r, lookup_set.
  destruct (N.eqb n k) eqn:E; [apply N.eqb_eq in E; subst; reflexivity | reflexivity]. Qed.

Lemma zip_app a b c : zip a (b ++ c) = zip (zip a b) c.
Proof. unfold zip. apply fold_left_app. Qed.
Lemma zip_nil a : zip a [] = a.
Proof. reflexivity. Qed.
Lemma zip_one a k v : zip a [(k, v)] = set k v a.
Proof. reflexivity. Qed.

Lemma env_eq_refl a : env_eq a a.
Proof. intros n. reflexivity. Qed.
Lemma getv_env_eq a b n : env_eq a b -> getv n a = getv n b.
Proof. intros H. unfold getv. rewrite (H n). reflexivity. Qed.

Lemma keys_req_decisions G dv l x : map fst (req_decisions G dv l x) = dec_names G l.
Proof. unfold req_decisions, dec_names. induction l as [|d r IH]; [reflexivity|]. cbn [flat_map]. rewrite map_app, IH. f_equal.
  destruct (find d G) as [[| | |]|]; reflexivity. Qed.

Lemma svc_fn_zip G s acc : svc_fn G s acc = zip acc (svc_fun G s).
Proof. unfold svc_fn, svc_fun. destruct (find s G) as [[| | |name ins indecs encs outs]|]; reflexivity. Qed.

Lemma nodup_zip_nil b : NoDup (map fst (zip [] b)).
Proof. apply nodup_zip. constructor. Qed.

(* lookup in a context built by successive set_entry from nothing: the last binding *)
Lemma lookup_zip_nil n b : lookup n (zip [] b) = lookup n (rev b).
Proof. rewrite lookup_zip. destruct (lookup n (rev b)); reflexivity. Qed.

(* the priority list of the Spec, read name by name *)
Lemma dec_scope_lookup G kb dv rd ri inp n :
  let bound := rev (req_decisions G dv rd inp) ++ rev kb in
  lookup n (dec_scope G kb dv rd ri inp) =
  match lookup n bound with
  | Some v => Some (match lookup n inp with Some v' => v' | None => v end)
  | None => if mem n (input_names G ri) then Some (input_value n inp) else None
  end.
Proof. intros bound. unfold dec_scope. fold bound. rewrite !lookup_app. unfold supplied_over.
  rewrite (lookup_filter_key (fun k => mem k (map fst bound))). unfold req_inputs. rewrite (lookup_map_key (fun k => input_value k inp)).
  destruct (lookup n bound) as [v|] eqn:Eb.
  - assert (Hm : mem n (map fst bound) = true).
    { destruct (mem n (map fst bound)) eqn:M; [reflexivity|]. apply lookup_none_mem in M. congruence. }
    rewrite Hm. destruct (lookup n inp); reflexivity.
  - pose proof (proj1 (lookup_none_mem n bound) Eb) as Hm. rewrite Hm. reflexivity. Qed.

Section DenoteProofs.
Variable eval : (N -> env -> value) -> env -> expr -> value.
(* the two things assumed of the expression evaluator: it uses its service call-back extensionally, and its scope by look-up *)
Hypothesis eval_ext_svc : forall s1 s2 sc e, (forall i x, s1 i x = s2 i x) -> eval s1 sc e = eval s2 sc e.
Hypothesis eval_ext_env : forall s sc1 sc2 e, env_eq sc1 sc2 -> eval s sc1 e = eval s sc2 e.
Variable G : graph.

(* what the registry (one level of closures) must provide for a requirement r *)
Definition GoodK (rec : kind -> N -> env -> env -> env) (kb : N -> env) (r : N) : Prop :=
  forall inp acc, rec KBkm r inp acc = zip acc (kb r).
Definition GoodD (rec : kind -> N -> env -> env -> env) (dv : N -> env -> value) (r : N) : Prop :=
  forall inp acc, rec KDec r inp acc = match find r G with Some (NDec dn _ _ _ _ _) => set dn (dv r inp) acc | _ => acc end.
Definition svc_result (rec : kind -> N -> env -> env -> env) (r : N) (x : env) : value :=
  match find r G with Some (NSvc name _ _ _ _) => getv name (rec KSvc r x []) | _ => VNull end.
Definition GoodS (rec : kind -> N -> env -> env -> env) (sv : N -> env -> value) (r : N) : Prop :=
  forall x, svc_result rec r x = sv r x.

(* ---------- knowledge models ---------- *)
Lemma fold_know rec kb rk inp : (forall r, In r rk -> GoodK rec kb r) -> forall acc,
  fold_left (fun a r => svc_fn G r (rec KBkm r inp a)) rk acc = zip acc (flat_map (fun r => kb r ++ svc_fun G r) rk).
Proof. induction rk as [|r l IH]; intros H acc; [reflexivity|]. cbn [fold_left flat_map].
  rewrite IH by (intros x Hx; apply H; right; exact Hx). rewrite (H r (or_introl eq_refl)), svc_fn_zip, !zip_app. reflexivity. Qed.

Lemma body_bkm rec kb id name ps b rk callable inp out : find id G = Some (NBkm name ps b rk callable) ->
  (forall r, In r rk -> GoodK rec kb r) ->
  body eval true G rec KBkm id inp out = zip out (flat_map (fun r => kb r ++ svc_fun G r) rk ++ [(name, VBkm ps b)]).
Proof. intros E H. unfold body. rewrite E. cbv zeta. rewrite (fold_know rec kb rk inp H), zip_app. reflexivity. Qed.

(* ---------- decisions ---------- *)
Lemma fold_bkm rec kb rk inp : (forall r, In r rk -> GoodK rec kb r) -> forall acc,
  fold_left (fun a r => rec KBkm r inp a) rk acc = zip acc (flat_map kb rk).
Proof. induction rk as [|r l IH]; intros H acc; [reflexivity|]. cbn [fold_left flat_map].
  rewrite IH by (intros x Hx; apply H; right; exact Hx). rewrite (H r (or_introl eq_refl)), zip_app. reflexivity. Qed.

Lemma fold_svc_fn rk : forall acc, fold_left (fun a s => svc_fn G s a) rk acc = zip acc (flat_map (svc_fun G) rk).
Proof. induction rk as [|r l IH]; intros acc; [reflexivity|]. cbn [fold_left flat_map]. rewrite IH, svc_fn_zip, zip_app. reflexivity. Qed.

Lemma fold_dec rec dv rd inp : (forall d, In d rd -> GoodD rec dv d) -> forall acc,
  fold_left (fun a d => rec KDec d inp a) rd acc = zip acc (req_decisions G dv rd inp).
Proof. unfold req_decisions. induction rd as [|d l IH]; intros H acc; [reflexivity|]. cbn [fold_left flat_map].
  rewrite IH by (intros x Hx; apply H; right; exact Hx). rewrite (H d (or_introl eq_refl)), zip_app.
  destruct (find d G) as [[| | |]|]; reflexivity. Qed.

(* the scope the closure builds by set_entry / zip / overwrite binds every name as the priority list of the Spec does *)
Lemma scope_eq kb db ri inp :
  env_eq (zip (inputs_into G ri inp []) (overwrite (zip (zip [] kb) db) inp))
         (supplied_over inp (rev db ++ rev kb) ++ (rev db ++ rev kb) ++ req_inputs G ri inp).
Proof. intros n. set (bound := rev db ++ rev kb).
  assert (Hk3 : lookup n (zip (zip [] kb) db) = lookup n bound).
  { unfold bound. rewrite lookup_zip, lookup_app, lookup_zip_nil. reflexivity. }
  assert (Hnd : NoDup (map fst (overwrite (zip (zip [] kb) db) inp))).
  { rewrite keys_overwrite. apply nodup_zip. apply nodup_zip_nil. }
  rewrite lookup_zip, (lookup_rev_nodup n _ Hnd), lookup_overwrite, Hk3, lookup_inputs_into.
  rewrite !lookup_app. unfold supplied_over. rewrite (lookup_filter_key (fun k => mem k (map fst bound))).
  unfold req_inputs. rewrite (lookup_map_key (fun k => input_value k inp)).
  destruct (lookup n bound) as [v|] eqn:Eb.
  - assert (Hm : mem n (map fst bound) = true).
    { destruct (mem n (map fst bound)) eqn:M; [reflexivity|]. apply lookup_none_mem in M. congruence. }
    rewrite Hm. destruct (lookup n inp); reflexivity.
  - pose proof (proj1 (lookup_none_mem n bound) Eb) as Hm. rewrite Hm. reflexivity. Qed.

Lemma svc_call_callback rec sv callable : (forall s, In s callable -> GoodS rec sv s) ->
  forall i x, svc_call G rec callable i x = callback sv callable i x.
Proof. intros H i x. unfold svc_call, callback. destruct (mem i callable) eqn:M; [|reflexivity].
  rewrite <- (H i (mem_In _ _ M) x). unfold svc_result. destruct (find i G) as [[| | |]|]; reflexivity. Qed.

Lemma body_dec rec kf dv sv id name logic rk rd ri callable inp out : find id G = Some (NDec name logic rk rd ri callable) ->
  (forall r, In r rk -> GoodK rec (know_bkm kf G) r) -> (forall d, In d rd -> GoodD rec dv d) ->
  (forall s, In s callable -> GoodS rec sv s) ->
  body eval true G rec KDec id inp out = set name (dec_sem eval G kf dv sv id inp) out.
Proof. intros E HK HD HS. unfold body, dec_sem. rewrite E. cbv zeta. f_equal.
  rewrite (fold_bkm rec (know_bkm kf G) rk inp HK), fold_svc_fn, <- zip_app. fold (know_dec kf G rk).
  rewrite (fold_dec rec dv rd inp HD).
  rewrite (eval_ext_svc _ _ _ _ (svc_call_callback rec sv callable HS)).
  apply eval_ext_env. unfold dec_scope. apply scope_eq. Qed.

(* ---------- decision services ---------- *)
Lemma svc_input_eq ins indecs inp :
  env_eq (inputs_into G ins inp (fold_left (fun acc nm => set nm (getv nm inp) acc) (dec_names G indecs) [])) (svc_input G ins indecs inp).
Proof. intros n. unfold inputs_into, svc_input, req_inputs.
  rewrite (lookup_fold_set (fun k => input_value k inp)), (lookup_fold_set (fun k => getv k inp)), lookup_app,
          (lookup_map_key (fun k => input_value k inp)), (lookup_map_key (fun k => getv k inp)).
  destruct (mem n (input_names G ins)); reflexivity. Qed.

Lemma req_decisions_ext dv l x y : (forall d, In d l -> dv d x = dv d y) -> req_decisions G dv l x = req_decisions G dv l y.
Proof. unfold req_decisions. induction l as [|d r IH]; intros H; [reflexivity|]. cbn [flat_map].
  rewrite IH by (intros z Hz; apply H; right; exact Hz). rewrite (H d (or_introl eq_refl)). reflexivity. Qed.

Lemma fold_ctx (c2 results : env) : forall ons acc, (forall n, In n ons -> lookup n c2 = Some (getv n results)) ->
  fold_left (fun a n => match lookup n c2 with Some v => set n v a | None => a end) ons acc = zip acc (map (fun n => (n, getv n results)) ons).
Proof. induction ons as [|n r IH]; intros acc H; [reflexivity|]. cbn [fold_left map]. rewrite (H n (or_introl eq_refl)).
  rewrite IH by (intros z Hz; apply H; right; exact Hz). reflexivity. Qed.

Lemma body_svc rec dv id name ins indecs encs outs inp : find id G = Some (NSvc name ins indecs encs outs) ->
  (forall d, In d (encs ++ outs) -> GoodD rec dv d) ->
  (forall d x y, env_eq x y -> dv d x = dv d y) ->
  getv name (body eval true G rec KSvc id inp []) = svc_sem G dv id inp.
Proof. intros E HD Hext. unfold body, svc_sem. rewrite E. cbv zeta.
  set (e3 := inputs_into G ins inp _). set (x := svc_input G ins indecs inp).
  assert (Hx : env_eq e3 x) by apply svc_input_eq.
  rewrite (fold_dec rec dv encs e3) by (intros d Hd; apply HD; apply in_or_app; left; exact Hd).
  rewrite (fold_dec rec dv outs e3) by (intros d Hd; apply HD; apply in_or_app; right; exact Hd).
  rewrite (req_decisions_ext dv outs e3 x) by (intros d _; apply Hext; exact Hx).
  set (results := rev (req_decisions G dv outs x)). set (c2 := zip _ (req_decisions G dv outs x)).
  assert (Hl : forall n, In n (dec_names G outs) -> lookup n c2 = Some (getv n results)).
  { intros n Hn. unfold c2. rewrite lookup_zip. fold results.
    assert (Hm : mem n (map fst results) = true).
    { apply In_mem. unfold results. rewrite map_rev, <- in_rev, keys_req_decisions. exact Hn. }
    destruct (lookup_some_mem _ _ Hm) as [v Ev]. unfold getv. rewrite Ev. reflexivity. }
  destruct (dec_names G outs) as [|n [|n2 l]] eqn:En.
  - cbn [fold_left map]. unfold getv. rewrite lookup_set_same. reflexivity.
  - rewrite (Hl n (or_introl eq_refl)). unfold getv at 1. rewrite lookup_set_same. reflexivity.
  - rewrite (fold_ctx c2 results _ [] Hl). unfold getv at 1. rewrite lookup_set_same. reflexivity. Qed.

(* ---------- what decisions denote depends on the input context only through look-up ---------- *)
Lemma supplied_over_ext inp1 inp2 bound : env_eq inp1 inp2 -> env_eq (supplied_over inp1 bound) (supplied_over inp2 bound).
Proof. intros H n. unfold supplied_over. rewrite !(lookup_filter_key (fun k => mem k (map fst bound))), (H n). reflexivity. Qed.

Lemma req_inputs_ext ri inp1 inp2 : env_eq inp1 inp2 -> req_inputs G ri inp1 = req_inputs G ri inp2.
Proof. intros H. unfold req_inputs. apply map_ext. intros n. unfold input_value. rewrite (getv_env_eq _ _ n H). reflexivity. Qed.

Lemma app_env_eq a1 a2 b : env_eq a1 a2 -> env_eq (a1 ++ b) (a2 ++ b).
Proof. intros H n. rewrite !lookup_app, (H n). reflexivity. Qed.

Lemma dval_ext kf : forall f id inp1 inp2, env_eq inp1 inp2 -> dval eval G kf f id inp1 = dval eval G kf f id inp2.
Proof. induction f as [|f IH]; intros id inp1 inp2 H; [reflexivity|]. cbn [dval]. unfold dec_sem.
  destruct (find id G) as [[|name logic rk rd ri callable| |]|]; try reflexivity.
  apply eval_ext_env. unfold dec_scope.
  rewrite (req_decisions_ext (dval eval G kf f) rd inp1 inp2) by (intros d _; apply IH; exact H).
  rewrite (req_inputs_ext ri inp1 inp2 H). apply app_env_eq. apply supplied_over_ext. exact H. Qed.

(* ---------- missing nodes ---------- *)
Lemma missing_good f kb dv sv r : find r G = None -> kb r = [] -> sv r = (fun _ => VNull) ->
  GoodK (run eval true G f) kb r /\ GoodD (run eval true G f) dv r /\ GoodS (run eval true G f) sv r.
Proof. intros E Hk Hs. repeat split.
  - intros inp acc. rewrite run_missing, Hk by exact E. reflexivity.
  - intros inp acc. rewrite run_missing, E by exact E. reflexivity.
  - intros x. unfold svc_result. rewrite E, Hs. reflexivity. Qed.

Lemma know_bkm_missing k r : find r G = None -> know_bkm k G r = [].
Proof. intros E. destruct k; [reflexivity|]. cbn [know_bkm]. rewrite E. reflexivity. Qed.
Lemma svc_sem_missing dv r : find r G = None -> svc_sem G dv r = (fun _ => VNull).
Proof. intros E. unfold svc_sem. rewrite E. reflexivity. Qed.

(* ---------- the recursive closures compute the denotation: along a topological order, for all sufficient fuels ---------- *)
Definition Good3 (kf f k g : nat) (r : N) : Prop :=
  GoodK (run eval true G f) (know_bkm k G) r /\
  GoodD (run eval true G f) (dval eval G kf g) r /\
  GoodS (run eval true G f) (svc_sem G (dval eval G kf g)) r.

Lemma main_Topo kf o : Topo G o -> length o <= kf -> forall id, In id o -> forall f k g, length o <= f -> length o <= k -> length o <= g ->
  Good3 kf f k g id.
Proof.
  induction 1 as [|o id HT IH Hn Hr]; intros Hkf id' Hin f k g Hf Hk Hg; [destruct Hin|].
  rewrite app_length in Hkf, Hf, Hk, Hg. cbn [length] in Hkf, Hf, Hk, Hg.
  apply in_app_or in Hin. destruct Hin as [Hin|[<-|[]]]; [apply IH; [lia | exact Hin | lia | lia | lia]|].
  destruct f as [|f']; [lia|]. destruct k as [|k']; [lia|]. destruct g as [|g']; [lia|].
  assert (Req : forall r, In r (refs G id) -> forall k2 g2, length o <= k2 -> length o <= g2 -> Good3 kf f' k2 g2 r).
  { intros r Hrin k2 g2 Hk2 Hg2. destruct (in_dec N.eq_dec r o) as [Hro|Hrn].
    - apply IH; [lia | exact Hro | lia | lia | lia].
    - destruct (Hr r Hrin) as [Hro|Hnone]; [contradiction|].
      apply missing_good; [exact Hnone | apply know_bkm_missing; exact Hnone | apply svc_sem_missing; exact Hnone]. }
  unfold refs in Req.
  destruct (find id G) as [[name|name logic rk rd ri callable|name ps b rk callable|name ins indecs encs outs]|] eqn:E.
  - (* input data *)
    repeat split.
    + intros inp acc. cbn [run know_bkm]. unfold body. rewrite E. reflexivity.
    + intros inp acc. cbn [run]. unfold body. rewrite E. reflexivity.
    + intros x. unfold svc_result, svc_sem. rewrite E. reflexivity.
  - (* decision *)
    repeat split.
    + intros inp acc. cbn [run know_bkm]. unfold body. rewrite E. reflexivity.
    + intros inp acc. cbn [run dval]. rewrite E.
      apply (body_dec (run eval true G f') kf (dval eval G kf g') (svc_sem G (dval eval G kf g')) id name logic rk rd ri callable inp acc E).
      * intros r Hrin. refine (proj1 (Req r _ kf g' _ _)); [apply in_or_app; left; exact Hrin | lia | lia].
      * intros d Hd. refine (proj1 (proj2 (Req d _ kf g' _ _))); [apply in_or_app; right; apply in_or_app; left; exact Hd | lia | lia].
      * intros s Hs. refine (proj2 (proj2 (Req s _ kf g' _ _))); [apply in_or_app; right; apply in_or_app; right; exact Hs | lia | lia].
    + intros x. unfold svc_result, svc_sem. rewrite E. reflexivity.
  - (* knowledge model *)
    repeat split.
    + intros inp acc. cbn [run know_bkm]. rewrite E.
      apply (body_bkm (run eval true G f') (know_bkm k' G) id name ps b rk callable inp acc E).
      intros r Hrin. refine (proj1 (Req r _ k' g' _ _)); [apply in_or_app; left; exact Hrin | lia | lia].
    + intros inp acc. cbn [run]. unfold body. rewrite E. reflexivity.
    + intros x. unfold svc_result, svc_sem. rewrite E. reflexivity.
  - (* decision service *)
    repeat split.
    + intros inp acc. cbn [run know_bkm]. unfold body. rewrite E. reflexivity.
    + intros inp acc. cbn [run]. unfold body. rewrite E. reflexivity.
    + intros x. unfold svc_result. rewrite E. cbn [run].
      apply (body_svc (run eval true G f') (dval eval G kf (S g')) id name ins indecs encs outs x E).
      * intros d Hd. refine (proj1 (proj2 (Req d Hd kf (S g') _ _))); lia.
      * intros d x1 x2. apply dval_ext.
  - (* not in the graph *)
    apply missing_good; [exact E | apply know_bkm_missing; exact E | apply svc_sem_missing; exact E].
Qed.

(* ---------- the number of nodes bounds the fuel: a topological order restricted to the nodes of the graph ---------- *)
Definition in_graph (id : N) : bool := negb (is_none (find id G)).

Lemma find_some_in id n : find id G = Some n -> In id (map fst G).
Proof. induction G as [|[k x] r IH]; [discriminate|]. cbn [find map fst In]. destruct (N.eqb id k) eqn:E.
  - apply N.eqb_eq in E. subst. intros _. left. reflexivity.
  - intros H. right. apply IH. exact H. Qed.

Lemma Topo_NoDup o : Topo G o -> NoDup o.
Proof. induction 1 as [|o id HT IH Hn Hr]; [constructor|]. rewrite <- (rev_involutive (o ++ [id])). apply NoDup_rev.
  rewrite rev_app_distr. cbn [rev app]. constructor; [rewrite <- in_rev; exact Hn | apply NoDup_rev; exact IH]. Qed.

Lemma Topo_filter o : Topo G o -> Topo G (filter in_graph o).
Proof. induction 1 as [|o id HT IH Hn Hr]; [constructor|]. rewrite filter_app. cbn [filter].
  destruct (in_graph id) eqn:Ei; [|rewrite app_nil_r; exact IH]. constructor; [exact IH | |].
  - intro Hin. apply filter_In in Hin. tauto.
  - intros r Hrin. destruct (Hr r Hrin) as [Hro|Hnone]; [|right; exact Hnone].
    destruct (find r G) as [n|] eqn:Er; [|right; reflexivity]. left. apply filter_In. split; [exact Hro|].
    unfold in_graph. rewrite Er. reflexivity. Qed.

Lemma filter_length_graph o : Topo G o -> length (filter in_graph o) <= length G.
Proof. intros HT. rewrite <- (map_length fst G). apply NoDup_incl_length.
  - apply Topo_NoDup. apply Topo_filter. exact HT.
  - intros id Hin. apply filter_In in Hin. destruct Hin as [_ Hg]. unfold in_graph in Hg.
    destruct (find id G) as [n|] eqn:E; [|discriminate]. apply (find_some_in id n E). Qed.

Lemma filter_length_le o : length (filter in_graph o) <= length o.
Proof. induction o as [|x r IH]; [apply le_n|]. cbn [filter length]. destruct (in_graph x); cbn [length]; lia. Qed.

(* every fuel beyond the number of nodes: the three components for every node of the graph listed in the order *)
Lemma good_graph order id f k g kf : topo_ok G order = true -> In id order -> in_graph id = true ->
  length order <= f -> length G <= k -> length G <= g -> length G <= kf -> Good3 kf f k g id.
Proof. intros HT Hin Hg Hf Hk Hg' Hkf. pose proof (topo_ok_Topo _ _ HT) as T.
  pose proof (filter_length_graph order T). pose proof (filter_length_le order).
  apply (main_Topo kf (filter in_graph order) (Topo_filter order T)); try lia.
  apply filter_In. split; assumption. Qed.

(* ---------- the theorem ---------- *)
Lemma know_bkm_last k id name ps b rk callable : find id G = Some (NBkm name ps b rk callable) ->
  lookup name (rev (know_bkm (S k) G id)) = Some (VBkm ps b).
Proof. intros E. cbn [know_bkm]. rewrite E, rev_app_distr. cbn [rev app lookup]. rewrite N.eqb_refl. reflexivity. Qed.

Lemma params_eq ps inp out : NoDup (map fst out) ->
  env_eq (zip (fold_left (fun acc p => match lookup p inp with Some v => set p v acc | None => acc end) ps []) out)
         (rev' out ++ flat_map (fun p => match lookup p inp with Some v => [(p, v)] | None => [] end) ps).
Proof. intros Hnd n. unfold rev'. rewrite <- rev_alt. rewrite lookup_zip, lookup_app. destruct (lookup n (rev out)); [reflexivity|].
  assert (H : forall acc, lookup n (fold_left (fun acc p => match lookup p inp with Some v => set p v acc | None => acc end) ps acc) =
                     match lookup n (flat_map (fun p => match lookup p inp with Some v => [(p, v)] | None => [] end) ps) with
                     | Some v => Some v | None => lookup n acc end).
  { induction ps as [|p r IH]; intros acc; [reflexivity|]. cbn [fold_left flat_map]. rewrite IH, lookup_app.
    destruct (lookup p inp) as [v|] eqn:Ep; cbn [lookup].
    - destruct (N.eqb n p) eqn:Enp.
      + apply N.eqb_eq in Enp. subst p.
        destruct (lookup n (flat_map (fun p => match lookup p inp with Some v => [(p, v)] | None => [] end) r)) as [w|] eqn:Er.
        * (* a later occurrence of the same parameter: the same supplied value *)
          assert (Hw : forall l w, lookup n (flat_map (fun p => match lookup p inp with Some v => [(p, v)] | None => [] end) l) = Some w -> w = v).
          { induction l as [|q l IHl]; intros w0 Hw0; [discriminate|]. cbn [flat_map] in Hw0. rewrite lookup_app in Hw0.
            destruct (lookup q inp) as [vq|] eqn:Eq; cbn [lookup] in Hw0; [|apply IHl; exact Hw0].
            destruct (N.eqb n q) eqn:Enq; [apply N.eqb_eq in Enq; subst q; congruence | apply IHl; exact Hw0]. }
          rewrite (Hw r w Er). reflexivity.
        * rewrite lookup_set, N.eqb_refl. reflexivity.
      + destruct (lookup n (flat_map _ r)); [reflexivity|]. rewrite lookup_set, Enp. reflexivity.
    - destruct (lookup n (flat_map _ r)); reflexivity. }
  rewrite H. destruct (lookup n (flat_map _ ps)); reflexivity. Qed.

Theorem impl_is_denotation order id f inp : topo_ok G order = true -> In id order -> length order <= f ->
  impl_invoke eval true G f id inp = denote eval G id inp.
Proof. intros HT Hin Hf. unfold impl_invoke, invoke, denote.
  destruct (find id G) as [[name|name logic rk rd ri callable|name ps b rk callable|name ins indecs encs outs]|] eqn:E; try reflexivity.
  - (* decision *)
    assert (Hg : in_graph id = true) by (unfold in_graph; rewrite E; reflexivity).
    destruct (good_graph order id f (dfuel G) (dfuel G) (dfuel G) HT Hin Hg Hf) as [_ [D _]]; try (unfold dfuel; lia).
    rewrite D, E. unfold getv. rewrite lookup_set_same. reflexivity.
  - (* knowledge model *)
    assert (Hg : in_graph id = true) by (unfold in_graph; rewrite E; reflexivity).
    destruct (good_graph order id f (dfuel G) (dfuel G) (dfuel G) HT Hin Hg Hf) as [K _]; try (unfold dfuel; lia).
    cbv zeta. rewrite !K. rewrite lookup_zip_nil. unfold dfuel at 1. rewrite (know_bkm_last _ id name ps b rk callable E).
    unfold denote_bkm, bkm_sem. rewrite E.
    assert (Hcb : forall i x, svc_call G (run eval true G f) callable i x = callback (denote_svc eval G) callable i x).
    { apply svc_call_callback. intros s Hs.
      assert (Hrefs : In s (refs G id)) by (unfold refs; rewrite E; apply in_or_app; right; exact Hs).
      destruct (Topo_refs G order (topo_ok_Topo _ _ HT) id Hin s Hrefs) as [Hso|Hnone].
      - destruct (find s G) as [ns|] eqn:Es.
        + assert (Hgs : in_graph s = true) by (unfold in_graph; rewrite Es; reflexivity).
          destruct (good_graph order s f (dfuel G) (dfuel G) (dfuel G) HT Hso Hgs Hf) as [_ [_ S]]; try (unfold dfuel; lia). exact S.
        + intros x. unfold svc_result, denote_svc, svc_sem. rewrite Es. reflexivity.
      - intros x. unfold svc_result, denote_svc, svc_sem. rewrite Hnone. reflexivity. }
    rewrite (eval_ext_svc _ _ _ _ Hcb). apply eval_ext_env.
    intros n. rewrite (params_eq ps inp (zip [] (know_bkm (dfuel G) G id)) (nodup_zip_nil _) n). unfold rev'. rewrite <- rev_alt.
    rewrite !lookup_app.
    assert (Hz : lookup n (rev (zip [] (know_bkm (dfuel G) G id))) = lookup n (rev (know_bkm (dfuel G) G id))).
    { rewrite (lookup_rev_nodup n _ (nodup_zip_nil _)). apply lookup_zip_nil. }
    rewrite Hz. reflexivity.
  - (* decision service *)
    assert (Hg : in_graph id = true) by (unfold in_graph; rewrite E; reflexivity).
    destruct (good_graph order id f (dfuel G) (dfuel G) (dfuel G) HT Hin Hg Hf) as [_ [_ S]]; try (unfold dfuel; lia).
    specialize (S inp). unfold svc_result in S. rewrite E in S. exact S.
Qed.

Lemma req_decisions_ext_dv dv1 dv2 l x :
  (forall d, In d l -> (exists dn lg rk rd ri c, find d G = Some (NDec dn lg rk rd ri c)) -> dv1 d x = dv2 d x) ->
  req_decisions G dv1 l x = req_decisions G dv2 l x.
Proof. unfold req_decisions. induction l as [|d r IH]; intros H; [reflexivity|]. cbn [flat_map].
  rewrite IH by (intros z Hz; apply H; right; exact Hz).
  destruct (find d G) as [[|dn lg rk rd ri c| |]|] eqn:E; try reflexivity.
  rewrite (H d (or_introl eq_refl)); [reflexivity|]. exists dn, lg, rk, rd, ri, c. exact E. Qed.

(* ---------- the fuel of the denotation is irrelevant beyond the number of nodes; the semantic equations ---------- *)
Lemma dval_stable order d inp kf g1 g2 : topo_ok G order = true -> In d order ->
  length G <= kf -> length G <= g1 -> length G <= g2 -> dval eval G kf g1 d inp = dval eval G kf g2 d inp.
Proof. intros HT Hin Hkf H1 H2. destruct (find d G) as [n|] eqn:E.
  - assert (Hg : in_graph d = true) by (unfold in_graph; rewrite E; reflexivity).
    destruct (good_graph order d (length order) kf g1 kf HT Hin Hg (le_n _) Hkf H1 Hkf) as [_ [D1 _]].
    destruct (good_graph order d (length order) kf g2 kf HT Hin Hg (le_n _) Hkf H2 Hkf) as [_ [D2 _]].
    specialize (D1 inp []). specialize (D2 inp []). rewrite D1 in D2. rewrite E in D2.
    destruct n as [nm|nm logic rk rd ri callable|nm ps b rk callable|nm ins indecs encs outs].
    + destruct g1, g2; cbn [dval]; unfold dec_sem; rewrite ?E; reflexivity.
    + cbn [set] in D2. injection D2 as D2. exact D2.
    + destruct g1, g2; cbn [dval]; unfold dec_sem; rewrite ?E; reflexivity.
    + destruct g1, g2; cbn [dval]; unfold dec_sem; rewrite ?E; reflexivity.
  - destruct g1, g2; cbn [dval]; unfold dec_sem; rewrite ?E; reflexivity. Qed.

Lemma svc_stable order s x kf g1 g2 : topo_ok G order = true -> In s order ->
  length G <= kf -> length G <= g1 -> length G <= g2 -> svc_sem G (dval eval G kf g1) s x = svc_sem G (dval eval G kf g2) s x.
Proof. intros HT Hin Hkf H1 H2. destruct (find s G) as [n|] eqn:E.
  - assert (Hg : in_graph s = true) by (unfold in_graph; rewrite E; reflexivity).
    destruct (good_graph order s (length order) kf g1 kf HT Hin Hg (le_n _) Hkf H1 Hkf) as [_ [_ S1]].
    destruct (good_graph order s (length order) kf g2 kf HT Hin Hg (le_n _) Hkf H2 Hkf) as [_ [_ S2]].
    rewrite <- (S1 x), <- (S2 x). reflexivity.
  - unfold svc_sem. rewrite E. reflexivity. Qed.

Theorem denote_fuel_irrelevant order id inp g : topo_ok G order = true -> In id order -> length G <= g ->
  dval eval G (dfuel G) g id inp = denote_dec eval G id inp.
Proof. intros HT Hin Hg. unfold denote_dec. apply (dval_stable order); try assumption; unfold dfuel; lia. Qed.

(* a decision denotes the value of its logic in the environment of what its requirements denote *)
Theorem denote_decision order id name logic rk rd ri callable inp : topo_ok G order = true -> In id order ->
  find id G = Some (NDec name logic rk rd ri callable) ->
  denote eval G id inp =
  eval (callback (denote_svc eval G) callable)
       (dec_scope G (know_dec (dfuel G) G rk) (denote_dec eval G) rd ri inp) logic.
Proof. intros HT Hin E. unfold denote. rewrite E. unfold denote_dec at 1. unfold dfuel at 2. cbn [dval]. unfold dec_sem. rewrite E.
  pose proof (Topo_refs G order (topo_ok_Topo _ _ HT) id Hin) as R. unfold refs in R. rewrite E in R.
  assert (Hcb : forall i x, callback (svc_sem G (dval eval G (dfuel G) (length G))) callable i x = callback (denote_svc eval G) callable i x).
  { intros i x. unfold callback. destruct (mem i callable) eqn:M; [|reflexivity]. apply mem_In in M.
    destruct (R i (ltac:(apply in_or_app; right; apply in_or_app; right; exact M))) as [Hio|Hnone].
    - apply (svc_stable order); try assumption; unfold dfuel; lia.
    - unfold denote_svc, svc_sem. rewrite Hnone. reflexivity. }
  rewrite (eval_ext_svc _ _ _ _ Hcb).
  assert (Hrd : req_decisions G (dval eval G (dfuel G) (length G)) rd inp = req_decisions G (denote_dec eval G) rd inp).
  { apply req_decisions_ext_dv. intros d Hd [dn [lg [rk' [rd' [ri' [c' Ed]]]]]].
    destruct (R d (ltac:(apply in_or_app; right; apply in_or_app; left; exact Hd))) as [Hdo|Hnone]; [|congruence].
    unfold denote_dec. apply (dval_stable order); try assumption; unfold dfuel; lia. }
  unfold dec_scope. rewrite Hrd. reflexivity.
Qed.

(* inputs outside the requirement closure are irrelevant to what an element denotes *)
Theorem denote_irrelevant_inputs order id inp1 inp2 : topo_ok G order = true -> In id order ->
  agree (closure_names G order id) inp1 inp2 -> denote eval G id inp1 = denote eval G id inp2.
Proof. intros HT Hin Hag.
  rewrite <- (impl_is_denotation order id (length order) inp1 HT Hin (le_n _)), <- (impl_is_denotation order id (length order) inp2 HT Hin (le_n _)).
  apply (irrelevant_inputs eval eval_ext_svc true G order); try assumption. apply le_n. Qed.
End DenoteProofs.

(* ---------------- the tiny evaluator reads its scope by look-up ---------------- *)
Lemma env_eq_set a b k v : env_eq a b -> env_eq (set k v a) (set k v b).
Proof. intros H n. rewrite !lookup_set, (H n). reflexivity. Qed.
Lemma env_eq_zip a b c : env_eq a b -> env_eq (zip a c) (zip b c).
Proof. intros H n. rewrite !lookup_zip, (H n). reflexivity. Qed.

Definition res_eq (r1 r2 : value * env) : Prop := fst r1 = fst r2 /\ env_eq (snd r1) (snd r2).

Section TevEnv.
Variables (ev : env -> expr -> value * env) (svc : N -> env -> value) (leaky : bool).
Hypothesis Hev : forall sc1 sc2 e, env_eq sc1 sc2 -> res_eq (ev sc1 e) (ev sc2 e).

Lemma evs_env : forall l sc1 sc2, env_eq sc1 sc2 -> fst (evs ev sc1 l) = fst (evs ev sc2 l) /\ env_eq (snd (evs ev sc1 l)) (snd (evs ev sc2 l)).
Proof. induction l as [|x r IH]; intros sc1 sc2 H; [split; [reflexivity | exact H]|]. cbn [evs].
  destruct (Hev sc1 sc2 x H) as [Hv Hs]. destruct (ev sc1 x) as [v1 s1]. destruct (ev sc2 x) as [v2 s2]. cbn [fst snd] in *.
  destruct (IH s1 s2 Hs) as [Hvs Hss]. destruct (evs ev s1 r) as [vs1 t1]. destruct (evs ev s2 r) as [vs2 t2]. cbn [fst snd] in *.
  subst. split; [reflexivity | exact Hss]. Qed.

Lemma ctx_go_env : forall l sc1 sc2 acc, env_eq sc1 sc2 ->
  fst (ctx_go ev sc1 acc l) = fst (ctx_go ev sc2 acc l) /\ env_eq (snd (ctx_go ev sc1 acc l)) (snd (ctx_go ev sc2 acc l)).
Proof. induction l as [|[k x] r IH]; intros sc1 sc2 acc H; [split; [reflexivity | exact H]|]. cbn [ctx_go].
  destruct (Hev sc1 sc2 x H) as [Hv Hs]. destruct (ev sc1 x) as [v1 s1]. destruct (ev sc2 x) as [v2 s2]. cbn [fst snd] in *. subst v2.
  apply IH. apply env_eq_set. exact Hs. Qed.

Lemma rel_go_env cols : forall rows sc1 sc2, env_eq sc1 sc2 ->
  fst (rel_go ev cols sc1 rows) = fst (rel_go ev cols sc2 rows) /\ env_eq (snd (rel_go ev cols sc1 rows)) (snd (rel_go ev cols sc2 rows)).
Proof. induction rows as [|row r IH]; intros sc1 sc2 H; [split; [reflexivity | exact H]|]. cbn [rel_go].
  destruct (evs_env row sc1 sc2 H) as [Hv Hs]. destruct (evs ev sc1 row) as [vs1 s1]. destruct (evs ev sc2 row) as [vs2 s2]. cbn [fst snd] in *. subst vs2.
  destruct (IH s1 s2 Hs) as [Hr Hss]. destruct (rel_go ev cols s1 r) as [r1 t1]. destruct (rel_go ev cols s2 r) as [r2 t2]. cbn [fst snd] in *.
  subst. split; [reflexivity | exact Hss]. Qed.

Lemma apply_fn_env fv pc sc1 sc2 : env_eq sc1 sc2 -> apply_fn ev svc fv pc sc1 = apply_fn ev svc fv pc sc2.
Proof. intros H. unfold apply_fn. destruct pc as [pc|]; [|reflexivity]. destruct fv; try reflexivity.
  apply (Hev (zip sc1 pc) (zip sc2 pc) body). apply env_eq_zip. exact H. Qed.

Lemma tev_step_env sc1 sc2 e : env_eq sc1 sc2 -> res_eq (tev_step ev svc leaky sc1 e) (tev_step ev svc leaky sc2 e).
Proof. intros H. destruct e as [|z|s|n|a b|a b|fn args|fn binds|es res|cols rows]; cbn [tev_step]; try (split; [reflexivity | exact H]).
  - split; [apply getv_env_eq; exact H | exact H].
  - destruct (Hev sc1 sc2 a H) as [Hv Hs]. destruct (ev sc1 a) as [x1 s1]. destruct (ev sc2 a) as [x2 s2]. cbn [fst snd] in *. subst x2.
    destruct (Hev s1 s2 b Hs) as [Hv2 Hs2]. destruct (ev s1 b) as [y1 t1]. destruct (ev s2 b) as [y2 t2]. cbn [fst snd] in *. subst y2.
    split; [reflexivity | exact Hs2].
  - destruct (Hev sc1 sc2 a H) as [Hv Hs]. destruct (ev sc1 a) as [x1 s1]. destruct (ev sc2 a) as [x2 s2]. cbn [fst snd] in *. subst x2.
    destruct (Hev s1 s2 b Hs) as [Hv2 Hs2]. destruct (ev s1 b) as [y1 t1]. destruct (ev s2 b) as [y2 t2]. cbn [fst snd] in *. subst y2.
    split; [reflexivity | exact Hs2].
  - rewrite (getv_env_eq sc1 sc2 fn H).
    destruct (evs_env args sc1 sc2 H) as [Hv Hs]. destruct (evs ev sc1 args) as [vs1 s1]. destruct (evs ev sc2 args) as [vs2 s2]. cbn [fst snd] in *. subst vs2.
    split; [|exact Hs]. cbn [fst]. destruct (getv fn sc2); try reflexivity; apply apply_fn_env; exact Hs.
  - destruct (evs_env (map snd binds) sc1 sc2 H) as [Hv Hs]. destruct (evs ev sc1 (map snd binds)) as [vs1 s1]. destruct (evs ev sc2 (map snd binds)) as [vs2 s2].
    cbn [fst snd] in *. subst vs2. split; [|exact Hs]. cbn [fst]. rewrite (getv_env_eq s1 s2 fn Hs). apply apply_fn_env. exact Hs.
  - destruct (ctx_go_env es sc1 sc2 [] H) as [Hv Hs]. destruct (ctx_go ev sc1 [] es) as [a1 s1]. destruct (ctx_go ev sc2 [] es) as [a2 s2].
    cbn [fst snd] in *. subst a2. destruct res as [r|].
    + destruct (Hev s1 s2 r Hs) as [Hv2 Hs2]. destruct (ev s1 r) as [v1 t1]. destruct (ev s2 r) as [v2 t2]. cbn [fst snd] in *. subst v2.
      split; [reflexivity|]. cbn [snd]. destruct leaky; [exact Hs2 | exact H].
    + split; [reflexivity|]. cbn [snd]. destruct leaky; [exact Hs | exact H].
  - destruct (rel_go_env cols rows sc1 sc2 H) as [Hv Hs]. destruct (rel_go ev cols sc1 rows) as [r1 s1]. destruct (rel_go ev cols sc2 rows) as [r2 s2].
    cbn [fst snd] in *. subst r2. split; [reflexivity | exact Hs].
Qed.
End TevEnv.

Lemma tev_env leaky svc : forall f sc1 sc2 e, env_eq sc1 sc2 -> res_eq (tev leaky f svc sc1 e) (tev leaky f svc sc2 e).
Proof. induction f as [|f IH]; intros sc1 sc2 e H; [split; [reflexivity | exact H]|]. cbn [tev]. apply tev_step_env; [exact IH | exact H]. Qed.

Theorem teval_ext_env : forall s sc1 sc2 e, env_eq sc1 sc2 -> teval s sc1 e = teval s sc2 e.
Proof. intros s sc1 sc2 e H. unfold teval. apply (tev_env false s TFUEL sc1 sc2 e H). Qed.

(* ---------------- the instance the correspondence check evaluates ---------------- *)
Theorem impl_is_denotation_teval G order id f inp : topo_ok G order = true -> In id order -> length order <= f ->
  impl_invoke teval true G f id inp = denote teval G id inp.
Proof. apply (impl_is_denotation teval teval_ext_svc teval_ext_env). Qed.

(* the pinned variant (a knowledge model receives the eagerly evaluated value of a required service instead of its function
   value) does NOT compute the denotation: the witness of knowledge_service_orig_refuted *)
Theorem orig_is_not_denotation :
  topo_ok G_ks O_ks = true /\ In 5%N O_ks /\ (length O_ks <= 6)%nat /\
  denote teval G_ks 5%N [(1%N, vnum 1)] = vnum 20 /\
  impl_invoke teval true G_ks 6 5%N [(1%N, vnum 1)] = vnum 20 /\
  impl_invoke teval false G_ks 6 5%N [(1%N, vnum 1)] = VNull.
Proof. vm_compute. repeat split; auto 10. Qed.

Example denote_nonvacuous :
  denote teval G_ex 6%N [(1%N, vnum 2); (2%N, vnum 3)] = vnum 18 /\
  denote teval G_ex 10%N [(1%N, vnum 2); (2%N, vnum 3); (3001%N, vnum 9)] =
    VCtx [(2001%N, vnum 54); (2002%N, VCtx [(6%N, VNull); (4%N, vnum 36)])] /\
  denote teval G_ex 9%N [(1%N, vnum 2); (3%N, vnum 7)] = VCtx [(6%N, VNull); (4%N, vnum 14)] /\
  denote teval G_ex 8%N [(1001%N, vnum 4); (1002%N, vnum 5)] = vnum 25 /\
  (* an input entry named like a required decision replaces it: decision 4 = (decision 3) * x with 3 supplied as 10 *)
  denote teval G_ex 4%N [(1%N, vnum 2); (2%N, vnum 3); (3%N, vnum 10)] = vnum 20.
Proof. vm_compute. repeat split; reflexivity. Qed.

(* ================= fuel: the answer at exhaustion never reaches the result ================= *)
(* ---------- the closures: more fuel than nodes in the order ---------- *)
Section RunFuel.
Variable eval : (N -> env -> value) -> env -> expr -> value.
Hypothesis eval_ext_svc : forall s1 s2 sc e, (forall i x, s1 i x = s2 i x) -> eval s1 sc e = eval s2 sc e.

Lemma run_d_Topo d1 d2 fixed G o : Topo G o -> forall id, In id o -> forall f, length o < f ->
  forall k inp out, run_d eval d1 fixed G f k id inp out = run_d eval d2 fixed G f k id inp out.
Proof. induction 1 as [|o id HT IH Hn Hr]; intros id' Hin f Hf k inp out; [destruct Hin|].
  rewrite app_length in Hf. cbn [length] in Hf.
  apply in_app_or in Hin. destruct Hin as [Hin|[<-|[]]]; [apply IH; [exact Hin | lia]|].
  destruct f as [|f']; [lia|]. cbn [run_d]. apply (body_ext eval eval_ext_svc).
  intros r Hrin k' inp' out'. destruct (in_dec N.eq_dec r o) as [Hro|Hrn]; [apply IH; [exact Hro | lia]|].
  destruct (Hr r Hrin) as [Hro|Hnone]; [contradiction|].
  destruct f' as [|f'']; [lia|]. cbn [run_d]. unfold body. rewrite Hnone. reflexivity. Qed.

Lemma run_is_run_d fixed G : forall f k id inp out,
  run eval fixed G f k id inp out = run_d eval (fun _ _ _ out => out) fixed G f k id inp out.
Proof. induction f as [|f IH]; intros k id inp out; [reflexivity|]. cbn [run run_d]. apply (body_ext eval eval_ext_svc).
  intros r _ k' inp' out'. apply IH. Qed.

(* with more fuel than nodes listed, what is answered when the fuel is used up is irrelevant: [run] never returns its `out` default *)
Theorem run_fuel_unreached fixed G order id f k inp out dflt : topo_ok G order = true -> In id order -> length order < f ->
  run_d eval dflt fixed G f k id inp out = run eval fixed G f k id inp out.
Proof. intros HT Hin Hf. rewrite run_is_run_d. apply (run_d_Topo _ _ fixed G order (topo_ok_Topo _ _ HT) id Hin f Hf). Qed.

Lemma invoke_run_d G order id f inp dflt : topo_ok G order = true -> In id order -> length order < f ->
  invoke eval G (run_d eval dflt true G f) id inp = impl_invoke eval true G f id inp.
Proof. intros HT Hin Hf. unfold impl_invoke, invoke.
  pose proof (fun k i o => run_fuel_unreached true G order id f k i o dflt HT Hin Hf) as R.
  destruct (find id G) as [[name|name logic rk rd ri callable|name ps b rk callable|name ins indecs encs outs]|] eqn:E; try reflexivity.
  - rewrite R. reflexivity.
  - cbv zeta. rewrite !R. destruct (lookup name _) as [[| | | | |ps' b'|]|]; try reflexivity. apply eval_ext_svc. apply svc_call_ext.
    intros sid Hs inp' out'.
    assert (Hrefs : In sid (refs G id)) by (unfold refs; rewrite E; apply in_or_app; right; exact Hs).
    destruct (Topo_refs G order (topo_ok_Topo _ _ HT) id Hin sid Hrefs) as [Hso|Hnone].
    + apply (run_fuel_unreached true G order sid f KSvc inp' out' dflt HT Hso Hf).
    + destruct f as [|f']; [lia|]. cbn [run_d run]. unfold body. rewrite Hnone. reflexivity.
  - rewrite R. reflexivity. Qed.
End RunFuel.

(* ---------- the tiny evaluator: a ranked scope bounds the nesting ---------- *)
Lemma tev_is_tev_d leaky svc : forall f sc e, tev leaky f svc sc e = tev_d (fun sc _ => (VNull, sc)) leaky f svc sc e.
Proof. induction f as [|f IH]; intros sc e; [reflexivity|]. cbn [tev tev_d]. apply tev_step_ext; [exact IH | reflexivity]. Qed.

Lemma tev_d_add dflt leaky svc : forall f k sc e, tev_d dflt leaky (f + k) svc sc e = tev_d (tev_d dflt leaky k svc) leaky f svc sc e.
Proof. induction f as [|f IH]; intros k sc e; [reflexivity|]. cbn [Nat.add tev_d]. apply tev_step_ext; [intros; apply IH | reflexivity]. Qed.

Section RankedProofs.
Variable FN : N -> bool.
Variable lv : N -> nat.
Variable dmax : nat.
Variables svc svc2 : N -> env -> value.
Variable leaky : bool.
(* the two service call-backs agree on first-order parameter contexts, and answer first-order values there *)
Hypothesis svc_first_order : forall i x, (forall kv, In kv x -> is_fun (snd kv) = false) -> svc i x = svc2 i x /\ is_fun (svc i x) = false.

Notation rk := (ranked FN lv dmax).
Notation nd := (need FN lv dmax).

Lemma nonfun_binding k v : is_fun v = false -> ranked_binding FN lv dmax (k, v) = true.
Proof. destruct v; cbn; try reflexivity; discriminate. Qed.

Lemma in_set kv k v (e : env) : In kv (set k v e) -> kv = (k, v) \/ In kv e.
Proof. induction e as [|[k' x] r IH]; cbn [set]; [intros [H|[]]; left; symmetry; exact H|].
  destruct (N.eqb k k') eqn:E; cbn [In].
  - apply N.eqb_eq in E. subst k'. intros [H|H]; [left; symmetry; exact H | right; right; exact H].
  - intros [H|H]; [right; left; exact H|]. destruct (IH H) as [H'|H']; [left; exact H' | right; right; exact H']. Qed.

Lemma ranked_set sc k v : rk sc = true -> ranked_binding FN lv dmax (k, v) = true -> rk (set k v sc) = true.
Proof. intros Hs Hb. unfold ranked in *. rewrite forallb_forall in *. intros kv Hin. apply in_set in Hin.
  destruct Hin as [->|Hin]; [exact Hb | apply Hs; exact Hin]. Qed.

Lemma ranked_zip sc pc : rk sc = true -> (forall kv, In kv pc -> is_fun (snd kv) = false) -> rk (zip sc pc) = true.
Proof. unfold zip. revert sc. induction pc as [|[k v] r IH]; intros sc Hs H; [exact Hs|]. cbn [fold_left fst snd].
  apply IH; [|intros kv Hkv; apply H; right; exact Hkv]. apply ranked_set; [exact Hs|]. apply nonfun_binding. apply (H (k, v)). left. reflexivity. Qed.

Lemma lookup_In n v (e : env) : lookup n e = Some v -> In (n, v) e.
Proof. induction e as [|[k x] r IH]; [discriminate|]. cbn [lookup]. destruct (N.eqb n k) eqn:E.
  - apply N.eqb_eq in E. subst. intros H. injection H as ->. left. reflexivity.
  - intros H. right. apply IH. exact H. Qed.

Lemma ranked_lookup sc n v : rk sc = true -> lookup n sc = Some v -> ranked_binding FN lv dmax (n, v) = true.
Proof. intros Hs Hl. unfold ranked in Hs. rewrite forallb_forall in Hs. apply Hs. apply lookup_In. exact Hl. Qed.

Lemma ranked_var sc n : rk sc = true -> FN n = false -> is_fun (getv n sc) = false.
Proof. intros Hs Hn. unfold getv. destruct (lookup n sc) as [v|] eqn:E; [|reflexivity].
  pose proof (ranked_lookup sc n v Hs E) as B. unfold ranked_binding in B. cbn [fst snd] in B.
  destruct v; try reflexivity; rewrite Hn in B; discriminate. Qed.

Lemma vadd_nonfun a b : is_fun (vadd a b) = false.
Proof. destruct a, b; cbn [vadd is_fun]; try reflexivity. unfold of_num. destruct (Base.DecRound.dadd d d0); reflexivity. Qed.
Lemma vmul_nonfun a b : is_fun (vmul a b) = false.
Proof. destruct a, b; cbn [vmul is_fun]; try reflexivity. unfold of_num. destruct (Base.DecRound.dmul d d0); reflexivity. Qed.

Lemma bind_go_nonfun : forall ps vs acc pc, bind_pos_go ps vs acc = Some pc ->
  (forall kv, In kv acc -> is_fun (snd kv) = false) -> (forall v, In v vs -> is_fun v = false) ->
  forall kv, In kv pc -> is_fun (snd kv) = false.
Proof. induction ps as [|p pr IH]; intros vs acc pc H Ha Hv; cbn [bind_pos_go] in H; [injection H as <-; exact Ha|].
  destruct vs as [|a ar]; [discriminate|]. apply (IH ar (set p a acc) pc H).
  - intros kv Hin. apply in_set in Hin. destruct Hin as [->|Hin]; [apply Hv; left; reflexivity | apply Ha; exact Hin].
  - intros v Hin. apply Hv. right. exact Hin. Qed.

Lemma fold_set_nonfun : forall (l : list (N * value)) acc, (forall kv, In kv acc -> is_fun (snd kv) = false) ->
  (forall kv, In kv l -> is_fun (snd kv) = false) ->
  forall kv, In kv (fold_left (fun a kv => set (fst kv) (snd kv) a) l acc) -> is_fun (snd kv) = false.
Proof. induction l as [|[k v] r IH]; intros acc Ha Hl; [exact Ha|]. cbn [fold_left fst snd]. apply IH.
  - intros kv Hin. apply in_set in Hin. destruct Hin as [->|Hin]; [apply (Hl (k, v)); left; reflexivity | apply Ha; exact Hin].
  - intros kv Hin. apply Hl. right. exact Hin. Qed.

Lemma in_combine_snd {A B} (l : list A) (l' : list B) x : In x (combine l l') -> In (snd x) l'.
Proof. destruct x as [a b]. apply in_combine_r. Qed.

(* arithmetic of the bound *)
Lemma need_le d c d' c' : d' <= d -> c' <= c -> d' + c' * dmax <= d + c * dmax.
Proof. intros H1 H2. pose proof (Nat.mul_le_mono_r c' c dmax H2). lia. Qed.

Lemma depth_in (l : list expr) x : In x l -> edepth x <= fold_right (fun x n => Nat.max (edepth x) n) 0 l.
Proof. induction l as [|y r IH]; intros H; [destruct H|]. cbn [fold_right]. destruct H as [->|H]; [lia | specialize (IH H); lia]. Qed.
Lemma level_in (l : list expr) x : In x l -> clevel FN lv x <= fold_right (fun x n => Nat.max (clevel FN lv x) n) 0 l.
Proof. induction l as [|y r IH]; intros H; [destruct H|]. cbn [fold_right]. destruct H as [->|H]; [lia | specialize (IH H); lia]. Qed.
Lemma depth_in_snd (l : list (N * expr)) x : In x (map snd l) -> edepth x <= fold_right (fun kx n => Nat.max (edepth (snd kx)) n) 0 l.
Proof. induction l as [|y r IH]; intros H; [destruct H|]. cbn [fold_right map] in *. destruct H as [->|H]; [lia | specialize (IH H); lia]. Qed.
Lemma level_in_snd (l : list (N * expr)) x : In x (map snd l) -> clevel FN lv x <= fold_right (fun kx n => Nat.max (clevel FN lv (snd kx)) n) 0 l.
Proof. induction l as [|y r IH]; intros H; [destruct H|]. cbn [fold_right map] in *. destruct H as [->|H]; [lia | specialize (IH H); lia]. Qed.

(* what is known of the evaluator one level down, at fuel f *)
Definition Suff (f : nat) (ev1 ev2 : env -> expr -> value * env) : Prop :=
  forall sc e, rk sc = true -> first_order FN e = true -> nd e <= f ->
    ev1 sc e = ev2 sc e /\ is_fun (fst (ev1 sc e)) = false /\ rk (snd (ev1 sc e)) = true.

Section Step.
Variables (f : nat) (ev1 ev2 : env -> expr -> value * env).
Hypothesis HS : Suff f ev1 ev2.

Lemma evs_suff : forall l sc, rk sc = true -> (forall x, In x l -> first_order FN x = true /\ nd x <= f) ->
  evs ev1 sc l = evs ev2 sc l /\ (forall v, In v (fst (evs ev1 sc l)) -> is_fun v = false) /\ rk (snd (evs ev1 sc l)) = true.
Proof. induction l as [|x r IH]; intros sc Hs H; [repeat split; [intros v []|exact Hs]|]. cbn [evs].
  destruct (H x (or_introl eq_refl)) as [Hfo Hn]. destruct (HS sc x Hs Hfo Hn) as [E [Nf Rs]]. rewrite <- E.
  destruct (ev1 sc x) as [v s1]. cbn [fst snd] in *.
  destruct (IH s1 Rs (fun y Hy => H y (or_intror Hy))) as [E2 [Nf2 Rs2]]. rewrite <- E2.
  destruct (evs ev1 s1 r) as [vs s2]. cbn [fst snd] in *. repeat split; [|exact Rs2].
  intros w [<-|Hw]; [exact Nf | apply Nf2; exact Hw]. Qed.

Lemma ctx_go_suff : forall l sc acc, rk sc = true -> (forall kv, In kv acc -> is_fun (snd kv) = false) ->
  (forall kx, In kx l -> FN (fst kx) = false /\ first_order FN (snd kx) = true /\ nd (snd kx) <= f) ->
  ctx_go ev1 sc acc l = ctx_go ev2 sc acc l /\ (forall kv, In kv (fst (ctx_go ev1 sc acc l)) -> is_fun (snd kv) = false) /\
  rk (snd (ctx_go ev1 sc acc l)) = true.
Proof. induction l as [|[k x] r IH]; intros sc acc Hs Ha H; [repeat split; [exact Ha | exact Hs]|]. cbn [ctx_go].
  destruct (H (k, x) (or_introl eq_refl)) as [Hk [Hfo Hn]]. cbn [fst snd] in *.
  destruct (HS sc x Hs Hfo Hn) as [E [Nf Rs]]. rewrite <- E. destruct (ev1 sc x) as [v s1]. cbn [fst snd] in *.
  apply IH.
  - apply ranked_set; [exact Rs | apply nonfun_binding; exact Nf].
  - intros kv Hin. apply in_set in Hin. destruct Hin as [->|Hin]; [exact Nf | apply Ha; exact Hin].
  - intros kx Hkx. apply H. right. exact Hkx. Qed.

Lemma rel_go_suff cols : forall rows sc, rk sc = true -> (forall row x, In row rows -> In x row -> first_order FN x = true /\ nd x <= f) ->
  rel_go ev1 cols sc rows = rel_go ev2 cols sc rows /\ rk (snd (rel_go ev1 cols sc rows)) = true.
Proof. induction rows as [|row r IH]; intros sc Hs H; [split; [reflexivity | exact Hs]|]. cbn [rel_go].
  destruct (evs_suff row sc Hs (fun x Hx => H row x (or_introl eq_refl) Hx)) as [E [_ Rs]]. rewrite <- E.
  destruct (evs ev1 sc row) as [vs s1]. cbn [fst snd] in *.
  destruct (IH s1 Rs (fun row' x Hr Hx => H row' x (or_intror Hr) Hx)) as [E2 Rs2]. rewrite <- E2.
  destruct (rel_go ev1 cols s1 r) as [rest s2]. cbn [fst snd] in *. split; [reflexivity | exact Rs2]. Qed.

(* a call: the function value found under fn in a ranked scope *)
Lemma apply_suff sc0 fn sc pc : rk sc0 = true -> rk sc = true -> (forall kv, In kv pc -> is_fun (snd kv) = false) ->
  (if FN fn then S (lv fn) else 0) * dmax <= f ->
  apply_fn ev1 svc (getv fn sc0) (Some pc) sc = apply_fn ev2 svc2 (getv fn sc0) (Some pc) sc /\
  is_fun (apply_fn ev1 svc (getv fn sc0) (Some pc) sc) = false.
Proof. intros Hs0 Hs Hpc Hf. unfold getv. destruct (lookup fn sc0) as [fv|] eqn:El; [|split; reflexivity].
  pose proof (ranked_lookup sc0 fn fv Hs0 El) as B. unfold ranked_binding in B. cbn [fst snd] in B.
  destruct fv as [| | | | |ps b|sid ps]; try (split; reflexivity).
  - apply andb_true_iff in B. destruct B as [B B5]. apply andb_true_iff in B. destruct B as [B B4].
    apply andb_true_iff in B. destruct B as [B B3]. apply andb_true_iff in B. destruct B as [B1 B2].
    rewrite B1 in Hf. apply Nat.leb_le in B4. apply Nat.leb_le in B5. unfold apply_fn.
    assert (Hn : nd b <= f).
    { unfold need. pose proof (Nat.mul_le_mono_r (clevel FN lv b) (lv fn) dmax B5). lia. }
    destruct (HS (zip sc pc) b (ranked_zip sc pc Hs Hpc) B3 Hn) as [E [Nf _]]. rewrite <- E. split; [reflexivity | exact Nf].
  - unfold apply_fn. apply svc_first_order. exact Hpc. Qed.

Lemma step_suff : Suff (S f) (tev_step ev1 svc leaky) (tev_step ev2 svc2 leaky).
Proof. intros sc e Hs Hfo Hn. unfold need in Hn.
  destruct e as [|z|s|n|a b|a b|fn args|fn binds|es res|cols rows]; cbn [tev_step]; cbn [first_order edepth clevel] in Hfo, Hn;
    try (repeat split; exact Hs).
  - repeat split; [|exact Hs]. cbn [fst]. apply ranked_var; [exact Hs|]. destruct (FN n); [discriminate | reflexivity].
  - apply andb_true_iff in Hfo. destruct Hfo as [Fa Fb].
    assert (Na : nd a <= f) by (pose proof (need_le (Nat.max (edepth a) (edepth b)) (Nat.max (clevel FN lv a) (clevel FN lv b)) (edepth a) (clevel FN lv a)); unfold need; lia).
    assert (Nb : nd b <= f) by (pose proof (need_le (Nat.max (edepth a) (edepth b)) (Nat.max (clevel FN lv a) (clevel FN lv b)) (edepth b) (clevel FN lv b)); unfold need; lia).
    destruct (HS sc a Hs Fa Na) as [E [_ Rs]]. rewrite <- E. destruct (ev1 sc a) as [x s1]. cbn [fst snd] in *.
    destruct (HS s1 b Rs Fb Nb) as [E2 [_ Rs2]]. rewrite <- E2. destruct (ev1 s1 b) as [y s2]. cbn [fst snd] in *.
    repeat split; [apply vadd_nonfun | exact Rs2].
  - apply andb_true_iff in Hfo. destruct Hfo as [Fa Fb].
    assert (Na : nd a <= f) by (pose proof (need_le (Nat.max (edepth a) (edepth b)) (Nat.max (clevel FN lv a) (clevel FN lv b)) (edepth a) (clevel FN lv a)); unfold need; lia).
    assert (Nb : nd b <= f) by (pose proof (need_le (Nat.max (edepth a) (edepth b)) (Nat.max (clevel FN lv a) (clevel FN lv b)) (edepth b) (clevel FN lv b)); unfold need; lia).
    destruct (HS sc a Hs Fa Na) as [E [_ Rs]]. rewrite <- E. destruct (ev1 sc a) as [x s1]. cbn [fst snd] in *.
    destruct (HS s1 b Rs Fb Nb) as [E2 [_ Rs2]]. rewrite <- E2. destruct (ev1 s1 b) as [y s2]. cbn [fst snd] in *.
    repeat split; [apply vmul_nonfun | exact Rs2].
  - (* literal invocation *)
    set (dl := fold_right (fun x n => Nat.max (edepth x) n) 0 args) in *.
    set (cl := fold_right (fun x n => Nat.max (clevel FN lv x) n) 0 args) in *.
    set (cf := if FN fn then S (lv fn) else 0) in *.
    assert (Hargs : forall x, In x args -> first_order FN x = true /\ nd x <= f).
    { intros x Hx. split; [rewrite forallb_forall in Hfo; apply Hfo; exact Hx|].
      pose proof (depth_in args x Hx). pose proof (level_in args x Hx).
      pose proof (need_le dl (Nat.max cf cl) (edepth x) (clevel FN lv x)). unfold need. fold dl cl in H, H0. lia. }
    destruct (evs_suff args sc Hs Hargs) as [E [Nf Rs]]. rewrite <- E. destruct (evs ev1 sc args) as [vs s1]. cbn [fst snd] in *.
    assert (Hcf : cf * dmax <= f) by (pose proof (Nat.mul_le_mono_r cf (Nat.max cf cl) dmax); lia).
    assert (Hcall : (match getv fn sc with VBkm ps _ | VSvc _ ps => apply_fn ev1 svc (getv fn sc) (bind_pos ps vs) s1 | _ => VNull end) =
                    (match getv fn sc with VBkm ps _ | VSvc _ ps => apply_fn ev2 svc2 (getv fn sc) (bind_pos ps vs) s1 | _ => VNull end) /\
                    is_fun (match getv fn sc with VBkm ps _ | VSvc _ ps => apply_fn ev1 svc (getv fn sc) (bind_pos ps vs) s1 | _ => VNull end) = false).
    { destruct (getv fn sc) as [| | | | |ps b|sid ps] eqn:Eg; try (split; reflexivity).
      - destruct (bind_pos ps vs) as [pc|] eqn:Eb; [|split; reflexivity]. rewrite <- Eg.
        apply (apply_suff sc fn s1 pc Hs Rs); [|exact Hcf].
        apply (bind_go_nonfun ps vs [] pc Eb); [intros kv []|exact Nf].
      - destruct (bind_pos ps vs) as [pc|] eqn:Eb; [|split; reflexivity]. rewrite <- Eg.
        apply (apply_suff sc fn s1 pc Hs Rs); [|exact Hcf].
        apply (bind_go_nonfun ps vs [] pc Eb); [intros kv []|exact Nf]. }
    destruct Hcall as [Ec Nc]. rewrite <- Ec. repeat split; [exact Nc | exact Rs].
  - (* boxed invocation *)
    set (dl := fold_right (fun kx n => Nat.max (edepth (snd kx)) n) 0 binds) in *.
    set (cl := fold_right (fun kx n => Nat.max (clevel FN lv (snd kx)) n) 0 binds) in *.
    set (cf := if FN fn then S (lv fn) else 0) in *.
    rewrite forallb_forall in Hfo.
    assert (Hargs : forall x, In x (map snd binds) -> first_order FN x = true /\ nd x <= f).
    { intros x Hx. split.
      - apply in_map_iff in Hx. destruct Hx as [kx [<- Hkx]]. specialize (Hfo kx Hkx). apply andb_true_iff in Hfo. tauto.
      - pose proof (depth_in_snd binds x Hx). pose proof (level_in_snd binds x Hx).
        pose proof (need_le dl (Nat.max cf cl) (edepth x) (clevel FN lv x)). unfold need. fold dl cl in H, H0. lia. }
    destruct (evs_suff (map snd binds) sc Hs Hargs) as [E [Nf Rs]]. rewrite <- E. destruct (evs ev1 sc (map snd binds)) as [vs s1]. cbn [fst snd] in *.
    assert (Hcf : cf * dmax <= f) by (pose proof (Nat.mul_le_mono_r cf (Nat.max cf cl) dmax); lia).
    cbv zeta. set (pc := fold_left (fun acc kv => set (fst kv) (snd kv) acc) (combine (map fst binds) vs) []).
    assert (Hpc : forall kv, In kv pc -> is_fun (snd kv) = false).
    { apply fold_set_nonfun; [intros kv []|]. intros kv Hkv. apply Nf. apply (in_combine_snd _ _ _ Hkv). }
    destruct (apply_suff s1 fn s1 pc Rs Rs Hpc Hcf) as [Ec Nc]. split; [f_equal; exact Ec|]. split; [exact Nc | exact Rs].
  - (* boxed context *)
    set (dl := fold_right (fun kx n => Nat.max (edepth (snd kx)) n) 0 es) in *.
    set (cl := fold_right (fun kx n => Nat.max (clevel FN lv (snd kx)) n) 0 es) in *.
    apply andb_true_iff in Hfo. destruct Hfo as [Fes Fres]. rewrite forallb_forall in Fes.
    assert (Hes : forall kx, In kx es -> FN (fst kx) = false /\ first_order FN (snd kx) = true /\ nd (snd kx) <= f).
    { intros kx Hkx. specialize (Fes kx Hkx). apply andb_true_iff in Fes. destruct Fes as [F1 F2].
      split; [destruct (FN (fst kx)); [discriminate | reflexivity]|]. split; [exact F2|].
      assert (Hx : In (snd kx) (map snd es)) by (apply in_map; exact Hkx).
      pose proof (depth_in_snd es _ Hx). pose proof (level_in_snd es _ Hx). fold dl cl in H, H0.
      pose proof (need_le (Nat.max dl (match res with Some r => edepth r | None => 0 end)) (Nat.max cl (match res with Some r => clevel FN lv r | None => 0 end)) (edepth (snd kx)) (clevel FN lv (snd kx))).
      unfold need. lia. }
    destruct (ctx_go_suff es sc [] Hs (fun kv H => match H with end) Hes) as [E [Nf Rs]]. rewrite <- E.
    destruct (ctx_go ev1 sc [] es) as [acc s1]. cbn [fst snd] in *. destruct res as [r|].
    + assert (Nr : nd r <= f).
      { pose proof (need_le (Nat.max dl (edepth r)) (Nat.max cl (clevel FN lv r)) (edepth r) (clevel FN lv r)). unfold need. lia. }
      destruct (HS s1 r Rs Fres Nr) as [E2 [Nf2 Rs2]]. rewrite <- E2. destruct (ev1 s1 r) as [v s2]. cbn [fst snd] in *.
      repeat split; [exact Nf2 | destruct leaky; [exact Rs2 | exact Hs]].
    + repeat split. destruct leaky; [exact Rs | exact Hs].
  - (* relation *)
    assert (Hrows : forall row x, In row rows -> In x row -> first_order FN x = true /\ nd x <= f).
    { intros row x Hr Hx. split; [rewrite forallb_forall in Hfo; specialize (Hfo row Hr); rewrite forallb_forall in Hfo; apply Hfo; exact Hx|].
      assert (D : edepth x <= fold_right (fun row n => Nat.max (fold_right (fun x m => Nat.max (edepth x) m) 0 row) n) 0 rows).
      { clear Hn Hfo. induction rows as [|w t IHr]; [destruct Hr|]. cbn [fold_right]. destruct Hr as [->|Hr]; [pose proof (depth_in row x Hx); lia | specialize (IHr Hr); lia]. }
      assert (C : clevel FN lv x <= fold_right (fun row n => Nat.max (fold_right (fun x m => Nat.max (clevel FN lv x) m) 0 row) n) 0 rows).
      { clear Hn Hfo D. induction rows as [|w t IHr]; [destruct Hr|]. cbn [fold_right]. destruct Hr as [->|Hr]; [pose proof (level_in row x Hx); lia | specialize (IHr Hr); lia]. }
      pose proof (need_le _ _ _ _ D C). unfold need. lia. }
    destruct (rel_go_suff cols rows sc Hs Hrows) as [E Rs]. rewrite <- E. destruct (rel_go ev1 cols sc rows) as [vs s1]. cbn [fst snd] in *.
    repeat split. exact Rs.
Qed.
End Step.

Lemma tev_d_suff d1 d2 : forall f, Suff f (tev_d d1 leaky f svc) (tev_d d2 leaky f svc2).
Proof. induction f as [|f IH].
  - intros sc e _ _ Hn. unfold need in Hn. destruct e; cbn [edepth] in Hn; lia.
  - cbn [tev_d]. apply step_suff. exact IH. Qed.

(* in a ranked scope, fuel need e suffices: the answer at exhaustion does not reach the result, the value is first-order *)
Theorem tev_d_fuel_sufficient f sc e d1 d2 : rk sc = true -> first_order FN e = true -> nd e <= f ->
  tev_d d1 leaky f svc sc e = tev_d d2 leaky f svc2 sc e /\ is_fun (fst (tev_d d1 leaky f svc sc e)) = false.
Proof. intros Hs Hfo Hn. destruct (tev_d_suff d1 d2 f sc e Hs Hfo Hn) as [A [B _]]. split; assumption. Qed.
End RankedProofs.

(* one call-back: more fuel changes nothing *)
Theorem tev_fuel_sufficient FN lv dmax svc leaky f sc e : (forall i x, is_fun (svc i x) = false) ->
  ranked FN lv dmax sc = true -> first_order FN e = true -> need FN lv dmax e <= f ->
  (forall d, tev_d d leaky f svc sc e = tev leaky f svc sc e) /\
  (forall f', f <= f' -> tev leaky f' svc sc e = tev leaky f svc sc e) /\
  is_fun (fst (tev leaky f svc sc e)) = false.
Proof. intros Hsvc Hs Hfo Hn.
  assert (A : forall d1 d2, tev_d d1 leaky f svc sc e = tev_d d2 leaky f svc sc e /\ is_fun (fst (tev_d d1 leaky f svc sc e)) = false).
  { intros d1 d2. apply (tev_d_fuel_sufficient FN lv dmax svc svc leaky); try assumption. intros i x _. split; [reflexivity | apply Hsvc]. }
  split; [intros d; rewrite tev_is_tev_d; apply A|]. split.
  - intros f' Hf'. replace f' with (f + (f' - f)) by lia. rewrite !tev_is_tev_d, tev_d_add. apply A.
  - rewrite tev_is_tev_d. apply (A _ (fun sc _ => (VNull, sc))). Qed.

(* ================= the bound for a whole graph ================= *)
Lemma find_In (G : graph) (id : N) (n : node) : find id G = Some n -> In (id, n) G.
Proof. induction G as [|[k x] r IH]; [discriminate|]. cbn [find]. destruct (N.eqb id k) eqn:E.
  - apply N.eqb_eq in E. subst. intros H. injection H as ->. left. reflexivity.
  - intros H. right. apply IH. exact H. Qed.

Section GraphFuel.
Variable lv : N -> nat.
Variable dmax : nat.
Variable G : graph.
Hypothesis Gok : graph_fuel_ok lv dmax G = true.
Variable d : env -> expr -> value * env.
Notation FN := (fn_name G).
Notation d0 := (fun (sc : env) (_ : expr) => (VNull, sc)).

Definition fo (x : env) : Prop := forall kv, In kv x -> is_fun (snd kv) = false.

Lemma node_ok id n : find id G = Some n -> node_fuel_ok lv dmax G n = true.
Proof. intros H. apply find_In in H. pose proof Gok as Gok'. unfold graph_fuel_ok in Gok'. rewrite forallb_forall in Gok'. apply (Gok' (id, n) H). Qed.

Lemma fo_of_bool x : first_order_env x = true -> fo x.
Proof. intros H kv Hin. unfold first_order_env in H. rewrite forallb_forall in H. specialize (H kv Hin). destruct (is_fun (snd kv)); [discriminate | reflexivity]. Qed.

Lemma fo_getv x n : fo x -> is_fun (getv n x) = false.
Proof. intros H. unfold getv. destruct (lookup n x) as [v|] eqn:E; [|reflexivity]. apply (H (n, v)). apply lookup_In. exact E. Qed.

Lemma input_value_nonfun n x : is_fun (input_value n x) = false.
Proof. unfold input_value. destruct (getv n x); reflexivity. Qed.

Lemma fo_svc_input ins indecs x : fo x -> fo (svc_input G ins indecs x).
Proof. intros H kv Hin. unfold svc_input, req_inputs in Hin. apply in_app_or in Hin. destruct Hin as [Hin|Hin]; apply in_map_iff in Hin; destruct Hin as [n [<- _]]; cbn [snd].
  - apply input_value_nonfun.
  - apply fo_getv. exact H. Qed.

Lemma ranked_of_bindings (sc : env) : (forall kv, In kv sc -> ranked_binding FN lv dmax kv = true) -> ranked FN lv dmax sc = true.
Proof. intros H. unfold ranked. apply forallb_forall. exact H. Qed.

Lemma svc_fun_ranked s kv : In kv (svc_fun G s) -> ranked_binding FN lv dmax kv = true.
Proof. unfold svc_fun. destruct (find s G) as [[| | |name ins indecs encs outs]|] eqn:E; intros Hin; try (destruct Hin; fail).
  destruct Hin as [<-|[]]. pose proof (node_ok s _ E) as Ok. cbn [node_fuel_ok] in Ok. exact Ok. Qed.

Lemma know_bkm_ranked : forall kf id kv, In kv (know_bkm kf G id) -> ranked_binding FN lv dmax kv = true.
Proof. induction kf as [|kf IH]; intros id kv Hin; [destruct Hin|]. cbn [know_bkm] in Hin.
  destruct (find id G) as [[| |name ps b rk callable|]|] eqn:E; try (destruct Hin; fail).
  apply in_app_or in Hin. destruct Hin as [Hin|[<-|[]]].
  - apply in_flat_map in Hin. destruct Hin as [r [_ Hin]]. apply in_app_or in Hin. destruct Hin as [Hin|Hin]; [apply (IH r kv Hin) | apply (svc_fun_ranked r kv Hin)].
  - pose proof (node_ok id _ E) as Ok. cbn [node_fuel_ok] in Ok. apply andb_true_iff in Ok. destruct Ok as [Ok _]. exact Ok. Qed.

Lemma know_dec_ranked kf rk kv : In kv (know_dec kf G rk) -> ranked_binding FN lv dmax kv = true.
Proof. unfold know_dec. intros Hin. apply in_app_or in Hin. destruct Hin as [Hin|Hin]; apply in_flat_map in Hin; destruct Hin as [r [_ Hin]];
  [apply (know_bkm_ranked kf r kv Hin) | apply (svc_fun_ranked r kv Hin)]. Qed.

Lemma req_decisions_fo dv l x : (forall i, is_fun (dv i x) = false) -> fo (req_decisions G dv l x).
Proof. intros H kv Hin. unfold req_decisions in Hin. apply in_flat_map in Hin. destruct Hin as [i [_ Hin]].
  destruct (find i G) as [[| | |]|]; try (destruct Hin; fail). destruct Hin as [<-|[]]. apply H. Qed.

Lemma dec_scope_ranked kb dv rd ri inp : fo inp -> (forall kv, In kv kb -> ranked_binding FN lv dmax kv = true) ->
  (forall i, is_fun (dv i inp) = false) -> ranked FN lv dmax (dec_scope G kb dv rd ri inp) = true.
Proof. intros Hi Hk Hd. apply ranked_of_bindings. intros kv Hin. unfold dec_scope in Hin.
  apply in_app_or in Hin. destruct Hin as [Hin|Hin].
  - unfold supplied_over in Hin. apply filter_In in Hin. destruct kv as [k v]. apply nonfun_binding. apply (Hi (k, v)). tauto.
  - apply in_app_or in Hin. destruct Hin as [Hin|Hin].
    + apply in_app_or in Hin. destruct Hin as [Hin|Hin]; apply in_rev in Hin.
      * destruct kv as [k v]. apply nonfun_binding. apply (req_decisions_fo dv rd inp Hd (k, v) Hin).
      * apply Hk. exact Hin.
    + unfold req_inputs in Hin. apply in_map_iff in Hin. destruct Hin as [n [<- _]]. apply nonfun_binding. apply input_value_nonfun. Qed.

Lemma svc_sem_agree dv1 dv2 s x : (forall i y, fo y -> dv1 i y = dv2 i y /\ is_fun (dv1 i y) = false) -> fo x ->
  svc_sem G dv1 s x = svc_sem G dv2 s x /\ is_fun (svc_sem G dv1 s x) = false.
Proof. intros H Hx. unfold svc_sem. destruct (find s G) as [[| | |name ins indecs encs outs]|]; try (split; reflexivity).
  pose proof (fo_svc_input ins indecs x Hx) as Hin.
  assert (E : req_decisions G dv1 outs (svc_input G ins indecs x) = req_decisions G dv2 outs (svc_input G ins indecs x)).
  { apply req_decisions_ext_dv. intros i _ _. apply H. exact Hin. }
  rewrite <- E. split; [reflexivity|].
  destruct (dec_names G outs) as [|n [|n2 l]]; try reflexivity.
  apply fo_getv. intros kv Hkv. apply in_rev in Hkv. apply (req_decisions_fo dv1 outs _ (fun i => proj2 (H i _ Hin)) kv Hkv). Qed.

Lemma callback_agree dv1 dv2 callable : (forall i y, fo y -> dv1 i y = dv2 i y /\ is_fun (dv1 i y) = false) ->
  forall i x, fo x -> callback (svc_sem G dv1) callable i x = callback (svc_sem G dv2) callable i x /\ is_fun (callback (svc_sem G dv1) callable i x) = false.
Proof. intros H i x Hx. unfold callback. destruct (mem i callable); [apply svc_sem_agree; assumption | split; reflexivity]. Qed.

Lemma teval_is_d0 svc sc e : teval svc sc e = teval_d d0 svc sc e.
Proof. unfold teval, teval_d. rewrite tev_is_tev_d. reflexivity. Qed.

(* what decisions denote does not depend on the answer at exhaustion, and is first-order *)
Lemma dval_fuel kf : forall g id inp, fo inp ->
  dval (teval_d d) G kf g id inp = dval teval G kf g id inp /\ is_fun (dval (teval_d d) G kf g id inp) = false.
Proof. induction g as [|g IH]; intros id inp Hi.
  { cbn [dval]. split; reflexivity. }
  cbn [dval]. unfold dec_sem.
  destruct (find id G) as [[|name logic rk rd ri callable| |]|] eqn:E.
  1,3,4,5: split; reflexivity.
  pose proof (node_ok id _ E) as Ok. cbn [node_fuel_ok] in Ok. apply andb_true_iff in Ok. destruct Ok as [Fo Nd]. apply Nat.leb_le in Nd.
  assert (Erd : req_decisions G (dval (teval_d d) G kf g) rd inp = req_decisions G (dval teval G kf g) rd inp).
  { apply req_decisions_ext_dv. intros i _ _. apply IH. exact Hi. }
  unfold dec_scope. rewrite <- Erd. fold (dec_scope G (know_dec kf G rk) (dval (teval_d d) G kf g) rd ri inp).
  set (sc := dec_scope G (know_dec kf G rk) (dval (teval_d d) G kf g) rd ri inp).
  assert (Rs : ranked FN lv dmax sc = true).
  { apply dec_scope_ranked; [exact Hi | apply know_dec_ranked | intros i; apply IH; exact Hi]. }
  destruct (tev_d_fuel_sufficient FN lv dmax (callback (svc_sem G (dval (teval_d d) G kf g)) callable) (callback (svc_sem G (dval teval G kf g)) callable)
              false (callback_agree _ _ callable IH) TFUEL sc logic d d0 Rs Fo Nd) as [A B].
  split; [exact (eq_trans (f_equal fst A) (eq_sym (teval_is_d0 _ sc logic))) | exact B]. Qed.

Theorem graph_fuel_sufficient id inp : first_order_env inp = true ->
  denote (teval_d d) G id inp = denote teval G id inp.
Proof. intros Hb. pose proof (fo_of_bool inp Hb) as Hi. unfold denote.
  destruct (find id G) as [[nm|name logic rk rd ri callable|name ps b rk callable|name ins indecs encs outs]|] eqn:E.
  1,5: reflexivity.
  - unfold denote_dec. apply dval_fuel. exact Hi.
  - unfold denote_bkm, bkm_sem. rewrite E.
    pose proof (node_ok id _ E) as Ok. cbn [node_fuel_ok] in Ok.
    apply andb_true_iff in Ok. destruct Ok as [Ok Nd]. apply andb_true_iff in Ok. destruct Ok as [Ok _]. apply andb_true_iff in Ok. destruct Ok as [Ok _].
    apply andb_true_iff in Ok. destruct Ok as [Ok Fo]. apply Nat.leb_le in Nd.
    set (sc := rev (know_bkm (dfuel G) G id) ++ flat_map (fun p => match lookup p inp with Some v => [(p, v)] | None => [] end) ps).
    assert (Rs : ranked FN lv dmax sc = true).
    { apply ranked_of_bindings. intros kv Hin. unfold sc in Hin. apply in_app_or in Hin. destruct Hin as [Hin|Hin].
      - apply in_rev in Hin. apply (know_bkm_ranked _ _ _ Hin).
      - apply in_flat_map in Hin. destruct Hin as [p [_ Hin]]. destruct (lookup p inp) as [v|] eqn:El; [|destruct Hin].
        destruct Hin as [<-|[]]. apply nonfun_binding. apply (Hi (p, v)). apply lookup_In. exact El. }
    unfold denote_svc, denote_dec.
    destruct (tev_d_fuel_sufficient FN lv dmax (callback (svc_sem G (dval (teval_d d) G (dfuel G) (dfuel G))) callable)
                (callback (svc_sem G (dval teval G (dfuel G) (dfuel G))) callable)
                false (callback_agree _ _ callable (dval_fuel (dfuel G) (dfuel G))) TFUEL sc b d d0 Rs Fo Nd) as [A _].
    exact (eq_trans (f_equal fst A) (eq_sym (teval_is_d0 _ sc b))).
  - unfold denote_svc, denote_dec. apply (svc_sem_agree _ _ id inp (dval_fuel (dfuel G) (dfuel G)) Hi).
Qed.
End GraphFuel.

(* non-vacuity of the bound: the example graph, levels 7 -> 0, 8 -> 1, 9 -> 0, bodies of nesting depth <= 4 *)
Example graph_fuel_nonvacuous :
  graph_fuel_ok (level_of [(8%N, 1)]) 4 G_ex = true /\ graph_fuel_ok (level_of [(4%N, 1)]) 4 G_ks = true /\
  need (fn_name G_ex) (level_of [(8%N, 1)]) 4 (EInvoke 8%N [(1002%N, EVar 6%N); (1001%N, EVar 1%N)]) = 10 /\
  (* a knowledge model that calls itself has no level *)
  graph_fuel_ok (level_of [(1%N, 5)]) 4 [(1%N, NBkm 1%N [10%N] (ECall 1%N [EVar 10%N]) [] [])] = false /\
  (* the table and depth computed from the graph *)
  auto_levels G_ex O_ex = [(8%N, 1); (7%N, 0)] /\ auto_dmax G_ex = 3 /\ graph_fuel_auto G_ex O_ex = true /\ graph_fuel_auto G_ks O_ks = true /\
  graph_fuel_auto [(1%N, NBkm 1%N [10%N] (ECall 1%N [EVar 10%N]) [] [])] [1%N] = false.
Proof. vm_compute. repeat split; reflexivity. Qed.

(* ================= all together: neither exhaustion answer reaches the result ================= *)
Theorem fuel_sufficient_all G order id f inp lv dmax dflt_run dflt_tev :
  topo_ok G order = true -> In id order -> length order < f ->
  graph_fuel_ok lv dmax G = true -> first_order_env inp = true ->
  invoke teval G (run_d teval dflt_run true G f) id inp = denote (teval_d dflt_tev) G id inp.
Proof. intros HT Hin Hf Hg Hi.
  exact (eq_trans (invoke_run_d teval teval_ext_svc G order id f inp dflt_run HT Hin Hf)
          (eq_trans (impl_is_denotation_teval G order id f inp HT Hin (Nat.lt_le_incl _ _ Hf))
                    (eq_sym (graph_fuel_sufficient lv dmax G Hg dflt_tev id inp Hi)))). Qed.
