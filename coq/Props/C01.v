(* C01 — property theorems only (proofs in C01/Proofs.v).
   eval  = environment-passing big-step semantics (coq/C01/Spec.v), eval_spec := eval cart  (the FEEL semantics);
   run   = the evaluator as a scope-stack machine (coq/C01/Impl.v),   run_impl  := run cart_impl (the code as it is). *)
From Coq Require Import List ZArith NArith Bool.
From DV Require Import C01.Syntax C01.Spec C01.Impl C01.Proofs C01.Types C01.FreeNames C01.Fuel C01.FuelProofs.
From DV Require C16.Model C16.Proofs.
Import ListNotations.
Open Scope Z_scope.

(* for every enumeration of iteration tuples, every fuel, every scope stack and every expression of the fragment:
   the machine computes the semantics' value and hands the stack back unchanged *)
Theorem C01_machine_refines_semantics : forall cartf f S e, run cartf f S e = (eval cartf f S e, S).
Proof. exact run_refines. Qed.

(* the code computes the FEEL semantics wherever the code's enumeration and the cartesian product agree … *)
Theorem C01_impl_refines_spec : forall f S e,
  eval cart_impl f S e = eval cart f S e -> run_impl f S e = (eval_spec f S e, S).
Proof. exact impl_refines_spec. Qed.
(* … which is the case whenever no list domain is empty, or all are *)
Theorem C01_enumeration_is_product : forall ds, ds <> [] -> (forall d, In d ds -> snd d <> []) -> cart_impl ds = cart ds.
Proof. exact cart_impl_nonempty. Qed.
Theorem C01_enumeration_all_empty : forall ds, (forall d, In d ds -> snd d = []) -> cart_impl ds = [].
Proof. exact cart_impl_all_empty. Qed.
(* known finding C01 empty-domain: on the remaining class the code deviates *)
Theorem C01_empty_domain_refuted : exists e, fst (run_impl 10 [[]] e) <> eval_spec 10 [[]] e.
Proof. exact empty_domain_refuted. Qed.

(* the semantics ranges over the full cartesian product: its size is the product of the domain sizes, it is empty iff … *)
Theorem C01_product_size : forall ds, length (cart ds) = fold_right (fun d n => (length (snd d) * n)%nat) 1%nat ds.
Proof. exact cart_length. Qed.
Theorem C01_product_empty : forall ds, (exists d, In d ds /\ snd d = []) -> cart ds = [].
Proof. exact cart_empty. Qed.
Theorem C01_for_empty : forall f S ds body x e, In (x, e) ds -> eval_spec f S e = VList [] ->
  eval_spec (Datatypes.S f) S (EFor (map (fun xe => (fst xe, DList (snd xe))) ds) body) = VList [].
Proof. exact spec_for_empty. Qed.
Theorem C01_some_empty : forall f S ds body x e, In (x, e) ds -> eval_spec f S e = VList [] ->
  eval_spec (Datatypes.S f) S (ESome ds body) = VBool false.
Proof. exact spec_some_empty. Qed.
Theorem C01_every_empty : forall f S ds body x e, In (x, e) ds -> eval_spec f S e = VList [] ->
  eval_spec (Datatypes.S f) S (EEvery ds body) = VBool true.
Proof. exact spec_every_empty. Qed.

(* some / every are the three-valued or / and of the satisfies results (non-booleans count as null) *)
Theorem C01_some_is_or_fold : forall rs, existsb poison rs = false -> quant_some rs = fold_left or3 rs (VBool false).
Proof. exact some_is_or_fold. Qed.
Theorem C01_every_is_and_fold : forall rs, existsb poison rs = false -> quant_every rs = fold_left and3 rs (VBool true).
Proof. exact every_is_and_fold. Qed.
Theorem C01_quantifiers_orig_refuted :
  quant_some_orig [VNull] <> fold_left or3 [VNull] (VBool false) /\ quant_every_orig [VNull] <> fold_left and3 [VNull] (VBool true).
Proof. exact quantifiers_orig_refuted. Qed.

(* arguments are coerced to the declared parameter types by the coercion proved in C16: the abstraction `abs` of evaluator
   values onto the values of coq/C16/Model.v commutes with type_of and with coerced, so C16's theorems hold of the evaluator *)
Theorem C01_type_of_is_C16 : forall v, C16.Model.type_of (abs v) = type_of1 v.
Proof. exact type_of_abs. Qed.
Theorem C01_argument_coercion_is_C16 : forall t v, poison v = false -> abs (coerced1 t v) = C16.Model.coerced t (abs v).
Proof. exact coerced_abs. Qed.
Theorem C01_coerced_argument_conforms_or_null : forall t v,
  C16.Proofs.wf t = true -> C16.Proofs.wfv (abs v) = true -> poison v = false ->
  abs (coerced1 t v) = C16.Model.VNull \/ C16.Model.conformant (type_of1 (coerced1 t v)) t = true.
Proof. exact coerced1_conforms_or_null. Qed.

Example C01_nonvacuous :
  run_impl 20 [[(101%N, vnum 2)]] (EFor [(102%N, DList (EList [enum 1; enum 2])); (103%N, DRange (enum 1) (enum 2))]
         (EBin Add (EBin Mul (EName 102%N) (EName 101%N)) (EFilter (ECtx [(104%N, EName 103%N)]) (EBin Eq (EName 104%N) (enum 1)))))
  = (VList [VNull; VNull; VNull; VNull], [[(101%N, vnum 2)]]) /\
  fst (run_impl 20 [[(101%N, vnum 2)]] (EFor [(102%N, DList (EList [enum 1; enum 2])); (103%N, DRange (enum 1) (enum 2))]
         (EBin Add (EBin Mul (EName 102%N) (EName 101%N)) (EName 103%N)))) = VList [vnum 3; vnum 4; vnum 5; vnum 6].
Proof. vm_compute. split; reflexivity. Qed.

(* ---------- "the result depends only on the expression text and on the values bound to its free names" (coq/C01/FreeNames.v) ----------
   names e = every name the expression refers to (EName occurrences, also inside tests, domains, arguments, function bodies);
   A = any set of names containing them;  aclosed A v = every function value inside v has names body within A.
   Function bodies run in the caller's stack (listed known finding dynamic-scope), hence the hypothesis that the values the
   stack binds to names of A are closed; nothing is asked of the values bound to other names. *)
(* both enumerations of iteration tuples only re-arrange the domain values into contexts *)
Theorem C01_enumerations_rearrange : forall A, rearranges A cart /\ rearranges A cart_impl.
Proof. exact (fun A => conj (cart_rearranges A) (cart_impl_rearranges A)). Qed.
(* values computed by an expression over A from such a stack are closed again, for every such enumeration, fuel, stack and expression *)
Theorem C01_closed_values_preserved : forall A cartf, rearranges A cartf -> forall f S e,
  (forall n, In n (names e) -> A n = true) ->
  (forall n v, A n = true -> lookup n S = Some v -> aclosed A v = true) -> aclosed A (eval cartf f S e) = true.
Proof. exact closed_values_preserved. Qed.
(* a stack S' that agrees with S on A gives the same value: in the FEEL semantics and in the code as it is *)
Theorem C01_depends_only_on_occurring_names : forall A f e S S',
  (forall n, In n (names e) -> A n = true) ->
  (forall n v, A n = true -> lookup n S = Some v -> aclosed A v = true) ->
  (forall n, A n = true -> lookup n S = lookup n S') ->
  eval_spec f S e = eval_spec f S' e /\ fst (run_impl f S e) = fst (run_impl f S' e).
Proof. exact depends_only_on_occurring_names. Qed.
(* when the names of e are bound to values without function values, their bindings alone decide the value *)
Theorem C01_depends_only_on_occurring_names_nofun : forall f e S S',
  (forall n v, In n (names e) -> lookup n S = Some v -> nofun v = true) ->
  (forall n, In n (names e) -> lookup n S = lookup n S') ->
  eval_spec f S e = eval_spec f S' e /\ fst (run_impl f S e) = fst (run_impl f S' e).
Proof. exact depends_only_on_names_nofun. Qed.
(* pushing any context of names outside A, or setting any name outside A on the top context, does not change the value *)
Theorem C01_unrelated_bindings_irrelevant : forall A f e S,
  (forall n, In n (names e) -> A n = true) ->
  (forall n v, A n = true -> lookup n S = Some v -> aclosed A v = true) ->
  (forall c, (forall n, A n = true -> ctx_get n c = None) ->
     eval_spec f S e = eval_spec f (c :: S) e /\ fst (run_impl f S e) = fst (run_impl f (c :: S) e)) /\
  (forall k v, A k = false ->
     eval_spec f S e = eval_spec f (set_top k v S) e /\ fst (run_impl f S e) = fst (run_impl f (set_top k v S) e)).
Proof. exact unrelated_bindings_irrelevant. Qed.
(* the closedness hypothesis is necessary (known finding C01 dynamic-scope): vf() with vf = function() vb;
   the two stacks agree on names e = [vf] and differ on vb *)
Theorem C01_dynamic_scope_witness :
  names w_e = [w_f] /\ (forall n, In n (names w_e) -> lookup n (w_S 1) = lookup n (w_S 2)) /\
  eval_spec 5 (w_S 1) w_e = vnum 1 /\ eval_spec 5 (w_S 2) w_e = vnum 2 /\
  fst (run_impl 5 (w_S 1) w_e) = vnum 1 /\ fst (run_impl 5 (w_S 2) w_e) = vnum 2.
Proof. exact dynamic_scope_witness. Qed.
(* why "names that occur" and not "free names": in the code an empty list domain binds nothing (known finding C01 empty-domain),
   so the BOUND vx of  for vx in [], vy in [1] return vx  is looked up outside; in the semantics the result is [] *)
Theorem C01_bound_name_leak_witness :
  fst (run_impl 5 [[(l_x, vnum 1)]] l_e) = VList [vnum 1] /\ fst (run_impl 5 [[(l_x, vnum 2)]] l_e) = VList [vnum 2] /\
  eval_spec 5 [[(l_x, vnum 1)]] l_e = VList [] /\ eval_spec 5 [[(l_x, vnum 2)]] l_e = VList [].
Proof. exact bound_name_leak_witness. Qed.
Example C01_free_names_nonvacuous :
  (forall n, In n (names x_e) -> in_names x_e n = true) /\
  (forall n v, in_names x_e n = true -> lookup n x_S = Some v -> aclosed (in_names x_e) v = true) /\
  (forall n, in_names x_e n = true -> lookup n x_S = lookup n x_S') /\ x_S <> x_S' /\
  fst (run_impl 20 x_S x_e) = VList [vnum 3; vnum 5] /\ fst (run_impl 20 x_S' x_e) = VList [vnum 3; vnum 5].
Proof. exact nonvacuous. Qed.

(* ---------- fuel (coq/C01/Fuel.v, FuelProofs.v; audit problem 12) ----------
   eval answers VPoison when the fuel runs out.  The marker is shared with "a number the model does not compute" and a VPoison
   inside a list or a context is looked through by `=`, `if`, paths, filters, so "the value contains no VPoison" does NOT imply
   that the fuel was enough: C01_value_monotonicity_refuted ([1] = [1] is false at fuel 2, true from fuel 3 on).
   The statement "eval f S e = v, v not VPoison, f <= g -> eval g S e = v" is therefore FALSE; what is monotone is
     complete cartf f S e = no evaluation step performed by eval cartf f S e took the out-of-fuel branch
   (same recursion as eval; complete_step / eval_step are one layer of it: C01_eval_unfolds). *)
Theorem C01_eval_unfolds : forall cartf f S e,
  eval cartf (Datatypes.S f) S e = eval_step cartf (eval cartf f) S e /\
  complete cartf (Datatypes.S f) S e = complete_step cartf (eval cartf f) (complete cartf f) S e /\
  complete cartf O S e = false.
Proof. exact (fun cartf f S e => conj (eval_S cartf f S e) (conj (complete_S cartf f S e) eq_refl)). Qed.
(* once every step had fuel, the value is the same for every larger fuel: from there on the semantic value is fuel-independent *)
Theorem C01_eval_fuel_monotone : forall cartf f g S e, (f <= g)%nat -> complete cartf f S e = true ->
  eval cartf g S e = eval cartf f S e /\ complete cartf g S e = true.
Proof. exact eval_fuel_monotone. Qed.
Theorem C01_machine_fuel_monotone : forall cartf f g S e, (f <= g)%nat -> complete cartf f S e = true ->
  run cartf g S e = run cartf f S e.
Proof. exact run_fuel_monotone. Qed.
Theorem C01_value_monotonicity_refuted :
  let e := EBin Eq (EList [enum 1]) (EList [enum 1]) in
  eval cart 2 [] e = VBool false /\ poison (eval cart 2 [] e) = false /\ eval cart 3 [] e = VBool true /\
  complete cart 2 [] e = false /\ complete cart 3 [] e = true.
Proof. exact value_monotonicity_refuted. Qed.
(* expressions that evaluate no invocation (calls inside function literals do not count): any fuel above the nesting depth
   is enough, for every enumeration, stack and expression *)
Theorem C01_fuel_sufficient : forall cartf f S e, nocall e = true -> (depth e < f)%nat ->
  eval cartf f S e = eval cartf (Datatypes.S (depth e)) S e /\ complete cartf f S e = true.
Proof. exact fuel_sufficient. Qed.
(* invocations: the fuel needed depends on the values (function bodies run in the caller's stack, so a function bound to a
   name can call itself): no bound in the text of the expression exists.
   vf = function(vn) vf(vn); vf(1): VPoison and incomplete for EVERY fuel (FEEL does not terminate there either; the real
   evaluator exhausts its stack: C05's subject) *)
Theorem C01_recursion_never_completes : forall cartf f,
  eval cartf f r_S r_loop = VPoison /\ complete cartf f r_S r_loop = false.
Proof. exact loop_diverges. Qed.
(* vf = function(vn) if vn = 0 then 0 else vf(vn - 1): vf(3) completes from fuel 10 on, vf(4) from 12 on *)
Theorem C01_recursion_countdown :
  complete cart 9 r_S2 (ECall (EName r_f) [enum 3]) = false /\ complete cart 10 r_S2 (ECall (EName r_f) [enum 3]) = true /\
  eval cart 10 r_S2 (ECall (EName r_f) [enum 3]) = vnum 0 /\
  complete cart 10 r_S2 (ECall (EName r_f) [enum 4]) = false /\ complete cart 12 r_S2 (ECall (EName r_f) [enum 4]) = true.
Proof. exact countdown_completes. Qed.
Example C01_fuel_sufficient_nonvacuous :
  nocall s_e = true /\ depth s_e = 5%nat /\ complete cart 6 [[(101%N, vnum 1)]] s_e = true /\ complete cart 5 [[(101%N, vnum 1)]] s_e = false /\
  eval cart 6 [[(101%N, vnum 1)]] s_e = VList [vnum (-1); vnum (-2); vnum 4; vnum 7] /\
  eval cart 40 [[(101%N, vnum 1)]] s_e = VList [vnum (-1); vnum (-2); vnum 4; vnum 7].
Proof. exact sufficient_nonvacuous. Qed.

Print Assumptions C01_machine_refines_semantics.
Print Assumptions C01_impl_refines_spec.
Print Assumptions C01_enumeration_is_product.
Print Assumptions C01_enumeration_all_empty.
Print Assumptions C01_empty_domain_refuted.
Print Assumptions C01_product_size.
Print Assumptions C01_product_empty.
Print Assumptions C01_for_empty.
Print Assumptions C01_some_empty.
Print Assumptions C01_every_empty.
Print Assumptions C01_some_is_or_fold.
Print Assumptions C01_every_is_and_fold.
Print Assumptions C01_quantifiers_orig_refuted.
Print Assumptions C01_type_of_is_C16.
Print Assumptions C01_argument_coercion_is_C16.
Print Assumptions C01_coerced_argument_conforms_or_null.
Print Assumptions C01_nonvacuous.
Print Assumptions C01_enumerations_rearrange.
Print Assumptions C01_closed_values_preserved.
Print Assumptions C01_depends_only_on_occurring_names.
Print Assumptions C01_depends_only_on_occurring_names_nofun.
Print Assumptions C01_unrelated_bindings_irrelevant.
Print Assumptions C01_dynamic_scope_witness.
Print Assumptions C01_bound_name_leak_witness.
Print Assumptions C01_free_names_nonvacuous.
Print Assumptions C01_eval_unfolds.
Print Assumptions C01_eval_fuel_monotone.
Print Assumptions C01_machine_fuel_monotone.
Print Assumptions C01_value_monotonicity_refuted.
Print Assumptions C01_fuel_sufficient.
Print Assumptions C01_recursion_never_completes.
Print Assumptions C01_recursion_countdown.
Print Assumptions C01_fuel_sufficient_nonvacuous.
