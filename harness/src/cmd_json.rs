//! `dv json`: in-process rendering of FEEL values by Jsonify (C18).
//! Request per line: {"v": X} where X = null | true | false | {"n": "decimal text"} | {"s": [code points]} | {"l": [X..]} |
//! {"c": [[[code points of key], X]..]} | {"o": "FEEL expression"} (a value of another kind, obtained by evaluating the expression);
//! or {"feel": "FEEL context text", "key": "x"} (the value of entry `key` of the evaluated context).
//! Answer: {"json": [code points of value.jsonify()], "canon": X'} where X' is the value read back in the request syntax
//! (other kinds as {"o": Display text}); {"err": ..} when the request cannot be built; {"panic": text}.
use crate::canon::panic_text;
use dmntk_common::Jsonify;
use dmntk_feel::context::FeelContext;
use dmntk_feel::values::{Value, Values};
use dmntk_feel::{FeelNumber, Name, Scope};
use serde_json::{json, Value as J};
use std::io::{BufRead, Write};

fn text_of(cps: &J) -> Option<String> {
  let mut s = String::new();
  for c in cps.as_array()? {
    s.push(char::from_u32(c.as_u64()? as u32)?);
  }
  Some(s)
}

fn cps_of(s: &str) -> J {
  J::Array(s.chars().map(|c| json!(c as u32)).collect())
}

fn build(x: &J) -> Option<Value> {
  match x {
    J::Null => Some(Value::Null(None)),
    J::Bool(b) => Some(Value::Boolean(*b)),
    J::Object(m) => {
      if let Some(n) = m.get("n") {
        let num: FeelNumber = n.as_str()?.parse().ok()?;
        Some(Value::Number(num))
      } else if let Some(s) = m.get("s") {
        Some(Value::String(text_of(s)?))
      } else if let Some(l) = m.get("l") {
        let mut items = vec![];
        for i in l.as_array()? {
          items.push(build(i)?);
        }
        Some(Value::List(Values::new(items)))
      } else if let Some(c) = m.get("c") {
        let mut ctx = FeelContext::default();
        for e in c.as_array()? {
          let key: Name = text_of(&e[0])?.into();
          ctx.set_entry(&key, build(&e[1])?);
        }
        Some(Value::Context(ctx))
      } else if let Some(o) = m.get("o") {
        let scope = Scope::default();
        let node = dmntk_feel_parser::parse_expression(&scope, o.as_str()?, false).ok()?;
        dmntk_feel_evaluator::evaluate(&scope, &node).ok()
      } else {
        None
      }
    }
    _ => None,
  }
}

pub fn back(v: &Value) -> J {
  match v {
    Value::Null(_) => J::Null,
    Value::Boolean(b) => J::Bool(*b),
    Value::Number(n) => json!({"n": format!("{}", n)}),
    Value::String(s) => json!({ "s": cps_of(s) }),
    Value::List(items) => json!({"l": items.as_vec().iter().map(back).collect::<Vec<J>>()}),
    Value::Context(ctx) => json!({"c": ctx.get_entries().iter().map(|(k, v)| json!([cps_of(&k.to_string()), back(v)])).collect::<Vec<J>>()}),
    other => json!({"o": format!("{}", other)}),
  }
}

fn one(req: &J) -> J {
  let v = if let Some(t) = req.get("feel") {
    let ctx = match dmntk_feel_evaluator::evaluate_context(&Scope::default(), t.as_str().unwrap_or("")) {
      Ok(c) => c,
      Err(_) => return json!({"err": "feel"}),
    };
    let key: Name = req["key"].as_str().unwrap_or("x").into();
    match ctx.get_entry(&key) {
      Some(v) => v.clone(),
      None => return json!({"err": "key"}),
    }
  } else {
    match build(&req["v"]) {
      Some(v) => v,
      None => return json!({"err": "build"}),
    }
  };
  json!({"json": cps_of(&v.jsonify()), "canon": back(&v)})
}

pub fn main() {
  let stdin = std::io::stdin();
  let stdout = std::io::stdout();
  let mut out = std::io::BufWriter::new(stdout.lock());
  for line in stdin.lock().lines() {
    let line = line.unwrap();
    if line.trim().is_empty() {
      continue;
    }
    let req: J = serde_json::from_str(&line).unwrap_or(J::Null);
    let r = std::panic::catch_unwind(|| one(&req)).unwrap_or_else(|e| json!({"panic": panic_text(e)}));
    writeln!(out, "{}", r).unwrap();
  }
  out.flush().unwrap();
}
