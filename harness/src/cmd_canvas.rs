//! `dv canvas`: the characters -> plane step alone (recognizer/src/canvas.rs: scan + Canvas::plane), one JSON request per line:
//!   {"text": drawn decision table}
//! answer:
//!   {"name": information item name | null, "plane": [[cell, ...], ...]}   cell = ["R", number, [left, top, right, bottom], text]
//!                                                                          | "VOut" | "VAnn" | "HOut" | "HAnn" | "Main" | "HCross" | "VCross"
//!   | {"err": message}     scan or plane returned Err
//!   | {"panic": text}
//! (owner: ext-canvas; C19, compared with coq/C19/Canvas.v)
use crate::canon::panic_text;
use serde_json::{json, Value as J};
use std::io::{BufRead, Write};
use std::panic::catch_unwind;

/// The rectangle of a region cell from its Debug text `Region(n, (l,t;r,b), "text")` (the cell type is not exported).
fn rect_of(dbg: &str) -> J {
  let start = match dbg.find(", (") {
    Some(i) => i + 3,
    None => return J::Null,
  };
  let end = match dbg[start..].find(')') {
    Some(i) => start + i,
    None => return J::Null,
  };
  let nums: Vec<J> = dbg[start..end].split(|c| c == ',' || c == ';').map(|s| json!(s.trim().parse::<u64>().unwrap_or(u64::MAX))).collect();
  J::Array(nums)
}

pub fn one(req: &J) -> J {
  let text = req["text"].as_str().unwrap_or("").to_string();
  let r = catch_unwind(move || {
    let mut canvas = dmntk_recognizer::scan(&text)?;
    let name = canvas.information_item_name.clone();
    let plane = canvas.plane()?;
    let mut rows = vec![];
    for row in 0..plane.height() {
      let mut cells = vec![];
      for col in 0..plane.row_len(row) {
        let cell = plane.cell(row, col)?;
        let dbg = format!("{:?}", cell);
        if dbg.starts_with("Region(") {
          cells.push(json!(["R", plane.region_number(row, col)?, rect_of(&dbg), plane.region_text(row, col)?]));
        } else {
          cells.push(json!(match dbg.as_str() {
            "VerticalOutputDoubleLine" => "VOut",
            "VerticalAnnotationDoubleLine" => "VAnn",
            "HorizontalOutputDoubleLine" => "HOut",
            "HorizontalAnnotationsDoubleLine" => "HAnn",
            "MainDoubleCrossing" => "Main",
            "HorizontalDoubleCrossing" => "HCross",
            "VerticalDoubleCrossing" => "VCross",
            other => other,
          }));
        }
      }
      rows.push(J::Array(cells));
    }
    Ok::<J, dmntk_common::DmntkError>(json!({"name": name, "plane": rows}))
  });
  match r {
    Ok(Ok(j)) => j,
    Ok(Err(e)) => json!({"err": e.to_string()}),
    Err(e) => json!({"panic": panic_text(e)}),
  }
}

pub fn main() {
  let stdin = std::io::stdin();
  let stdout = std::io::stdout();
  let mut out = std::io::BufWriter::new(stdout.lock());
  for line in stdin.lock().lines() {
    let line = line.unwrap();
    if line.trim().is_empty() {
      continue;
    }
    let req: J = serde_json::from_str(&line).unwrap_or(J::Null);
    let r = catch_unwind(|| one(&req)).unwrap_or_else(|e| json!({"panic": panic_text(e)}));
    writeln!(out, "{}", r).unwrap();
    out.flush().unwrap();
  }
  out.flush().unwrap();
}
