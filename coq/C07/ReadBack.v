(* C07 — "reading that text back gives an equal number", proved through the model of the reader (C07/Reader.v):
   for every decimal128 datum d:  from_plain (print d) = Some (reread d),  reread d has the value and the sign of d
   and is a decimal128 datum.  reread d = d unless the exponent is positive; the printed integer coef*10^expo then has
   ndigits coef + expo digits: up to 34 of them are read as they are, of a longer numeral only zeros are dropped. *)
From Coq Require Import String ZArith NArith Bool List Ascii Lia.
From DV Require Import Base.Dec Base.DecFacts Base.DecRound C07.Model C07.Digits C07.Proofs C07.Reader.
Import ListNotations.
Open Scope char_scope.
Open Scope Z_scope.

(* ---------------------------------------------------------------- the reader is "denotes, then one rounding" *)
Lemma from_plain_denotes : forall s,
  from_plain s = match denotes s with Some p => round34 (neg p) (coef p) (expo p) | None => None end.
Proof.
  intros s. unfold from_plain, denotes. destruct (is_plain s); [|reflexivity].
  destruct (strip_sign s) as [sg u]. destruct (split_char "." u) as [ip [fp|]]; reflexivity.
Qed.

(* ---------------------------------------------------------------- number of digits *)
Lemma ndigits_unique : forall n k, (0 < n)%N -> (1 <= k)%N -> (10 ^ (k - 1) <= n < 10 ^ k)%N -> ndigits n = k.
Proof.
  intros n k Hn Hk [L U]. destruct (ndigits_spec n Hn) as [[L' U'] P].
  destruct (N.lt_trichotomy (ndigits n) k) as [H|[H|H]]; [exfalso | exact H | exfalso].
  - assert ((10 ^ ndigits n <= 10 ^ (k - 1))%N) by (apply N.pow_le_mono_r; lia). lia.
  - assert ((10 ^ k <= 10 ^ (ndigits n - 1))%N) by (apply N.pow_le_mono_r; lia). lia.
Qed.

Lemma ndigits_shift : forall c j, (0 < c)%N -> ndigits (c * 10 ^ j) = (ndigits c + j)%N.
Proof.
  intros c j Hc. destruct (ndigits_spec c Hc) as [[L U] P].
  assert (Hp : (0 < 10 ^ j)%N) by (apply N.neq_0_lt_0, N.pow_nonzero; lia).
  apply ndigits_unique; [nia | lia |].
  replace (ndigits c + j - 1)%N with ((ndigits c - 1) + j)%N by lia. rewrite !N.pow_add_r. split; nia.
Qed.

(* ---------------------------------------------------------------- rounding: identity on data, and on an integer that ends in enough zeros *)
Lemma round34_id : forall s m e, (m < 10 ^ PREC)%N -> ETINY <= e <= ETOP -> round34 s m e = Some (mkdec s m e).
Proof.
  intros s m e Hm He. unfold round34. destruct (m =? 0)%N eqn:E0.
  - apply N.eqb_eq in E0. subst m. unfold clamp_exp. rewrite Z.min_r, Z.max_r by lia. reflexivity.
  - apply N.eqb_neq in E0. assert (Hp : (0 < m)%N) by lia.
    pose proof (ndigits_le m PREC Hp Hm) as Hnd. destruct (ndigits_spec m Hp) as [_ Hnd1].
    assert (Ht : target_exp m e = e) by (unfold target_exp; unfold PREC in *; lia).
    rewrite Ht, Z.sub_diag. cbn [Z.to_N]. change (round_half_even m 0) with m.
    destruct (m =? 10 ^ PREC)%N eqn:E1; [apply N.eqb_eq in E1; lia|].
    assert (EMAX <? e + Z.of_N (ndigits m) - 1 = false) as -> by (apply Z.ltb_ge; unfold EMAX, ETOP, PREC in *; lia).
    assert (ETOP <? e = false) as -> by (apply Z.ltb_ge; lia). reflexivity.
Qed.

Lemma round_half_even_multiple : forall q k, round_half_even (q * 10 ^ k) k = q.
Proof.
  intros q k. unfold round_half_even. destruct (k =? 0)%N eqn:E0.
  - apply N.eqb_eq in E0. subst k. rewrite N.pow_0_r. lia.
  - apply N.eqb_neq in E0. cbv zeta.
    assert (Hp : (10 ^ k <> 0)%N) by (apply N.pow_nonzero; lia).
    rewrite N.div_mul, N.mod_mul by exact Hp.
    assert (Hh : (0 < 5 * 10 ^ (k - 1))%N).
    { assert (10 ^ (k - 1) <> 0)%N by (apply N.pow_nonzero; lia). lia. }
    assert ((5 * 10 ^ (k - 1) <? 0)%N = false) as -> by (apply N.ltb_ge; lia).
    assert ((0 =? 5 * 10 ^ (k - 1))%N = false) as -> by (apply N.eqb_neq; lia).
    reflexivity.
Qed.

(* the integer c * 10^e (c of at most 34 digits, 0 < e <= ETOP) written out and rounded to the format *)
Lemma round34_integer : forall s c e, (0 < c)%N -> (c < 10 ^ PREC)%N -> 0 < e <= ETOP ->
  let k := Z.max 0 (Z.of_N (ndigits c) + e - Z.of_N PREC) in
  round34 s (c * 10 ^ Z.to_N e) 0 = Some (mkdec s (c * 10 ^ Z.to_N (e - k)) k) /\
  0 <= k <= e /\ (c * 10 ^ Z.to_N (e - k) < 10 ^ PREC)%N.
Proof.
  intros s c e Hc Hc34 He. cbv zeta.
  pose proof (ndigits_le c PREC Hc Hc34) as Hnd. destruct (ndigits_spec c Hc) as [[Lc Uc] P].
  set (k := Z.max 0 (Z.of_N (ndigits c) + e - Z.of_N PREC)).
  assert (Hk : 0 <= k <= e) by (unfold k, PREC in *; lia).
  assert (Hpe : (0 < 10 ^ Z.to_N e)%N) by (apply N.neq_0_lt_0, N.pow_nonzero; lia).
  set (m := (c * 10 ^ Z.to_N e)%N).
  assert (Hm : (0 < m)%N) by (unfold m; nia).
  assert (Hndm : ndigits m = (ndigits c + Z.to_N e)%N) by (unfold m; apply ndigits_shift; exact Hc).
  assert (Hsplit : m = (c * 10 ^ Z.to_N (e - k) * 10 ^ Z.to_N k)%N).
  { unfold m. rewrite <- N.mul_assoc, <- N.pow_add_r. f_equal. f_equal. lia. }
  assert (Hc1 : (c * 10 ^ Z.to_N (e - k) < 10 ^ PREC)%N).
  { assert (Hle : (ndigits c + Z.to_N (e - k) <= PREC)%N) by (unfold k, PREC in *; lia).
    assert ((10 ^ (ndigits c + Z.to_N (e - k)) <= 10 ^ PREC)%N) by (apply N.pow_le_mono_r; lia).
    rewrite N.pow_add_r in H.
    assert ((0 < 10 ^ Z.to_N (e - k))%N) by (apply N.neq_0_lt_0, N.pow_nonzero; lia). nia. }
  split; [|split; [exact Hk | exact Hc1]].
  unfold round34. assert (m =? 0 = false)%N as -> by (apply N.eqb_neq; lia).
  assert (Ht : target_exp m 0 = k).
  { unfold target_exp. rewrite Hndm. unfold k, ETINY, PREC in *. lia. }
  rewrite Ht, Z.sub_0_r.
  set (c1 := (c * 10 ^ Z.to_N (e - k))%N) in *.
  assert (Hrhe : round_half_even m (Z.to_N k) = c1) by (rewrite Hsplit; apply round_half_even_multiple).
  rewrite Hrhe.
  assert (Hc1p : (0 < c1)%N).
  { unfold c1. assert ((0 < 10 ^ Z.to_N (e - k))%N) by (apply N.neq_0_lt_0, N.pow_nonzero; lia). nia. }
  assert (c1 =? 10 ^ PREC = false)%N as -> by (apply N.eqb_neq; lia).
  pose proof (ndigits_le c1 PREC Hc1p Hc1) as Hnd1.
  assert (EMAX <? k + Z.of_N (ndigits c1) - 1 = false) as -> by (apply Z.ltb_ge; unfold EMAX, ETOP, PREC in *; lia).
  assert (ETOP <? k = false) as -> by (apply Z.ltb_ge; lia).
  reflexivity.
Qed.

(* ---------------------------------------------------------------- what the rendered text denotes, exactly *)
Lemma render_denotes : forall c e,
  unsigned_denotes (render_unsigned c e) =
  if 0 <? e then (if (c =? 0)%N then (0%N, 0) else ((c * 10 ^ Z.to_N e)%N, 0)) else (c, e).
Proof.
  intros c e.
  destruct (digits_of_ok c) as [D1 D2 D3 D4].
  destruct (digits_of_nonempty c) as (c1 & rest & Eds & Hc1 & Hrest).
  assert (Hdot : lacksb "." (digits_of c) = true) by (apply lacksdot_digits; exact D1).
  unfold render_unsigned. cbv zeta.
  destruct (0 <? e) eqn:He.
  - apply Z.ltb_lt in He. destruct (c =? 0)%N eqn:Ec; [reflexivity|].
    assert (Hall : all_digits (digits_of c ++ zeros (Z.to_nat e)) = true) by (rewrite all_digits_app, D1, all_digits_zeros; reflexivity).
    unfold unsigned_denotes. rewrite (split_char_none "." _ (lacksdot_digits _ Hall)).
    rewrite digits_val_app_zeros, D2. f_equal. f_equal. f_equal. lia.
  - apply Z.ltb_ge in He. destruct (e =? 0) eqn:Ee.
    + apply Z.eqb_eq in Ee. subst e. unfold unsigned_denotes. rewrite (split_char_none "." _ Hdot), D2. reflexivity.
    + apply Z.eqb_neq in Ee. destruct (0 <? len (digits_of c) + e) eqn:Epre.
      * apply Z.ltb_lt in Epre. set (k := Z.to_nat (len (digits_of c) + e)).
        unfold unsigned_denotes.
        rewrite (split_char_found "." (firstn k (digits_of c)) (skipn k (digits_of c))) by (apply lacksdot_digits, all_digits_firstn; exact D1).
        rewrite firstn_skipn, D2. f_equal. unfold len. rewrite skipn_length. unfold k, len in *. lia.
      * apply Z.ltb_ge in Epre. set (z := Z.to_nat (- (len (digits_of c) + e))).
        unfold unsigned_denotes.
        change ("0" :: "." :: zeros z ++ digits_of c) with (["0"] ++ "." :: zeros z ++ digits_of c).
        rewrite (split_char_found "." ["0"] (zeros z ++ digits_of c)) by reflexivity.
        cbn [app]. rewrite digits_val_cons0, digits_val_zeros_app, D2. f_equal.
        unfold len. rewrite app_length, zeros_length. unfold z, len in *. lia.
Qed.

(* ---------------------------------------------------------------- HEADLINE *)
Lemma in_format_inv : forall d, in_format d = true -> (coef d < 10 ^ PREC)%N /\ ETINY <= expo d <= ETOP.
Proof.
  intros d H. unfold in_format in H. apply andb_true_iff in H. destruct H as [H H3]. apply andb_true_iff in H. destruct H as [H1 H2].
  apply N.ltb_lt in H1. apply Z.leb_le in H2. apply Z.leb_le in H3. lia.
Qed.

Lemma in_format_intro : forall s c e, (c < 10 ^ PREC)%N -> ETINY <= e <= ETOP -> in_format (mkdec s c e) = true.
Proof.
  intros s c e H1 H2. unfold in_format. cbn [coef expo].
  rewrite (proj2 (N.ltb_lt _ _) H1), (proj2 (Z.leb_le _ _) (proj1 H2)), (proj2 (Z.leb_le _ _) (proj2 H2)). reflexivity.
Qed.

Lemma from_plain_print : forall d, exists s,
  print d = Some s /\
  from_plain s = let (m, k) := unsigned_denotes (render_unsigned (coef d) (expo d)) in round34 (neg d) m k.
Proof.
  intros d. exists (sign_of d ++ render_unsigned (coef d) (expo d)). split; [apply print_render|].
  pose proof (render_spec (coef d) (expo d)) as R. cbv zeta in R.
  set (u := render_unsigned (coef d) (expo d)) in *.
  destruct R as (R1 & _ & (ch & t & Eu & Hch) & _).
  assert (SS : strip_sign (sign_of d ++ u) = (neg d, u)) by (exact (strip_sign_signed (neg d) u ch t Eu Hch)).
  unfold from_plain, is_plain. rewrite SS. cbn [snd]. rewrite R1.
  unfold unsigned_denotes. destruct (split_char "." u) as [ip [fp|]]; reflexivity.
Qed.

Theorem read_back_exact : forall d, in_format d = true ->
  read_back d = Some (reread d) /\ veq (reread d) d /\ neg (reread d) = neg d /\ in_format (reread d) = true.
Proof.
  intros d F. destruct (in_format_inv d F) as [Hc He].
  destruct (from_plain_print d) as (s & Hp & Hr). unfold read_back. rewrite Hp, Hr, render_denotes. clear s Hp Hr.
  unfold reread. destruct (0 <? expo d) eqn:E0.
  - apply Z.ltb_lt in E0. destruct (coef d =? 0)%N eqn:Ec.
    + apply N.eqb_eq in Ec. split; [reflexivity|]. split; [|split; reflexivity].
      unfold veq, scaled, sval, emin2. cbn [neg coef expo]. rewrite Ec. destruct (neg d); cbn; lia.
    + apply N.eqb_neq in Ec. assert (Hpos : (0 < coef d)%N) by lia.
      destruct (round34_integer (neg d) (coef d) (expo d) Hpos Hc ltac:(lia)) as (R & Hk & Hc1). cbv zeta in R, Hk, Hc1.
      set (k := Z.max 0 (Z.of_N (ndigits (coef d)) + expo d - Z.of_N PREC)) in *.
      split; [exact R|]. split; [|split; [reflexivity | apply in_format_intro; [exact Hc1 | unfold ETINY in *; lia]]].
      unfold veq, scaled, sval, emin2. cbn [neg coef expo].
      rewrite Z.min_l by lia. rewrite Z.sub_diag, Z.pow_0_r.
      rewrite N2Z.inj_mul, N2Z.inj_pow, Z2N.id by lia. change (Z.of_N 10) with 10. destruct (neg d); lia.
  - apply Z.ltb_ge in E0. split; [|split; [apply veq_refl | split; [reflexivity | exact F]]].
    destruct d as [s c e]. cbn [neg coef expo] in *. apply round34_id; [exact Hc | lia].
Qed.

(* the statement of the property: Display, then from_str, gives a number equal to the one printed *)
Corollary read_back_equal : forall d, in_format d = true ->
  exists s d', print d = Some s /\ from_plain s = Some d' /\ veq d' d /\ neg d' = neg d /\ in_format d' = true.
Proof.
  intros d F. destruct (read_back_exact d F) as (R & V & S & F').
  unfold read_back in R. destruct (print d) as [s|] eqn:P; [|discriminate R].
  exists s, (reread d). auto.
Qed.

(* at most 34 printed digits: nothing is rounded, the number read is the number the text denotes *)
Corollary read_back_short : forall d, in_format d = true -> printed_digits d <= 34 ->
  exists s p, print d = Some s /\ denotes s = Some p /\ from_plain s = Some p /\ veq p d.
Proof.
  intros d F H. destruct (in_format_inv d F) as [Hc He].
  destruct (read_back_exact d F) as (R & V & _ & _).
  unfold read_back in R. destruct (print d) as [s|] eqn:P; [|discriminate R].
  exists s, (reread d). split; [reflexivity|]. split; [|split; [exact R | exact V]].
  destruct (plain_exact d) as (s' & p & P' & _ & _ & Dn & Sg & _). rewrite P in P'. injection P' as <-.
  rewrite Dn. f_equal.
  (* p is determined by the text: compute it once more through from_plain_denotes *)
  pose proof (from_plain_denotes s) as FD. rewrite R, Dn in FD.
  (* p has at most 34 digits and an exponent in range, so round34 is the identity on it *)
  destruct (from_plain_print d) as (s2 & P2 & _). rewrite P in P2. injection P2 as <-.
  assert (Hden : denotes s = Some (let (m, k) := unsigned_denotes (render_unsigned (coef d) (expo d)) in mkdec (neg d) m k)).
  { rewrite print_render in P. injection P as <-.
    pose proof (render_spec (coef d) (expo d)) as RS. cbv zeta in RS.
    set (u := render_unsigned (coef d) (expo d)) in *.
    destruct RS as (R1 & _ & (ch & t & Eu & Hch) & _).
    assert (SS : strip_sign (sign_of d ++ u) = (neg d, u)) by (exact (strip_sign_signed (neg d) u ch t Eu Hch)).
    unfold denotes, is_plain. rewrite SS. cbn [snd]. rewrite R1. unfold unsigned_denotes.
    destruct (split_char "." u) as [ip [fp|]]; reflexivity. }
  rewrite Hden in Dn. injection Dn as <-. rewrite render_denotes.
  unfold reread, printed_digits in *. destruct (0 <? expo d) eqn:E0.
  - apply Z.ltb_lt in E0. destruct (coef d =? 0)%N; [reflexivity|].
    rewrite (Z.max_l 0 (_ - _)) by (unfold PREC; lia). rewrite Z.sub_0_r. reflexivity.
  - destruct d; reflexivity.
Qed.

(* more than 34 printed digits (only possible with a positive exponent): exactly the last (digits - 34) digits are dropped,
   they are zeros, and the exponent counts them *)
Corollary read_back_long : forall d, in_format d = true -> 34 < printed_digits d ->
  let k := printed_digits d - 34 in
  0 < k <= expo d /\
  read_back d = Some (mkdec (neg d) (coef d * 10 ^ Z.to_N (expo d - k)) k) /\
  ndigits (coef d * 10 ^ Z.to_N (expo d - k)) = 34%N /\
  veq (mkdec (neg d) (coef d * 10 ^ Z.to_N (expo d - k)) k) d.
Proof.
  intros d F H. cbv zeta. destruct (in_format_inv d F) as [Hc He].
  destruct (read_back_exact d F) as (R & V & _ & _).
  assert (Hpos : (0 < coef d)%N).
  { destruct (N.eq_0_gt_0_cases (coef d)) as [Z0|P]; [|exact P]. exfalso.
    unfold printed_digits in H. rewrite Z0 in H. cbn in H. lia. }
  pose proof (ndigits_le (coef d) PREC Hpos Hc) as Hnd.
  assert (coef d =? 0 = false)%N as Ec by (apply N.eqb_neq; lia).
  unfold printed_digits in *. rewrite Ec in *.
  assert (E0 : 0 < expo d) by (unfold PREC in *; lia).
  unfold reread in R, V. rewrite (proj2 (Z.ltb_lt _ _) E0) in R, V.
  rewrite Ec in R, V.
  rewrite (Z.max_r 0 (expo d)) in * by lia.
  replace (Z.max 0 (Z.of_N (ndigits (coef d)) + expo d - Z.of_N PREC)) with (Z.of_N (ndigits (coef d)) + expo d - 34) in R, V by (unfold PREC; lia).
  split; [unfold PREC in *; lia|]. split; [exact R|]. split; [|exact V].
  rewrite ndigits_shift by exact Hpos. unfold PREC in *. lia.
Qed.

(* ---------------------------------------------------------------- examples *)
Example read_back_examples :
  read_back (mkdec false 1 40) = Some (mkdec false (10 ^ 33) 7) /\ printed_digits (mkdec false 1 40) = 41 /\
  read_back (mkdec true 1230 (-2)) = Some (mkdec true 1230 (-2)) /\
  read_back (mkdec true 0 3) = Some (mkdec true 0 0) /\
  read_back (mkdec false 15 (-8)) = Some (mkdec false 15 (-8)) /\
  read_back (mkdec false 12 32) = Some (mkdec false (12 * 10 ^ 32) 0) /\
  read_back (mkdec false 12 33) = Some (mkdec false (12 * 10 ^ 32) 1).
Proof. vm_compute. repeat split. Qed.

(* beyond the format the reader does round: a 35-digit coefficient is not read back exactly (such a datum is not a decimal128
   datum: the hypothesis in_format is needed) *)
Example read_back_needs_format :
  read_back (mkdec false (10 ^ 34 + 1) 0) = Some (mkdec false (10 ^ 33) 1) /\
  veqb (mkdec false (10 ^ 33) 1) (mkdec false (10 ^ 34 + 1) 0) = false /\
  in_format (mkdec false (10 ^ 34 + 1) 0) = false.
Proof. vm_compute. repeat split. Qed.
