(* C02 — the square root of the model is correctly rounded (all non-negative finite decimals; integers only, no reals).
   1. dsqrt's scaled radicand always yields at least 36 root digits, so at least three digits of 10*root + sticky are dropped
      (the analogue of ddiv_drops_at_least_3); this links sqrt_sticky to the actual dsqrt.
   2. dsqrt d = Some r  ->  r has the value c * 10^q where c * 10^q is a nearest multiple of 10^q to the exact square root of d
      (stated with the squares of the two half-way points), half-way cases give an even c, c <= 10^34, and the quantum 10^q is
      the 34-digit one (10^33 <= c) unless q is the smallest exponent -6176.
   3. for a decimal128 datum the square root exists (no overflow). *)
From Coq Require Import ZArith NArith Bool List Lia.
From DV Require Import Base.Dec Base.DecFacts Base.DecRound C02.Model C02.Proofs.
Open Scope Z_scope.

(* ---------------------------------------------------------------- 1. the number of root digits *)
Lemma pow10_le_mul : forall c k j, (10 ^ j <= c)%N -> (10 ^ (j + k) <= c * 10 ^ k)%N.
Proof. intros c k j H. rewrite N.pow_add_r. apply N.mul_le_mono_r. exact H. Qed.

Theorem dsqrt_root_digits : forall c, (0 < c)%N ->
  let k := Z.to_N (Z.max 0 (36 - Z.of_N (ndigits c) / 2)) in
  (10 ^ 35 <= N.sqrt (c * 10 ^ (2 * k)))%N.
Proof.
  intros c Hc. cbv zeta. destruct (ndigits_spec c Hc) as [[L _] P].
  set (nd := ndigits c) in *. set (k := Z.to_N (Z.max 0 (36 - Z.of_N nd / 2))).
  pose proof (Z.div_mod (Z.of_N nd) 2 ltac:(lia)) as DM. pose proof (Z.mod_pos_bound (Z.of_N nd) 2 ltac:(lia)) as MB.
  assert (Hj : (70 <= (nd - 1) + 2 * k)%N) by (unfold k; lia).
  assert (H70 : (10 ^ 70 <= c * 10 ^ (2 * k))%N).
  { eapply N.le_trans; [|apply (pow10_le_mul c (2 * k) (nd - 1) L)]. apply N.pow_le_mono_r; lia. }
  replace (10 ^ 35)%N with (N.sqrt (10 ^ 70)) by reflexivity. apply N.sqrt_le_mono. exact H70.
Qed.

Theorem dsqrt_drops_at_least_3 : forall c e, (0 < c)%N ->
  let k := Z.to_N (Z.max 0 (36 - Z.of_N (ndigits c) / 2)) in
  let s := N.sqrt (c * 10 ^ (2 * k)) in
  forall t, (t <= 1)%N -> 3 <= target_exp (10 * s + t) e - e.
Proof.
  intros c e Hc. cbv zeta. intros t Ht. pose proof (dsqrt_root_digits c Hc) as Hs. cbv zeta in Hs.
  set (s := N.sqrt (c * 10 ^ (2 * Z.to_N (Z.max 0 (36 - Z.of_N (ndigits c) / 2))))) in *.
  assert (H36 : (10 ^ 36 <= 10 * s + t)%N).
  { replace 36%N with (N.succ 35) by reflexivity. rewrite N.pow_succ_r'. set (x := (10 ^ 35)%N) in *. clearbody x. lia. }
  pose proof (ndigits_ge _ _ H36) as Hn. unfold target_exp, PREC. lia.
Qed.

(* ---------------------------------------------------------------- 2. the rounded coefficient has 34 digits *)
Lemma round_half_even_ge : forall m drop, (m / 10 ^ drop <= round_half_even m drop)%N.
Proof.
  intros m drop. unfold round_half_even. destruct (drop =? 0)%N eqn:E0.
  - apply N.eqb_eq in E0. subst drop. rewrite N.pow_0_r, N.div_1_r. lia.
  - destruct ((5 * 10 ^ (drop - 1) <? m mod 10 ^ drop)%N || (m mod 10 ^ drop =? 5 * 10 ^ (drop - 1))%N && N.odd (m / 10 ^ drop)); lia.
Qed.

(* with at least 35 digits in m: the coefficient rounded at the target exponent is <= 10^34, and >= 10^33 above the subnormal grid *)
Lemma target_coefficient_digits : forall m e, (10 ^ 34 <= m)%N ->
  let e1 := target_exp m e in let c1 := round_half_even m (Z.to_N (e1 - e)) in
  (c1 <= 10 ^ 34)%N /\ (ETINY < e1 -> (10 ^ 33 <= c1)%N).
Proof.
  intros m e Hm. cbv zeta. pose proof (ndigits_ge _ _ Hm) as Hnd.
  assert (Hp : (0 < m)%N). { assert (10 ^ 34 <> 0)%N by (apply N.pow_nonzero; lia). lia. }
  destruct (ndigits_spec m Hp) as [[L U] _].
  set (nd := ndigits m) in *. set (e1 := target_exp m e).
  assert (He1 : e1 = Z.max ETINY (e + Z.of_N nd - 34)) by (unfold e1, target_exp, PREC; fold nd; lia).
  split.
  - apply round_half_even_bound. eapply N.lt_le_trans; [exact U|]. apply N.pow_le_mono_r; lia.
  - intros Hsub. assert (Hd : Z.to_N (e1 - e) = (nd - 34)%N) by lia. rewrite Hd.
    eapply N.le_trans; [|apply round_half_even_ge].
    apply N.div_le_lower_bound; [apply N.pow_nonzero; lia|].
    rewrite <- N.pow_add_r. eapply N.le_trans; [|exact L]. apply N.pow_le_mono_r; lia.
Qed.

(* ---------------------------------------------------------------- scaling of the squared comparisons *)
Lemma sq_scale : forall a X T, 0 < T ->
  ((a * T) ^ 2 <= X * T ^ 2 <-> a ^ 2 <= X) /\ (X * T ^ 2 <= (a * T) ^ 2 <-> X <= a ^ 2) /\ (X * T ^ 2 = (a * T) ^ 2 <-> X = a ^ 2).
Proof.
  intros a X T HT. assert (HT2 : 0 < T ^ 2) by (rewrite Z.pow_2_r; nia).
  replace ((a * T) ^ 2) with (a ^ 2 * T ^ 2) by (rewrite !Z.pow_2_r; ring).
  split; [|split].
  - symmetry. apply Z.mul_le_mono_pos_r. exact HT2.
  - symmetry. apply Z.mul_le_mono_pos_r. exact HT2.
  - split; [intros H; apply (Z.mul_cancel_r _ _ (T ^ 2)); [lia|exact H] | intros ->; reflexivity].
Qed.

(* what "c * 10^q is the correctly rounded square root of d" means, at a common scale 10^B (B <= q, 2B <= expo d):
   with X = 4 * value(d) / 10^(2B) and the doubled half-way points lo = (2c-1) * 10^(q-B), hi = (2c+1) * 10^(q-B):
   lo^2 <= X <= hi^2, and c is even when X meets one of the two bounds *)
Definition sqrt_nearest_even_at (d : dec) (c : N) (q B : Z) : Prop :=
  let X := 4 * Z.of_N (coef d) * 10 ^ (expo d - 2 * B) in
  let lo := (2 * Z.of_N c - 1) * 10 ^ (q - B) in
  let hi := (2 * Z.of_N c + 1) * 10 ^ (q - B) in
  X <= hi ^ 2 /\ ((0 < c)%N -> lo ^ 2 <= X) /\
  (X = hi ^ 2 -> N.even c = true) /\ ((0 < c)%N -> X = lo ^ 2 -> N.even c = true).

(* the statement does not depend on the scale *)
Lemma sqrt_nearest_even_rescale : forall d c q B1 B2, B1 <= B2 -> B2 <= q -> 2 * B2 <= expo d ->
  (sqrt_nearest_even_at d c q B1 <-> sqrt_nearest_even_at d c q B2).
Proof.
  intros d c q B1 B2 H12 Hq He. unfold sqrt_nearest_even_at. cbv zeta.
  set (T := 10 ^ (B2 - B1)). assert (HT : 0 < T) by (apply Z.pow_pos_nonneg; lia).
  assert (E1 : 10 ^ (q - B1) = 10 ^ (q - B2) * T).
  { unfold T. rewrite <- Z.pow_add_r by lia. f_equal. lia. }
  assert (E2 : 10 ^ (expo d - 2 * B1) = 10 ^ (expo d - 2 * B2) * T ^ 2).
  { unfold T. rewrite Z.pow_2_r, <- !Z.pow_add_r by lia. f_equal. lia. }
  rewrite E1, E2, !Z.mul_assoc.
  set (X := 4 * Z.of_N (coef d) * 10 ^ (expo d - 2 * B2)).
  set (lo := (2 * Z.of_N c - 1) * 10 ^ (q - B2)). set (hi := (2 * Z.of_N c + 1) * 10 ^ (q - B2)).
  destruct (sq_scale lo X T HT) as (L1 & L2 & L3). destruct (sq_scale hi X T HT) as (H1 & H2 & H3).
  rewrite L1, L3, H2, H3. reflexivity.
Qed.

(* ---------------------------------------------------------------- 2. dsqrt is the correctly rounded square root *)
(* the integer radicand n = coef * 10^par * 10^(2k) is the value of d at the scale 10^(2h), h = expo/2 - k *)
Lemma radicand_scale : forall (cf : N) (ex : Z) (k : N),
  4 * Z.of_N cf * 10 ^ (ex - 2 * (ex / 2 - Z.of_N k)) = 4 * Z.of_N (cf * 10 ^ Z.to_N (ex mod 2) * 10 ^ (2 * k)).
Proof.
  intros cf ex k. pose proof (Z.div_mod ex 2 ltac:(lia)) as DM. pose proof (Z.mod_pos_bound ex 2 ltac:(lia)) as MB.
  set (par := ex mod 2) in *. set (hf := ex / 2) in *. clearbody par hf.
  rewrite !N2Z.inj_mul, !N2Z.inj_pow, N2Z.inj_mul, Z2N.id by lia. change (Z.of_N 10) with 10. change (Z.of_N 2) with 2.
  rewrite <- !Z.mul_assoc, <- Z.pow_add_r by lia. f_equal. f_equal. f_equal. lia.
Qed.

Lemma even_N_Z : forall c, Z.even (Z.of_N c) = N.even c.
Proof. intros [|[p|p|]]; reflexivity. Qed.

Theorem dsqrt_correctly_rounded : forall d r, (0 < coef d)%N -> neg d = false -> dsqrt d = Some r ->
  exists (c : N) (q : Z),
    in_format r = true /\ neg r = false /\ veq r (mkdec false c q) /\
    (c <= 10 ^ 34)%N /\ ETINY <= q /\ (ETINY < q -> (10 ^ 33 <= c)%N) /\
    forall B, B <= q -> 2 * B <= expo d -> sqrt_nearest_even_at d c q B.
Proof.
  intros d r Hc Hn H. pose proof H as H0. unfold dsqrt in H.
  assert (dis_zero d = false) as Ez by (unfold dis_zero; apply N.eqb_neq; lia). rewrite Ez, Hn in H. cbv zeta in H.
  pose proof (Z.div_mod (expo d) 2 ltac:(lia)) as DM. pose proof (Z.mod_pos_bound (expo d) 2 ltac:(lia)) as MB.
  set (par := expo d mod 2) in *.
  set (c0 := (coef d * 10 ^ Z.to_N par)%N) in *.
  assert (Hc0 : (0 < c0)%N). { unfold c0. assert (10 ^ Z.to_N par <> 0)%N by (apply N.pow_nonzero; lia). nia. }
  set (k := Z.to_N (Z.max 0 (36 - Z.of_N (ndigits c0) / 2))) in *.
  set (n := (c0 * 10 ^ (2 * k))%N) in *. set (s := N.sqrt n) in *.
  set (t := (if (s * s =? n)%N then 0 else 1)%N) in *.
  assert (Ht : (t <= 1)%N) by (unfold t; destruct (s * s =? n)%N; lia).
  replace ((expo d - par) / 2) with (expo d / 2) in H.
  2:{ replace (expo d - par) with (expo d / 2 * 2) by lia. rewrite Z.div_mul by lia. reflexivity. }
  set (E := expo d / 2 - Z.of_N k - 1) in *.
  pose proof (dsqrt_root_digits c0 Hc0) as Hs. cbv zeta in Hs. fold k n s in Hs.
  pose proof (dsqrt_drops_at_least_3 c0 E Hc0) as Hdrop. cbv zeta in Hdrop. fold k n s in Hdrop. specialize (Hdrop t Ht).
  assert (Hm34 : (10 ^ 34 <= 10 * s + t)%N).
  { assert (10 ^ 34 <= 10 ^ 35)%N by (apply N.pow_le_mono_r; lia). lia. }
  assert (Hm : (0 < 10 * s + t)%N). { assert (10 ^ 34 <> 0)%N by (apply N.pow_nonzero; lia). lia. }
  destruct (round34_value false _ E r Hm H) as (V1 & V2 & V3). cbv zeta in V3.
  destruct (target_coefficient_digits _ E Hm34) as [C1 C2]. cbv zeta in C1, C2.
  destruct (target_exp_ge (10 * s + t) E) as [T1 T2].
  set (q := target_exp (10 * s + t) E) in *.
  set (c := round_half_even (10 * s + t) (Z.to_N (q - E))) in *.
  exists c, q.
  split; [exact (round34_in_format _ _ _ _ H)|]. split; [exact V1|].
  split.
  { (* the value of r is c * 10^q *)
    unfold veq, scaled, sval, emin2. cbn [neg coef expo]. rewrite V1.
    set (b := Z.min E ETINY) in *. set (mn := Z.min (expo r) q).
    assert (Hb : b <= mn /\ mn <= expo r /\ mn <= q) by (unfold b, mn; lia).
    assert (S1 : 10 ^ (expo r - b) = 10 ^ (expo r - mn) * 10 ^ (mn - b)) by (rewrite <- Z.pow_add_r by lia; f_equal; lia).
    assert (S2 : 10 ^ (q - b) = 10 ^ (q - mn) * 10 ^ (mn - b)) by (rewrite <- Z.pow_add_r by lia; f_equal; lia).
    rewrite S1, S2, !Z.mul_assoc in V3. apply Z.mul_cancel_r in V3; [exact V3|].
    assert (0 < 10 ^ (mn - b)) by (apply Z.pow_pos_nonneg; lia). lia. }
  split; [exact C1|]. split; [exact T2|]. split; [exact C2|].
  (* nearest, ties to even: at the scale h of the integer radicand n, then at every scale *)
  set (h := expo d / 2 - Z.of_N k).
  assert (Hh : h <= q /\ 2 * h <= expo d) by (unfold h, E in *; lia).
  assert (Sh : sqrt_nearest_even_at d c q h).
  { assert (HD : (2 <= Z.to_N (q - E))%N) by lia.
    pose proof (sqrt_sticky n (Z.to_N (q - E)) HD) as SS. cbv zeta in SS. fold s t c in SS.
    assert (EP : Z.of_N (10 ^ (Z.to_N (q - E) - 1)) = 10 ^ (q - h)).
    { rewrite N2Z.inj_pow, N2Z.inj_sub, Z2N.id by lia. change (Z.of_N 10) with 10. f_equal. unfold h, E. change (Z.of_N 1) with 1. lia. }
    assert (EX : 4 * Z.of_N (coef d) * 10 ^ (expo d - 2 * h) = 4 * Z.of_N n) by (apply radicand_scale).
    rewrite EP in SS. destruct SS as (S1 & S2 & S3 & S4).
    unfold sqrt_nearest_even_at. cbv zeta. rewrite EX.
    split; [exact S1|]. split; [intros Hp; apply S2; lia|].
    split; [intros Hx; rewrite <- even_N_Z; apply S3; exact Hx|].
    intros Hp Hx. rewrite <- even_N_Z. apply S4; [lia|exact Hx]. }
  intros B HBq HBe. destruct (Z.le_ge_cases B h) as [L|G].
  - apply (sqrt_nearest_even_rescale d c q B h L); [lia|lia|exact Sh].
  - apply (sqrt_nearest_even_rescale d c q h B); [lia|exact HBq|exact HBe|exact Sh].
Qed.

(* ---------------------------------------------------------------- 3. the square root of a decimal128 datum exists *)
Lemma ndigits_small : forall c, (c < 10 ^ 34)%N -> (ndigits c <= 34)%N.
Proof.
  intros c Hc. destruct (N.eq_dec c 0) as [->|NZ]; [vm_compute; discriminate|]. apply ndigits_le; [lia|exact Hc].
Qed.

Lemma round34_defined : forall s m e, (0 < m)%N -> target_exp m e <= 6110 -> exists r, round34 s m e = Some r.
Proof.
  intros s m e Hm Hq. unfold round34. assert (m =? 0 = false)%N as -> by (apply N.eqb_neq; lia).
  set (e1 := target_exp m e) in *. set (c1 := round_half_even m (Z.to_N (e1 - e))).
  destruct (c1 =? 10 ^ PREC)%N eqn:Ec.
  - change (ndigits (10 ^ (PREC - 1))) with 34%N.
    assert (EMAX <? e1 + 1 + Z.of_N 34 - 1 = false) as -> by (apply Z.ltb_ge; unfold EMAX; lia).
    destruct (ETOP <? e1 + 1); eexists; reflexivity.
  - apply N.eqb_neq in Ec.
    assert (Hc1 : (c1 <= 10 ^ PREC)%N).
    { unfold c1. apply round_half_even_bound. destruct (ndigits_spec m Hm) as [[_ U] _].
      eapply N.lt_le_trans; [exact U|]. apply N.pow_le_mono_r; [lia|]. unfold e1, target_exp, PREC. lia. }
    pose proof (ndigits_small c1 ltac:(unfold PREC in *; lia)) as Hn.
    assert (EMAX <? e1 + Z.of_N (ndigits c1) - 1 = false) as -> by (apply Z.ltb_ge; unfold EMAX; lia).
    destruct (ETOP <? e1); eexists; reflexivity.
Qed.

Lemma sqrt_lt_pow : forall n j, (n < 10 ^ (2 * j))%N -> (N.sqrt n < 10 ^ j)%N.
Proof.
  intros n j H. apply N.sqrt_lt_square. replace (10 ^ j * 10 ^ j)%N with (10 ^ (2 * j))%N; [exact H|].
  rewrite <- N.pow_add_r. f_equal. lia.
Qed.

Theorem dsqrt_defined : forall d, in_format d = true -> coef d = 0%N \/ neg d = false -> exists r, dsqrt d = Some r.
Proof.
  intros d Hf Hs. unfold dsqrt. destruct (dis_zero d) eqn:Ez; [eexists; reflexivity|].
  unfold dis_zero in Ez. apply N.eqb_neq in Ez. destruct Hs as [Hs|Hs]; [contradiction|]. rewrite Hs. cbv zeta.
  unfold in_format in Hf. apply andb_true_iff in Hf. destruct Hf as [Hf H3]. apply andb_true_iff in Hf. destruct Hf as [H1 H2].
  apply N.ltb_lt in H1. apply Z.leb_le in H2, H3. unfold PREC in H1.
  pose proof (Z.div_mod (expo d) 2 ltac:(lia)) as DM. pose proof (Z.mod_pos_bound (expo d) 2 ltac:(lia)) as MB.
  set (par := expo d mod 2) in *.
  set (c0 := (coef d * 10 ^ Z.to_N par)%N).
  assert (Hc0 : (0 < c0 < 10 ^ 35)%N).
  { unfold c0. assert (Hp : (10 ^ Z.to_N par <= 10 ^ 1)%N) by (apply N.pow_le_mono_r; lia).
    assert (10 ^ Z.to_N par <> 0)%N by (apply N.pow_nonzero; lia).
    change (10 ^ 35)%N with (10 ^ 34 * 10 ^ 1)%N. split; [nia|]. eapply N.le_lt_trans; [apply N.mul_le_mono_l; exact Hp|]. apply N.mul_lt_mono_pos_r; [reflexivity|exact H1]. }
  assert (Hnd : (ndigits c0 <= 35)%N) by (apply ndigits_le; lia).
  destruct (ndigits_spec c0 ltac:(lia)) as [[_ U0] P0].
  set (k := Z.to_N (Z.max 0 (36 - Z.of_N (ndigits c0) / 2))).
  set (n := (c0 * 10 ^ (2 * k))%N). set (s := N.sqrt n).
  set (t := (if (s * s =? n)%N then 0 else 1)%N).
  assert (Ht : (t <= 1)%N) by (unfold t; destruct (s * s =? n)%N; lia).
  pose proof (dsqrt_root_digits c0 ltac:(lia)) as Hs35. cbv zeta in Hs35. fold k n s in Hs35.
  assert (Hpos : (0 < 10 * s + t)%N). { assert (10 ^ 35 <> 0)%N by (apply N.pow_nonzero; lia). lia. }
  apply round34_defined; [exact Hpos|].
  (* an upper bound of the digits of the root *)
  assert (Hn : (n < 10 ^ (2 * (k + 18)))%N).
  { unfold n. replace (2 * (k + 18))%N with (36 + 2 * k)%N by lia. rewrite N.pow_add_r. apply N.mul_lt_mono_pos_r.
    - apply N.neq_0_lt_0, N.pow_nonzero. lia.
    - eapply N.lt_le_trans; [exact (proj2 Hc0)|]. apply N.pow_le_mono_r; lia. }
  pose proof (sqrt_lt_pow n (k + 18) Hn) as Hsu. fold s in Hsu.
  assert (Hmu : (10 * s + t < 10 ^ (k + 19))%N).
  { replace (k + 19)%N with (N.succ (k + 18)) by lia. rewrite N.pow_succ_r'. set (x := (10 ^ (k + 18))%N) in *. clearbody x. lia. }
  pose proof (ndigits_le _ _ Hpos Hmu) as Hndm.
  replace ((expo d - par) / 2) with (expo d / 2).
  2:{ replace (expo d - par) with (expo d / 2 * 2) by lia. rewrite Z.div_mul by lia. reflexivity. }
  unfold target_exp, PREC, ETINY. unfold ETOP in H3. clearbody k. clear - H3 DM MB Hndm. lia.
Qed.

(* sqrt(2), sqrt(16) and a subnormal-free tiny datum; the bounds of sqrt(2) at the scale of the result *)
Example sqrt_examples :
  dsqrt (mkdec false 2 0) = Some (mkdec false 1414213562373095048801688724209698 (-33)) /\
  f_sqrt (mkdec false 16 0) = Some (mkdec false 4 0) /\
  f_sqrt (mkdec false 1 (-6176)) = Some (mkdec false 1 (-3088)) /\
  f_sqrt (mkdec false 9999999999999999999999999999999999 6111) = Some (mkdec false 3162277660168379331998893544432718 3039) /\
  sqrt_nearest_even_at (mkdec false 2 0) 1414213562373095048801688724209698 (-33) (-33) /\
  (2 * 1414213562373095048801688724209698 - 1) ^ 2 < 4 * 2 * 10 ^ 66 < (2 * 1414213562373095048801688724209698 + 1) ^ 2.
Proof.
  split; [vm_compute; reflexivity|]. split; [vm_compute; reflexivity|]. split; [vm_compute; reflexivity|]. split; [vm_compute; reflexivity|].
  split; [|split; vm_compute; reflexivity].
  unfold sqrt_nearest_even_at. cbn [coef expo]. cbv zeta.
  split; [vm_compute; discriminate|]. split; [intros _; vm_compute; discriminate|].
  split; [intros H; exfalso; revert H; vm_compute; discriminate | intros _ H; exfalso; revert H; vm_compute; discriminate].
Qed.
