(* C11 — proofs about the fuel-free specification of C11/ConfModel.v: what [eval_item] (the per-copy model of the code)
   does, stated against [conforms_to] / [spec], which do not mention it; fuel sufficiency of [resolve], [idef_type],
   [var_type]; the output side as one equation (C16 [coerced_spec]).  Owner: ext-fuel. *)
From Coq Require Import List NArith Bool Arith Lia.
From DV Require Import C16.Model C16.Proofs C16.Rel C11.Model C11.Proofs C11.ConfModel.
Import ListNotations.

(* ---------- helpers ---------- *)
Lemma kind_is_atom p v : kind p v = is_atom p v.
Proof. unfold kind, type_eqb. destruct v as [|s n|vs|es|lo hi|ps r]; cbn [type_of is_atom].
  - destruct p; reflexivity.
  - destruct p, s; reflexivity.
  - destruct vs as [|x vs]; [reflexivity|]. destruct (forallb _ (x :: vs)); reflexivity.
  - reflexivity.
  - destruct (type_eqb (type_of lo) (type_of hi)); reflexivity.
  - reflexivity. Qed.

Lemma forallb_and {A} (p q : A -> bool) l : forallb (fun x => p x && q x) l = forallb p l && forallb q l.
Proof. induction l as [|x l IH]; [reflexivity|]. cbn [forallb]. rewrite IH.
  destruct (p x), (q x), (forallb p l), (forallb q l); reflexivity. Qed.

Lemma forallb_ext' {A} (p q : A -> bool) l : (forall x, p x = q x) -> forallb p l = forallb q l.
Proof. intros H. induction l as [|x l IH]; [reflexivity|]. cbn [forallb]. rewrite H, IH. reflexivity. Qed.

Lemma comps_conf_cons {A} (c : A -> value -> bool) k t fr k' x er :
  comps_conf c ((k, t) :: fr) ((k', x) :: er) = N.eqb k k' && c t x && comps_conf c fr er.
Proof. reflexivity. Qed.

(* ---------- resolve: total exactly when the fuel covers the tree; more fuel gives the same tree ---------- *)
Lemma resolve_fields_mono (res res' : idef -> option rt) : forall fs o,
  (forall k T t, In (k, T) fs -> res T = Some t -> res' T = Some t) ->
  resolve_fields res fs = Some o -> resolve_fields res' fs = Some o.
Proof. induction fs as [|[k T] fr IH]; intros o H E; cbn [resolve_fields] in *; [exact E|].
  destruct (res T) as [t|] eqn:Et; [|discriminate]. destruct (resolve_fields res fr) as [o'|] eqn:Eo; [|discriminate].
  rewrite (H k T t (or_introl eq_refl) Et). rewrite (IH o'); [exact E | | reflexivity].
  intros k1 T1 t1 Hin. apply (H k1). right. exact Hin. Qed.

Lemma resolve_unfold f D T : resolve (S f) D T =
  match T with
  | ISimple p av => Some (RS p av)
  | IRef n av => match dlookup n D with Some T' => option_map (fun t => RR t av) (resolve f D T') | None => Some RDangling end
  | IComp fs av => option_map (fun o => RC o av) (resolve_fields (resolve f D) fs)
  | ICollSimple p av => Some (RLS p av)
  | ICollRef n av => match dlookup n D with Some T' => option_map (fun t => RLR t av) (resolve f D T') | None => Some RDangling end
  | ICollComp fs av => option_map (fun o => RLC o av) (resolve_fields (resolve f D) fs)
  end.
Proof. reflexivity. Qed.

Lemma resolve_S : forall f D T t, resolve f D T = Some t -> resolve (S f) D T = Some t.
Proof. induction f as [|f IH]; intros D T t H; [discriminate|].
  rewrite resolve_unfold in H. rewrite (resolve_unfold (S f)).
  destruct T as [p av|n av|fs av|p av|n av|fs av]; try exact H.
  - destruct (dlookup n D) as [T'|]; [|exact H]. destruct (resolve f D T') as [t'|] eqn:E; [|discriminate].
    rewrite (IH D T' t' E). exact H.
  - destruct (resolve_fields (resolve f D) fs) as [o|] eqn:E; [|discriminate].
    rewrite (resolve_fields_mono (resolve f D) (resolve (S f) D) fs o); [exact H | | exact E]. intros k T t0 _. apply IH.
  - destruct (dlookup n D) as [T'|]; [|exact H]. destruct (resolve f D T') as [t'|] eqn:E; [|discriminate].
    rewrite (IH D T' t' E). exact H.
  - destruct (resolve_fields (resolve f D) fs) as [o|] eqn:E; [|discriminate].
    rewrite (resolve_fields_mono (resolve f D) (resolve (S f) D) fs o); [exact H | | exact E]. intros k T t0 _. apply IH. Qed.

Theorem resolve_fuel f g D T t : resolve f D T = Some t -> f <= g -> resolve g D T = Some t.
Proof. intros H Hle. induction Hle as [|g Hle IH]; [exact H | apply resolve_S; exact IH]. Qed.

Lemma resolve_fields_total (res : idef -> option rt) : forall fs,
  (forall k T, In (k, T) fs -> exists t, res T = Some t) -> exists o, resolve_fields res fs = Some o.
Proof. induction fs as [|[k T] fr IH]; intros H; [exists []; reflexivity|]. cbn [resolve_fields].
  destruct (H k T (or_introl eq_refl)) as [t Et]. rewrite Et.
  destruct IH as [o Eo]; [intros k1 T1 Hin; apply (H k1); right; exact Hin|]. rewrite Eo. eexists. reflexivity. Qed.

Lemma resolve_fields_each (res : idef -> option rt) : forall fs o, resolve_fields res fs = Some o ->
  forall k T, In (k, T) fs -> exists t, res T = Some t.
Proof. induction fs as [|[k T] fr IH]; intros o E k1 T1 Hin; [destruct Hin|]. cbn [resolve_fields] in E.
  destruct (res T) as [t|] eqn:Et; [|discriminate]. destruct (resolve_fields res fr) as [o'|] eqn:Eo; [|discriminate].
  destruct Hin as [Heq|Hin]; [injection Heq as <- <-; exists t; exact Et | exact (IH o' eq_refl k1 T1 Hin)]. Qed.

Theorem resolve_enough : forall f D T, enough f D T = true -> exists t, resolve f D T = Some t.
Proof. induction f as [|f IH]; intros D T H; [discriminate|]. cbn [enough] in H. cbn [resolve].
  destruct T as [p av|n av|fs av|p av|n av|fs av]; try (eexists; reflexivity).
  - destruct (dlookup n D) as [T'|]; [|eexists; reflexivity]. destruct (IH D T' H) as [t Et]. rewrite Et. eexists. reflexivity.
  - destruct (resolve_fields_total (resolve f D) fs) as [o Eo]; [|rewrite Eo; eexists; reflexivity].
    intros k T Hin. apply IH. exact (enough_fields _ _ _ _ _ H Hin).
  - destruct (dlookup n D) as [T'|]; [|eexists; reflexivity]. destruct (IH D T' H) as [t Et]. rewrite Et. eexists. reflexivity.
  - destruct (resolve_fields_total (resolve f D) fs) as [o Eo]; [|rewrite Eo; eexists; reflexivity].
    intros k T Hin. apply IH. exact (enough_fields _ _ _ _ _ H Hin). Qed.

Theorem resolves_enough : forall f D T t, resolve f D T = Some t -> enough f D T = true.
Proof. induction f as [|f IH]; intros D T t H; [discriminate|]. cbn [resolve] in H. cbn [enough].
  destruct T as [p av|n av|fs av|p av|n av|fs av]; try reflexivity.
  - destruct (dlookup n D) as [T'|]; [|reflexivity]. destruct (resolve f D T') as [t'|] eqn:E; [|discriminate]. exact (IH D T' t' E).
  - destruct (resolve_fields (resolve f D) fs) as [o|] eqn:E; [|discriminate]. apply forallb_forall. intros [k T] Hin. cbn [snd].
    destruct (resolve_fields_each _ _ _ E k T Hin) as [t' Et]. exact (IH D T t' Et).
  - destruct (dlookup n D) as [T'|]; [|reflexivity]. destruct (resolve f D T') as [t'|] eqn:E; [|discriminate]. exact (IH D T' t' E).
  - destruct (resolve_fields (resolve f D) fs) as [o|] eqn:E; [|discriminate]. apply forallb_forall. intros [k T] Hin. cbn [snd].
    destruct (resolve_fields_each _ _ _ E k T Hin) as [t' Et]. exact (IH D T t' Et). Qed.

Theorem enough_iff_resolves f D T : enough f D T = true <-> exists t, resolve f D T = Some t.
Proof. split; [apply resolve_enough | intros [t H]; exact (resolves_enough f D T t H)]. Qed.

(* ---------- the fuelled conformance of Model.v is the fuel-free one ---------- *)
Lemma comp_conf_link (c1 : idef -> value -> bool) (c2 : rt -> value -> bool) (res : idef -> option rt) : forall fs rfs es,
  resolve_fields res fs = Some rfs ->
  (forall k T t x, In (k, T) fs -> res T = Some t -> c1 T x = c2 t x) ->
  comp_conf c1 fs es = comps_conf c2 rfs es.
Proof. induction fs as [|[k T] fr IH]; intros rfs es H Hc; cbn [resolve_fields] in H.
  - injection H as <-. destruct es; reflexivity.
  - destruct (res T) as [t|] eqn:Et; [|discriminate]. destruct (resolve_fields res fr) as [o|] eqn:Eo; [|discriminate]. injection H as <-.
    destruct es as [|[k' x] er]; [reflexivity|]. rewrite comps_conf_cons. cbn [comp_conf].
    rewrite (Hc k T t x (or_introl eq_refl) Et). rewrite (IH o er eq_refl); [reflexivity|].
    intros k1 T1 t1 x1 Hin. apply (Hc k1). right. exact Hin. Qed.

Theorem conforms_link : forall f D T t v, resolve f D T = Some t -> C11.Model.conforms f D T v = conforms_to t v.
Proof. unfold C11.Model.conforms. induction f as [|f IH]; intros D T t v H; [discriminate|]. cbn [resolve] in H.
  destruct T as [p av|n av|fs av|p av|n av|fs av]; cbn [gconf].
  - injection H as <-. cbn [conforms_to]. rewrite kind_is_atom. reflexivity.
  - destruct (dlookup n D) as [T'|].
    + destruct (resolve f D T') as [t'|] eqn:E; [|discriminate]. injection H as <-. cbn [conforms_to]. rewrite (IH D T' t' v E). reflexivity.
    + injection H as <-. reflexivity.
  - destruct (resolve_fields (resolve f D) fs) as [o|] eqn:E; [|discriminate]. injection H as <-. cbn [conforms_to].
    destruct v as [| | |es| |]; try reflexivity. f_equal. apply (comp_conf_link _ _ (resolve f D)); [exact E|].
    intros k T t x _ Et. cbn [andb orb]. apply IH. exact Et.
  - injection H as <-. cbn [conforms_to]. destruct v as [| |vs| | |]; try reflexivity.
    rewrite forallb_and. f_equal. apply forallb_ext'. intros x. symmetry. apply kind_is_atom.
  - destruct (dlookup n D) as [T'|].
    + destruct (resolve f D T') as [t'|] eqn:E; [|discriminate]. injection H as <-. cbn [conforms_to].
      destruct v as [| |vs| | |]; try reflexivity. rewrite forallb_and. f_equal. apply forallb_ext'. intros x. cbn [andb orb]. apply IH. exact E.
    + injection H as <-. destruct v; reflexivity.
  - destruct (resolve_fields (resolve f D) fs) as [o|] eqn:E; [|discriminate]. injection H as <-. cbn [conforms_to].
    destruct v as [| |vs| | |]; try reflexivity. rewrite forallb_and. f_equal. apply forallb_ext'. intros x.
    destruct x as [| | |es| |]; try reflexivity. apply (comp_conf_link _ _ (resolve f D)); [exact E|].
    intros k T t x _ Et. cbn [andb orb]. apply IH. exact Et. Qed.

(* ---------- a conforming value reaches the decision unchanged ---------- *)
Theorem conforming_unchanged f D T t v : wf_defs D = true -> wf_idef T = true -> resolve f D T = Some t ->
  conforms_to t v = true -> eval_item f D T v = v.
Proof. intros HD HT H C. rewrite impl_refines. apply pass_unchanged; [exact HD | exact HT|].
  rewrite (conforms_link f D T t v H). exact C. Qed.

(* ---------- the loops of the code against the per-component / per-item description ---------- *)
Lemma comp_loop_spec (ev : idef -> value -> value) (s : rt -> value -> value) (res : idef -> option rt) es : forall fs rfs,
  resolve_fields res fs = Some rfs ->
  (forall k T t x, In (k, T) fs -> res T = Some t -> ev T x = s t x) ->
  comp_loop ev fs es =
  if has_all rfs es then Some (map (fun kt : N * rt => let (k, tk) := kt in (k, s tk (vget k es))) rfs) else None.
Proof. induction fs as [|[k T] fr IH]; intros rfs H Hev; cbn [resolve_fields] in H.
  - injection H as <-. reflexivity.
  - destruct (res T) as [t|] eqn:Et; [|discriminate]. destruct (resolve_fields res fr) as [o|] eqn:Eo; [|discriminate]. injection H as <-.
    cbn [comp_loop]. unfold has_all. cbn [forallb fst map]. unfold vget at 1.
    destruct (vlookup k es) as [x|] eqn:El; [|reflexivity]. cbn [andb].
    rewrite (IH o eq_refl); [|intros k1 T1 t1 x1 Hin; apply (Hev k1); right; exact Hin].
    unfold has_all. destruct (forallb _ o); [|reflexivity]. rewrite (Hev k T t x (or_introl eq_refl) Et). reflexivity. Qed.

Lemma items_loop_spec (ev : list (N * value) -> option (list (N * value))) (ok : list (N * value) -> bool)
  (g : list (N * value) -> list (N * value)) : (forall es, ev es = if ok es then Some (g es) else None) ->
  forall vs, items_loop ev vs =
    if forallb (fun x => match x with VCtx es => ok es | _ => false end) vs
    then Some (map (fun x => match x with VCtx es => VCtx (g es) | _ => VNull end) vs) else None.
Proof. intros H. induction vs as [|x r IH]; [reflexivity|]. cbn [items_loop forallb map].
  destruct x as [| | |es| |]; try reflexivity. rewrite H. destruct (ok es); [|reflexivity]. cbn [andb]. rewrite IH.
  destruct (forallb _ r); reflexivity. Qed.

Lemma spec_conf t v : conforms_to t v = true -> spec t v = v.
Proof. intros C. destruct t; cbn [spec]; rewrite C; reflexivity. Qed.

Lemma wf_coll_fields fs av k T : wf_idef (ICollComp fs av) = true -> In (k, T) fs -> wf_idef T = true.
Proof. cbn [wf_idef]. intros H Hin. apply andb_true_iff in H. destruct H as [_ H]. rewrite forallb_forall in H. apply (H (k, T)). exact Hin. Qed.

(* ---------- the code does what the specification says, for every type tree the fuel covers and every value ---------- *)
Theorem eval_item_spec : forall f D T t v, wf_defs D = true -> wf_idef T = true -> resolve f D T = Some t ->
  eval_item f D T v = spec t v.
Proof. induction f as [|f IH]; intros D T t v HD HT H; [discriminate|].
  destruct (conforms_to t v) eqn:C; [rewrite (spec_conf t v C); apply (conforming_unchanged (S f) D T t v HD HT H C)|].
  assert (IHg : forall T' t' x, wf_idef T' = true -> resolve f D T' = Some t' -> gcheck true true f D T' x = spec t' x).
  { intros T' t' x HT' H'. rewrite <- (IH D T' t' x HD HT' H'). symmetry. apply impl_refines. }
  rewrite impl_refines. unfold check. cbn [resolve] in H.
  destruct T as [p av|n av|fs av|p av|n av|fs av]; cbn [gcheck].
  - injection H as <-. cbn [spec]. rewrite C. cbn [conforms_to] in C. rewrite kind_is_atom in C.
    destruct (is_atom p v); [|reflexivity]. cbn [andb] in C. unfold check_av. rewrite C. reflexivity.
  - destruct (dlookup n D) as [T'|] eqn:E.
    + destruct (resolve f D T') as [t'|] eqn:Er; [|discriminate]. injection H as <-. cbn [spec]. rewrite C.
      rewrite (IHg T' t' v (wf_lookup _ _ _ HD E) Er). reflexivity.
    + injection H as <-. reflexivity.
  - destruct (resolve_fields (resolve f D) fs) as [o|] eqn:Ef; [|discriminate]. injection H as <-. cbn [spec]. rewrite C.
    destruct v as [| | |es| |]; try reflexivity.
    rewrite (comp_loop_spec _ spec (resolve f D) es fs o Ef).
    + destruct (has_all o es); reflexivity.
    + intros k T t x Hin Et. apply IHg; [exact (wf_fields _ _ _ _ HT Hin) | exact Et].
  - injection H as <-. cbn [spec]. rewrite C. destruct v as [| |vs| | |]; try reflexivity.
    cbn [conforms_to] in C. rewrite forallb_and in C. rewrite (forallb_ext' _ (is_atom p)) in C by (intros x; apply kind_is_atom).
    destruct (forallb (is_atom p) vs); [|reflexivity]. cbn [andb] in C. unfold coll_av. rewrite C. reflexivity.
  - destruct (dlookup n D) as [T'|] eqn:E.
    + destruct (resolve f D T') as [t'|] eqn:Er; [|discriminate]. injection H as <-. cbn [spec]. rewrite C.
      destruct v as [| |vs| | |]; try reflexivity.
      rewrite (map_ext _ (spec t')) by (intros x; apply IHg; [exact (wf_lookup _ _ _ HD E) | exact Er]). reflexivity.
    + injection H as <-. destruct v; reflexivity.
  - destruct (resolve_fields (resolve f D) fs) as [o|] eqn:Ef; [|discriminate]. injection H as <-. cbn [spec]. rewrite C.
    destruct v as [| |vs| | |]; try reflexivity.
    rewrite (items_loop_spec _ (has_all o) (fun es => map (fun kt : N * rt => let (k, tk) := kt in (k, spec tk (vget k es))) o)).
    + destruct (forallb _ vs); reflexivity.
    + intros es. apply (comp_loop_spec _ spec (resolve f D) es fs o Ef).
      intros k T t x Hin Et. apply IHg; [exact (wf_coll_fields _ _ _ _ HT Hin) | exact Et]. Qed.

(* ---------- types judged as a whole: conforming -> unchanged, anything else -> null ---------- *)
Theorem spec_whole : forall t v, whole t = true -> spec t v = if conforms_to t v then v else VNull.
Proof. induction t as [p av|t IH av|fs av|p av|t IH av|fs av|]; intros v W; cbn [whole] in W; try discriminate.
  - cbn [spec]. destruct (conforms_to _ v); reflexivity.
  - cbn [spec conforms_to]. rewrite (IH v W). unfold allowed_or_null.
    destruct (conforms_to t v); cbn [andb].
    + destruct (av_ok av v); reflexivity.
    + destruct (av_ok av VNull); reflexivity.
  - cbn [spec]. destruct (conforms_to _ v); reflexivity.
  - cbn [spec]. reflexivity. Qed.

Theorem eval_item_whole f D T t v : wf_defs D = true -> wf_idef T = true -> resolve f D T = Some t -> whole t = true ->
  eval_item f D T v = if conforms_to t v then v else VNull.
Proof. intros HD HT H W. rewrite (eval_item_spec f D T t v HD HT H). apply spec_whole. exact W. Qed.

(* for every type: a non-conforming value never reaches the decision as a conforming one of another shape — the result is
   null or the value with components / items replaced: stated through the existing conforms-or-null theorem in Proofs.v *)

(* ---------- extra entries, missing components, null ---------- *)
Lemma comp_loop_lookup_ext (ev : idef -> value -> value) es es' : forall fs,
  (forall k, In k (map fst fs) -> vlookup k es = vlookup k es') -> comp_loop ev fs es = comp_loop ev fs es'.
Proof. induction fs as [|[k T] fr IH]; intros H; [reflexivity|]. cbn [comp_loop].
  rewrite <- (H k (or_introl eq_refl)). rewrite IH; [reflexivity|]. intros k1 Hin. apply H. right. exact Hin. Qed.

Lemma vlookup_restrict {A} (fs : list (N * A)) es k : In k (map fst fs) -> vlookup k (restrict fs es) = Some (vget k es).
Proof. unfold restrict. induction fs as [|[k' t] fr IH]; intros Hin; [destruct Hin|]. cbn [map fst vlookup].
  destruct (N.eqb k k') eqn:E; [apply N.eqb_eq in E; subst; reflexivity|].
  apply IH. destruct Hin as [Heq|Hin]; [|exact Hin]. cbn [fst] in Heq. subst. rewrite N.eqb_refl in E. discriminate. Qed.

Lemma has_all_lookup {A} (fs : list (N * A)) es k : has_all fs es = true -> In k (map fst fs) -> vlookup k es = Some (vget k es).
Proof. unfold has_all. intros H Hin. apply in_map_iff in Hin. destruct Hin as [[k' t] [<- Hin]]. rewrite forallb_forall in H.
  specialize (H (k', t) Hin). cbn [fst] in *. unfold vget. destruct (vlookup k' es); [reflexivity | discriminate]. Qed.

(* undeclared entries of a context are dropped before anything else happens *)
Theorem extra_entries_dropped f D fs av es : has_all fs es = true ->
  eval_item f D (IComp fs av) (VCtx es) = eval_item f D (IComp fs av) (VCtx (restrict fs es)).
Proof. intros H. rewrite !impl_refines. unfold check. destruct f as [|f]; [reflexivity|]. cbn [gcheck].
  rewrite (comp_loop_lookup_ext _ es (restrict fs es) fs); [reflexivity|].
  intros k Hin. rewrite (vlookup_restrict fs es k Hin). exact (has_all_lookup fs es k H Hin). Qed.

(* ... so a value that conforms once its undeclared entries are left out reaches the decision without them *)
Theorem extra_entries_result f D fs av t es : wf_defs D = true -> wf_idef (IComp fs av) = true ->
  resolve f D (IComp fs av) = Some t -> has_all fs es = true -> conforms_to t (VCtx (restrict fs es)) = true ->
  eval_item f D (IComp fs av) (VCtx es) = VCtx (restrict fs es).
Proof. intros HD HT H Ha C. rewrite (extra_entries_dropped f D fs av es Ha). exact (conforming_unchanged f D _ t _ HD HT H C). Qed.

(* a context that lacks a declared component is null as a whole *)
Theorem missing_component_null f D fs av es : has_all fs es = false -> eval_item f D (IComp fs av) (VCtx es) = VNull.
Proof. intros H. rewrite impl_refines. unfold check. destruct f as [|f]; [reflexivity|]. cbn [gcheck].
  assert (E : comp_loop (gcheck true true f D) fs es = None).
  { unfold has_all in H. induction fs as [|[k T] fr IH]; [discriminate|]. cbn [comp_loop]. cbn [forallb fst] in H.
    destruct (vlookup k es); [|reflexivity]. cbn [andb] in H. rewrite (IH H). reflexivity. }
  rewrite E. reflexivity. Qed.

(* null conforms to no item definition, and stays null *)
Theorem null_not_conforming : forall t, conforms_to t VNull = false.
Proof. induction t as [p av|t IH av|fs av|p av|t IH av|fs av|]; cbn [conforms_to]; try reflexivity.
  - rewrite kind_is_atom. reflexivity.
  - rewrite IH. reflexivity. Qed.

Theorem null_stays_null f D T : eval_item f D T VNull = VNull.
Proof. rewrite impl_refines. apply gcheck_null. Qed.

(* ---------- the declared FEEL type: idef_type is fuel-independent once the fuel covers the tree ---------- *)
Lemma comp_types_link (ty : idef -> option ftype) (rty : rt -> option ftype) (res : idef -> option rt) : forall fs rfs,
  resolve_fields res fs = Some rfs -> (forall k T t, In (k, T) fs -> res T = Some t -> ty T = rty t) ->
  comp_types ty fs = rtypes rty rfs.
Proof. induction fs as [|[k T] fr IH]; intros rfs H Hty; cbn [resolve_fields] in H.
  - injection H as <-. reflexivity.
  - destruct (res T) as [t|] eqn:Et; [|discriminate]. destruct (resolve_fields res fr) as [o|] eqn:Eo; [|discriminate]. injection H as <-.
    cbn [comp_types]. change (rtypes rty ((k, t) :: o)) with (match rty t with Some u => (k, u) :: rtypes rty o | None => rtypes rty o end).
    rewrite (Hty k T t (or_introl eq_refl) Et). rewrite (IH o eq_refl); [reflexivity|].
    intros k1 T1 t1 Hin. apply (Hty k1). right. exact Hin. Qed.

Theorem idef_type_declared : forall f D T t, resolve f D T = Some t -> idef_type f D T = rtype t.
Proof. induction f as [|f IH]; intros D T t H; [discriminate|]. cbn [resolve] in H.
  destruct T as [p av|n av|fs av|p av|n av|fs av]; cbn [idef_type].
  - injection H as <-. apply type_simple_copy_uniform.
  - destruct (dlookup n D) as [T'|].
    + destruct (resolve f D T') as [t'|] eqn:E; [|discriminate]. injection H as <-. cbn [rtype]. apply IH. exact E.
    + injection H as <-. reflexivity.
  - destruct (resolve_fields (resolve f D) fs) as [o|] eqn:E; [|discriminate]. injection H as <-. cbn [rtype].
    rewrite (comp_types_link _ rtype (resolve f D) fs o E); [reflexivity|]. intros k T t _ Et. apply IH. exact Et.
  - injection H as <-. apply type_coll_copy_uniform.
  - destruct (dlookup n D) as [T'|].
    + destruct (resolve f D T') as [t'|] eqn:E; [|discriminate]. injection H as <-. cbn [rtype]. rewrite (IH D T' t' E). reflexivity.
    + injection H as <-. reflexivity.
  - destruct (resolve_fields (resolve f D) fs) as [o|] eqn:E; [|discriminate]. injection H as <-. cbn [rtype].
    rewrite (comp_types_link _ rtype (resolve f D) fs o E); [reflexivity|]. intros k T t _ Et. apply IH. exact Et. Qed.

Theorem rtype_none : forall t, rtype t = None -> ends_dangling t = true.
Proof. induction t as [p av|t IH av|fs av|p av|t IH av|fs av|]; cbn [rtype ends_dangling]; try discriminate; try reflexivity.
  - exact IH.
  - intros H. apply IH. destruct (rtype t); [discriminate | reflexivity]. Qed.

Theorem idef_type_fuel f g D T : enough f D T = true -> f <= g -> idef_type g D T = idef_type f D T.
Proof. intros H Hle. destruct (resolve_enough f D T H) as [t Et].
  rewrite (idef_type_declared f D T t Et), (idef_type_declared g D T t (resolve_fuel f g D T t Et Hle)). reflexivity. Qed.

(* enough fuel -> var_type is fuel-independent ... *)
Theorem var_type_fuel_sufficient f g D r : enough_ref f D r = true -> f <= g -> var_type g D r = var_type f D r.
Proof. intros H Hle. destruct r as [|p|n]; try reflexivity. cbn [enough_ref] in H. cbn [var_type].
  destruct (dlookup n D) as [T|]; [|reflexivity]. rewrite (idef_type_fuel f g D T H Hle). reflexivity. Qed.

(* ... and is the declared type; the Any fallback is taken only when the chain of type references ends in an undefined name *)
Theorem var_type_declared f D n T t : dlookup n D = Some T -> resolve f D T = Some t ->
  var_type f D (RNamed n) = match rtype t with Some u => u | None => TS SAny end /\
  (rtype t = None -> ends_dangling t = true).
Proof. intros E H. split; [|apply rtype_none]. cbn [var_type]. rewrite E, (idef_type_declared f D T t H). reflexivity. Qed.

(* without enough fuel the declared type silently becomes Any: the hypothesis is needed *)
Example var_type_low_fuel :
  let D := [(1%N, ISimple PNumber None); (2%N, IRef 1%N None)] in
  var_type 1 D (RNamed 2%N) = TS SAny /\ enough_ref 1 D (RNamed 2%N) = false /\
  enough_ref 2 D (RNamed 2%N) = true /\ var_type 2 D (RNamed 2%N) = TS SNumber.
Proof. vm_compute. repeat split; reflexivity. Qed.

(* ---------- output side: one equation ---------- *)
Theorem output_spec f D r v : wf_defs D = true -> wfv v = true ->
  output_value f D r v = coerced_spec (var_type f D r) v.
Proof. intros HD Hv. unfold output_value. apply coerced_is_spec; [apply var_type_wf; exact HD | exact Hv]. Qed.

Theorem output_fuel_sufficient f g D r v : enough_ref f D r = true -> f <= g -> output_value g D r v = output_value f D r v.
Proof. intros H Hle. unfold output_value. rewrite (var_type_fuel_sufficient f g D r H Hle). reflexivity. Qed.

(* ---------- the plain equation "v if it conforms, else null" does not hold for component types ---------- *)
Theorem plain_equation_refuted :
  let T := IComp [(1%N, ISimple PNumber None); (2%N, ISimple PString None)] None in
  let v := VCtx [(1%N, VAtom SString 7%N); (2%N, VAtom SString 1%N)] in
  exists t, resolve 2 [] T = Some t /\ conforms_to t v = false /\
  eval_item 2 [] T v = VCtx [(1%N, VNull); (2%N, VAtom SString 1%N)].
Proof. eexists. vm_compute. repeat split; reflexivity. Qed.

(* ---------- non-vacuity: nested components, a collection of a referenced component type, allowed values ---------- *)
Definition D_nest : defs :=
  [(1%N, ISimple PNumber (Some [ULt 10%N; UIv 20%N true 30%N false]));
   (2%N, IComp [(1%N, IRef 1%N None); (2%N, ISimple PString (Some [ULit SString 1%N]))] None);
   (3%N, ICollRef 2%N None);
   (4%N, IComp [(3%N, IRef 3%N None); (4%N, IComp [(1%N, ICollSimple PNumber (Some [ULe 5%N]))] None)] None)].

Example nonvacuous_spec :
  let T := IRef 4%N None in
  let row a b := VCtx [(1%N, VAtom SNumber a); (2%N, VAtom SString b)] in
  let good := VCtx [(3%N, VList [row 25%N 1%N; row 3%N 1%N]); (4%N, VCtx [(1%N, VList [VAtom SNumber 5%N])])] in
  let bad := VCtx [(3%N, VList [row 25%N 1%N; row 15%N 2%N; VAtom SNumber 1%N]);
                   (4%N, VCtx [(1%N, VList [VAtom SNumber 5%N; VAtom SNumber 6%N])]); (9%N, VNull)] in
  wf_defs D_nest = true /\ enough 6 D_nest T = false /\ enough 7 D_nest T = true /\
  exists t, resolve 7 D_nest T = Some t /\ whole t = false /\
    conforms_to t good = true /\ eval_item 7 D_nest T good = good /\
    conforms_to t bad = false /\
    eval_item 7 D_nest T bad =
      VCtx [(3%N, VList [row 25%N 1%N; VCtx [(1%N, VNull); (2%N, VNull)]; VNull]); (4%N, VCtx [(1%N, VNull)])] /\
    spec t bad = eval_item 7 D_nest T bad.
Proof. cbn zeta. split; [reflexivity|]. split; [reflexivity|]. split; [reflexivity|]. eexists. vm_compute. repeat split; reflexivity. Qed.

Example nonvacuous_whole :
  let T := IRef 1%N (Some [UGe 25%N]) in
  exists t, resolve 3 D_nest T = Some t /\ whole t = true /\
    conforms_to t (VAtom SNumber 27%N) = true /\ eval_item 3 D_nest T (VAtom SNumber 27%N) = VAtom SNumber 27%N /\
    conforms_to t (VAtom SNumber 22%N) = false /\ eval_item 3 D_nest T (VAtom SNumber 22%N) = VNull /\
    conforms_to t (VAtom SNumber 31%N) = false /\ eval_item 3 D_nest T (VAtom SNumber 31%N) = VNull /\
    conforms_to t (VAtom SString 27%N) = false /\ eval_item 3 D_nest T (VAtom SString 27%N) = VNull.
Proof. eexists. vm_compute. repeat split; reflexivity. Qed.
