(* C19 — the plane-level recogniser looks at the NAMES of the regions only to compare, in the header lines, the cell of one line with
   the cell below it (equal_regions_in_columns / unique_regions_in_columns and the label / output-values test).  Hence two planes with
   the same cells up to names and the same PARTITION of the header lines into regions - the same pattern "this cell and the cell below
   it are one region" - are recognised alike.  (owner: ext-merged; erasure lemmas of coq/C19/CanvasTable.v reused) *)
From Coq Require Import List NArith Bool Arith Lia.
From DV Require Import C19.Model C19.Proofs C19.CanvasTable.
Import ListNotations.

Definition same_id (a b : cell) : bool := match a, b with Region i _, Region j _ => rid_eqb i j | _, _ => false end.
Fixpoint zipw {A B C} (f : A -> B -> C) (a : list A) (b : list B) : list C :=
  match a, b with x :: a', y :: b' => f x y :: zipw f a' b' | _, _ => [] end.
(* the pattern of the header lines: for every line above line h, which of its cells continue in the line below *)
Definition below_pattern (p : plane) (k : nat) : list bool := zipw same_id (row_at p k) (row_at p (S k)).
Definition same_partition (h : nat) (p q : plane) : Prop :=
  E p = E q /\ forall k, S k < h -> below_pattern p k = below_pattern q k.

Lemma zipw_skipn {A B C} (f : A -> B -> C) n : forall a b, zipw f (skipn n a) (skipn n b) = skipn n (zipw f a b).
Proof. induction n as [|n IH]; intros a b; [reflexivity|]. destruct a as [|x a], b as [|y b]; cbn [skipn zipw]; try reflexivity; [now destruct (skipn n a)|apply IH]. Qed.
Lemma zipw_firstn {A B C} (f : A -> B -> C) n : forall a b, zipw f (firstn n a) (firstn n b) = firstn n (zipw f a b).
Proof. induction n as [|n IH]; intros a b; [reflexivity|]. destruct a as [|x a], b as [|y b]; cbn [firstn zipw]; try reflexivity. now rewrite IH. Qed.
Lemma zipw_cols l r a b : zipw same_id (cols l r a) (cols l r b) = firstn (r - l) (skipn l (zipw same_id a b)).
Proof. unfold cols. now rewrite zipw_firstn, zipw_skipn. Qed.
Lemma zipw_tl {A B C} (f : A -> B -> C) a b : zipw f (tl a) (tl b) = tl (zipw f a b).
Proof. destruct a as [|x a], b as [|y b]; cbn [tl zipw]; try reflexivity. now destruct a. Qed.

(* ---------------- the two comparisons of region names *)
Definition eqr (r1 r2 : list cell) : option bool :=
  match ids r1, ids r2 with Some a, Some b => Some (all2 rid_eqb a b) | _, _ => None end.
Definition unr (r1 r2 : list cell) : option bool :=
  match ids r1, ids r2 with Some a, Some b => Some (all2 (fun x y => negb (rid_eqb x y)) a b) | _, _ => None end.

Lemma ids_erase r : ids (map erase r) = option_map (map (fun _ => (0%N, 0%N))) (ids r).
Proof. induction r as [|c r IH]; [reflexivity|]. destruct c; cbn [map erase ids]; try reflexivity. rewrite IH. now destruct (ids r). Qed.

Lemma ids_shape r r' : map erase r = map erase r' -> option_map (@length rid) (ids r) = option_map (@length rid) (ids r').
Proof.
  intro He. assert (ids (map erase r) = ids (map erase r')) as Hi by now rewrite He. rewrite !ids_erase in Hi.
  destruct (ids r) as [a|], (ids r') as [a'|]; cbn [option_map] in *; try discriminate; [|reflexivity].
  injection Hi as Hi. f_equal. now rewrite <- (map_length (fun _ => (0%N, 0%N)) a), Hi, map_length.
Qed.

Lemma cmp_inv (f : rid -> rid -> bool) (g : bool -> bool) : (forall x y, f x y = g (rid_eqb x y)) ->
  forall r1 r2 r1' r2', map erase r1 = map erase r1' -> map erase r2 = map erase r2' -> zipw same_id r1 r2 = zipw same_id r1' r2' ->
  match ids r1, ids r2 with Some a, Some b => Some (all2 f a b) | _, _ => None end =
  match ids r1', ids r2' with Some a, Some b => Some (all2 f a b) | _, _ => None end.
Proof.
  intro Hf. induction r1 as [|c r1 IH]; intros r2 r1' r2' E1 E2 Z.
  - destruct r1' as [|c' r1']; [|discriminate]. cbn [ids]. pose proof (ids_shape r2 r2' E2) as S2.
    destruct (ids r2) as [b|], (ids r2') as [b'|]; cbn [option_map] in S2; try discriminate; [|reflexivity].
    injection S2 as S2. destruct b, b'; cbn [length] in S2; try discriminate; reflexivity.
  - destruct r1' as [|c' r1']; [discriminate|]. cbn [map] in E1. injection E1 as Ec E1.
    destruct c; destruct c'; cbn [erase] in Ec; try discriminate; try reflexivity.
    cbn [ids].
    destruct r2 as [|c2 r2]; destruct r2' as [|c2' r2']; try discriminate.
    + cbn [ids]. pose proof (ids_shape r1 r1' E1) as S1.
      destruct (ids r1) as [a|], (ids r1') as [a'|]; cbn [option_map] in *; try discriminate; reflexivity.
    + cbn [map] in E2. injection E2 as Ec2 E2. cbn [zipw] in Z. injection Z as Zh Z.
      specialize (IH r2 r1' r2' E1 E2 Z).
      destruct c2; destruct c2'; cbn [erase] in Ec2; try discriminate;
        try (cbn [ids]; destruct (option_map (cons id) (ids r1)), (option_map (cons id0) (ids r1')); reflexivity).
      cbn [ids]. cbn [same_id] in Zh.
      destruct (ids r1) as [a|], (ids r1') as [a'|], (ids r2) as [b|], (ids r2') as [b'|]; cbn [option_map] in *; try discriminate; try reflexivity.
      cbn [all2]. injection IH as IH. now rewrite !Hf, Zh, IH.
Qed.

Lemma eqr_inv r1 r2 r1' r2' : map erase r1 = map erase r1' -> map erase r2 = map erase r2' ->
  zipw same_id r1 r2 = zipw same_id r1' r2' -> eqr r1 r2 = eqr r1' r2'.
Proof. apply (cmp_inv rid_eqb (fun b => b)). reflexivity. Qed.
Lemma unr_inv r1 r2 r1' r2' : map erase r1 = map erase r1' -> map erase r2 = map erase r2' ->
  zipw same_id r1 r2 = zipw same_id r1' r2' -> unr r1 r2 = unr r1' r2'.
Proof. apply (cmp_inv (fun x y => negb (rid_eqb x y)) negb). reflexivity. Qed.

(* ---------------- recognize_horizontal *)
Section Horizontal.
Variables p q : plane.
Hypothesis HE : E p = E q.

Lemma row_erased y : map erase (row_at q y) = map erase (row_at p y).
Proof. now rewrite <- !row_at_erase, HE. Qed.
Lemma cols_erased l r y : map erase (cols l r (row_at q y)) = map erase (cols l r (row_at p y)).
Proof. now rewrite <- !cols_erase, row_erased. Qed.
Lemma texts_cols l r y : texts (cols l r (row_at q y)) = texts (cols l r (row_at p y)).
Proof. now rewrite <- texts_erase, cols_erased, texts_erase. Qed.
Lemma pattern_cols py l r k : (forall k, S k < py -> below_pattern p k = below_pattern q k) -> S k < py ->
  zipw same_id (cols l r (row_at q k)) (cols l r (row_at q (S k))) = zipw same_id (cols l r (row_at p k)) (cols l r (row_at p (S k))).
Proof. intros HP Hk. rewrite !zipw_cols. fold (below_pattern q k). fold (below_pattern p k). now rewrite HP. Qed.
Lemma all_texts_block l r t b : all_texts (map (cols l r) (rows t b q)) = all_texts (map (cols l r) (rows t b p)).
Proof. now rewrite <- all_texts_erase, <- map_cols_erase, <- rows_erase, <- HE, rows_erase, map_cols_erase, all_texts_erase. Qed.
Lemma width_q : width q = width p. Proof. now rewrite <- width_erase, <- HE, width_erase. Qed.
Lemma length_q : length q = length p. Proof. now rewrite <- length_erase, <- HE, length_erase. Qed.

Lemma ivp_partition px py : (forall k, S k < py -> below_pattern p k = below_pattern q k) ->
  input_values_present q px py = input_values_present p px py.
Proof.
  intro HP. destruct py as [|[|[|[|py']]]]; try reflexivity.
  - cbn [input_values_present].
    pose proof (eqr_inv _ _ _ _ (cols_erased 0 px 0) (cols_erased 0 px 1) (pattern_cols _ 0 px 0 HP ltac:(lia))) as Q. unfold eqr in Q.
    destruct (ids (cols 0 px (row_at q 0))), (ids (cols 0 px (row_at q 1))), (ids (cols 0 px (row_at p 0))), (ids (cols 0 px (row_at p 1)));
      try discriminate; try reflexivity. injection Q as Q. now rewrite Q.
  - cbn [input_values_present].
    pose proof (unr_inv _ _ _ _ (cols_erased 0 px 1) (cols_erased 0 px 2) (pattern_cols _ 0 px 1 HP ltac:(lia))) as Q. unfold unr in Q.
    destruct (ids (cols 0 px (row_at q 1))), (ids (cols 0 px (row_at q 2))), (ids (cols 0 px (row_at p 1))), (ids (cols 0 px (row_at p 2)));
      try discriminate; try reflexivity. injection Q as Q. now rewrite Q.
Qed.

Lemma out_clause_partition py ivp l r : (forall k, S k < py -> below_pattern p k = below_pattern q k) ->
  out_clause ivp py (r - l) (fun y => cols l r (row_at q y)) = out_clause ivp py (r - l) (fun y => cols l r (row_at p y)).
Proof.
  intro HP. destruct (r - l) as [|[|ow]] eqn:Eow; [reflexivity| |].
  - destruct py as [|[|[|py']]]; cbn [out_clause]; try reflexivity.
    + now rewrite texts_cols.
    + pose proof (eqr_inv _ _ _ _ (cols_erased l r 0) (cols_erased l r 1) (pattern_cols _ l r 0 HP ltac:(lia))) as Q. unfold eqr in Q.
      pose proof (ids_shape _ _ (cols_erased l r 0)) as S0. pose proof (ids_shape _ _ (cols_erased l r 1)) as S1.
      rewrite !texts_cols.
      destruct (ids (cols l r (row_at q 0))) as [[|a [|a2 ar]]|], (ids (cols l r (row_at p 0))) as [[|a' [|a2' ar']]|]; cbn in S0; try discriminate; try reflexivity;
      destruct (ids (cols l r (row_at q 1))) as [[|b [|b2 br]]|], (ids (cols l r (row_at p 1))) as [[|b' [|b2' br']]|]; cbn in S1; try discriminate; try reflexivity.
      injection Q as Q. cbn [all2] in Q. rewrite !andb_true_r in Q. now rewrite Q.
  - destruct py as [|[|[|[|py']]]]; cbn [out_clause]; try reflexivity; now rewrite !texts_cols.
Qed.

Theorem recognize_horizontal_partition px py : (forall k, S k < py -> below_pattern p k = below_pattern q k) ->
  find_plane is_main p = Some (px, py) -> recognize_horizontal q = recognize_horizontal p.
Proof.
  intros HP Hm. unfold recognize_horizontal.
  assert (find_plane is_main q = Some (px, py)) as ->
    by (now rewrite <- (find_plane_erase _ _ is_main_erase), <- HE, (find_plane_erase _ _ is_main_erase)).
  rewrite Hm, (ivp_partition px py HP).
  assert (find_plane is_hcross q = find_plane is_hcross p) as ->
    by (now rewrite <- (find_plane_erase _ _ is_hcross_erase), <- HE, (find_plane_erase _ _ is_hcross_erase)).
  rewrite width_q, length_q. destruct (input_values_present p px py) as [ivp|]; [|reflexivity].
  rewrite !texts_cols, !all_texts_block.
  rewrite (out_clause_partition py ivp (S px) match find_plane is_hcross p with Some (qx, _) => qx | None => width p end HP).
  assert (ann_clause q (find_plane is_hcross p) = ann_clause p (find_plane is_hcross p)) as ->; [|reflexivity].
  unfold ann_clause. destruct (find_plane is_hcross p) as [[qx qy]|]; [|reflexivity].
  now rewrite width_q, length_q, texts_cols, all_texts_block.
Qed.
End Horizontal.

Lemma row_at_tails p k : row_at (tails p) k = tl (row_at p k).
Proof. unfold row_at, tails. change (@nil cell) with (tl (@nil cell)) at 1. apply map_nth. Qed.
Lemma below_pattern_tails p k : below_pattern (tails p) k = tl (below_pattern p k).
Proof. unfold below_pattern. now rewrite !row_at_tails, zipw_tl. Qed.

(* two planes with the same cells up to the names of the regions and the same partition of the h header lines into regions are
   recognised alike when one of them is a rules-as-rows plane whose main crossing is below h header lines *)
Theorem recognize_plane_partition parse_hp parse_num p q hp n px h :
  same_partition h p q -> orientation parse_hp parse_num p = Some (AsRow, hp, n) -> find_plane is_main (tails p) = Some (px, h) ->
  recognize_plane parse_hp parse_num q = recognize_plane parse_hp parse_num p.
Proof.
  intros [He Hp] Ho Hm. unfold recognize_plane.
  rewrite <- (orientation_erase parse_hp parse_num q), <- He, orientation_erase, Ho.
  rewrite (recognize_horizontal_partition (tails p) (tails q)) with (px := px) (py := h); [reflexivity| | |assumption].
  - now rewrite <- !tails_erase, He.
  - intros k Hk. now rewrite !below_pattern_tails, Hp.
Qed.
