//! `dv pure`: histories of evaluations of prepared evaluators over persistent scopes.
//! request {"scopes": [[ctx-text, …] …]  (each scope = a stack of contexts, bottom first),
//!          "exprs": [text …], "seq": [[expr index, scope index] …]}
//!          "shared": bool  (optional: one evaluator per expression, prepared against the scope of its first use and then evaluated over every scope of the sequence)
//! answer  {"steps": [{"v": canon, "before": scope text, "after_parse": text, "after": scope text} …]} — evaluators are prepared once per (expr, scope).
use crate::canon::{canon, panic_text};
use dmntk_feel::{Evaluator, Scope};
use serde_json::{json, Value as J};
use std::collections::HashMap;
use std::io::{BufRead, Write};

fn one(req: &J) -> J {
  let mut scopes = vec![];
  for s in req["scopes"].as_array().cloned().unwrap_or_default() {
    let scope = Scope::new();
    for c in s.as_array().cloned().unwrap_or_default() {
      let text = c.as_str().unwrap_or("{}");
      match dmntk_feel_evaluator::evaluate_context(&Scope::default(), text) {
        Ok(ctx) => scope.push(ctx),
        Err(_) => return json!({"err": "ctx"}),
      }
    }
    scopes.push(scope);
  }
  let exprs: Vec<String> = req["exprs"].as_array().cloned().unwrap_or_default().iter().map(|e| e.as_str().unwrap_or("").to_string()).collect();
  let mut prepared: HashMap<(usize, usize), Option<Evaluator>> = HashMap::new();
  let mut steps = vec![];
  for st in req["seq"].as_array().cloned().unwrap_or_default() {
    let (ei, si) = (st[0].as_u64().unwrap_or(0) as usize, st[1].as_u64().unwrap_or(0) as usize);
    let scope = &scopes[si];
    let key = if req["shared"].as_bool().unwrap_or(false) { (ei, usize::MAX) } else { (ei, si) };
    let before = scope.to_string();
    let mut after_parse = before.clone();
    if !prepared.contains_key(&key) {
      let ev = match dmntk_feel_parser::parse_expression(scope, &exprs[ei], false) {
        Ok(node) => dmntk_feel_evaluator::prepare(&node).ok(),
        Err(_) => None,
      };
      after_parse = scope.to_string();
      prepared.insert(key, ev);
    }
    match prepared.get(&key).unwrap() {
      Some(ev) => {
        let v = ev(scope);
        steps.push(json!({"v": canon(&v), "before": before, "after_parse": after_parse, "after": scope.to_string()}));
      }
      None => steps.push(json!({"err": "parse", "before": before, "after_parse": after_parse, "after": scope.to_string()})),
    }
  }
  json!({ "steps": steps })
}

pub fn main() {
  let stdin = std::io::stdin();
  let stdout = std::io::stdout();
  let mut out = std::io::BufWriter::new(stdout.lock());
  for line in stdin.lock().lines() {
    let line = line.unwrap();
    if line.trim().is_empty() {
      continue;
    }
    let req: J = serde_json::from_str(&line).unwrap_or(J::Null);
    let r = std::panic::catch_unwind(std::panic::AssertUnwindSafe(|| one(&req))).unwrap_or_else(|e| json!({"panic": panic_text(e)}));
    writeln!(out, "{}", r).unwrap();
    out.flush().unwrap();
  }
}
