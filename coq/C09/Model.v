(* C09 — executable model of the equality, ordering, logic, between and `in` evaluators of
   feel-evaluator/src/builders.rs (eval_ternary_equality, build_eq/nq/lt/le/gt/ge, build_and/or,
   build_between, build_in, eval_in_range, eval_in_list, eval_in_list_in_list, eval_in_equal) and of
   the comparison primitives they call (FeelNumber PartialOrd, String::cmp, FeelDate PartialOrd /
   between, FeelTime / FeelDateTime equal / between, the derived orders of both durations).
   `xxx_orig` = the function at the pinned commit where a defect was repaired.  No proofs here. *)
From Coq Require Import List NArith ZArith Bool Arith.
From DV Require Import C09.Values.
Import ListNotations.
Open Scope Z_scope.

(* ---------------- eval_ternary_equality ---------------- *)

(* kinds for which `v = null` is Some(false) (every arm of the match that has a `Value::Null(_) => Some(false)` line) *)
Definition null_comparable (v : value) : bool :=
  match v with
  | VBool _ | VNum _ _ | VStr _ | VCtx _ | VDate _ _ _ | VTime _ _ | VDateTime _ _ _ _ _
  | VDtd _ | VYmd _ | VList _ => true
  | _ => false
  end.

Definition dt_equal (y1 m1 d1 n1 o1 y2 m2 d2 n2 o2 : Z) : option bool :=
  match dtinst y1 m1 d1 n1 o1, dtinst y2 m2 d2 n2 o2 with
  | Some a, Some b => Some (a =? b)
  | _, _ => None
  end.

Section Teq.
(* null_left = what `null = v` gives for a null-comparable v: Some false after the repair, None before;
   keys_first = the repaired context comparison looks at the key sets before it compares any value *)
Variable null_left : option bool.
Variable keys_first : bool.

Fixpoint teq_gen (a b : value) {struct a} : option bool :=
  match a with
  | VBool x => match b with VBool y => Some (Bool.eqb x y) | VNull => Some false | _ => None end
  | VNum c e => match b with VNum c' e' => Some (is_eq (ncmp c e c' e')) | VNull => Some false | _ => None end
  | VStr s => match b with VStr s' => Some (leqb s s') | VNull => Some false | _ => None end
  | VCtx ea =>
      match b with
      | VCtx eb =>
          if Nat.eqb (length ea) (length eb) then
            if keys_first && negb (forallb (fun e => has_key (fst e) eb) ea) then Some false else
            (fix walk (es : list (list N * value)) : option bool :=
               match es with
               | [] => Some true
               | (k, v) :: es' =>
                   match lookup k eb with
                   | Some v2 => match teq_gen v v2 with
                                | Some true => walk es'
                                | Some false => Some false
                                | None => None end
                   | None => Some false
                   end
               end) ea
          else Some false
      | VNull => Some false
      | _ => None
      end
  | VDate y m d => match b with VDate y' m' d' => Some ((y =? y') && (m =? m') && (d =? d')) | VNull => Some false | _ => None end
  | VTime n o => match b with VTime n' o' => Some (tinst n o =? tinst n' o') | VNull => Some false | _ => None end
  | VDateTime y m d n o =>
      match b with VDateTime y' m' d' n' o' => dt_equal y m d n o y' m' d' n' o' | VNull => Some false | _ => None end
  | VDtd n => match b with VDtd n' => Some (n =? n') | VNull => Some false | _ => None end
  | VYmd n => match b with VYmd n' => Some (n =? n') | VNull => Some false | _ => None end
  | VNull => match b with VNull => Some true | _ => if null_comparable b then null_left else None end
  | VList la =>
      match b with
      | VList lb =>
          if Nat.eqb (length la) (length lb) then
            Some ((fix go (xs ys : list value) : bool :=
                     match xs, ys with
                     | x :: xs', y :: ys' => match teq_gen x y with Some true => go xs' ys' | _ => false end
                     | _, _ => true
                     end) la lb)
          else Some false
      | VNull => Some false
      | _ => None
      end
  | VRange _ _ _ _ | VFun _ => None
  end.
End Teq.

Definition teq : value -> value -> option bool := teq_gen (Some false) true.
(* the pinned commit: `null = 1` is None although `1 = null` is Some(false); contexts are walked
   without looking at the key sets first *)
Definition teq_orig : value -> value -> option bool := teq_gen None false.

Definition ob (o : option bool) : value := match o with Some x => VBool x | None => VNull end.

Definition v_eq (a b : value) : value := ob (teq a b).
Definition v_ne (a b : value) : value := ob (option_map negb (teq a b)).
Definition v_eq_orig (a b : value) : value := ob (teq_orig a b).
Definition v_ne_orig (a b : value) : value := ob (option_map negb (teq_orig a b)).

(* ---------------- < <= > >= : numbers, strings and dates only ---------------- *)

(* FeelDate::partial_cmp.  Repaired: the (y, m, d) triples are compared.  At the pinned commit:
   equal triples are Equal, otherwise both dates go through chrono and the result is None outside its year range. *)
Definition date_pcmp (y1 m1 d1 y2 m2 d2 : Z) : option comparison := Some (dcmp y1 m1 d1 y2 m2 d2).
Definition date_pcmp_orig (y1 m1 d1 y2 m2 d2 : Z) : option comparison :=
  match dcmp y1 m1 d1 y2 m2 d2 with
  | Eq => Some Eq
  | c => if chrono_year y1 && chrono_year y2 then Some c else None
  end.

Section Ord.
Variable date_cmp : Z -> Z -> Z -> Z -> Z -> Z -> option comparison.

(* outer None: the operands are not of one ordered kind (result null);
   inner None: partial_cmp gave None (every one of < <= > >= is then false) *)
Definition vcmp_gen (a b : value) : option (option comparison) :=
  match a with
  | VNum c e => match b with VNum c' e' => Some (Some (ncmp c e c' e')) | _ => None end
  | VStr s => match b with VStr s' => Some (Some (lcmp s s')) | _ => None end
  | VDate y m d => match b with VDate y' m' d' => Some (date_cmp y m d y' m' d') | _ => None end
  | _ => None
  end.

Definition rel_gen (f : comparison -> bool) (a b : value) : value :=
  match vcmp_gen a b with
  | Some (Some c) => VBool (f c)
  | Some None => VBool false
  | None => VNull
  end.
End Ord.

Definition v_lt := rel_gen date_pcmp is_lt.
Definition v_le := rel_gen date_pcmp is_le.
Definition v_gt := rel_gen date_pcmp is_gt.
Definition v_ge := rel_gen date_pcmp is_ge.
Definition v_lt_orig := rel_gen date_pcmp_orig is_lt.
Definition v_le_orig := rel_gen date_pcmp_orig is_le.
Definition v_gt_orig := rel_gen date_pcmp_orig is_gt.
Definition v_ge_orig := rel_gen date_pcmp_orig is_ge.

(* ---------------- and / or ---------------- *)
Definition v_and (a b : value) : value :=
  match a with
  | VBool x => match b with VBool y => VBool (x && y) | _ => if x then VNull else VBool false end
  | _ => match b with VBool y => if y then VNull else VBool false | _ => VNull end
  end.
Definition v_or (a b : value) : value :=
  match a with
  | VBool x => match b with VBool y => VBool (x || y) | _ => if x then VBool true else VNull end
  | _ => match b with VBool y => if y then VBool true else VNull | _ => VNull end
  end.

(* ---------------- between and in-range ---------------- *)

(* temporal::between on instants / the `l_ok && r_ok` pattern on ordered values *)
Definition within (lc rc : bool) (c_lo c_hi : comparison) : bool :=
  (* c_lo = cmp value lo, c_hi = cmp value hi *)
  (if lc then is_ge c_lo else is_gt c_lo) && (if rc then is_le c_hi else is_lt c_hi).

(* FeelDate::between.  Repaired: on the triples, always Some.  Pinned commit: through chrono. *)
Definition date_between (y m d y1 m1 d1 y2 m2 d2 : Z) (lc rc : bool) : option bool :=
  Some (within lc rc (dcmp y m d y1 m1 d1) (dcmp y m d y2 m2 d2)).
Definition date_between_orig (y m d y1 m1 d1 y2 m2 d2 : Z) (lc rc : bool) : option bool :=
  if chrono_year y && chrono_year y1 && chrono_year y2
  then Some (within lc rc (dcmp y m d y1 m1 d1) (dcmp y m d y2 m2 d2)) else None.

Definition dt_between (y m d n o y1 m1 d1 n1 o1 y2 m2 d2 n2 o2 : Z) (lc rc : bool) : option bool :=
  match dtinst y m d n o, dtinst y1 m1 d1 n1 o1, dtinst y2 m2 d2 n2 o2 with
  | Some x, Some a, Some b => Some (within lc rc (Z.compare x a) (Z.compare x b))
  | _, _, _ => None
  end.

Section Range.
Variable dbetween : Z -> Z -> Z -> Z -> Z -> Z -> Z -> Z -> Z -> bool -> bool -> option bool.

(* the common body of build_between (lc = rc = true) and eval_in_range *)
Definition in_bounds_gen (x lo : value) (lc : bool) (hi : value) (rc : bool) : value :=
  match x with
  | VNum c e =>
      match lo with VNum c1 e1 => match hi with VNum c2 e2 =>
        VBool (within lc rc (ncmp c e c1 e1) (ncmp c e c2 e2)) | _ => VNull end | _ => VNull end
  | VStr s =>
      match lo with VStr s1 => match hi with VStr s2 =>
        VBool (within lc rc (lcmp s s1) (lcmp s s2)) | _ => VNull end | _ => VNull end
  | VDate y m d =>
      match lo with VDate y1 m1 d1 => match hi with VDate y2 m2 d2 =>
        ob (dbetween y m d y1 m1 d1 y2 m2 d2 lc rc) | _ => VNull end | _ => VNull end
  | VTime n o =>
      match lo with VTime n1 o1 => match hi with VTime n2 o2 =>
        VBool (within lc rc (Z.compare (tinst n o) (tinst n1 o1)) (Z.compare (tinst n o) (tinst n2 o2)))
        | _ => VNull end | _ => VNull end
  | VDateTime y m d n o =>
      match lo with VDateTime y1 m1 d1 n1 o1 => match hi with VDateTime y2 m2 d2 n2 o2 =>
        ob (dt_between y m d n o y1 m1 d1 n1 o1 y2 m2 d2 n2 o2 lc rc) | _ => VNull end | _ => VNull end
  | VYmd n =>
      match lo with VYmd n1 => match hi with VYmd n2 =>
        VBool (within lc rc (Z.compare n n1) (Z.compare n n2)) | _ => VNull end | _ => VNull end
  | VDtd n =>
      match lo with VDtd n1 => match hi with VDtd n2 =>
        VBool (within lc rc (Z.compare n n1) (Z.compare n n2)) | _ => VNull end | _ => VNull end
  | _ => VNull
  end.

Definition v_between_gen (x lo hi : value) : value := in_bounds_gen x lo true hi true.
Definition in_range_gen (x r : value) : value :=
  match r with VRange lo lc hi rc => in_bounds_gen x lo lc hi rc | _ => VNull end.
End Range.

Definition v_between := v_between_gen date_between.
Definition in_range := in_range_gen date_between.
Definition v_between_orig := v_between_gen date_between_orig.
Definition in_range_orig := in_range_gen date_between_orig.

(* ---------------- in ---------------- *)
Definition is_true (v : value) : bool := match v with VBool true => true | _ => false end.

Section In.
Variable eq3 : value -> value -> option bool.
Variable inrange : value -> value -> value.

Definition in_equal (l r : value) : value := VBool (match eq3 l r with Some true => true | _ => false end).

Definition eq_kind (v : value) : bool :=
  match v with
  | VStr _ | VNum _ _ | VBool _ | VDate _ _ _ | VTime _ _ | VDateTime _ _ _ _ _ | VYmd _ | VDtd _ | VCtx _ => true
  | _ => false
  end.

(* eval_in_list left items, for v = VList items *)
Fixpoint in_list (left v : value) {struct v} : value :=
  match v with
  | VList items =>
      (fix loop (xs : list value) : value :=
         match xs with
         | [] => VBool false
         | x :: xs' =>
             match x with
             | VList _ => if is_true (in_list left x) then VBool true else loop xs'
             | VRange _ _ _ _ => if is_true (inrange left x) then VBool true else loop xs'
             | VNull | VFun _ => VNull
             | _ => if is_true (in_equal left x) then VBool true else loop xs'
             end
         end) items
  | _ => VNull
  end.

(* removes the first still-available element equal to l *)
Fixpoint take_match (l : value) (avail : list value) : option (list value) :=
  match avail with
  | [] => None
  | r :: rest => if is_true (in_equal l r) then Some rest
                 else match take_match l rest with Some rest' => Some (r :: rest') | None => None end
  end.
Fixpoint all_taken (ls avail : list value) : bool :=
  match ls with
  | [] => true
  | l :: ls' => match take_match l avail with Some avail' => all_taken ls' avail' | None => false end
  end.
(* eval_in_list_in_list: only the first list among the items is looked at *)
Fixpoint in_list_in_list (ls items : list value) : value :=
  match items with
  | [] => VBool false
  | VList rs :: _ => VBool (all_taken ls rs)
  | _ :: items' => in_list_in_list ls items'
  end.

(* build_in *)
Definition v_in_gen (a b : value) : value :=
  match b with
  | VRange _ _ _ _ => inrange a b
  | VList items => match a with VList ls => in_list_in_list ls items | _ => in_list a b end
  | VNull | VFun _ => VNull
  | _ => in_equal a b
  end.
End In.

Definition v_in := v_in_gen teq in_range.
Definition v_in_orig := v_in_gen teq_orig in_range_orig.

(* ---------------- what the correspondence check prints ---------------- *)
(* 0 null, 1 false, 2 true, 3 anything else *)
Definition tv (v : value) : N := match v with VNull => 0%N | VBool false => 1%N | VBool true => 2%N | _ => 3%N end.

Definition ops9 (a b : value) : list N :=
  map tv [v_eq a b; v_ne a b; v_lt a b; v_le a b; v_gt a b; v_ge a b; v_and a b; v_or a b; v_in a b].
Definition ops9_orig (a b : value) : list N :=
  map tv [v_eq_orig a b; v_ne_orig a b; v_lt_orig a b; v_le_orig a b; v_gt_orig a b; v_ge_orig a b; v_and a b; v_or a b; v_in_orig a b].

(* x between a and b; x in [a..b], (a..b], [a..b), (a..b); the conjunctions with <= / < *)
Definition tri (x a b : value) : list N :=
  map tv [v_between x a b;
          v_in x (VRange a true b true); v_in x (VRange a false b true); v_in x (VRange a true b false); v_in x (VRange a false b false);
          v_and (v_le a x) (v_le x b); v_and (v_lt a x) (v_le x b); v_and (v_le a x) (v_lt x b); v_and (v_lt a x) (v_lt x b)].
Definition tri_orig (x a b : value) : list N :=
  map tv [v_between_orig x a b;
          v_in_orig x (VRange a true b true); v_in_orig x (VRange a false b true); v_in_orig x (VRange a true b false); v_in_orig x (VRange a false b false);
          v_and (v_le_orig a x) (v_le_orig x b); v_and (v_lt_orig a x) (v_le_orig x b); v_and (v_le_orig a x) (v_lt_orig x b); v_and (v_lt_orig a x) (v_lt_orig x b)].
