"""C07 — numbers print as plain decimal text that denotes exactly their value.
Proof: coq/Props/C07.v (every sign, coefficient and exponent).  Correspondence: FeelNumber Display / jsonify / Debug /
from_str, FEEL literals and string(), xsd input conversion of the working tree vs coq/C07/Model.v; the laws of the
property (plain shape, JSON shape, exact value, read-back) are evaluated on the implementation's own output."""
import json
import re
import decimal
from decimal import Decimal

from vlib import core

HEADER = ('From Coq Require Import ZArith NArith List Ascii String.\nFrom DV Require Import Base.Dec C07.Model.\n'
          'Import ListNotations.\nOpen Scope string_scope.\n')

HEADER_RB = ('From Coq Require Import ZArith NArith List Ascii String.\nFrom DV Require Import Base.Dec C07.Model C07.Reader.\n'
             'Import ListNotations.\nOpen Scope string_scope.\n')

HEADER_LIT = ('From Coq Require Import ZArith NArith List Ascii String.\nFrom DV Require Import Base.Dec C07.Model C07.Literal.\n'
              'Import ListNotations.\nOpen Scope string_scope.\n')

PLAIN = re.compile(r'-?[0-9]+(\.[0-9]+)?\Z')
JSONNUM = re.compile(r'-?(0|[1-9][0-9]*)(\.[0-9]+)?([eE][+-]?[0-9]+)?\Z')


MODEL_TERM = '(show_rle (Some (to_sci %s)), show_rle (print %s))'


def unrle(t):
    """Some [(text, zeros); ...] -> text; None -> None"""
    if not getattr(t, 'args', None):
        return None
    return ''.join(x + '0' * z for x, z in t.args[0])


def dec_text(sign, coef, exp):
    return '%s%dE%+d' % ('-' if sign else '', coef, exp)


def dec_coq(sign, coef, exp):
    return '(mkdec %s %d%%N (%d)%%Z)' % ('true' if sign else 'false', coef, exp)


def exact(sign, coef, exp):
    return Decimal((1 if sign else 0, tuple(int(c) for c in str(coef)), exp))


def same_value(text, d):
    """exact comparison (Decimal comparisons do not round)"""
    try:
        return Decimal(text) == d
    except Exception:
        return False


def coefficients(ctx, n_random):
    r = ctx.rng
    cs = [0, 1, 7, 10, 15, 100, 1230, 9999999, 10 ** 16, 10 ** 17 - 1, 12345678901234567, 10 ** 32, 10 ** 33 - 1, 10 ** 33, 10 ** 34 - 1,
          1234567890123456789012345678901234, 1234567890123456789012345678900000, 5 * 10 ** 33]
    for _ in range(n_random):
        L = r.randint(1, 34)
        c = r.randint(10 ** (L - 1), 10 ** L - 1)
        if r.random() < 0.4:
            z = r.randint(1, L)
            c = c // 10 ** z * 10 ** z or 10 ** (L - 1)
        cs.append(c)
    return cs


def exponents(ctx):
    r = ctx.rng
    if ctx.quick:
        es = list(range(-6176, -6168)) + list(range(-48, 42)) + list(range(6104, 6112)) + [r.randint(-6176, 6111) for _ in range(40)]
    else:
        es = list(range(-6176, 6112))
    return es


def law_failure(p, j, rb, d):
    """The property's laws on the implementation's own output.  Returns (key, text) or None."""
    if not PLAIN.match(p):
        return 'plain', 'Display text %r is not of the form -?digits(.digits)?' % p[:80]
    if not same_value(p, d):
        return 'value', 'Display text %r does not denote the value %s' % (p[:80], d)
    if j != p and not (JSONNUM.match(j) and same_value(j, d)):
        return 'json', 'jsonify text %r is not a JSON number of the same value' % j[:80]
    if not JSONNUM.match(j):
        return 'json', 'jsonify text %r is not a valid JSON number' % j[:80]
    if rb is not True:
        return 'readback', 'reading the Display text %r back with from_str does not give an equal number' % p[:80]
    return None


def reread(sign, coef, exp):
    """coq/C07/Reader.v `reread`: the datum that reading the printed text of (sign, coef, exp) gives (C07_read_back_datum)."""
    if exp > 0:
        if coef == 0:
            return (sign, 0, 0)
        k = max(0, len(str(coef)) + exp - 34)
        return (sign, coef * 10 ** (exp - k), k)
    return (sign, coef, exp)


def datum(text):
    """the exact (sign, coefficient, exponent) a scientific / plain numeral writes; None for Infinity / NaN"""
    try:
        t = Decimal(text).as_tuple()
    except Exception:
        return None
    if not isinstance(t.exponent, int):
        return None
    return (bool(t.sign), int(''.join(map(str, t.digits))), t.exponent)


def read_back_section(ctx, cases, printed, hist):
    """from_str on the printed text: the datum decQuadFromString builds (its raw decQuadToString text) against reread (all grid
    cases), against the Coq model read_back (texts of moderate length) and, for numerals that do need rounding, against from_plain."""
    r = ctx.rng
    # (a) every grid case: the datum read back is reread d
    live = [(k, p) for k, p in zip(cases, printed) if p is not None]
    got = ctx.run_impl('num', [{'op': 'sci', 'a': p} for _, p in live])
    for (k, p), g in zip(live, got):
        ctx.corr_checked += 1
        case = {'operand': dec_text(*k), 'sign': k[0], 'coefficient': str(k[1]), 'exponent': k[2], 'printed': p[:80]}
        if datum(g.get('r')) != reread(*k):
            if datum(g.get('r')) is None or Decimal(g['r']) != exact(*k) or Decimal(g['r']).is_signed() != k[0]:
                ctx.violation('reading the Display text back gives %s, not a number equal to %s' % (str(g.get('r'))[:60], dec_text(*k)), case, impl=g)
            else:
                ctx.corr_broken('datum read back vs reread', case, g.get('r'), list(map(str, reread(*k))))
    hist['readback'] = len(live)
    # (b) the Coq model of the reader on the same texts (long numerals are slow in Coq: a few of them only)
    short = [(k, p) for k, p in live if len(p) <= 90]
    r.shuffle(short)
    pick = short[:ctx.pick(1200, 12000)]
    pick += [((s, c, e), None) for s, c, e in [(False, 1, 40), (True, 12, 33), (False, 10 ** 34 - 1, 300), (True, 5, 1999)] + ([(False, 7, 6111)] if not ctx.quick else [])]
    want = ctx.run_impl('num', [{'op': 'from_string', 'a': dec_text(*k)} for k, p in pick if p is None])
    it = iter(want)
    pick = [(k, p if p is not None else next(it)['r']['p']) for k, p in pick]
    g2 = ctx.run_impl('num', [{'op': 'sci', 'a': p} for _, p in pick])
    m2 = ctx.run_model(HEADER_RB, ['read_back_sci %s' % dec_coq(*k) for k, _ in pick], shard_size=max(20, len(pick) // 16 + 1), tag='rb')
    for (k, p), g, m in zip(pick, g2, m2):
        ctx.corr_checked += 1
        mt = m.args[0] if getattr(m, 'args', None) else None
        if g.get('r') != mt:
            ctx.corr_broken('from_str(Display) vs read_back', {'operand': dec_text(*k)}, g.get('r'), mt)
    # (c) plain numerals that need rounding (35..60 digits, non-zero tail; ties; all nines) and small ones: the reader model itself
    texts = ['1' + '0' * 33 + '5', '1' + '0' * 33 + '15', '2' + '0' * 33 + '5', '9' * 35, '9' * 34 + '.5', '0.' + '0' * 10 + '9' * 35, '-' + '1' * 34 + '.5000', '-0', '0.000', '-0.0',
             '12345678901234567890123456789012345', '0.' + '0' * 6170 + '123456789', '0.' + '0' * 6176 + '5', '0.' + '0' * 6176 + '51']
    for _ in range(ctx.pick(250, 4000)):
        L = r.randint(1, 60)
        digs = ''.join(r.choice('0123456789') for _ in range(L))
        if r.random() < 0.3 and L > 34:
            digs = digs[:34] + r.choice(['5', '50', '500', '49', '51', '05']) + digs[36:][:r.randint(0, 6)]
        cut = r.randint(0, len(digs))
        ip, fp = digs[:cut] or '0', digs[cut:]
        if r.random() < 0.2:
            fp = '0' * r.randint(1, 40) + fp
        texts.append(('-' if r.random() < 0.5 else '') + ip + ('.' + fp if fp else ''))
    g3 = ctx.run_impl('num', [{'op': 'sci', 'a': t} for t in texts])
    m3 = ctx.run_model(HEADER_RB, ['from_plain_sci "%s"' % t for t in texts], shard_size=max(20, len(texts) // 16 + 1), tag='fp')
    for t, g, m in zip(texts, g3, m3):
        ctx.corr_checked += 1
        ctx.evaluations += 1
        mt = m.args[0] if getattr(m, 'args', None) else None
        it_ = g.get('r')
        if it_ in ('Infinity', '-Infinity'):
            it_ = None
        if it_ != mt:
            ctx.corr_broken('decQuadFromString vs from_plain', {'numeral': t[:100]}, g.get('r'), mt)
    hist['reader_numerals'] = len(texts)
    # (d) a numeral beyond the format is refused by from_str (Err), not turned into a non-finite number
    big = ctx.run_impl('num', [{'op': 'parse', 'a': '1' + '0' * 6145}, {'op': 'sci', 'a': '1' + '0' * 6145}, {'op': 'parse', 'a': '9' * 34 + '5' + '0' * 6110}])
    if big[0].get('err') != 'parse' or big[1].get('r') != 'Infinity' or big[2].get('err') != 'parse':
        ctx.violation('a plain numeral beyond the decimal128 range is not refused by from_str: %s' % json.dumps(big)[:200], {'op': 'parse', 'a': '1e6145 written out'}, impl=big)


# decimal128 as an independent oracle (CPython's mpdecimal): precision 34, half-even, subnormals, clamping; overflow -> Infinity
D128 = decimal.Context(prec=34, rounding=decimal.ROUND_HALF_EVEN, Emin=-6143, Emax=6144, clamp=1, traps=[])


def oracle(text):
    """the correctly rounded decimal128 value of a numeral text; None when it overflows"""
    d = D128.create_decimal(text)
    return None if d.is_infinite() or d.is_nan() else d


def sig_len(ip, fp):
    return len((ip + fp).lstrip('0'))


def token_of(text):
    """the lexer's Numeric(before, after) of an unsigned FEEL literal"""
    if text.startswith('.'):
        return '0', text[1:]
    ip, _, fp = text.partition('.')
    return ip, fp


def mantissas(ctx):
    """(ip, fp) pairs: 1..34 significant digits (exact), exactly 34 / 35 / 36 and more (ties, near-ties, all nines, carries), with leading
    zeros behind the point, with trailing zeros, texts far longer than 42 characters, and the borders of the range."""
    r = ctx.rng
    out = [('0', ''), ('0', '0'), ('00012', '5000'), ('1', ''), ('', '5'), ('0', '00000015'), ('0', '10'), ('123456789012345678901234567890', '1234'),
           ('0', '0' * 40 + '1234567890123456789012345678901234'), ('9' * 34, ''), ('1' + '0' * 60, ''), ('0', '0' * 6142 + '1' * 34),
           ('0', '0' * 10 + '1234567890123456789012345678901234'),        # the 46-character literal of seeded/C07_d
           ('1' + '0' * 50, ''), ('1' + '0' * 41, ''), ('1' + '0' * 42, ''), ('0', '0' * 42 + '123'), ('0', '0' * 39 + '1'), ('0', '0' * 40 + '1'), ('0', '0' * 41 + '1'),
           # 35 / 36 digits: exact ties to even, both parities, near-ties, carries
           ('12345678901234567890123456789012345', ''), ('12345678901234567890123456789012355', ''), ('1234567890123456789012345678901234', '5'),
           ('1234567890123456789012345678901235', '5'), ('1234567890123456789012345678901234', '51'), ('1234567890123456789012345678901234', '49'),
           ('1234567890123456789012345678901234', '50'), ('1234567890123456789012345678901235', '50'), ('1' + '0' * 33 + '5', ''), ('1' + '0' * 33 + '15', ''),
           ('9' * 35, ''), ('9' * 36, ''), ('9' * 34, '5'), ('9' * 34, '4' + '9' * 20), ('0', '0' * 12 + '9' * 35), ('0', '0' * 45 + '1' * 33 + '25'), ('0', '0' * 45 + '1' * 33 + '35'),
           # the borders of the range: subnormal quantum, underflow to zero, the largest numbers, overflow
           ('0', '0' * 6175 + '1'), ('0', '0' * 6176 + '1'), ('0', '0' * 6176 + '5'), ('0', '0' * 6176 + '6'), ('0', '0' * 6176 + '51'), ('0', '0' * 6160 + '1234567890123456789012345678901234'),
           ('0', '0' * 6170 + '123456789'), ('1' + '0' * 6144, ''), ('9' * 34 + '0' * 6111, ''), ('9' * 34 + '4' + '0' * 6110, ''), ('9' * 34 + '5' + '0' * 6110, ''), ('1' + '0' * 6145, '')]
    for _ in range(ctx.pick(300, 5000)):            # 1..34 significant digits
        L = r.randint(1, 34)
        k = r.randint(0, L)
        digs = ''.join(r.choice('0123456789') for _ in range(L))
        ip, fp = digs[:k], digs[k:]
        if r.random() < 0.3:
            fp = '0' * r.randint(1, 45) + fp
            ip = ip.lstrip('0')
        if r.random() < 0.2:
            ip = ip + '0' * r.randint(1, 40) if ip.strip('0') else ip
            fp = fp.rstrip('0') if r.random() < 0.5 else ''
        out.append((ip, fp))
    for _ in range(ctx.pick(700, 8000)):            # exactly 34, 35, 36 and a few more significant digits
        L = r.choice([34, 34, 35, 35, 35, 36, 36, 37, 40, 50])
        digs = r.choice('123456789') + ''.join(r.choice('0123456789') for _ in range(L - 1))
        if L > 34 and r.random() < 0.7:                # a tie or a near-tie behind the 34th digit, both parities of the 34th digit
            tail = r.choice(['5', '50', '500', '49', '51', '4' + '9' * (L - 35), '5' + '0' * (L - 36) + '1', '05', '95', '499', '501'])
            digs = (digs[:33] + r.choice('0123456789') + tail + digs[34 + len(tail):])[:max(L, 34 + len(tail))]
        if r.random() < 0.15:
            digs = '9' * r.randint(30, 34) + digs[34:]
        c = r.random()
        if c < 0.35:                                # behind the point, with leading zeros: long texts
            ip, fp = r.choice(['0', '', '000']), '0' * r.choice([0, 1, 7, 9, 10, 40, 43, 100]) + digs
        elif c < 0.7:
            k = r.randint(1, len(digs))
            ip, fp = digs[:k], digs[k:]
        else:                                       # an integer, possibly with trailing zeros: long texts
            ip, fp = digs + '0' * r.choice([0, 0, 0, 0, 1, 9, 30, 60]), ''
        out.append((ip, fp))
    return [(ip, fp) for ip, fp in out if ip or fp]


def literal_section(ctx, hist):
    """FEEL literals, typed input texts (xsd:decimal / xsd:integer / xsd:double) and FeelNumber::from_str on numerals of every length:
    the code's value against the independent oracle (exact up to 34 significant digits, correctly rounded beyond, null / Err on
    overflow) and the code's raw datum against the Coq reader model (C07/Literal.v literal_value / from_text)."""
    r = ctx.rng
    pairs = mantissas(ctx)
    # ------------------------------------------------ FEEL literals
    lits = [(ip + '.' + fp if fp else ip) if ip else '.' + fp for ip, fp in pairs]
    freqs = []
    for t in lits:
        freqs.append({'e': t})
        freqs.append({'e': 'string(-%s)' % t})
    fimpl = ctx.run_impl('feel', freqs)
    toks = [token_of(t) for t in lits]
    raw = ctx.run_impl('num', [{'op': 'sci', 'a': b + '.' + a} for b, a in toks])      # the text build_numeric hands to from_str
    small = [i for i, (b, a) in enumerate(toks) if sig_len(b, a) <= 400]
    mres = ctx.run_model(HEADER_LIT, ['literal_sci "%s" "%s"' % toks[i] for i in small], shard_size=max(20, len(small) // 16 + 1), tag='lit')
    model = dict(zip(small, mres))
    for i, t in enumerate(lits):
        ctx.evaluations += 1
        ctx.corr_checked += 1
        b, a = toks[i]
        sig = sig_len(b, a)
        want = oracle(b + '.' + a)
        exact_v = Decimal(b + '.' + a)
        cls = ('<34' if sig < 34 else '34' if sig == 34 else '35' if sig == 35 else '36' if sig == 36 else '>36') + (' digits' + (', text longer than 42 characters' if len(t) > 42 else ''))
        hist['literal ' + cls] = hist.get('literal ' + cls, 0) + 1
        ctx.nontrivial.add(('lit', min(sig, 37), len(t) > 42, bool(a), want is None, want is not None and want != exact_v))
        case = {'literal': t}
        lit, st = fimpl[2 * i], fimpl[2 * i + 1]
        v = lit.get('v') if isinstance(lit, dict) else None
        if 'v' not in lit:
            ctx.violation('FEEL literal %s is not evaluated: %s' % (t[:60], json.dumps(lit)[:100]), case, impl=lit)
            continue
        if want is None:
            if v is not None:
                ctx.violation('FEEL literal %s (beyond the range of numbers) evaluates to %s instead of null' % (t[:60], json.dumps(v)[:80]), case, impl=lit)
            continue
        if sig <= 34 and len(a) <= 6176 and want != exact_v:
            ctx.violation('oracle disagrees with C07_literal_exact_upto_34 on %s' % t[:60], case, model=str(want))
            continue
        if not isinstance(v, dict) or 'n' not in v:
            ctx.violation('FEEL literal %s does not evaluate to a number: %s' % (t[:60], json.dumps(lit)[:100]), case, impl=lit)
            continue
        if not same_value(v['n'], want) or not same_value(v['p'], want) or not PLAIN.match(v['p']):
            what = 'exactly the value it denotes' if want == exact_v else 'the correctly rounded value %s' % want
            ctx.violation('FEEL literal %s (%d significant digits) evaluates to %s, not to %s' % (t[:80], sig, v['n'], what), case, impl=v)
            continue
        sv = st.get('v')
        if not isinstance(sv, str) or not PLAIN.match(sv) or not same_value(sv, want.copy_negate()):
            ctx.violation('string(-%s) = %r is not the plain text of the value' % (t[:60], sv if not isinstance(sv, str) else sv[:80]), {'expression': 'string(-%s)' % t}, impl=st)
            continue
        if i in model:                               # the raw datum (coefficient and exponent, not only the value) against the reader model
            m = model[i]
            mt = m.args[0] if getattr(m, 'args', None) else None
            g = raw[i].get('r')
            if g in ('Infinity', '-Infinity'):
                g = None
            if g != mt:
                ctx.corr_broken('decQuadFromString(before.after) vs literal_value', {'numeral': (b + '.' + a)[:100]}, raw[i].get('r'), mt)
    # ------------------------------------------------ typed input data and from_str
    texts = []
    for ip, fp in pairs:
        sign = r.choice(['', '', '-', '-', '+'])
        form = r.random()
        if form < 0.55 or not ip:
            body, op = ((ip + '.' + fp) if fp or r.random() < 0.1 else ip) if ip else '.' + fp, r.choice(['xsd_decimal', 'xsd_decimal', 'xsd_double', 'parse'])
        elif form < 0.75:
            body, op = ip + fp, r.choice(['xsd_integer', 'xsd_integer', 'parse'])
        else:
            e = r.choice([0, 1, 3, -3, 10, -40, 41, 100, -6176 + len(fp), 6111, 6144 - len(ip), 6145 - len(ip), -6200, 7000]) if len(ip) + len(fp) < 100 else r.choice([0, 2, -5])
            body = (ip + ('.' + fp if fp else '')) if ip else '.' + fp
            body, op = body + r.choice(['E', 'e']) + (r.choice(['', '+']) if e >= 0 else '') + str(e), r.choice(['xsd_double', 'xsd_double', 'parse'])
        texts.append((op, sign + body))
    texts += [('xsd_decimal', '-12.50'), ('xsd_decimal', '+7'), ('xsd_decimal', '-.5'), ('xsd_decimal', '5.'), ('xsd_double', '1.5E3'), ('xsd_double', '-1.5e-3'), ('xsd_double', '0E3'),
              ('xsd_double', '1E6144'), ('xsd_double', '1E6145'), ('parse', '12345678901234567890123456789012345E-1'), ('xsd_double', '-0'), ('xsd_integer', '-000')]
    ximpl = ctx.run_impl('num', [{'op': op, 'a': t} for op, t in texts])
    xraw = ctx.run_impl('num', [{'op': 'sci', 'a': t} for _, t in texts])
    # the same valid texts again, in ONE process and one thread, each behind a text that is refused: reading a number must not depend on what was
    # read before (seeded change C07_e: a conversion status kept between calls made every text after a refused one "not a number")
    bads = ['12,5', 'abc', '', '1e', '--1', '1.2.3', ' 1', '1 ', '+', '.', 'NaN', 'Infinity', '1' + '0' * 6145, '0x10', '1_000']
    firstv = [i for i, x in enumerate(ximpl) if isinstance(x.get('r'), dict)][:ctx.pick(120, 600)]
    seq = []
    for k, i in enumerate(firstv):
        seq.append({'op': r.choice(['parse', 'xsd_decimal', 'xsd_double']), 'a': bads[k % len(bads)]})
        seq.append({'op': texts[i][0], 'a': texts[i][1]})
    again = ctx.run_impl('num', seq, shards=1)
    for k, i in enumerate(firstv):
        ctx.evaluations += 1
        b, v = again[2 * k], again[2 * k + 1]
        if isinstance(b.get('r'), dict) and bads[k % len(bads)] not in ('NaN', 'Infinity'):
            pass            # whether a malformed text is refused is the subject of the cases above; here only the valid text that follows counts
        if v.get('r') != ximpl[i].get('r'):
            ctx.violation('%s("%s") is answered %s when it is read right after the refused text %r, and %s otherwise: reading a number depends on what was read before'
                          % (texts[i][0], texts[i][1][:60], json.dumps(v)[:120], bads[k % len(bads)][:20], json.dumps(ximpl[i].get('r'))[:120]),
                          {'sequence': seq[2 * k:2 * k + 2]}, impl=v)
            break
    small = [i for i, (_, t) in enumerate(texts) if len(t.split('E')[0].split('e')[0].replace('.', '').lstrip('+-0')) <= 400 and abs(int(re.split('[eE]', t)[1]) if re.search('[eE]', t) else 0) <= 7000]
    mres = ctx.run_model(HEADER_LIT, ['from_text_sci "%s"' % texts[i][1] for i in small], shard_size=max(20, len(small) // 16 + 1), tag='txt')
    model = dict(zip(small, mres))
    for i, (op, t) in enumerate(texts):
        ctx.evaluations += 1
        ctx.corr_checked += 1
        want = oracle(t)
        mant = re.split('[eE]', t)[0].lstrip('+-')
        sig = len(mant.replace('.', '').lstrip('0'))
        hist['typed ' + op] = hist.get('typed ' + op, 0) + 1
        ctx.nontrivial.add(('txt', op, min(sig, 37), len(t) > 42, t[0] in '+-', 'e' in t.lower(), want is None))
        x = ximpl[i]
        req = {'op': op, 'a': t}
        g = x.get('r')
        if want is None:
            if x.get('err') != 'parse':
                ctx.violation('%s("%s") beyond the range of numbers is not refused: %s' % (op, t[:60], json.dumps(x)[:100]), req, impl=x)
            continue
        if not isinstance(g, dict):
            ctx.violation('%s("%s") is not accepted: %s' % (op, t[:60], json.dumps(x)[:100]), req, impl=x)
            continue
        if not same_value(g['n'], want) or law_failure(g['p'], g['j'], g['rb'], want):
            exact_here = sig <= 34 and want == Decimal(t)
            ctx.violation('%s("%s") (%d significant digits) gives %s, printed %s, not %s' % (op, t[:80], sig, g['n'], g['p'][:60], 'the value it denotes' if exact_here else 'the correctly rounded value %s' % want), req, impl=g)
            continue
        if Decimal(g['n']).is_signed() != want.is_signed() and want != 0:
            ctx.violation('%s("%s") has the wrong sign: %s' % (op, t[:60], g['n']), req, impl=g)
            continue
        if i in model:
            m = model[i]
            mt = m.args[0] if getattr(m, 'args', None) else None
            gr = xraw[i].get('r')
            if gr in ('Infinity', '-Infinity'):
                gr = None
            if gr != mt:
                ctx.corr_broken('decQuadFromString vs from_text', {'numeral': t[:100]}, xraw[i].get('r'), mt)


def run(ctx):
    ctx.proof_gate()
    from props.c02 import refresh_c_kernel
    refresh_c_kernel()
    ctx.build_harness()
    r = ctx.rng
    # ---------------------------------------------------------------- 1. every (sign, coefficient, exponent) class through from_string
    cs = coefficients(ctx, ctx.pick(10, 12))
    es = exponents(ctx)
    cases = []
    for e in es:
        for c in (cs if -60 <= e <= 60 else r.sample(cs[:12], 3) + r.sample(cs[12:], ctx.pick(5, 3))):
            for s in ((False, True) if c % 3 != 1 or ctx.quick else (r.random() < 0.5,)):
                cases.append((s, c, e))
    corpus = [(True, 15, -8), (True, 1, -7), (False, 0, 3), (True, 0, 3), (True, 0, -2), (False, 1, 6111), (True, 10 ** 34 - 1, 6111), (True, 10 ** 34 - 1, -6176)]
    cases = corpus + cases
    reqs = []
    for s, c, e in cases:
        t = dec_text(s, c, e)
        reqs.append({'op': 'from_string', 'a': t})
        reqs.append({'op': 'sci', 'a': t})
    impl = ctx.run_impl('num', reqs)
    model = ctx.run_model(HEADER, [MODEL_TERM % (dec_coq(*k), dec_coq(*k)) for k in cases], shard_size=max(50, len(cases) // 16 + 1))
    hist = {}
    printed = [(impl[2 * i].get('r') or {}).get('p') if isinstance(impl[2 * i].get('r'), dict) else None for i in range(len(cases))]
    for i, k in enumerate(cases):
        s, c, e = k
        got, sci = impl[2 * i], impl[2 * i + 1]
        m_sci, m_print = model[i]
        m_sci, m_print = unrle(m_sci), unrle(m_print)
        ctx.evaluations += 1
        nd = len(str(c))
        branch = ('E+' if e > 0 else ('E-' if nd + e < -5 else ('int' if e == 0 else ('split' if nd + e > 0 else '0.'))))
        key = (s, nd if nd in (1, 2, 33, 34) else 17, c % 10 == 0, c == 0, branch)
        ctx.nontrivial.add(key)
        hist[branch] = hist.get(branch, 0) + 1
        case = {'operand': dec_text(s, c, e), 'sign': s, 'coefficient': str(c), 'exponent': e}
        if 'r' not in got or not isinstance(got['r'], dict):
            ctx.violation('FeelNumber::from_string/to_string crashed or returned no number: %s' % json.dumps(got)[:200], case, impl=got)
            continue
        g = got['r']
        d = exact(s, c, e)
        lf = law_failure(g['p'], g['j'], g['rb'], d)
        ctx.corr_checked += 1
        if lf:
            kind, text = lf
            ctx.violation(text, case, impl=g, model=m_print)
            continue
        if not same_value(g['n'], d):
            ctx.violation('Debug text %r does not denote the value %s' % (g['n'], d), case, impl=g)
            continue
        if sci.get('r') != m_sci:
            ctx.corr_broken('decQuadToString vs to_sci', case, sci.get('r'), m_sci)
        elif g['p'] != m_print or g['j'] != m_print:
            ctx.corr_broken('Display/jsonify vs print', case, [g['p'][:100], g['j'][:100]], (m_print or 'None')[:100])
        elif len(ctx.samples) < 4 and branch in ('E-', 'E+') and s and len(g['p']) < 60:
            ctx.sample({'operand': case['operand'], 'scientific': m_sci, 'printed': g['p']})
    # ---------------------------------------------------------------- 1b. the reader: from_str on the printed text
    read_back_section(ctx, cases, printed, hist)
    # ---------------------------------------------------------------- 2. results of arithmetic print as plain text of their value
    ops = ['add', 'sub', 'mul', 'div', 'neg', 'abs', 'round', 'floor', 'ceiling', 'sqrt', 'rem']
    areqs = []
    for _ in range(ctx.pick(1500, 40000)):
        op = r.choice(ops)
        s1, c1, e1 = r.choice(cases)
        s2, c2, e2 = r.choice(cases)
        if r.random() < 0.7:
            e1 = r.randint(-40, 40)
            e2 = r.randint(-40, 40)
        b = dec_text(s2, c2, e2) if op != 'round' else str(r.randint(-40, 40))
        areqs.append({'op': op, 'a': dec_text(s1, c1, e1), 'b': b})
    aimpl = ctx.run_impl('num', areqs)
    for q, got in zip(areqs, aimpl):
        ctx.evaluations += 1
        g = got.get('r')
        if g is None and 'r' in got:
            continue   # None from sqrt of a negative number
        if not isinstance(g, dict):
            ctx.violation('arithmetic crashed: %s' % json.dumps(got)[:200], q, impl=got)
            continue
        if g['n'] in ('Infinity', '-Infinity', 'NaN', '-NaN', 'sNaN'):
            continue   # non-finite results are the subject of C02, not of printing
        d = Decimal(g['n'])
        lf = law_failure(g['p'], g['j'], g['rb'], d)
        ctx.corr_checked += 1
        hist['arith'] = hist.get('arith', 0) + 1
        if lf:
            ctx.violation('result of %s: %s' % (q['op'], lf[1]), q, impl=g)
    # ---------------------------------------------------------------- 3. literals in FEEL text, string(), typed input data, from_str
    literal_section(ctx, hist)
    return ctx.finish(
        rule='finite decimal128 data (sign x coefficient shapes of 1..34 digits with and without trailing zeros, zero x exponents: %s) built with '
             'FeelNumber::from_string; Display, jsonify, Debug, decQuadToString text and from_str read-back compared with the model and checked '
             'against the exact value; plus results of random arithmetic.  Read-back: the raw datum decQuadFromString builds from every printed text is compared with `reread` (C07_read_back_datum), '
             'with the Coq reader model read_back on texts up to 90 characters plus long ones (41..2000 digits), and from_plain with the code on plain numerals of 1..60 digits '
             'that need rounding (ties, all nines, subnormal); a numeral beyond the range is refused.  LITERALS AND TYPED INPUT: numerals of 1..34 significant digits, of exactly 34, 35 and 36 and of more '
             '(exact ties behind the 34th digit with both parities, near-ties 49.. / 50..1, all nines, carries), with up to 100 leading zeros behind the point and up to 60 trailing zeros (texts far longer than 42 characters), '
             'the borders of the range (1E-6176, underflow to zero, 9.99..E6144, overflow), as FEEL literals (also under string(-x)), as xsd:decimal / xsd:integer / xsd:double texts with signs and exponent parts and through from_str: '
             'the value against an independent decimal128 oracle (CPython decimal, precision 34, half-even: exact up to 34 digits, correctly rounded beyond, null / Err on overflow) and the raw datum '
             '(coefficient and exponent) against the Coq reader model literal_value / from_text.  non-trivial = distinct (sign, length class, trailing zero, zero, notation branch) resp. '
             '(path, significant-digit class, longer than 42 characters, sign, exponent part, overflow)' % (
                 'boundary bands and random' if ctx.quick else 'every exponent -6176..6111'),
        extra_cov={'exhaustive': False, 'branch_histogram': hist, 'grid_cases': len(cases)},
        assumptions=['decQuadFromString builds exactly the datum written in the operand text (checked through the independent Debug text and read-back)',
                     'exactness is judged with CPython decimal comparisons (exact, context-free); correct rounding of numerals with more than 34 digits with a CPython decimal context (IEEE decimal128 parameters)',
                     'C07_literal_exact_upto_34 needs at most 6176 fraction digits: a literal below the smallest quantum 1E-6176 is rounded (to zero or to the subnormal grid) like every decimal128 result (C07_literal_underflow_refuted; generated)'],
        trusted=['decNumber C library (decQuadToString / decQuadFromString): modelled by to_sci and from_plain / from_text (= all digits, exponent, then round34), sampled']
    )


def replay(ctx, path):
    obj = json.load(open(path))
    case = obj['case']
    ctx.build_harness()
    if 'operand' in case:
        got = ctx.run_impl('num', [{'op': 'from_string', 'a': case['operand']}, {'op': 'sci', 'a': case['operand']}])
        k = (case['sign'], int(case['coefficient']), case['exponent'])
        m = ctx.run_model(HEADER, [MODEL_TERM % (dec_coq(*k), dec_coq(*k))])[0]
        m = (unrle(m[0]), unrle(m[1]))
        print('operand        :', case['operand'])
        print('implementation :', json.dumps(got)[:400])
        print('model          :', str(m)[:400])
        g = got[0].get('r')
        fail = (not isinstance(g, dict)) or law_failure(g['p'], g['j'], g['rb'], exact(*k)) or g['p'] != m[1]
    elif 'op' in case:
        got = ctx.run_impl('num', [case])[0]
        print('request        :', json.dumps(case))
        print('implementation :', json.dumps(got)[:400])
        g = got.get('r')
        fail = not isinstance(g, dict) or (g['n'] not in ('Infinity', '-Infinity', 'NaN') and law_failure(g['p'], g['j'], g['rb'], Decimal(g['n'])))
    else:
        e = case.get('expression') or case['literal']
        got = ctx.run_impl('feel', [{'e': e}])[0]
        print('expression     :', e[:200])
        print('implementation :', json.dumps(got)[:400])
        v = got.get('v')
        if 'literal' in case:
            d = Decimal('0' + case['literal'])
            fail = not isinstance(v, dict) or not same_value(v.get('n'), d) or not same_value(v.get('p'), d)
        else:
            fail = not isinstance(v, str) or not PLAIN.match(v)
    print('REPRODUCED' if fail else 'not reproduced')
    return 1 if fail else 0


MANIFEST = dict(
    technique='Coq proof (case analysis over the notation branches, for every sign, coefficient and exponent; the reader as ONE correct rounding of the denoted value) with model/code correspondence',
    text='Theorems (coq/Props/C07.v, closed under the global context). PRINTING, for every sign, every coefficient and every exponent: the printed text is '
         'produced without trap, is `-?digits(.digits)?` without exponent and denotes exactly the value (C07_plain_exact, C07_no_underflow, C07_print_render); it is a JSON number by the grammar of RFC 8259 section 6 written as an inductive '
         'predicate of its own, with the same value (C07_json_number_valid; C07_json_grammar_examples: the grammar rejects 0000, 0.000000-15, .5, 5., +1, 01). '
         'LITERALS: a numeral (sign, integer digits, fraction digits, exponent part) DENOTES the value given by positional weights (text_num / 10^text_scale, defined without the reader); the reader takes exactly that value and rounds it once '
         '(C07_reader_takes_the_denoted_value). For every FEEL literal before.after (digits only, before not empty; C07_literal_lexer_token ties before/after to the characters of the source text through the lexer model of C06) '
         'with AT MOST 34 SIGNIFICANT DIGITS (leading zeros not counted) AND AT MOST 6176 FRACTION DIGITS the evaluator\'s number is the datum (all digits, minus the number of fraction digits): exactly the denoted value, nothing rounded or normalised '
         '(C07_literal_exact_upto_34); for ANY number of digits it is THE correctly rounded decimal128 value in the sense of C02 (correctly_rounded: nearest, ties to even, subnormal grid, clamping), and the literal is null exactly when the value reaches '
         'the overflow threshold (C07_literal_rounded_beyond_34, C07_literal_token_value, C07_numeral_nearest_even in integers). The hypothesis on the fraction digits is needed: 0.<6176 zeros>1 has one significant digit and is read as 0 '
         '(C07_literal_underflow_refuted; decimal128 has no quantum below 1E-6176 — a limit of the sentence of the property, not of the code). The same for TYPED INPUT DATA and from_str: every text spelled sign? (digits [. digits*] | . digits+) ([eE] sign? digits+)? '
         '(xsd:integer, xsd:decimal, finite xsd:double) is parsed as the numeral it spells (C07_text_grammar) and read exactly (C07_text_exact_upto_34: at most 34 significant digits and written exponent within -6176..6111; C07_text_exact_wide: clamped exponents) '
         'or correctly rounded (C07_text_rounded_beyond_34). READ-BACK (C07_read_back): for every decimal128 datum the printed text, read by the model '
         'of from_str (C07_reader_is_text_reader: the same reader), gives a datum of the same sign and exactly the same value — unchanged when the exponent is not positive, '
         'and for longer texts (positive exponent, up to 6145 digits) only appended zeros are dropped (C07_read_back_short / _long / _datum); the behaviour of the original '
         'function is refuted on two classes. The models (decQuadToString as to-scientific-string + a transliteration of scientific_to_plain; decQuadFromString + finite test as all digits / exponent / one round34) are tied '
         'to the code by comparing Display, jsonify, the raw scientific text and the raw datum read from printed texts, FEEL literals and typed input texts of 1..50 significant digits (exactly 34, 35, 36; ties; texts longer than 42 characters), and the laws '
         'are evaluated on the implementation output against exact and correctly rounded values computed independently.',
    note='C07_reader_is_denotes_then_round_def is definitional (marked _def). Trusted: Coq kernel + vm_compute, hand-written model (correspondence-checked), decNumber string conversion (sampled, not verified), CPython decimal for exact comparison and as decimal128 rounding oracle, harness. '
         'Outside the reader model: Inf / NaN / sNaN texts (refused by from_str: checked by sampling only), exponent parts of more than a few digits are modelled mathematically (any Z) but sampled up to 7000.')
