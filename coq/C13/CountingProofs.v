(* C13 — the push / pop discipline of the evaluator, construct by construct, on the counting machine of C13/Counting.v:
   every_path_balanced (one layer over ANY balanced evaluator of the sub-expressions: whatever they return),
   run_counting_balanced (all expressions, all fuels), counting_is_run (the instrumented machine is the machine of C01/Impl.v),
   and the witnesses: each seeded placement breaks the discipline on an error path and only there. *)
From Coq Require Import List ZArith NArith Bool Lia.
From DV Require Import C01.Syntax C01.Spec C01.Impl C13.Counting.
Import ListNotations.
Open Scope Z_scope.

(* ---------------- the algebra of balanced runs ---------------- *)
Lemma bal_refl st : balanced st st.
Proof. exists 0%nat. repeat split; lia. Qed.

Lemma bal_trans a b c : balanced a b -> balanced b c -> balanced a c.
Proof.
  intros (k1 & P1 & Q1 & S1) (k2 & P2 & Q2 & S2). exists (k1 + k2)%nat.
  repeat split; [lia | lia | congruence].
Qed.

(* st1 is inside a context pushed on st: one more push than pops, the stack of st under one context *)
Definition inside (st st1 : cstate) : Prop :=
  exists k c, pushes st1 = Datatypes.S (pushes st + k) /\ pops st1 = (pops st + k)%nat /\ stk st1 = c :: stk st.

Lemma inside_push c st : inside st (cpush c st).
Proof. exists 0%nat, c. cbn. repeat split; lia. Qed.

Lemma inside_bal st a b : inside st a -> balanced a b -> inside st b.
Proof.
  intros (k & c & P & Q & S) (k2 & P2 & Q2 & S2). exists (k + k2)%nat, c.
  repeat split; [lia | lia | congruence].
Qed.

Lemma inside_set_top st a k v : inside st a -> inside st (cset_top k v a).
Proof.
  intros (n & c & P & Q & S). exists n, (ctx_set k v c). cbn [cset_top pushes pops stk]. rewrite S. cbn [set_top]. auto.
Qed.

Lemma inside_pop st a : inside st a -> balanced st (cpop a).
Proof.
  intros (k & c & P & Q & S). exists (Datatypes.S k). cbn [cpop pushes pops stk]. rewrite S. unfold pop. cbn [tl].
  repeat split; lia.
Qed.

Lemma bal_push_pop c st st1 : balanced (cpush c st) st1 -> balanced st (cpop st1).
Proof. intros H. apply inside_pop. eapply inside_bal; [apply inside_push | exact H]. Qed.

Lemma cthread_bal {A B : Type} (g : cstate -> A -> B * cstate) :
  (forall st a, balanced st (snd (g st a))) -> forall l st, balanced st (snd (cthread g st l)).
Proof.
  intros Hg. induction l as [|a l IH]; intros st; cbn [cthread]; [apply bal_refl|].
  pose proof (Hg st a) as H1. destruct (g st a) as [b st1]. cbn [snd] in H1.
  pose proof (IH st1) as H2. destruct (cthread g st1 l) as [bs st2]. cbn [snd] in *.
  eapply bal_trans; eassumption.
Qed.

Section Discipline.
Variable cartf : list (N * list value) -> list ctx.
Variable r : cstate -> expr -> value * cstate.
Hypothesis Hr : Balanced r.

Lemma ctest_bal st t : balanced st (snd (ctest_run r st t)).
Proof.
  destruct t as [e|o e|lo lc hi hc]; cbn [ctest_run].
  - apply Hr.
  - pose proof (Hr st e) as H. destruct (r st e) as [v st1]. exact H.
  - pose proof (Hr st lo) as H1. destruct (r st lo) as [a st1]. cbn [snd] in H1.
    pose proof (Hr st1 hi) as H2. destruct (r st1 hi) as [b st2]. cbn [snd] in *. eapply bal_trans; eassumption.
Qed.

Lemma cdom_bal st nd : balanced st (snd (cdom_run r st nd)).
Proof.
  unfold cdom_run. destruct (snd nd) as [e|lo hi].
  - pose proof (Hr st e) as H. destruct (r st e) as [v st1]. exact H.
  - pose proof (Hr st lo) as H1. destruct (r st lo) as [a st1]. cbn [snd] in H1.
    pose proof (Hr st1 hi) as H2. destruct (r st1 hi) as [b st2]. cbn [snd] in *. eapply bal_trans; eassumption.
Qed.

Lemma named_bal {K : Type} (g : K * expr -> K) (h : K -> value -> K * value) st ne :
  balanced st (snd (let (v, st'') := r st (snd ne) in (h (g ne) v, st''))).
Proof. pose proof (Hr st (snd ne)) as H. destruct (r st (snd ne)) as [v st1]. exact H. Qed.

(* context literal: the entries are evaluated and stored INSIDE the context the construct pushed *)
Lemma ctx_fold_inside st es : forall acc st0, inside st st0 ->
  inside st (snd (fold_left (fun (a : ctx * cstate) (ke : N * expr) =>
                     let (v, st') := r (snd a) (snd ke) in (ctx_set (fst ke) v (fst a), cset_top (fst ke) v st')) es (acc, st0))).
Proof.
  induction es as [|ke es IH]; intros acc st0 Hin; cbn [fold_left snd fst]; [exact Hin|].
  pose proof (Hr st0 (snd ke)) as H. destruct (r st0 (snd ke)) as [v st1]. cbn [snd] in H.
  apply IH. apply inside_set_top. eapply inside_bal; eassumption.
Qed.

(* for: one push and one pop per tuple *)
Lemma for_fold_bal body ts : forall acc st0,
  balanced st0 (snd (fold_left (fun (a : list value * cstate) t =>
                        let (v, st') := r (cpush (ctx_set n_partial (VList (fst a)) t) (snd a)) body in
                        (fst a ++ [v], cpop st')) ts (acc, st0))).
Proof.
  induction ts as [|t ts IH]; intros acc st0; cbn [fold_left fst snd]; [apply bal_refl|].
  pose proof (Hr (cpush (ctx_set n_partial (VList acc) t) st0) body) as H.
  destruct (r (cpush (ctx_set n_partial (VList acc) t) st0) body) as [v st1]. cbn [snd] in H.
  eapply bal_trans; [apply (bal_push_pop _ _ _ H) | apply IH].
Qed.

(* function invocation, the placement of the code: nothing is pushed unless every formal name has its argument *)
Lemma cinvoke_bal ps body bound on_scope st : balanced st (snd (cinvoke code r ps body bound on_scope st)).
Proof.
  unfold cinvoke. cbn [v_args_on_scope code]. destruct bound as [c|]; [|apply bal_refl].
  pose proof (Hr (cpush c st) body) as H. destruct (r (cpush c st) body) as [res st1]. cbn [snd] in *.
  apply (bal_push_pop _ _ _ H).
Qed.

(* THE DISCIPLINE, construct by construct: one layer of the evaluator over any balanced evaluator of the sub-expressions
   makes as many pops as pushes and ends on the stack it started with - for every construct and whatever the sub-evaluations
   return (r is arbitrary: null conditions, non-boolean conditions, poisoned values, too few arguments, empty and null domains,
   non-list filter operands, ... are all among its possible answers) *)
Theorem every_path_balanced : Balanced (cstep code cartf r).
Proof.
  intros st e. destruct e; cbn [cstep]; try apply bal_refl.
  - (* EBin *) pose proof (Hr st e1) as H1. destruct (r st e1) as [va st1]. cbn [snd] in H1.
    pose proof (Hr st1 e2) as H2. destruct (r st1 e2) as [vb st2]. cbn [snd] in *. eapply bal_trans; eassumption.
  - (* ENeg *) pose proof (Hr st e) as H1. destruct (r st e) as [va st1]. exact H1.
  - (* EIf: true, false, null, poisoned and any other condition *)
    pose proof (Hr st e1) as H1. destruct (r st e1) as [vc st1]. cbn [snd] in H1.
    destruct vc as [| [|] | | | | | | | |]; cbn [snd]; try exact H1;
      (eapply bal_trans; [exact H1 | apply Hr]).
  - (* EBetween *) pose proof (Hr st e1) as H1. destruct (r st e1) as [vx st1]. cbn [snd] in H1.
    pose proof (Hr st1 e2) as H2. destruct (r st1 e2) as [vl st2]. cbn [snd] in H2.
    pose proof (Hr st2 e3) as H3. destruct (r st2 e3) as [vh st3]. cbn [snd] in *.
    eapply bal_trans; [eapply bal_trans|]; eassumption.
  - (* EIn *) pose proof (Hr st e) as H1. destruct (r st e) as [vx st1]. cbn [snd] in H1.
    pose proof (cthread_bal (ctest_run r) (fun s t => ctest_bal s t) ts st1) as H2.
    destruct (cthread (ctest_run r) st1 ts) as [vts st2]. cbn [snd] in *. eapply bal_trans; eassumption.
  - (* EInList *) pose proof (Hr st e1) as H1. destruct (r st e1) as [vx st1]. cbn [snd] in H1.
    pose proof (Hr st1 e2) as H2. destruct (r st1 e2) as [vl st2]. cbn [snd] in *. eapply bal_trans; eassumption.
  - (* EList *) pose proof (cthread_bal r Hr es st) as H. destruct (cthread r st es) as [vs st1]. exact H.
  - (* ECtx *) match goal with |- context [fold_left ?g es ?i] => destruct (fold_left g es i) as [acc st1] eqn:E end.
    cbn [snd]. apply inside_pop. change st1 with (snd (acc, st1)). rewrite <- E. apply ctx_fold_inside, inside_push.
  - (* EPath *) pose proof (Hr st e) as H1. destruct (r st e) as [v st1]. exact H1.
  - (* EFilter: list (elements that are contexts with / without an item entry, other elements), scalar, poisoned, other *)
    pose proof (Hr st e1) as H1. destruct (r st e1) as [v st1]. cbn [snd] in H1.
    destruct v as [| | | |items| | | | |]; cbn [snd]; try exact H1;
      try (pose proof (Hr st1 e2) as H2; destruct (r st1 e2) as [outer st2]; cbn [snd] in *; eapply bal_trans; eassumption).
    match goal with |- context [cthread ?g st1 items] => set (g0 := g) end.
    assert (Hg : forall s a, balanced s (snd (g0 s a))).
    { intros s a. unfold g0. cbn [v_filter_nested_pop code].
      destruct a as [| | | | |c| | | |];
        try (match goal with |- context [r ?s' e2] => pose proof (Hr s' e2) as H; destruct (r s' e2) as [res s3] end;
             cbn [snd] in *; apply (bal_push_pop _ _ _ H)).
      destruct (ctx_get n_item c).
      - match goal with |- context [r ?s' e2] => pose proof (Hr s' e2) as H; destruct (r s' e2) as [res s3] end.
        cbn [snd] in *. apply (bal_push_pop _ _ _ H).
      - match goal with |- context [r ?s' e2] => pose proof (Hr s' e2) as H; destruct (r s' e2) as [res s3] end.
        cbn [snd] in *. apply (bal_push_pop c). apply (bal_push_pop _ _ _ H). }
    pose proof (cthread_bal g0 Hg items st1) as H2. destruct (cthread g0 st1 items) as [rs st2]. cbn [snd] in H2.
    pose proof (Hr st2 e2) as H3. destruct (r st2 e2) as [outer st4]. cbn [snd] in *.
    eapply bal_trans; [eapply bal_trans|]; eassumption.
  - (* EFor: poisoned domain, no domain, tuples *)
    pose proof (cthread_bal (cdom_run r) (fun s nd => cdom_bal s nd) ds st) as H1.
    destruct (cthread (cdom_run r) st ds) as [dl st1]. cbn [snd] in H1.
    destruct (existsb _ dl); [exact H1|].
    destruct (flat_map _ dl) as [|d0 doms]; [exact H1|].
    match goal with |- context [fold_left ?g (cartf (d0 :: doms)) ?i] => destruct (fold_left g (cartf (d0 :: doms)) i) as [acc st2] eqn:E end.
    cbn [snd]. eapply bal_trans; [exact H1|]. change st2 with (snd (acc, st2)). rewrite <- E. apply for_fold_bal.
  - (* ESome *)
    match goal with |- context [cthread ?g st ds] => set (g1 := g) end.
    assert (Hg1 : forall s a, balanced s (snd (g1 s a))).
    { intros s a. unfold g1. pose proof (Hr s (snd a)) as H. destruct (r s (snd a)) as [v s1]. exact H. }
    pose proof (cthread_bal g1 Hg1 ds st) as H1. destruct (cthread g1 st ds) as [dl st1]. cbn [snd] in H1.
    match goal with |- context [cthread ?g st1 (cartf dl)] => set (g2 := g) end.
    assert (Hg2 : forall s a, balanced s (snd (g2 s a))).
    { intros s a. unfold g2. pose proof (Hr (cpush a s) e) as H. destruct (r (cpush a s) e) as [v s1]. cbn [snd] in *.
      apply (bal_push_pop _ _ _ H). }
    pose proof (cthread_bal g2 Hg2 (cartf dl) st1) as H2. destruct (cthread g2 st1 (cartf dl)) as [rs st2]. cbn [snd] in *.
    eapply bal_trans; eassumption.
  - (* EEvery: boolean and non-boolean body values alike *)
    match goal with |- context [cthread ?g st ds] => set (g1 := g) end.
    assert (Hg1 : forall s a, balanced s (snd (g1 s a))).
    { intros s a. unfold g1. pose proof (Hr s (snd a)) as H. destruct (r s (snd a)) as [v s1]. exact H. }
    pose proof (cthread_bal g1 Hg1 ds st) as H1. destruct (cthread g1 st ds) as [dl st1]. cbn [snd] in H1.
    match goal with |- context [cthread ?g st1 (cartf dl)] => set (g2 := g) end.
    assert (Hg2 : forall s a, balanced s (snd (g2 s a))).
    { intros s a. unfold g2. cbn [v_every_pop_on_bool code].
      pose proof (Hr (cpush a s) e) as H. destruct (r (cpush a s) e) as [v s1]. cbn [snd] in *.
      apply (bal_push_pop _ _ _ H). }
    pose proof (cthread_bal g2 Hg2 (cartf dl) st1) as H2. destruct (cthread g2 st1 (cartf dl)) as [rs st2]. cbn [snd] in *.
    eapply bal_trans; eassumption.
  - (* ECall: a function value (enough / too few arguments), poisoned, anything else *)
    pose proof (Hr st e) as H1. destruct (r st e) as [vf st1]. cbn [snd] in H1.
    pose proof (cthread_bal r Hr args st1) as H2. destruct (cthread r st1 args) as [vs st2]. cbn [snd] in H2.
    assert (H12 : balanced st st2) by (eapply bal_trans; eassumption).
    destruct vf as [| | | | | | | |ps body|]; cbn [snd]; try exact H12.
    eapply bal_trans; [exact H12 | apply cinvoke_bal].
  - (* ECallN *)
    pose proof (Hr st e) as H1. destruct (r st e) as [vf st1]. cbn [snd] in H1.
    match goal with |- context [cthread ?g st1 args] => set (g1 := g) end.
    assert (Hg1 : forall s a, balanced s (snd (g1 s a))).
    { intros s a. unfold g1. pose proof (Hr s (snd a)) as H. destruct (r s (snd a)) as [v s1]. exact H. }
    pose proof (cthread_bal g1 Hg1 args st1) as H2. destruct (cthread g1 st1 args) as [nvs st2]. cbn [snd] in H2.
    assert (H12 : balanced st st2) by (eapply bal_trans; eassumption).
    destruct vf as [| | | | | | | |ps body|]; cbn [snd]; try exact H12.
    eapply bal_trans; [exact H12 | apply cinvoke_bal].
Qed.
End Discipline.

(* all expressions, all fuels, all starting states (the out-of-fuel answer pushes nothing) *)
Theorem run_counting_balanced cartf : forall f, Balanced (run_counting code cartf f).
Proof.
  induction f as [|f IH]; [intros st e; apply bal_refl|].
  intros st e. cbn [run_counting]. apply (every_path_balanced cartf (run_counting code cartf f) IH).
Qed.

Corollary run_counting_counts cartf f S e :
  let st' := snd (run_counting code cartf f (cstart S) e) in pushes st' = pops st' /\ stk st' = S.
Proof.
  cbv zeta. destruct (run_counting_balanced cartf f (cstart S) e) as (k & P & Q & St). cbn [cstart pushes pops stk] in *.
  split; [lia | exact St].
Qed.

(* ---------------- the instrumented machine is the machine of C01/Impl.v ---------------- *)
Section Erase.
Variable cartf : list (N * list value) -> list ctx.

Lemma thread_erase {A B : Type} (g : stack -> A -> B * stack) (cg : cstate -> A -> B * cstate) :
  (forall st a, g (stk st) a = (fst (cg st a), stk (snd (cg st a)))) ->
  forall l st, thread g (stk st) l = (fst (cthread cg st l), stk (snd (cthread cg st l))).
Proof.
  intros H. induction l as [|a l IH]; intros st; cbn [thread cthread]; [reflexivity|].
  rewrite H. destruct (cg st a) as [b st1]. cbn [fst snd]. rewrite IH. destruct (cthread cg st1 l) as [bs st2]. reflexivity.
Qed.

Theorem counting_is_run : forall f st e,
  run cartf f (stk st) e = (fst (run_counting code cartf f st e), stk (snd (run_counting code cartf f st e))).
Proof.
  induction f as [|f IH]; intros st e; [reflexivity|].
  set (rc := run_counting code cartf f) in *.
  assert (Hthr : forall l st, thread (run cartf f) (stk st) l = (fst (cthread rc st l), stk (snd (cthread rc st l)))).
  { apply thread_erase. intros s a. apply IH. }
  destruct e; cbn [run run_counting cstep]; fold rc; try reflexivity.
  - (* EBin *) rewrite IH. destruct (rc st e1) as [va st1]. cbn [fst snd]. rewrite IH. destruct (rc st1 e2) as [vb st2]. reflexivity.
  - rewrite IH. destruct (rc st e) as [va st1]. reflexivity.
  - (* EIf *) rewrite IH. destruct (rc st e1) as [vc st1]. cbn [fst snd].
    destruct vc as [| [|] | | | | | | | |]; try reflexivity; rewrite IH; destruct (rc st1 _); reflexivity.
  - rewrite IH. destruct (rc st e1) as [vx st1]. cbn [fst snd]. rewrite IH. destruct (rc st1 e2) as [vl st2]. cbn [fst snd].
    rewrite IH. destruct (rc st2 e3) as [vh st3]. reflexivity.
  - (* EIn *) rewrite IH. destruct (rc st e) as [vx st1]. cbn [fst snd].
    rewrite (thread_erase (test_run (run cartf f)) (ctest_run rc)).
    + destruct (cthread (ctest_run rc) st1 ts) as [vts st2]. reflexivity.
    + intros s t. destruct t as [x|o x|lo lc hi hc]; cbn [test_run ctest_run].
      * apply IH.
      * rewrite IH. destruct (rc s x). reflexivity.
      * rewrite IH. destruct (rc s lo) as [a s1]. cbn [fst snd]. rewrite IH. destruct (rc s1 hi). reflexivity.
  - rewrite IH. destruct (rc st e1) as [vx st1]. cbn [fst snd]. rewrite IH. destruct (rc st1 e2) as [vl st2]. reflexivity.
  - (* EList *) rewrite Hthr. destruct (cthread rc st es) as [vs st1]. reflexivity.
  - (* ECtx *)
    assert (Hfold : forall es acc s0,
      fold_left (fun (a : ctx * stack) ke => let (v, S') := run cartf f (snd a) (snd ke) in (ctx_set (fst ke) v (fst a), set_top (fst ke) v S')) es (acc, stk s0) =
      (fst (fold_left (fun (a : ctx * cstate) ke => let (v, st') := rc (snd a) (snd ke) in (ctx_set (fst ke) v (fst a), cset_top (fst ke) v st')) es (acc, s0)),
       stk (snd (fold_left (fun (a : ctx * cstate) ke => let (v, st') := rc (snd a) (snd ke) in (ctx_set (fst ke) v (fst a), cset_top (fst ke) v st')) es (acc, s0))))).
    { induction es0 as [|ke es0 IHes]; intros acc s0; cbn [fold_left fst snd]; [reflexivity|].
      rewrite IH. destruct (rc s0 (snd ke)) as [v s1]. cbn [fst snd].
      change (set_top (fst ke) v (stk s1)) with (stk (cset_top (fst ke) v s1)). apply IHes. }
    change (push [] (stk st)) with (stk (cpush [] st)). rewrite Hfold.
    match goal with |- _ = (fst (let (a, b) := ?x in _), _) => destruct x as [acc st1] eqn:EF end.
    try match goal with |- (VCtx (fst ?L), _) = _ => replace L with (acc, st1) by (symmetry; exact EF) end. reflexivity.
  - rewrite IH. destruct (rc st e) as [v st1]. reflexivity.
  - (* EFilter *) rewrite IH. destruct (rc st e1) as [v st1]. cbn [fst snd].
    destruct v as [| | | |items| | | | |]; try reflexivity;
      try (rewrite IH; destruct (rc st1 e2) as [outer st2]; reflexivity).
    match goal with |- context [cthread ?g st1 items] => set (cg := g) end.
    match goal with |- context [thread ?g (stk st1) items] => set (g0 := g) end.
    rewrite (thread_erase g0 cg).
    + destruct (cthread cg st1 items) as [rs st2]. cbn [fst snd]. rewrite IH. destruct (rc st2 e2) as [outer st4]. reflexivity.
    + intros s a. unfold g0, cg. cbn [v_filter_nested_pop code].
      destruct a as [| | | | |c| | | |];
        try (change (push ?c (stk s)) with (stk (cpush c s)); rewrite IH;
             match goal with |- context [rc ?s' e2] => destruct (rc s' e2) as [res s3] end; reflexivity).
      destruct (ctx_get n_item c).
      * change (push c (stk s)) with (stk (cpush c s)). rewrite IH.
        destruct (rc (cpush c s) e2) as [res s3]. reflexivity.
      * change (push [(n_item, VCtx c)] (push c (stk s))) with (stk (cpush [(n_item, VCtx c)] (cpush c s))). rewrite IH.
        destruct (rc (cpush [(n_item, VCtx c)] (cpush c s)) e2) as [res s3]. reflexivity.
  - (* EFor *)
    rewrite (thread_erase (dom_run (run cartf f)) (cdom_run rc)).
    + destruct (cthread (cdom_run rc) st ds) as [dl st1]. cbn [fst snd].
      destruct (existsb _ dl); [reflexivity|]. destruct (flat_map _ dl) as [|d0 doms]; [reflexivity|].
      assert (Hfold : forall ts acc s0,
        fold_left (fun (a : list value * stack) t => let (v, S') := run cartf f (push (ctx_set n_partial (VList (fst a)) t) (snd a)) e in (fst a ++ [v], pop S')) ts (acc, stk s0) =
        (fst (fold_left (fun (a : list value * cstate) t => let (v, st') := rc (cpush (ctx_set n_partial (VList (fst a)) t) (snd a)) e in (fst a ++ [v], cpop st')) ts (acc, s0)),
         stk (snd (fold_left (fun (a : list value * cstate) t => let (v, st') := rc (cpush (ctx_set n_partial (VList (fst a)) t) (snd a)) e in (fst a ++ [v], cpop st')) ts (acc, s0))))).
      { induction ts as [|t ts IHts]; intros acc s0; cbn [fold_left fst snd]; [reflexivity|].
        change (push (ctx_set n_partial (VList acc) t) (stk s0)) with (stk (cpush (ctx_set n_partial (VList acc) t) s0)).
        rewrite IH. destruct (rc (cpush (ctx_set n_partial (VList acc) t) s0) e) as [v s1]. cbn [fst snd].
        change (pop (stk s1)) with (stk (cpop s1)). apply IHts. }
      rewrite Hfold.
      match goal with |- _ = (fst (let (a, b) := ?x in _), _) => destruct x as [acc st2] eqn:EF end.
      try match goal with |- (VList (fst ?L), _) = _ => replace L with (acc, st2) by (symmetry; exact EF) end. reflexivity.
    + intros s nd. unfold dom_run, cdom_run. destruct (snd nd) as [x|lo hi].
      * rewrite IH. destruct (rc s x). reflexivity.
      * rewrite IH. destruct (rc s lo) as [a s1]. cbn [fst snd]. rewrite IH. destruct (rc s1 hi). reflexivity.
  - (* ESome *)
    match goal with |- context [cthread ?g st ds] => set (cg1 := g) end.
    match goal with |- context [thread ?g (stk st) ds] => set (g1 := g) end.
    rewrite (thread_erase g1 cg1) by (intros s a; unfold g1, cg1; rewrite IH; destruct (rc s (snd a)); reflexivity).
    destruct (cthread cg1 st ds) as [dl st1]. cbn [fst snd].
    match goal with |- context [cthread ?g st1 (cartf dl)] => set (cg2 := g) end.
    match goal with |- context [thread ?g (stk st1) (cartf dl)] => set (g2 := g) end.
    rewrite (thread_erase g2 cg2).
    + destruct (cthread cg2 st1 (cartf dl)) as [rs st2]. reflexivity.
    + intros s a. unfold g2, cg2. change (push a (stk s)) with (stk (cpush a s)). rewrite IH.
      destruct (rc (cpush a s) e) as [v s1]. reflexivity.
  - (* EEvery *)
    match goal with |- context [cthread ?g st ds] => set (cg1 := g) end.
    match goal with |- context [thread ?g (stk st) ds] => set (g1 := g) end.
    rewrite (thread_erase g1 cg1) by (intros s a; unfold g1, cg1; rewrite IH; destruct (rc s (snd a)); reflexivity).
    destruct (cthread cg1 st ds) as [dl st1]. cbn [fst snd].
    match goal with |- context [cthread ?g st1 (cartf dl)] => set (cg2 := g) end.
    match goal with |- context [thread ?g (stk st1) (cartf dl)] => set (g2 := g) end.
    rewrite (thread_erase g2 cg2).
    + destruct (cthread cg2 st1 (cartf dl)) as [rs st2]. reflexivity.
    + intros s a. unfold g2, cg2. cbn [v_every_pop_on_bool code]. change (push a (stk s)) with (stk (cpush a s)). rewrite IH.
      destruct (rc (cpush a s) e) as [v s1]. reflexivity.
  - (* ECall *) rewrite IH. destruct (rc st e) as [vf st1]. cbn [fst snd]. rewrite Hthr.
    destruct (cthread rc st1 args) as [vs st2]. cbn [fst snd].
    destruct vf as [| | | | | | | |ps body|]; try reflexivity.
    unfold cinvoke. cbn [v_args_on_scope code]. destruct (mk_args ps vs) as [c|]; [|reflexivity].
    change (push c (stk st2)) with (stk (cpush c st2)). rewrite IH. destruct (rc (cpush c st2) body) as [res st3]. reflexivity.
  - (* ECallN *) rewrite IH. destruct (rc st e) as [vf st1]. cbn [fst snd].
    match goal with |- context [cthread ?g st1 args] => set (cg1 := g) end.
    match goal with |- context [thread ?g (stk st1) args] => set (g1 := g) end.
    rewrite (thread_erase g1 cg1) by (intros s a; unfold g1, cg1; rewrite IH; destruct (rc s (snd a)); reflexivity).
    destruct (cthread cg1 st1 args) as [nvs st2]. cbn [fst snd].
    destruct vf as [| | | | | | | |ps body|]; try reflexivity.
    unfold cinvoke. cbn [v_args_on_scope code]. destruct (mk_named ps nvs []) as [c|]; [|reflexivity].
    change (push c (stk st2)) with (stk (cpush c st2)). rewrite IH. destruct (rc (cpush c st2) body) as [res st3]. reflexivity.
Qed.
End Erase.

(* the stack machine of C01/Impl.v leaves the stack it found BECAUSE its pushes and pops are balanced on every path *)
Corollary stack_restored_by_discipline cartf f S e : snd (run cartf f S e) = S.
Proof.
  change S with (stk (cstart S)) at 1. rewrite counting_is_run. cbn [snd].
  exact (proj2 (run_counting_counts cartf f S e)).
Qed.

(* ---------------- the seeded placements break the discipline, each on its error path and only there ---------------- *)
Definition counts (x : value * cstate) : nat * nat * nat := (pushes (snd x), pops (snd x), length (stk (snd x))).

Theorem seeded_C13_b_refuted :
  counts (run_counting seeded_C13_b cart_impl 10 (cstart [[]]) w_too_few_args) = (1, 0, 2)%nat /\
  counts (run_counting seeded_C13_b cart_impl 10 (cstart [[]]) w_named_missing) = (1, 0, 2)%nat /\
  counts (run_counting seeded_C13_b cart_impl 10 (cstart [[]]) w_enough_args) = (1, 1, 1)%nat /\
  counts (run_counting code cart_impl 10 (cstart [[]]) w_too_few_args) = (0, 0, 1)%nat.
Proof. vm_compute. repeat split; reflexivity. Qed.

Theorem seeded_C13_d_refuted :
  counts (run_counting seeded_C13_d cart_impl 10 (cstart [[]]) w_every_non_boolean) = (2, 1, 2)%nat /\
  counts (run_counting seeded_C13_d cart_impl 10 (cstart [[]]) w_every_boolean) = (2, 2, 1)%nat /\
  counts (run_counting code cart_impl 10 (cstart [[]]) w_every_non_boolean) = (2, 2, 1)%nat.
Proof. vm_compute. repeat split; reflexivity. Qed.

Theorem seeded_C13_a_refuted :
  counts (run_counting seeded_C13_a cart_impl 10 (cstart [[]]) w_filter_item_entry) = (2, 1, 2)%nat /\
  counts (run_counting seeded_C13_a cart_impl 10 (cstart [[]]) w_filter_plain) = (3, 3, 1)%nat /\
  counts (run_counting code cart_impl 10 (cstart [[]]) w_filter_item_entry) = (2, 2, 1)%nat.
Proof. vm_compute. repeat split; reflexivity. Qed.
