"""C02 — FEEL numbers compute as IEEE 754-2008 decimal128 (34 digits, half-even).
Proof: coq/Props/C02.v (theorems about the specification model Base/DecRound.v: one correct rounding, exact value lemmas,
comparison by value, integral functions, finite results by construction).  The C kernel decNumber is NOT transliterated:
the tie to it is this correspondence check (FeelNumber Rust API and FEEL text vs the model evaluated inside Coq, cross-checked
with libmpdec).  exp, ln and inexact powers are validated within 2 ulp against libmpdec only."""
import decimal
import json
from decimal import Decimal

from vlib import core

HEADER = ('From Coq Require Import ZArith NArith List.\nFrom DV Require Import Base.Dec Base.DecRound C02.Model.\n'
          'Open Scope Z_scope.\n')

D128 = decimal.Context(prec=34, rounding=decimal.ROUND_HALF_EVEN, Emin=-6143, Emax=6144, clamp=1, traps=[])
BIG = decimal.Context(prec=60, rounding=decimal.ROUND_HALF_EVEN, Emin=-999999, Emax=999999, clamp=0, traps=[])
EXACT = decimal.Context(prec=30000, rounding=decimal.ROUND_HALF_EVEN, Emin=-999999999, Emax=999999999, clamp=0, traps=[])
NONFINITE = ('Infinity', '-Infinity', 'NaN', '-NaN', 'sNaN', '-sNaN')


def dtext(d):
    s, c, e = d
    return '%s%dE%+d' % ('-' if s else '', c, e)


def dcoq(d):
    s, c, e = d
    return '(mkdec %s %d%%N (%d))' % ('true' if s else 'false', c, e)


def dpy(d):
    s, c, e = d
    return Decimal((1 if s else 0, tuple(int(x) for x in str(c)), e))


def parse_sci(t):
    """decQuadToString text -> (sign, coefficient, exponent); None for non-finite"""
    if t in NONFINITE:
        return None
    x = Decimal(t)
    s, digs, e = x.as_tuple()
    return (bool(s), int(''.join(map(str, digs))), e)


def model_dec(t):
    """parsed Coq `option dec` -> (sign, coefficient, exponent) | None"""
    if getattr(t, 'name', None) == 'None':
        return None
    r = t.args[0]
    return (r['neg'], r['coef'], r['expo'])


def py_result(x):
    """libmpdec result -> reduced (sign, coef, exp) | None (non-finite)"""
    if not x.is_finite():
        return None
    x = x.normalize(D128)
    s, digs, e = x.as_tuple()
    return (bool(s), int(''.join(map(str, digs))), e)


def same(a, b, ignore_zero_sign=True):
    if a is None or b is None:
        return a is b
    if a[1] == 0 and b[1] == 0 and ignore_zero_sign:
        return a[2] == b[2]
    return a == b


# ------------------------------------------------------------------------------------------------ operands
def rnd_coef(r, L=None):
    L = L or r.randint(1, 34)
    return r.randint(10 ** (L - 1), 10 ** L - 1)


def operand(r):
    k = r.random()
    s = r.random() < 0.4
    if k < 0.08:
        return (s, 0, r.choice([0, 0, -2, 3, -6176, 6111, r.randint(-6176, 6111)]))
    if k < 0.45:
        return (s, rnd_coef(r), r.randint(-45, 12))
    if k < 0.6:
        c = rnd_coef(r, r.randint(1, 20)) * 10 ** r.randint(0, 14)
        return (s, c, r.randint(-30, 10))
    if k < 0.7:
        return (s, rnd_coef(r, r.choice([33, 34, 34])), r.randint(-6176, 6111))
    if k < 0.8:
        return (s, rnd_coef(r, r.randint(1, 5)), r.choice([-6176, -6175, -6170, -6150, -6143, -6144, r.randint(-6176, -6100)]))
    if k < 0.9:
        return (s, rnd_coef(r, r.choice([1, 2, 34, 34])), r.choice([6111, 6110, 6100, 6077, r.randint(6050, 6111)]))
    return (s, rnd_coef(r), r.randint(-6176, 6111))


def binary_cases(ctx):
    """(op, a, b, class) with dedicated boundary classes"""
    r = ctx.rng
    out = []
    n = ctx.pick(1, 12)
    N9 = 10 ** 34 - 1
    fixed = [
        ('mul', (False, 1, 6144), (False, 10, 0), 'overflow-edge'), ('mul', (False, 1, 6111), (False, 10 ** 33, 0), 'overflow-edge'),
        ('mul', (True, N9, 6111), (False, 1, 0), 'overflow-edge'), ('add', (False, N9, 6111), (False, 5, 6110), 'overflow-edge'),
        ('add', (False, N9, 6111), (False, 4, 6110), 'overflow-edge'), ('sub', (True, N9, 6111), (False, 5, 6110), 'overflow-edge'),
        ('div', (False, 1, 6111), (False, 1, -100), 'overflow-edge'), ('div', (False, 1, 0), (False, 0, 0), 'div-zero'),
        ('div', (False, 0, 0), (False, 0, 0), 'div-zero'), ('rem', (False, 1, 40), (False, 3, 0), 'modulo'),
        ('rem', (False, 5, 0), (False, 0, 0), 'div-zero'), ('mul', (False, 1, -3100), (False, 15, -3077), 'subnormal'),
        ('mul', (False, 1, -3100), (False, 25, -3077), 'subnormal'), ('mul', (False, 1, -3100), (False, 5, -3077), 'subnormal'),
        ('mul', (False, 1, -3100), (False, 1, -3100), 'subnormal'), ('div', (False, 1, -6176), (False, 2, 0), 'subnormal'),
        ('div', (False, 3, -6176), (False, 2, 0), 'subnormal'), ('add', (False, 1, 40), (False, 1, 0), 'far-apart'),
        ('sub', (False, 1, 40), (False, 1, 0), 'far-apart'), ('add', (False, 1, 6111), (True, 1, -6176), 'far-apart'),
        ('sub', (False, 1, 34), (False, 5, -1), 'tie'), ('sub', (False, 1, 34), (False, 50000001, -8), 'tie'),
    ]
    out += fixed
    for _ in range(120 * n):      # exact ties and near-ties at the 34th digit (add/sub)
        e = r.randint(-40, 40) if r.random() < 0.8 else r.randint(-6170, 6100)
        a = (r.random() < 0.3, rnd_coef(r, 34), e)
        k = r.randint(1, 6)
        tail = 5 * 10 ** (k - 1) + r.choice([0, 0, 0, 1, -1]) * r.choice([1, 10 ** (k - 1) // 2 or 1])
        b = (a[0] if r.random() < 0.7 else not a[0], tail, e - k)
        out.append((r.choice(['add', 'sub']), a, b, 'tie'))
    for _ in range(60 * n):       # carries: 99..9 + 1
        e = r.randint(-30, 30)
        L = r.randint(30, 34)
        a = (False, 10 ** L - 1 - r.choice([0, 0, 1, 5]), e)
        b = (False, r.choice([1, 5, 6, 10, 49, 50, 51]), e - r.choice([0, 1, 2]))
        out.append((r.choice(['add', 'add', 'sub']), a, b, 'carry'))
    for _ in range(60 * n):       # cancellation
        c = rnd_coef(r, r.randint(20, 34))
        e = r.randint(-40, 20)
        d = r.randint(0, 10 ** r.randint(1, 6))
        a, b = (False, c, e), (False, max(c - d, 0), e)
        if r.random() < 0.3:
            b = (False, c * 10 ** 3 + d if c < 10 ** 31 else c, e - 3 if c < 10 ** 31 else e)
        out.append((r.choice(['sub', 'sub', 'add']), a, (b[0] if r.random() < 0.7 else True, b[1], b[2]), 'cancel'))
    for _ in range(60 * n):       # 34+ orders of magnitude apart, with ties against the far operand
        a = (r.random() < 0.5, rnd_coef(r, r.randint(1, 34)), r.randint(0, 60))
        b = (r.random() < 0.5, r.choice([1, 5, 50, 500001, rnd_coef(r, 3)]), a[2] - r.randint(30, 80))
        out.append((r.choice(['add', 'sub']), a, b, 'far-apart'))
    for _ in range(80 * n):       # products/quotients at the underflow boundary (subnormals, ties on the subnormal grid)
        ea = r.randint(-6176, -3000)
        eb = -6176 - ea + r.randint(-40, 8)
        a = (r.random() < 0.3, rnd_coef(r, r.randint(1, 34)), ea)
        b = (r.random() < 0.3, rnd_coef(r, r.randint(1, 34)), max(-6176, min(6111, eb)))
        out.append(('mul', a, b, 'subnormal'))
        q = (r.random() < 0.3, rnd_coef(r, r.randint(1, 8)), r.randint(-6176, -6140))
        out.append(('div', q, (False, r.choice([2, 3, 4, 7, 8, 10, 16, 125, rnd_coef(r, 5)]), r.randint(0, 40)), 'subnormal'))
    for _ in range(80 * n):       # overflow edge
        ea = r.randint(3000, 6111)
        eb = 6111 - ea + r.randint(-40, 8)
        a = (r.random() < 0.3, rnd_coef(r, r.randint(1, 34)), ea)
        b = (r.random() < 0.3, rnd_coef(r, r.randint(1, 34)), max(-6176, min(6111, eb)))
        out.append(('mul', a, b, 'overflow-edge'))
        out.append(('div', a, (b[0], b[1], -b[2] if -6176 <= -b[2] <= 6111 else b[2]), 'overflow-edge'))
        big = (r.random() < 0.5, 10 ** 34 - 1 - r.choice([0, 0, 1, 1000]), 6111)
        out.append((r.choice(['add', 'sub']), big, (r.random() < 0.5, r.choice([1, 4, 5, 6, 49, 50, 51]), 6111 - r.choice([0, 1, 2])), 'overflow-edge'))
    for _ in range(100 * n):      # multiplication ties: 34-digit results with a tail of exactly 5
        a = (r.random() < 0.3, rnd_coef(r, r.randint(17, 34)), r.randint(-30, 30))
        b = (r.random() < 0.3, r.choice([5, 15, 25, 35, 125, 5 * 10 ** r.randint(1, 5), rnd_coef(r, r.randint(1, 20))]), r.randint(-30, 30))
        out.append(('mul', a, b, 'mul-tie'))
    for _ in range(100 * n):      # division: exact, repeating, ties
        a = (r.random() < 0.3, rnd_coef(r, r.randint(1, 34)), r.randint(-30, 30))
        b = (r.random() < 0.3, r.choice([2, 3, 4, 5, 6, 7, 8, 9, 16, 25, 32, 64, 125, 625, 2 ** 20, 2 ** 40, 3 ** 10, rnd_coef(r, r.randint(1, 34))]), r.randint(-30, 30))
        out.append(('div', a, b, 'div'))
    for _ in range(150 * n):      # modulo (FeelNumber %)
        a = (r.random() < 0.4, rnd_coef(r, r.randint(1, 12)), r.randint(-6, 4))
        b = (r.random() < 0.4, rnd_coef(r, r.randint(1, 6)), r.randint(-4, 2))
        if r.random() < 0.15:
            a = (a[0], rnd_coef(r, r.randint(20, 34)), r.randint(0, 20))
        out.append(('rem', a, b, 'modulo'))
    for _ in range(60 * n):       # trailing zeros: equal values compare equal
        c = rnd_coef(r, r.randint(1, 20))
        e = r.randint(-20, 20)
        z = r.randint(0, 12)
        a, b = (False, c, e), (False, c * 10 ** z, e - z)
        if r.random() < 0.3:
            b = (b[0], b[1] + r.choice([1, -1]), b[2])
        sg = r.random() < 0.3
        out.append(('cmp', (sg, a[1], a[2]), (sg if r.random() < 0.8 else not sg, b[1], b[2]), 'trailing-zeros'))
    for _ in range(400 * n):      # random pairs
        op = r.choice(['add', 'sub', 'mul', 'div', 'cmp', 'rem'])
        a, b = operand(r), operand(r)
        if op == 'rem' and abs((a[2] + len(str(a[1]))) - (b[2] + len(str(b[1])))) > 60:
            b = (b[0], b[1], max(-6176, min(6111, a[2] + r.randint(-20, 20))))
        out.append((op, a, b, 'random'))
    return out


def _tail(kind, L, k):
    """the discarded digits (an integer of L digits): exactly a tie, just above it (a 1 placed k zeros behind the 5), just below it"""
    half = 5 * 10 ** (L - 1)
    if kind == 'tie':
        return half
    if L == 1:
        return 6 if kind == 'above' else 4
    k = min(k, L - 2)
    return half + 10 ** (L - 2 - k) if kind == 'above' else half - 10 ** (L - 2 - k)


def rounding_cases(ctx):
    """Dedicated family for every rounding operation: exactly a tie / just above / just below, at every discard length, kept digit even and odd,
    the excess digit at every distance behind the 5, both signs.  decimal() (decNumber rescale), + - * (exact result with that digit pattern),
    / (quotients at distance 1/(2b) from a half-way point: the sticky-digit argument), sqrt."""
    r = ctx.rng
    out = []

    def ks(L):
        if L < 2:
            return [0]
        allk = list(range(0, L - 1))
        if not ctx.quick:
            return allk
        return sorted(set([0, 1, L - 2, r.choice(allk), r.choice(allk)]) & set(allk))

    def kept(n, parity, lead_max=9):
        """n digits, last digit of the given parity, not all nines"""
        if n == 0:
            return 0
        first = r.randint(1, lead_max)
        mid = [r.randint(0, 9) for _ in range(max(0, n - 2))]
        last = r.choice([0, 2, 4, 6, 8] if parity == 0 else [1, 3, 5, 7])
        digs = ([first] + mid + [last]) if n > 1 else [last if last else 2]
        if n == 1:
            digs = [r.choice([2, 4, 6, 8] if parity == 0 else [1, 3, 5, 7])]
        return int(''.join(map(str, digs)))

    for L in range(1, 35):
        for parity in (0, 1):
            for kind in ('tie', 'above', 'below'):
                for k in ([0] if kind == 'tie' else ks(L)):
                    D = _tail(kind, L, k)
                    sg = r.random() < 0.5
                    # ---- decimal(x, scale): the coefficient is K followed by the L discarded digits
                    nk = r.randint(1, 34 - L) if L < 34 else 0
                    K = kept(nk, parity)
                    coef = K * 10 ** L + D
                    sc = r.choice([0, 1, 2, 3, 5, 8, 13, -1, -2, -4, r.randint(-20, 25)])
                    if r.random() < 0.12:
                        sc = r.choice([r.randint(-6111, -5000), r.randint(5000, 6175 - L), 6175 - L, -6111])
                    e = -(sc + L)
                    if -6176 <= e <= 6111:
                        out.append(('round', (sg, coef, e), sc, 'decimal-' + kind))
                    # ---- addition / subtraction: 34 kept digits, the other operand supplies the tail
                    K = kept(34, parity)
                    e = r.randint(-30, 25) if r.random() < 0.85 else r.choice([r.randint(-6176 + L, -6100), r.randint(6000, 6111)])
                    out.append(('add', (sg, K, e), (sg, D, e - L), 'add-' + kind))
                    out.append(('sub', (sg, K, e), (not sg, D, e - L), 'add-' + kind))
                    out.append(('sub', (sg, K + 1, e), (sg, 10 ** L - D, e - L), 'sub-' + kind))
                    # ---- multiplication: a * b = K' * 10^L + D exactly
                    if L <= 32:
                        K = kept(34, parity, lead_max=3)
                        b = r.randint(9 * 10 ** (L - 1), 10 ** L - 1) if L > 1 else r.choice([7, 9])
                        while b % 2 == 0 or b % 5 == 0:
                            b += 1
                        if b < 10 ** L:
                            P = K * 10 ** L + D
                            j = (-P * pow(10 ** (L + 1), -1, b)) % b
                            P += j * 10 ** (L + 1)
                            a = P // b
                            if a * b == P and a < 10 ** 34 and P // 10 ** L < 10 ** 34:
                                ea, eb = r.randint(-25, 20), r.randint(-25, 20)
                                out.append(('mul', (sg, a, ea), (r.random() < 0.5, b, eb), 'mul-' + kind))
    # ---- division: a / b * 10^x = K + 1/2 +- 1/(2b) (the nearest a quotient can come to a half-way point), and exact ties (2K+1)/2
    for d in range(1, 34):
        for kind in ('above', 'below'):
            for _ in range(ctx.pick(2, 8)):
                b = r.randint(10 ** (d - 1), 10 ** d - 1) | 1
                if b % 5 == 0:
                    b += 2
                if b >= 10 ** d or b % 5 == 0:
                    continue
                M = 2 * 10 ** d
                inv = pow(b, -1, M)
                rr = (-inv) % M if kind == 'above' else inv % M
                t = r.randint(10 ** (33 - d), 10 ** (34 - d) - 1)
                twoK1 = rr + t * M
                num = twoK1 * b + (1 if kind == 'above' else -1)
                if num % M:
                    continue
                a = num // M
                K = (twoK1 - 1) // 2
                if not (10 ** 33 <= K < 10 ** 34 and 0 < a < 10 ** 34):
                    continue
                out.append(('div', (r.random() < 0.5, a, r.randint(-20, 20)), (r.random() < 0.5, b, r.randint(-20, 20)), 'div-sticky-' + kind))
    for parity in (0, 1):
        for _ in range(ctx.pick(8, 60)):
            K = kept(34, parity, lead_max=4)
            out.append(('div', (r.random() < 0.5, 2 * K + 1, r.randint(-20, 20)), (False, r.choice([2, 20, 2000, 2 * 10 ** 20]), r.randint(-20, 20)), 'div-tie'))
    # ---- square roots next to a half-way point
    p2, p5 = 2 ** 34, 5 ** 34
    for K in ((-pow(p2, -1, p5) % p5) * p2 % 10 ** 34, (pow(p5, -1, p2) * p5 - 1) % 10 ** 34, (pow(p5, -1, p2) * p5) % 10 ** 34, (-pow(p2, -1, p5) % p5 * p2 - 1) % 10 ** 34):
        if K * (K + 1) % 10 ** 34 == 0 and K > 0:
            a = K * (K + 1) // 10 ** 34            # sqrt(a * 10^34) = K + 1/2 - 1/(8K): just below a tie
            for e2 in (0, -34, 10, -20):
                if 0 < a < 10 ** 34:
                    out.append(('sqrt', (False, a, e2), None, 'sqrt-near-tie'))
    for m in [1, 2, 3, 4, 5, 7, 10, 11, 100, 101, 12345, 10 ** 6 + 1, 10 ** 9 + 7, 10 ** 12 + 3] + [r.randint(1, 10 ** r.randint(1, 15)) for _ in range(ctx.pick(20, 200))]:
        K = 10 ** 17 - m
        for delta in (1, -1, 2, -2):
            a = K * K + delta                        # sqrt = K +- (1/2 + ...) * 10^-17 * |delta|: next to a tie of the 34-digit result for |delta| = 1
            if 0 < a < 10 ** 34:
                out.append(('sqrt', (False, a, r.choice([0, 0, -2, 4, -34])), None, 'sqrt-near-tie'))
    return out


def unary_cases(ctx):
    r = ctx.rng
    out = []
    n = ctx.pick(1, 12)
    fixed = [('even', (False, 1, 40)), ('odd', (False, 1, 40)), ('odd', (True, 3, 0)), ('even', (False, 30, -1)), ('odd', (False, 35, -1)),
             ('floor', (True, 5, -1)), ('ceiling', (True, 5, -1)), ('floor', (True, 1, -6176)), ('ceiling', (False, 1, -6176)),
             ('sqrt', (False, 0, 0)), ('sqrt', (True, 1, 0)), ('sqrt', (False, 2, 0)), ('sqrt', (False, 1, -6176)), ('sqrt', (False, 10 ** 34 - 1, 6111)),
             ('neg', (False, 0, -2)), ('abs', (True, 0, 3))]
    # parity of full-precision integers and near-integers: odd and even coefficients of 33 and 34 digits at exponent 0, the same with fraction
    # zeros and with a final fraction digit, the ends of the range (seeded change C02_e: parity decided on a rounded half)
    for op in ('even', 'odd'):
        for c in (10 ** 34 - 1, 10 ** 34 - 2, 2 * 10 ** 33 + 1, 2 * 10 ** 33, 10 ** 33 + 1, 10 ** 33, 5 * 10 ** 33 + 5, 19999999999999999999999999999999999 // 10 * 10 + 7,
                  9999999999999999999999999999999, 1234567890123456789012345678901235):
            c = min(c, 10 ** 34 - 1)
            for neg in (False, True):
                fixed.append((op, (neg, c, 0)))
        fixed += [(op, (False, 2 * 10 ** 33 + 1, -33)), (op, (False, 2 * 10 ** 33, -33)), (op, (False, 1, -6176)), (op, (False, 2, -6176)), (op, (False, 10 ** 33 + 1, -1)),
                  (op, (False, 10 ** 34 - 1, 1)), (op, (False, 10 ** 34 - 1, 6111))]
    for op, a in fixed:
        out.append((op, a, None, 'fixed'))
    for _ in range(500 * n):
        op = r.choice(['floor', 'ceiling', 'trunc', 'neg', 'abs', 'sqrt', 'sqrt', 'even', 'odd'])
        a = operand(r)
        if op in ('floor', 'ceiling', 'trunc', 'even', 'odd') and r.random() < 0.7:
            L = r.randint(1, 34)
            a = (a[0], rnd_coef(r, L), -r.randint(0, L + 2))
            if r.random() < 0.3:
                a = (a[0], a[1] // 10 ** min(-a[2], L - 1) * 10 ** min(-a[2], L - 1) or 1, a[2])   # an integer written with fraction zeros
        if op == 'sqrt':
            a = (r.random() < 0.05, a[1], a[2])
            if r.random() < 0.3:     # perfect squares and half-way neighbours
                k = rnd_coef(r, r.randint(1, 17))
                a = (False, k * k, 2 * r.randint(-20, 20))
        if op in ('even', 'odd') and r.random() < 0.2:
            a = (a[0], rnd_coef(r, r.randint(1, 34)), r.randint(0, 60))
        out.append((op, a, None, 'unary'))
    for _ in range(250 * n):
        a = operand(r)
        if r.random() < 0.8:
            L = r.randint(1, 34)
            a = (a[0], rnd_coef(r, L), -r.randint(0, 40))
            if r.random() < 0.4:   # exact tie at the requested scale
                sc = r.randint(-3, min(30, -a[2] - 1)) if -a[2] - 1 >= -3 else 0
                drop = -a[2] - sc
                if 0 < drop <= L:
                    a = (a[0], a[1] // 10 ** drop * 10 ** drop + 5 * 10 ** (drop - 1), a[2])
                out.append(('round', a, sc, 'decimal'))
                continue
        out.append(('round', a, r.choice([0, 1, 2, -1, -2, r.randint(-40, 40), r.randint(-6111, 6175)]), 'decimal'))
    # scales far outside the range of the format and of 32-bit integers: null, never the number rounded at some other scale (seeded change C02_k: the scale
    # went through a conversion to i32 that answers 0 when the value does not fit)
    for a in ((False, 2567, -3), (True, 12345, -1), (False, 5, -1), (False, 0, 0), (False, 9995, -2)):
        for sc in (2 ** 31, -2 ** 31 - 1, 3000000000, -3000000000, 2 ** 32, 2 ** 32 + 2, 10 ** 20, -10 ** 20, 10 ** 33, 6176, -6112, 2 ** 31 - 1, -2 ** 31):
            out.append(('round', a, sc, 'decimal-scale'))
    return out


def coq_term(op, a, b):
    A = dcoq(a)
    if op in ('add', 'sub', 'mul', 'div'):
        return 'f_%s %s %s' % (op, A, dcoq(b))
    if op == 'rem':
        return '(f_mod %s %s, f_mod_steps %s %s)' % (A, dcoq(b), A, dcoq(b))
    if op == 'cmp':
        return 'f_cmp %s %s' % (A, dcoq(b))
    if op == 'round':
        return 'f_decimal %s (%d)' % (A, b)
    if op in ('even', 'odd'):
        return 'f_%s %s' % (op, A)
    return 'f_%s %s' % (op, A)


def py_oracle(op, a, b):
    """libmpdec as a second opinion on the model (reduced result | None | bool | int)"""
    x = dpy(a)
    y = dpy(b) if isinstance(b, tuple) else None
    c = D128
    if op == 'add':
        return py_result(c.add(x, y))
    if op == 'sub':
        return py_result(c.subtract(x, y))
    if op == 'mul':
        return py_result(c.multiply(x, y))
    if op == 'div':
        return py_result(c.divide(x, y))
    if op == 'cmp':
        return int(c.compare(x, y))
    if op == 'sqrt':
        return py_result(c.sqrt(x))
    if op == 'floor':
        return py_result(x.to_integral_value(rounding=decimal.ROUND_FLOOR, context=c)) if True else None
    if op == 'ceiling':
        return py_result(x.to_integral_value(rounding=decimal.ROUND_CEILING, context=c))
    if op == 'trunc':
        return py_result(x.to_integral_value(rounding=decimal.ROUND_DOWN, context=c))
    if op == 'neg':
        return py_result(c.minus(x))
    if op == 'abs':
        return py_result(c.abs(x))
    if op in ('even', 'odd'):
        if x != x.to_integral_value():
            return False
        v = int(x)
        return (v % 2 == 0) if op == 'even' else (v % 2 == 1)
    if op == 'rem':
        if y == 0:
            return None
        q = EXACT.divide(x, y).to_integral_value(rounding=decimal.ROUND_FLOOR, context=EXACT)
        return py_result(c.plus(EXACT.subtract(x, EXACT.multiply(y, q))))
    if op == 'round':
        if not -6111 <= b < 6176:
            return None
        q = x.quantize(Decimal((0, (1,), -b)), rounding=decimal.ROUND_HALF_EVEN, context=EXACT)
        return py_result(c.plus(q)) if c.plus(q) == q else py_result(x)
    return 'n/a'


def py_mod_steps(a, b):
    x, y = dpy(a), dpy(b)
    if y == 0:
        return None
    c = D128
    q = c.divide(x, y)
    if not q.is_finite():
        return None
    r = c.subtract(x, c.multiply(y, q.to_integral_value(rounding=decimal.ROUND_FLOOR, context=c)))
    return py_result(r)


def span(op, a, b):
    """size in decimal digits of the integers the Coq model has to build (its cost grows quadratically)"""
    la = len(str(a[1]))
    if op in ('add', 'sub', 'cmp', 'rem'):
        return abs(a[2] - b[2]) + la + len(str(b[1]))
    if op == 'mul':
        return max(0, -6176 - (a[2] + b[2])) + 70
    if op == 'div':
        return max(0, -6176 - (a[2] - b[2]) + 40) + 80
    if op in ('floor', 'ceiling', 'trunc', 'even', 'odd'):
        return abs(a[2]) + la
    if op == 'round':
        return abs(a[2] + b) + la if -6111 <= b < 6176 else 0
    return 80


def impl_value(op, got):
    """canonical form of the implementation's answer: ('num', dec | None-for-null) | ('bool', b) | ('cmp', i) | ('bad', text)"""
    if 'r' not in got:
        return ('bad', json.dumps(got)[:200])
    g = got['r']
    if g is None:
        return ('num', None)
    if isinstance(g, bool):
        return ('bool', g)
    if isinstance(g, int):
        return ('cmp', g)
    if g['n'] in NONFINITE:
        return ('nonfinite', g['n'])
    return ('num', parse_sci(g['n']))


def ulp_diff(got, want34, exact):
    """|got - exact| in units of the last place of the 34-digit result"""
    ulp = Decimal((0, (1,), want34.adjusted() - 33))
    if want34.adjusted() - 33 < -6176:
        ulp = Decimal((0, (1,), -6176))
    return abs(BIG.subtract(got, exact)) / ulp


def transcendental_cases(ctx):
    r = ctx.rng
    out = []
    for _ in range(ctx.pick(250, 4000)):
        k = r.random()
        if k < 0.35:
            a = (r.random() < 0.4, rnd_coef(r, r.randint(1, 34)), -r.randint(0, 36))
            if abs(dpy(a)) > 14000:
                a = (a[0], a[1], a[2] - 5)
            out.append(('exp', a, None))
        elif k < 0.65:
            out.append(('ln', (False, rnd_coef(r, r.randint(1, 34)), r.choice([r.randint(-40, 10), r.randint(-6176, 6111)])), None))
        else:
            a = (r.random() < 0.2, rnd_coef(r, r.randint(1, 10)), -r.randint(0, 8))
            if r.random() < 0.6:
                b = (r.random() < 0.3, r.randint(0, 40), 0)
            else:
                b = (r.random() < 0.3, rnd_coef(r, r.randint(1, 6)), -r.randint(1, 5))
            out.append(('pow', a, b))
    # arguments so close to zero that the result is 1 or one of its neighbours (below 1 the unit in the last place is 1E-34, above it 1E-33: the library
    # short-cuts `rounds to 1` with a threshold that depends on the sign; seeded change C02_h moved it for negative arguments)
    for ex in range(-38, -29):
        for c in (1, 2, 3, 4, 5, 9, 25, 35, 39, 41, 45, 99, 251, 499, 501):
            for neg in (False, True):
                if not ctx.quick or r.random() < 0.5:
                    out.append(('exp', (neg, c, ex), None))
    # a negative base with an exponent that is an integer VALUE held with a non-zero exponent field (2.0, 1E+1 = what 5+5 reduces to, 30E-1): defined
    # and exact (seeded change C02_i: the guard for fractional exponents looked at the representation)
    for base in ((True, 2, 0), (True, 15, -1), (True, 3, 0)):
        for ex in ((False, 20, -1), (False, 1, 1), (False, 30, -1), (False, 300, -2), (False, 2, 1), (True, 20, -1), (True, 1, 1), (False, 5, 0), (False, 25, -1)):
            out.append(('pow', base, ex))
    out += [('exp', (False, 100000, 0), None), ('exp', (True, 100000, 0), None), ('exp', (False, 14149, 0), None), ('exp', (False, 14150, 0), None),
            ('ln', (False, 0, 0), None), ('ln', (True, 1, 0), None), ('pow', (False, 10, 0), (False, 6144, 0)), ('pow', (False, 10, 0), (False, 6145, 0)),
            ('pow', (False, 0, 0), (False, 0, 0)), ('pow', (False, 2, 0), (True, 1, 0)), ('pow', (True, 8, 0), (False, 3, 0)), ('pow', (True, 8, 0), (False, 5, -1))]
    return out


def transcendental_expect(op, a, b):
    """-> ('null',) | ('exact', Decimal) | ('approx', Decimal60) | ('skip',)"""
    x = dpy(a)
    if op == 'exp':
        v = BIG.exp(x)
        if not v.is_finite() or v.adjusted() > 6144:
            return ('null',)
        return ('approx', v)
    if op == 'ln':
        if x <= 0:
            return ('null',)
        return ('approx', BIG.ln(x))
    y = dpy(b)
    if x == 0 and y == 0:
        return ('null',)
    if y == y.to_integral_value():
        n = int(y)
        if x == 0 and n < 0:
            return ('null',)
        if n >= 0:
            v = EXACT.power(x, n)
            if v != 0 and v.adjusted() > 6144:
                return ('null',)
            if len(v.normalize(EXACT).as_tuple().digits) <= 34 and (v == 0 or v.normalize(EXACT).as_tuple().exponent >= -6176):
                return ('exact', v)
            return ('approx', BIG.plus(v))
        v = BIG.divide(Decimal(1), EXACT.power(x, -n))
        if v.adjusted() > 6144:
            return ('null',)
        return ('approx', v)
    if x < 0:
        return ('null',)
    if x == 0:
        return ('skip',)
    v = BIG.power(x, y)
    if not v.is_finite() or v.adjusted() > 6144:
        return ('null',)
    return ('approx', v)


def feel_text(d):
    """a FEEL expression denoting the datum exactly, or None when it has no short literal"""
    s, c, e = d
    if e > 40 or e < -60:
        return None
    if e >= 0:
        t = str(c) + '0' * e
    else:
        digs = str(c).rjust(-e + 1, '0')
        t = digs[:e] + '.' + digs[e:]
    return '(-%s)' % t if s else t


FEEL_OPS = {'add': '%s + %s', 'sub': '%s - %s', 'mul': '%s * %s', 'div': '%s / %s', 'rem': 'modulo(%s, %s)', 'floor': 'floor(%s)', 'ceiling': 'ceiling(%s)',
            'abs': 'abs(%s)', 'neg': '-%s', 'sqrt': 'sqrt(%s)', 'even': 'even(%s)', 'odd': 'odd(%s)', 'round': 'decimal(%s, %s)', 'exp': 'exp(%s)', 'ln': 'log(%s)',
            'pow': '%s ** %s', 'cmp': '[%s < %s, %s = %s]'}


def feel_expr(op, a, b):
    ta = feel_text(a)
    if ta is None or op not in FEEL_OPS:
        return None
    if op in ('floor', 'ceiling', 'abs', 'neg', 'sqrt', 'even', 'odd', 'exp', 'ln'):
        return FEEL_OPS[op] % ta
    if op == 'round':
        return FEEL_OPS[op] % (ta, b)
    tb = feel_text(b)
    if tb is None:
        return None
    if op == 'cmp':
        return FEEL_OPS[op] % (ta, tb, ta, tb)
    return FEEL_OPS.get(op, '') % (ta, tb) if op in FEEL_OPS else None


def feel_value(v):
    """canonical value of a `dv feel` answer in the same form as impl_value"""
    if 'v' not in v:
        return ('bad', json.dumps(v)[:200])
    x = v['v']
    if x is None:
        return ('num', None)
    if isinstance(x, bool):
        return ('bool', x)
    if isinstance(x, list):
        lt, eq = x
        return ('cmp', -1 if lt else (0 if eq else 1))
    if isinstance(x, dict) and 'n' in x:
        if x['n'] in NONFINITE:
            return ('nonfinite', x['n'])
        return ('num', parse_sci(x['n']))
    return ('bad', json.dumps(v)[:200])


# FEEL text reaching the boundary operands that have no literal; expected canonical value: None = null, (sign, coef, exp) reduced, or bool
FEEL_CORPUS = [
    ('10**6144*10', None), ('10**6144*9 + 10**6144*9', None), ('-(10**6144*9) - 10**6144*9', None), ('10**6144 / 0.1', None), ('exp(100000)', None),
    ('exp(-100000)', (False, 0, 0)), ('1/0', None), ('0/0', None), ('modulo(1, 0)', None), ('modulo(10**6144, 10**-6000)', None), ('10**6145', None),
    ('10**6144', (False, 1, 6144)), ('10**6144*9.999999999999999999999999999999999', (False, 10 ** 34 - 1, 6111)), ('decimal(10**30, 10)', (False, 1, 30)),
    ('decimal(0.0000000001, 3546)', (False, 1, -10)), ('decimal(2.5, 0)', (False, 2, 0)), ('decimal(3.5, 0)', (False, 4, 0)), ('decimal(-2.5, 0)', (True, 2, 0)),
    ('decimal(1/3, 6176)', None), ('decimal(1/3, -6112)', None), ('even(10**40)', True), ('odd(10**40)', False), ('odd(10**40+1)', False), ('odd(3.0)', True), ('odd(-3.00)', True),
    ('even(2.0)', True), ('even(2.50)', False), ('odd(2.50)', False), ('sqrt(-1)', None), ('log(0)', None), ('log(-1)', None), ('0**0', None), ('0**-1', None),
    ('1.0 = 1.00', True), ('100 = 1.00 * 100.000', True), ('10**-6176 / 2', (False, 0, 0)), ('10**-6176 * 1.5', (False, 2, -6176)), ('10**-6176 * 2.5', (False, 2, -6176)),
    ('10**6144*9.999999999999999999999999999999999 + 10**6110*4', (False, 10 ** 34 - 1, 6111)), ('10**6144*9.999999999999999999999999999999999 + 10**6110*5', None),
    ('9999999999999999999999999999999999 + 0.5', (False, 1, 34)), ('9999999999999999999999999999999998 + 0.5', (False, 9999999999999999999999999999999998, 0)),
    ('1 / 3', (False, 3333333333333333333333333333333333, -34)), ('2 / 3', (False, 6666666666666666666666666666666667, -34)), ('floor(-0.5)', (True, 1, 0)),
    ('ceiling(-0.5)', (False, 0, 0)), ('abs(-10**6144)', (False, 1, 6144)), ('-(10**6144)', (True, 1, 6144)),
]


# Zeros of either sign and any exponent, produced by arithmetic (a negative zero cannot be written as a literal: it comes out of 0 * -1,
# 0.00 / -5, decimal(-0.4, 0), ceiling(-0.5)).  Equal numbers compare equal (C02_cmp_eq_iff_value: the values read at a common exponent are the
# same integer 0), in every construct that compares numbers.  All expressions are boolean-valued; the second component is the expected value.
ZERO_CORPUS = [
    ('(0 * -1) = 0', True), ('(0.00 / -5) = 0.0', True), ('decimal(-0.4, 0) = 0', True), ('ceiling(-0.5) = 0', True), ('-0.00 = 0', True),
    ('(0 * -1) = (0.00 / -5)', True), ('(0 * -1) = 0 * 1', True), ('0 = (0 * -1)', True), ('0.000 = decimal(-0.4, 0)', True), ('(0 * -1) = 1', False),
    ('(0 * -1) != 0', False), ('(0.00 / -5) != 0.0', False), ('decimal(-0.4, 0) != 0', False), ('(0 * -1) != 1', True),
    ('(0 * -1) < 0', False), ('(0 * -1) <= 0', True), ('(0 * -1) > 0', False), ('(0 * -1) >= 0', True), ('0 < (0 * -1)', False), ('0 <= (0.00 / -5)', True),
    ('(0 * -1) < 1', True), ('(0 * -1) > -1', True),
    ('(0 * -1) in [0..0]', True), ('(0 * -1) in (0)', True), ('(0 * -1) in [0, 1]', True), ('(0 * -1) in (<= 0)', True), ('(0 * -1) in (< 0)', False),
    ('(0 * -1) in (> 0)', False), ('(0 * -1) between 0 and 0', True), ('0 between (0 * -1) and (0 * -1)', True),
    ('list contains([0], 0 * -1)', True), ('list contains([0 * -1], 0.000)', True), ('list contains([1, 0.00 / -5], 0)', True),
    ('count(distinct values([0, 0 * -1])) = 1', True), ('count(distinct values([0, 0 * -1, 0.00 / -5, decimal(-0.4, 0), 0.0])) = 1', True),
    ('count(index of([0, 1, 0.00 / -5], 0)) = 2', True), ('count(union([0], [0 * -1])) = 1', True),
    ('[0 * -1] = [0]', True), ('{a: 0 * -1} = {a: 0}', True), ('(if (0 * -1) = 0 then 1 else 2) = 1', True), ('min([0, 0 * -1]) = 0', True),
    ('max([0 * -1, 0]) = (0.00 / -5)', True), ('abs(0 * -1) = (0 * -1)', True), ('-(0 * -1) = (0 * -1)', True),
]
ZERO_OPERANDS = [(s, 0, e) for s in (False, True) for e in (-3, 0, 5)]
ZERO_CONTROLS = [(False, 1, -3), (True, 1, -3)]
REL = {'eq': lambda c: c == 0, 'lt': lambda c: c < 0, 'le': lambda c: c <= 0, 'gt': lambda c: c > 0, 'ge': lambda c: c >= 0, 'cmp': lambda c: c}


def zero_family(ctx, hist):
    """comparison of signed zeros: FEEL constructs on arithmetic-produced zeros; FeelNumber ==, partial_cmp, <, <=, >, >= on every pair of
    {+0, -0} x exponents {-3, 0, 5} (and against +-0.001 as controls) vs the Coq model's dcmp (eq must agree with partial_cmp)"""
    got = ctx.run_impl('feel', [{'e': e} for e, _ in ZERO_CORPUS])
    for (e, want), g in zip(ZERO_CORPUS, got):
        ctx.evaluations += 1
        ctx.corr_checked += 1
        hist['signed-zeros'] = hist.get('signed-zeros', 0) + 1
        ctx.nontrivial.add(('zeros-feel', e))
        val = g.get('v') if isinstance(g.get('v'), bool) else json.dumps(g)[:200]
        if val != want:
            ctx.violation('FEEL %s evaluates to %s, expected %s: zeros of either sign and any exponent are equal numbers' % (e, val, want),
                          {'expression': e}, impl=val, model=want)
    pairs = [(a, b) for a in ZERO_OPERANDS for b in ZERO_OPERANDS]
    pairs += [(a, b) for a in ZERO_OPERANDS for b in ZERO_CONTROLS] + [(b, a) for a in ZERO_OPERANDS for b in ZERO_CONTROLS]
    mres = ctx.run_model(HEADER, [coq_term('cmp', a, b) for a, b in pairs], shard_size=len(pairs))
    reqs = [{'op': op, 'a': dtext(a), 'b': dtext(b)} for a, b in pairs for op in sorted(REL)]
    impl = ctx.run_impl('num', reqs)
    k = 0
    for (a, b), m in zip(pairs, mres):
        c = {'Lt': -1, 'Eq': 0, 'Gt': 1}[m.name]
        if (a[1] == 0 and b[1] == 0) != (c == 0):
            ctx.broken.append('model: dcmp %s %s = %s' % (dtext(a), dtext(b), m.name))
        answers = {}
        for op in sorted(REL):
            req, g = reqs[k], impl[k]
            k += 1
            ctx.evaluations += 1
            ctx.corr_checked += 1
            hist['signed-zeros'] = hist.get('signed-zeros', 0) + 1
            ctx.nontrivial.add(('zeros-api', op, a[0], b[0], a[1] == 0 and b[1] == 0))
            val = g.get('r') if 'r' in g else json.dumps(g)[:200]
            answers[op] = val
            want = REL[op](c)
            if val != want or isinstance(val, bool) != isinstance(want, bool):
                ctx.violation('FeelNumber %s of %s and %s gives %s, the specification %s (comparison is by value: zeros of either sign and any exponent are equal)'
                              % (op, dtext(a), dtext(b), val, want), req, impl=val, model=want)
        if isinstance(answers.get('cmp'), int) and isinstance(answers.get('eq'), bool) and answers['eq'] != (answers['cmp'] == 0):
            ctx.violation('FeelNumber == and partial_cmp disagree on %s and %s: eq=%s cmp=%s' % (dtext(a), dtext(b), answers['eq'], answers['cmp']),
                          {'op': 'eq', 'a': dtext(a), 'b': dtext(b)}, impl=answers['eq'], model=(c == 0))


def refresh_c_kernel():
    """cargo does not notice edits of feel-number/decnumber/*.c (the cc build script only declares environment variables as its inputs):
    when the C sources differ from the ones the harness was last built with, the build output of dmntk-feel-number is dropped."""
    import glob
    import hashlib
    import os
    import shutil
    h = hashlib.sha256()
    for f in sorted(glob.glob(os.path.join(core.REPO, 'feel-number', 'decnumber', '*.[ch]')) + [os.path.join(core.REPO, 'feel-number', 'build.rs')]):
        h.update(open(f, 'rb').read())
    stamp = os.path.join(core.TARGET, 'decnumber-sources.sha256')
    with core.Lock('cargo'):
        old = open(stamp).read() if os.path.exists(stamp) else None
        if old != h.hexdigest():
            if old is not None or core.REPO != '/repo':
                for d in glob.glob(os.path.join(core.TARGET, '*', 'build', 'dmntk-feel-number-*')):
                    shutil.rmtree(d, ignore_errors=True)
            os.makedirs(core.TARGET, exist_ok=True)
            open(stamp, 'w').write(h.hexdigest())


def run(ctx):
    ctx.proof_gate()
    refresh_c_kernel()
    ctx.build_harness()
    fc = ctx.run_impl('feel', [{'e': e} for e, _ in FEEL_CORPUS])
    for (e, want), got in zip(FEEL_CORPUS, fc):
        ctx.evaluations += 1
        ctx.corr_checked += 1
        kind, val = feel_value(got) if not isinstance(got.get('v'), bool) else ('bool', got['v'])
        ok = (val == want) if isinstance(want, bool) or isinstance(val, bool) or want is None or val is None else dpy(val) == dpy(want)
        if kind in ('bad', 'nonfinite') or not ok:
            ctx.violation('FEEL %s evaluates to %s, expected %s' % (e, val, 'null' if want is None else want), {'expression': e}, impl=val, model=want)
    cases = [(op, a, b, cl) for op, a, b, cl in binary_cases(ctx)] + unary_cases(ctx) + rounding_cases(ctx)
    reqs = [{'op': op, 'a': dtext(a), 'b': (dtext(b) if isinstance(b, tuple) else str(b if b is not None else 0))} for op, a, b, _ in cases]
    impl = ctx.run_impl('num', reqs)
    # the Coq model builds the exact integers: cases spanning more than 250 digits are evaluated in Coq only for a sample, the others by libmpdec alone
    far = [i for i, (op, a, b, _) in enumerate(cases) if span(op, a, b) > 250]
    mid = [i for i in far if span(*cases[i][:3]) <= 1200]
    in_coq = set(range(len(cases))) - set(far) | set(ctx.rng.sample(mid, min(len(mid), ctx.pick(16, 400))))
    coq_idx = sorted(in_coq)
    mres = ctx.run_model(HEADER, [coq_term(*cases[i][:3]) for i in coq_idx], shard_size=max(20, len(coq_idx) // 32 + 1))
    model = dict(zip(coq_idx, mres))
    fexprs = [feel_expr(op, a, b) for op, a, b, _ in cases]
    fidx = [i for i, e in enumerate(fexprs) if e]
    fimpl = dict(zip(fidx, ctx.run_impl('feel', [{'e': fexprs[i]} for i in fidx])))
    hist = {}
    for i, (op, a, b, cl) in enumerate(cases):
        ctx.evaluations += 1
        hist[cl] = hist.get(cl, 0) + 1
        case = {'op': op, 'a': dtext(a), 'b': dtext(b) if isinstance(b, tuple) else b}
        got = impl_value(op, impl[i])
        steps = None
        o = py_oracle(op, a, b)
        if i not in model:
            hist['libmpdec-only'] = hist.get('libmpdec-only', 0) + 1
            m = o
            if op == 'rem':
                steps = py_mod_steps(a, b)
        else:
            m = model[i]
        if i not in model:
            pass
        elif op == 'rem':
            m, steps = model_dec(m[0]), model_dec(m[1])
        elif op in ('even', 'odd'):
            m = bool(m)
        elif op == 'cmp':
            m = {'Lt': -1, 'Eq': 0, 'Gt': 1}[m.name]
        else:
            m = model_dec(m)
        # the model against libmpdec (a disagreement is a defect of the model or of the oracle, never of /repo)
        if o != 'n/a' and not (same(o, m) if (o is None or isinstance(o, tuple)) else o == m):
            if op in ('neg', 'abs', 'trunc', 'round') and isinstance(o, tuple) and isinstance(m, tuple) and dpy(o) == dpy(m):
                pass        # not reduced by the code: compared by value
            else:
                ctx.broken.append('model-vs-libmpdec %s: model=%s libmpdec=%s' % (json.dumps(case), m, o))
                continue
        ctx.nontrivial.add((op, cl, a[1] == 0, len(str(a[1])) // 12, m is None))
        ctx.corr_checked += 1
        variants = [('FeelNumber', got, case)]
        if i in fimpl:
            variants.append(('FEEL', feel_value(fimpl[i]), {'expression': fexprs[i]}))
        for how, g, cs in variants:
            kind, val = g
            if kind == 'bad':
                ctx.violation('%s %s: crashed or gave no value: %s' % (how, op, val), cs, impl=val)
                continue
            if kind == 'nonfinite':
                if how == 'FeelNumber' and op in ('add', 'sub', 'mul', 'div', 'rem', 'round') and ctx.known('feelnumber-api-nonfinite', cs):
                    continue    # the trait operators cannot return None; FEEL level is what the property binds
                ctx.violation('%s %s evaluates to %s (must be a finite number or null)' % (how, op, val), cs, impl=val, model=str(m))
                continue
            if op in ('even', 'odd', 'cmp'):
                if val != m:
                    ctx.violation('%s %s gives %s, the specification %s' % (how, op, val, m), cs, impl=val, model=m)
                continue
            if op == 'rem' and not same(val, m):
                if same(val, steps) and ctx.known('modulo-stepwise-rounding', cs):
                    continue
                ctx.violation('%s modulo gives %s, a - b*floor(a/b) correctly rounded is %s' % (how, val, m), cs, impl=val, model=[m, steps])
                continue
            if op in ('neg', 'abs', 'trunc', 'round'):
                ok = (val is None and m is None) or (val is not None and m is not None and dpy(val) == dpy(m) and (val[1] != 0 or m[1] == 0))
            else:
                ok = same(val, m)
            if not ok:
                if m is None and how == 'FeelNumber' and val is not None and op == 'round':
                    continue    # scale range is checked by the built-in, not by FeelNumber::round
                ctx.violation('%s %s gives %s, the correctly rounded result is %s' % (how, op, val, m), cs, impl=val, model=m)
        if len(ctx.samples) < 5 and cl in ('tie', 'subnormal', 'overflow-edge') and op != 'cmp':
            ctx.sample({'case': case, 'result': str(m)})
    zero_family(ctx, hist)
    # ---------------------------------------------------------------- exp, ln, powers: validated within 2 ulp (not proved)
    tc = transcendental_cases(ctx)
    treqs = [{'op': op, 'a': dtext(a), 'b': dtext(b) if b else '0'} for op, a, b in tc]
    timpl = ctx.run_impl('num', treqs)
    texprs = [feel_expr(op, a, b) for op, a, b in tc]
    tidx = [i for i, e in enumerate(texprs) if e]
    tfeel = dict(zip(tidx, ctx.run_impl('feel', [{'e': texprs[i]} for i in tidx])))
    worst = Decimal(0)
    for i, (op, a, b) in enumerate(tc):
        ctx.evaluations += 1
        exp = transcendental_expect(op, a, b)
        if exp[0] == 'skip':
            continue
        hist[op] = hist.get(op, 0) + 1
        variants = []
        if not (op == 'exp'):
            variants.append(('FeelNumber', impl_value(op, timpl[i]), treqs[i]))
        else:
            variants.append(('FeelNumber', impl_value(op, timpl[i]), treqs[i]))
        if i in tfeel:
            variants.append(('FEEL', feel_value(tfeel[i]), {'expression': texprs[i]}))
        for how, (kind, val), cs in variants:
            if kind == 'bad':
                ctx.violation('%s %s: crashed or gave no value: %s' % (how, op, val), cs, impl=val)
                continue
            if kind == 'nonfinite':
                if how == 'FeelNumber' and op == 'exp' and ctx.known('feelnumber-api-nonfinite', cs):
                    continue
                ctx.violation('%s %s evaluates to %s (must be a finite number or null)' % (how, op, val), cs, impl=val)
                continue
            ctx.corr_checked += 1
            if exp[0] == 'null':
                if val is not None:
                    ctx.violation('%s %s gives %s where the result is undefined or out of range (null expected)' % (how, op, val), cs, impl=val)
                continue
            if val is None:
                if exp[1] != 0 and exp[1].adjusted() < -6143 - 34:
                    continue   # deep underflow: null or zero are both accepted (stated choice: underflow is not an error)
                ctx.violation('%s %s gives null, expected about %s' % (how, op, D128.plus(exp[1])), cs, impl=None, model=str(exp[1]))
                continue
            gv = dpy(val)
            if exp[0] == 'exact':
                if gv != exp[1]:
                    ctx.violation('%s %s gives %s, the exact power is %s' % (how, op, gv, exp[1]), cs, impl=str(gv), model=str(exp[1]))
                continue
            want = D128.plus(exp[1])
            if want == 0 or not want.is_finite():
                continue
            u = ulp_diff(gv, want, exp[1])
            worst = max(worst, u)
            if u > 2:
                ctx.violation('%s %s is %s ulp away from %s' % (how, op, u.quantize(Decimal('0.01')), want), cs, impl=str(gv), model=str(want))
    return ctx.finish(
        rule='operand tuples over (sign, coefficient of 1..34 digits, exponent -6176..6111) with dedicated classes (exact ties at the 34th digit, carries, '
             'cancellation, operands 34+ orders apart, subnormal products/quotients and ties on the subnormal grid, overflow edge, multiplication ties, '
             'division, modulo, trailing zeros, decimal() ties, zeros with exponents, zeros of either sign produced by arithmetic in every comparing construct '
             '(= != < <= in between, list contains, distinct values, index of, union; FeelNumber == vs partial_cmp on all pairs)); every operator through the FeelNumber API and, where the operands '
             'have a FEEL literal, through parse+evaluate; model = IEEE specification evaluated in Coq, cross-checked with libmpdec; '
             'non-trivial = distinct (operator, class, zero operand, length class, null result)',
        extra_cov={'exhaustive': False, 'class_histogram': hist, 'worst_ulp_exp_ln_pow': str(worst.quantize(Decimal('0.001')) if worst else 0),
                   'validated_only': 'exp, ln, non-integer and negative powers: within 2 ulp of libmpdec at 60 digits, not proved'},
        assumptions=['underflow is gradual underflow to the subnormal grid or zero (IEEE), not null; only overflow and undefined results are null',
                     'the sign of a zero result is not compared',
                     'libmpdec (CPython decimal) is used as a second opinion on the Coq model and as the only oracle for exp/ln/inexact powers'],
        trusted=['decNumber C kernel: NOT transliterated, tied by correspondence only', 'CPython decimal (libmpdec) for the 2-ulp validation of exp/ln/pow'])


def replay(ctx, path):
    obj = json.load(open(path))
    case = obj['case']
    refresh_c_kernel()
    ctx.build_harness()
    if 'expression' in case:
        got = ctx.run_impl('feel', [{'e': case['expression']}])[0]
        print('expression     :', case['expression'])
        print('implementation :', json.dumps(got)[:300])
        print('expected       :', obj.get('model'))
        kind, val = feel_value(got)
    else:
        got = ctx.run_impl('num', [{'op': case['op'], 'a': case['a'], 'b': str(case.get('b', '0'))}])[0]
        print('request        :', json.dumps(case))
        print('implementation :', json.dumps(got)[:300])
        print('expected       :', obj.get('model'))
        kind, val = impl_value(case['op'], got)
    want = obj.get('model')
    if isinstance(want, list) and len(want) == 2 and (isinstance(want[0], list) or want[0] is None):
        want = want[0]     # modulo: [specification, stepwise]
    fail = kind in ('bad', 'nonfinite') or json.loads(json.dumps(val)) != want
    print('REPRODUCED' if fail else 'not reproduced')
    return 1 if fail else 0


MANIFEST = dict(
    technique='Coq proof about the IEEE decimal128 specification model (every operation that rounds is THE correctly rounded exact result, stated by a predicate over the exact value with a uniqueness theorem; format, null-iff-overflow, comparison, integral functions) with model/code correspondence against the C kernel',
    text='The C arithmetic kernel (decNumber) is not transliterated: the model is the IEEE 754-2008 decimal128 specification (exact integer arithmetic, one rounding to '
         '34 digits half-even, emax 6144, gradual underflow, clamp, overflow = null). Theorems (coq/Props/C02.v, 50 obligations, closed under the global context) are about that '
         'model. "Correctly rounded" is the predicate correctly_rounded x s o of coq/C02/Exact.v over the EXACT non-negative magnitude x (Quot X Y e = X/Y*10^e, or Root X e = '
         'sqrt(X*10^e); every comparison of x with a decimal point n*10^k is an integer comparison by cross-multiplication, no reals, no rationals): o is null iff '
         'x >= (10^34 - 1/2)*10^6111; otherwise o is a datum in format with sign s and value c*10^q, where q is the exponent fixed by the magnitude of x (the unique q >= -6176 with '
         'x < 10^34*10^q and, unless q = -6176, 10^33*10^q <= x) and c is x/10^q rounded to the nearest integer, half-way cases to the even one (half-way points (10c-+5)*10^(q-1)). '
         'The candidate set is fixed by x, not by the result: C02_correctly_rounded_unique, C02_rounds_to_unique, C02_quantum_unique, C02_nearest_even_unique prove that the predicate '
         'determines the result (two results for the same x and s are both null or equal as numbers; the representation - trailing zeros, clamping - is left open, FEEL reduces). '
         'Proved correctly rounded for ALL operands (any coefficient size, any exponent, zeros included): the rounding step every operation ends with (C02_round34_correctly_rounded), '
         '* (C02_mul_correctly_rounded), integer powers (C02_pow_nat_), + - and the Spec modulo on the exact integer sum / difference / remainder (C02_add_, C02_sub_, C02_mod_), '
         '/ on the exact rational quotient coef a / coef b * 10^(expo a - expo b) for every non-zero divisor (C02_div_correctly_rounded; via >= 36 computed quotient digits, '
         'C02_div_quotient_digits, and a sticky digit), sqrt on the exact root for every non-negative operand (C02_sqrt_correctly_rounded; via C02_sqrt_root_digits), and the '
         'reduce-after-operation step keeps a correct rounding correct (C02_reduce_correctly_rounded). C02_audit_counterexample: for a = 10^34-3, b = 1 the predicate accepts the exact '
         'quotient and rejects 1E+34, which the earlier statement (bounding the quantum through the result coefficient) accepted. C02_round34_nearest_even: the same with the quantum '
         'target_exp computed from the operands and the tie clause about the coefficient of the result. decimal(): C02_round_half_even (nearest multiple of 10^-scale, ties to even) + C02_decimal_in_format. '
         'Null exactly when undefined or out of range: C02_div_null_iff (zero divisor or quotient at the threshold), C02_mod_null_iff, C02_sqrt_null_iff + C02_sqrt_defined (negative non-zero operand only), '
         'C02_null_iff_overflow / C02_defined_iff_in_range and the * + instances. C02_results_in_format: for all operands in format every operator and method that yields a number '
         '(+ - * / modulo, negation, abs, floor, ceiling, truncation, sqrt, decimal(), integer powers, with the reduce step) gives null or a datum with coefficient < 10^34 and exponent -6176..6111. '
         'Comparison by value: C02_cmp_eq_iff_value (equal iff the values read at any common exponent are the same integer), trailing zeros, equivalence and order laws; floor / ceiling / exact remainder. '
         'Not proved: exp, ln, inexact powers (validated within 2 ulp only); the stepwise modulo of the code differs from the Spec (known finding, C02_mod_steps_refuted). '
         'The tie to the code is the correspondence check: FeelNumber API and FEEL text on boundary-class operand tuples vs the model evaluated in Coq '
         '(cross-checked with libmpdec), a dedicated rounding family, and the comparison of zeros of either sign produced by arithmetic in every comparing construct; '
         'no-Infinity/NaN is evaluated directly on the implementation output.',
    note='Trusted: Coq kernel + vm_compute, the reading of IEEE 754-2008 in Base/DecRound.v and of "correctly rounded" in C02/Exact.v, decNumber (sampled, not verified), libmpdec as second oracle, harness.')
