(* C17 — executable model of workspace/src/workspace.rs (Workspace: add, remove, replace, clear,
   deploy, evaluate_invocable).  ImplModel = the four separately updated fields of the Rust
   struct; the list-shaped abstract workspace below (a list of models plus the deployed evaluators)
   is the first Spec layer; the predicate-shaped Spec that shares no function with the ImplModel is
   in C17/Abstract.v.  No proofs in this file. *)
From Coq Require Import List NArith Bool.
Import ListNotations.
Open Scope N_scope.

(* A DMN document as the workspace sees it: namespace, name, whether ModelEvaluator::new succeeds, and WHICH document
   it is (doc: two documents with the same namespace and name are told apart by it; an evaluation served by the
   evaluator built from the document answers with it). *)
Record mdl := { ns : N; nm : N; builds : bool; doc : N }.

Definition mem (x : N) (l : list N) : bool := existsb (N.eqb x) l.
Definition del (x : N) (l : list N) : list N := filter (fun y => negb (N.eqb x y)) l.

Inductive op :=
| Add (m : mdl) | Remove (n k : N) | Replace (m : mdl) | Clear | Deploy | Eval (k : N).

(* model_evaluators_by_name as an association list name -> document the evaluator was built from *)
Fixpoint lookup (k : N) (l : list (N * N)) : option N :=
  match l with
  | [] => None
  | (k', d) :: r => if N.eqb k k' then Some d else lookup k r
  end.
Definition deld (x : N) (l : list (N * N)) : list (N * N) := filter (fun p => negb (N.eqb x (fst p))) l.

(* observable result of an operation; an evaluation answers None (not deployed) or the document whose evaluator served it *)
Inductive out := OAdd (ok : bool) | OUnit | OEval (served : option N).

(* ---------------- ImplModel ---------------- *)
(* definitions : Vec, definitions_by_namespace / definitions_by_name : HashMap key sets,
   model_evaluators_by_name : HashMap name -> evaluator (the document it was built from) *)
Record ws := { defs : list mdl; by_ns : list N; by_nm : list N; evs : list (N * N) }.

Definition init : ws := {| defs := []; by_ns := []; by_nm := []; evs := [] |}.

Definition add (s : ws) (m : mdl) : ws * bool :=
  if mem (ns m) (by_ns s) then (s, false) else
  if mem (nm m) (by_nm s) then (s, false) else
  ({| defs := defs s ++ [m]; by_ns := ns m :: by_ns s; by_nm := nm m :: by_nm s; evs := [] |}, true).

Definition retained (n k : N) (d : mdl) : bool := negb (N.eqb (ns d) n) && negb (N.eqb (nm d) k).

(* Workspace::remove as it was at the pinned commit: only the two given keys leave the indexes *)
Definition remove_orig (s : ws) (n k : N) : ws :=
  {| defs := filter (retained n k) (defs s); by_ns := del n (by_ns s); by_nm := del k (by_nm s); evs := [] |}.

(* Workspace::remove after the fix: commit: retain() removes the index keys of every dropped definition *)
Definition remove (s : ws) (n k : N) : ws :=
  let dropped := filter (fun d => negb (retained n k d)) (defs s) in
  {| defs := filter (retained n k) (defs s);
     by_ns := fold_left (fun l d => del (ns d) l) dropped (by_ns s);
     by_nm := fold_left (fun l d => del (nm d) l) dropped (by_nm s);
     evs := [] |}.

Definition deploy (s : ws) : ws :=
  {| defs := defs s; by_ns := by_ns s; by_nm := by_nm s;
     evs := fold_left (fun l d => if builds d then (nm d, doc d) :: deld (nm d) l else l) (defs s) [] |}.

Section Step.
Variable rm : ws -> N -> N -> ws.
Definition step (s : ws) (o : op) : ws * out :=
  match o with
  | Add m => let (s', ok) := add s m in (s', OAdd ok)
  | Remove n k => (rm s n k, OUnit)
  | Replace m => let (s', ok) := add (rm s (ns m) (nm m)) m in (s', OAdd ok)
  | Clear => (init, OUnit)
  | Deploy => (deploy s, OUnit)
  | Eval k => (s, OEval (lookup k (evs s)))
  end.

Fixpoint run (s : ws) (ops : list op) : ws * list out :=
  match ops with
  | [] => (s, [])
  | o :: r => let (s1, x) := step s o in let (s2, xs) := run s1 r in (s2, x :: xs)
  end.
End Step.

(* ---------------- Spec, list-shaped: the abstract workspace ---------------- *)
Record aws := { adefs : list mdl; aevs : list (N * N) }.
Definition ainit : aws := {| adefs := []; aevs := [] |}.

Definition clash (m d : mdl) : bool := N.eqb (ns d) (ns m) || N.eqb (nm d) (nm m).
Definition can_add (l : list mdl) (m : mdl) : bool := negb (existsb (clash m) l).

Definition a_add (a : aws) (m : mdl) : aws * bool :=
  if can_add (adefs a) m then ({| adefs := adefs a ++ [m]; aevs := [] |}, true) else (a, false).
Definition a_remove (a : aws) (n k : N) : aws :=
  {| adefs := filter (retained n k) (adefs a); aevs := [] |}.

Definition astep (a : aws) (o : op) : aws * out :=
  match o with
  | Add m => let (a', ok) := a_add a m in (a', OAdd ok)
  | Remove n k => (a_remove a n k, OUnit)
  | Replace m => let (a', ok) := a_add (a_remove a (ns m) (nm m)) m in (a', OAdd ok)
  | Clear => (ainit, OUnit)
  | Deploy => ({| adefs := adefs a; aevs := map (fun d => (nm d, doc d)) (filter builds (adefs a)) |}, OUnit)
  | Eval k => (a, OEval (lookup k (aevs a)))
  end.

Fixpoint arun (a : aws) (ops : list op) : aws * list out :=
  match ops with
  | [] => (a, [])
  | o :: r => let (a1, x) := astep a o in let (a2, xs) := arun a1 r in (a2, x :: xs)
  end.

(* what the correspondence check prints for one history *)
Definition trace (rm : ws -> N -> N -> ws) (ops : list op) : list (out * ws) :=
  (fix go (s : ws) (ops : list op) :=
     match ops with [] => [] | o :: r => let (s1, x) := step rm s o in (x, s1) :: go s1 r end) init ops.

(* ---------------- what the exhaustive part of the correspondence check prints ---------------- *)
(* the observation the hook verif_snapshot gives of a state: the stored (namespace, name) pairs in order, the key sets of the
   two indexes and of the evaluator map as sorted lists without repetition *)
Fixpoint ins (x : N) (l : list N) : list N :=
  match l with
  | [] => [x]
  | y :: r => if x <? y then x :: l else if x =? y then l else y :: ins x r
  end.
Definition sortN (l : list N) : list N := fold_right ins [] l.
Definition observe (s : ws) : list (N * N) * list N * list N * list N :=
  (map (fun d => (ns d, nm d)) (defs s), sortN (by_ns s), sortN (by_nm s), sortN (map fst (evs s))).

(* every history of length 1..n over the alphabet that extends the state s, in pre-order, each with the result of its last
   operation and the observation of the state it leads to (states are shared along the tree, nothing is run twice) *)
Fixpoint explore (alphabet : list op) (n : nat) (s : ws) : list (out * (list (N * N) * list N * list N * list N)) :=
  match n with
  | O => []
  | S n' => flat_map (fun o => let (s1, x) := step remove s o in (x, observe s1) :: explore alphabet n' s1) alphabet
  end.
