(* C19 — proofs about the characters -> plane model (coq/C19/Canvas.v) on regular drawings (coq/C19/CanvasDraw.v).
   (owner: ext-canvas) *)
From Coq Require Import List NArith Bool Arith Lia.
From DV Require Import C19.Model C19.Canvas C19.CanvasDraw.
Import ListNotations.

(* ================================================================== lists, tabulated layers *)
Lemma mapi_from_map_seq {A B} (f : nat -> A -> B) (g : nat -> A) n : forall i,
  mapi_from f i (map g (seq i n)) = map (fun k => f k (g k)) (seq i n).
Proof. induction n as [|n IH]; intro i; cbn [seq map mapi_from]; [reflexivity|]. now rewrite IH. Qed.

Lemma remap_tab h w f0 F : remap (tab h w f0) F = tab h w (fun y x => F y x (f0 y x)).
Proof.
  unfold remap, mapi, tab. rewrite mapi_from_map_seq. apply map_ext. intro y.
  now rewrite mapi_from_map_seq.
Qed.

Lemma tab_length h w f : length (tab h w f) = h.
Proof. unfold tab. now rewrite map_length, seq_length. Qed.

Lemma tab_row h w f y : y < h -> nth_error (tab h w f) y = Some (map (f y) (seq 0 w)).
Proof.
  intro Hy. unfold tab. rewrite nth_error_map.
  rewrite (nth_error_nth' _ 0) by now rewrite seq_length. now rewrite seq_nth.
Qed.

Lemma tab_row_nth h w f y : y < h -> nth y (tab h w f) [] = map (f y) (seq 0 w).
Proof. intro Hy. apply nth_error_nth. now apply tab_row. Qed.

Lemma map_seq_nth_error {A} (f : nat -> A) w x : x < w -> nth_error (map f (seq 0 w)) x = Some (f x).
Proof.
  intro Hx. rewrite nth_error_map. rewrite (nth_error_nth' _ 0) by now rewrite seq_length. now rewrite seq_nth.
Qed.

Lemma get_tab h w f y x : y < h -> x < w -> get (tab h w f) y x = Some (f y x).
Proof. intros Hy Hx. unfold get. rewrite tab_row by assumption. now apply map_seq_nth_error. Qed.

Lemma getd_tab h w f y x : y < h -> x < w -> getd (tab h w f) y x = f y x.
Proof.
  intros Hy Hx. unfold getd. rewrite tab_row_nth by assumption. apply nth_error_nth. now apply map_seq_nth_error.
Qed.

Lemma tab_ext h w f g : (forall y x, y < h -> x < w -> f y x = g y x) -> tab h w f = tab h w g.
Proof.
  intro E. unfold tab. apply map_ext_in. intros y Hy. apply in_seq in Hy.
  apply map_ext_in. intros x Hx. apply in_seq in Hx. apply E; lia.
Qed.

Lemma map_map_tab h w f p : map (map p) (tab h w f) = tab h w (fun y x => p (f y x)).
Proof. unfold tab. rewrite map_map. apply map_ext. intro y. now rewrite map_map. Qed.

Lemma skipn_seq a : forall s n, skipn a (seq s n) = seq (s + a) (n - a).
Proof.
  induction a as [|a IH]; intros s n.
  - now rewrite Nat.add_0_r, Nat.sub_0_r.
  - destruct n as [|n]; [reflexivity|]. cbn [seq skipn]. rewrite IH. f_equal. lia.
Qed.
Lemma firstn_seq a : forall s n, a <= n -> firstn a (seq s n) = seq s a.
Proof.
  induction a as [|a IH]; intros s n Hle; [reflexivity|].
  destruct n as [|n]; [lia|]. cbn [seq firstn]. now rewrite IH by lia.
Qed.
Lemma slice_map_seq {A} (f : nat -> A) w a n : a + n <= w -> firstn n (skipn a (map f (seq 0 w))) = map f (seq a n).
Proof. intro H. rewrite skipn_map, firstn_map, skipn_seq, firstn_seq by lia. reflexivity. Qed.

Lemma existsb_false {A} (p : A -> bool) l : (forall a, In a l -> p a = false) -> existsb p l = false.
Proof.
  induction l as [|a l IH]; intro H; [reflexivity|]. cbn [existsb].
  rewrite (H a (or_introl eq_refl)), IH; [reflexivity|]. intros b Hb. apply H. now right.
Qed.
Lemma filter_none {A} (p : A -> bool) l : (forall a, In a l -> p a = false) -> filter p l = [].
Proof.
  induction l as [|a l IH]; intro H; [reflexivity|]. cbn [filter].
  rewrite (H a (or_introl eq_refl)). apply IH. intros b Hb. apply H. now right.
Qed.

(* ================================================================== the four directed searches *)
Section Scans.
Variable g : layer.
Variables s a : list N.

Definition passable (c : option N) : Prop := exists c', c = Some c' /\ mem c' s = false /\ mem c' a = true.

Lemma scan_right_found y c : forall k d x,
  1 <= d -> d <= k ->
  (forall e, 1 <= e -> e < d -> passable (get g y (x + e))) ->
  get g y (x + d) = Some c -> mem c s = true ->
  scan_right g s a y k x = Ok (c, (x + d, y)).
Proof.
  induction k as [|k IH]; intros d x Hd Hk Hp Hg Hm; [lia|].
  cbn [scan_right]. destruct (Nat.eq_dec d 1) as [->|Hne].
  - replace (x + 1) with (S x) in * by lia. rewrite Hg. unfold step. now rewrite Hm.
  - destruct (Hp 1) as (c' & E & Hs & Ha); [lia|lia|]. replace (x + 1) with (S x) in E by lia.
    rewrite E. unfold step. rewrite Hs, Ha.
    replace (x + d) with (S x + (d - 1)) in * by lia. apply IH; try lia; try assumption.
    intros e He1 He2. replace (S x + e) with (x + S e) by lia. apply Hp; lia.
Qed.

Lemma scan_right_stop y c : forall k d x,
  1 <= d -> d <= k ->
  (forall e, 1 <= e -> e < d -> passable (get g y (x + e))) ->
  get g y (x + d) = Some c -> mem c s = false -> mem c a = false ->
  scan_right g s a y k x = Err.
Proof.
  induction k as [|k IH]; intros d x Hd Hk Hp Hg Hm Hn; [lia|].
  cbn [scan_right]. destruct (Nat.eq_dec d 1) as [->|Hne].
  - replace (x + 1) with (S x) in * by lia. rewrite Hg. unfold step. now rewrite Hm, Hn.
  - destruct (Hp 1) as (c' & E & Hs & Ha); [lia|lia|]. replace (x + 1) with (S x) in E by lia.
    rewrite E. unfold step. rewrite Hs, Ha.
    apply (IH (d - 1)); try lia; try assumption.
    + intros e He1 He2. replace (S x + e) with (x + S e) by lia. apply Hp; lia.
    + now replace (S x + (d - 1)) with (x + d) by lia.
Qed.

Lemma scan_down_found x c : forall k d y,
  1 <= d -> d <= k ->
  (forall e, 1 <= e -> e < d -> passable (get g (y + e) x)) ->
  get g (y + d) x = Some c -> mem c s = true ->
  scan_down g s a x k y = Ok (c, (x, y + d)).
Proof.
  induction k as [|k IH]; intros d y Hd Hk Hp Hg Hm; [lia|].
  cbn [scan_down]. destruct (Nat.eq_dec d 1) as [->|Hne].
  - replace (y + 1) with (S y) in * by lia. rewrite Hg. unfold step. now rewrite Hm.
  - destruct (Hp 1) as (c' & E & Hs & Ha); [lia|lia|]. replace (y + 1) with (S y) in E by lia.
    rewrite E. unfold step. rewrite Hs, Ha.
    replace (y + d) with (S y + (d - 1)) in * by lia. apply IH; try lia; try assumption.
    intros e He1 He2. replace (S y + e) with (y + S e) by lia. apply Hp; lia.
Qed.

Lemma scan_down_stop x c : forall k d y,
  1 <= d -> d <= k ->
  (forall e, 1 <= e -> e < d -> passable (get g (y + e) x)) ->
  get g (y + d) x = Some c -> mem c s = false -> mem c a = false ->
  scan_down g s a x k y = Err.
Proof.
  induction k as [|k IH]; intros d y Hd Hk Hp Hg Hm Hn; [lia|].
  cbn [scan_down]. destruct (Nat.eq_dec d 1) as [->|Hne].
  - replace (y + 1) with (S y) in * by lia. rewrite Hg. unfold step. now rewrite Hm, Hn.
  - destruct (Hp 1) as (c' & E & Hs & Ha); [lia|lia|]. replace (y + 1) with (S y) in E by lia.
    rewrite E. unfold step. rewrite Hs, Ha.
    apply (IH (d - 1)); try lia; try assumption.
    + intros e He1 He2. replace (S y + e) with (y + S e) by lia. apply Hp; lia.
    + now replace (S y + (d - 1)) with (y + d) by lia.
Qed.

(* leftwards / upwards: from x down to x - d *)
Lemma scan_left_found y c : forall d x,
  1 <= d -> d <= x ->
  (forall e, 1 <= e -> e < d -> passable (get g y (x - e))) ->
  get g y (x - d) = Some c -> mem c s = true ->
  scan_left g s a y x = Ok (c, (x - d, y)).
Proof.
  induction d as [|d IH]; intros x Hd Hx Hp Hg Hm; [lia|].
  destruct x as [|x]; [lia|]. cbn [scan_left]. destruct (Nat.eq_dec d 0) as [->|Hne].
  - replace (S x - 1) with x in * by lia. rewrite Hg. unfold step. now rewrite Hm.
  - destruct (Hp 1) as (c' & E & Hs & Ha); [lia|lia|]. replace (S x - 1) with x in E by lia.
    rewrite E. unfold step. rewrite Hs, Ha.
    replace (S x - S d) with (x - d) in * by lia. apply IH; try lia; try assumption.
    intros e He1 He2. replace (x - e) with (S x - S e) by lia. apply Hp; lia.
Qed.

Lemma scan_up_found x c : forall d y,
  1 <= d -> d <= y ->
  (forall e, 1 <= e -> e < d -> passable (get g (y - e) x)) ->
  get g (y - d) x = Some c -> mem c s = true ->
  scan_up g s a x y = Ok (c, (x, y - d)).
Proof.
  induction d as [|d IH]; intros y Hd Hy Hp Hg Hm; [lia|].
  destruct y as [|y]; [lia|]. cbn [scan_up]. destruct (Nat.eq_dec d 0) as [->|Hne].
  - replace (S y - 1) with y in * by lia. rewrite Hg. unfold step. now rewrite Hm.
  - destruct (Hp 1) as (c' & E & Hs & Ha); [lia|lia|]. replace (S y - 1) with y in E by lia.
    rewrite E. unfold step. rewrite Hs, Ha.
    replace (S y - S d) with (y - d) in * by lia. apply IH; try lia; try assumption.
    intros e He1 He2. replace (y - e) with (S y - S e) by lia. apply Hp; lia.
Qed.
End Scans.

(* ================================================================== geometry of the columns *)
Lemma X_succ : forall ws j, j < length ws -> X ws (S j) = X ws j + nth j ws 0 + 1.
Proof.
  induction ws as [|w ws IH]; intros j Hj; cbn [length] in Hj; [lia|].
  destruct j as [|j].
  - cbn [X nth]. destruct ws; cbn [X]; lia.
  - change (X (w :: ws) (S (S j))) with (S (w + X ws (S j))). rewrite IH by lia. cbn [X nth]. lia.
Qed.

Lemma X_0 ws : X ws 0 = 0.
Proof. destruct ws; reflexivity. Qed.

Lemma X_mono ws : forall j j', j < j' -> j' <= length ws -> X ws j < X ws j'.
Proof.
  intros j j' Hlt. induction j' as [|j' IH]; intro Hle; [lia|].
  rewrite X_succ by lia. destruct (Nat.eq_dec j j') as [->|Hne]; [lia|]. specialize (IH ltac:(lia) ltac:(lia)). lia.
Qed.

Lemma X_le ws j j' : j <= j' -> j' <= length ws -> X ws j <= X ws j'.
Proof. intros H1 H2. destruct (Nat.eq_dec j j') as [->|Hne]; [lia|]. pose proof (X_mono ws j j'). lia. Qed.

Lemma X_inj ws j j' : j <= length ws -> j' <= length ws -> X ws j = X ws j' -> j = j'.
Proof.
  intros H1 H2 E. destruct (Nat.lt_trichotomy j j') as [L|[L|L]]; [|assumption|].
  - pose proof (X_mono ws j j' L H2). lia.
  - pose proof (X_mono ws j' j L H1). lia.
Qed.

Lemma locate_sep : forall ws j, j <= length ws -> locate ws (X ws j) = PSep j.
Proof.
  induction ws as [|w ws IH]; intros j Hj; cbn [length] in Hj.
  - replace j with 0 by lia. reflexivity.
  - destruct j as [|j]; [reflexivity|]. cbn [X locate].
    replace (w + X ws j <? w) with false by (symmetry; apply Nat.ltb_ge; lia).
    replace (w + X ws j - w) with (X ws j) by lia. now rewrite IH by lia.
Qed.

Lemma locate_in : forall ws j o, j < length ws -> o < nth j ws 0 -> locate ws (X ws j + 1 + o) = PIn j o.
Proof.
  induction ws as [|w ws IH]; intros j o Hj Ho; cbn [length] in Hj; [lia|].
  destruct j as [|j].
  - cbn [nth] in Ho. rewrite X_0. cbn [Nat.add locate]. now replace (o <? w) with true by (symmetry; apply Nat.ltb_lt; lia).
  - cbn [nth] in Ho. cbn [X]. replace (S (w + X ws j) + 1 + o) with (S (w + (X ws j + 1 + o))) by lia. cbn [locate].
    replace (w + (X ws j + 1 + o) <? w) with false by (symmetry; apply Nat.ltb_ge; lia).
    replace (w + (X ws j + 1 + o) - w) with (X ws j + 1 + o) by lia. now rewrite IH by lia.
Qed.

(* every x up to the right border is a vertical line or inside a column *)
Lemma cover ws : forall j x, j <= length ws -> x <= X ws j ->
  (exists j', j' <= j /\ x = X ws j') \/ (exists j' o, j' < j /\ o < nth j' ws 0 /\ x = X ws j' + 1 + o).
Proof.
  induction j as [|j IH]; intros x Hj Hx.
  - left. exists 0. rewrite X_0 in *. split; lia.
  - rewrite X_succ in Hx by lia. destruct (Nat.le_gt_cases x (X ws j)) as [L|G].
    + destruct (IH x ltac:(lia) L) as [(j' & H1 & H2)|(j' & o & H1 & H2 & H3)].
      * left. exists j'. split; [lia|assumption].
      * right. exists j', o. repeat split; try assumption; lia.
    + destruct (Nat.eq_dec x (X ws j + nth j ws 0 + 1)) as [E|NE].
      * left. exists (S j). split; [lia|]. rewrite X_succ by lia. assumption.
      * right. exists j, (x - X ws j - 1). repeat split; lia.
Qed.

(* ================================================================== search in a tabulated layer *)
Lemma move_to_tab h w f p : fst p < w -> snd p < h -> move_to (tab h w f) p = Ok p.
Proof.
  intros Hx Hy. unfold move_to. rewrite tab_length.
  replace (snd p <? h) with true by (symmetry; now apply Nat.ltb_lt).
  rewrite tab_row by assumption. rewrite map_length, seq_length.
  replace (fst p <? w) with true by (symmetry; now apply Nat.ltb_lt). now destruct p.
Qed.

Lemma find_row_first (f : nat -> N) s x1 : forall n x0,
  x0 <= x1 -> x1 < x0 + n -> (forall x, x0 <= x -> x < x1 -> mem (f x) s = false) -> mem (f x1) s = true ->
  find_row s (map f (seq x0 n)) x0 = Some (f x1, x1).
Proof.
  induction n as [|n IH]; intros x0 H1 H2 Hn Hm; [lia|]. cbn [seq map find_row].
  destruct (Nat.eq_dec x0 x1) as [->|Hne]; [now rewrite Hm|].
  rewrite Hn by lia. apply IH; try lia; try assumption. intros x Hx1 Hx2. apply Hn; lia.
Qed.
Lemma find_row_none (f : nat -> N) s : forall n x0,
  (forall x, x0 <= x -> x < x0 + n -> mem (f x) s = false) -> find_row s (map f (seq x0 n)) x0 = None.
Proof.
  induction n as [|n IH]; intros x0 Hn; [reflexivity|]. cbn [seq map find_row].
  rewrite Hn by lia. apply IH. intros x Hx1 Hx2. apply Hn; lia.
Qed.
Lemma find_rows_first (f : nat -> nat -> N) s w y1 x1 : forall n y0,
  y0 <= y1 -> y1 < y0 + n ->
  (forall y x, y0 <= y -> y < y1 -> x < w -> mem (f y x) s = false) ->
  x1 < w -> (forall x, x < x1 -> mem (f y1 x) s = false) -> mem (f y1 x1) s = true ->
  find_rows s (map (fun y => map (f y) (seq 0 w)) (seq y0 n)) y0 = Some (f y1 x1, (x1, y1)).
Proof.
  induction n as [|n IH]; intros y0 H1 H2 Hn Hx Hb Hm; [lia|]. cbn [seq map find_rows].
  destruct (Nat.eq_dec y0 y1) as [->|Hne].
  - rewrite (find_row_first (f y1) s x1) by (try assumption; try lia; intros; apply Hb; lia). reflexivity.
  - rewrite find_row_none by (intros; apply Hn; lia). apply IH; try lia; try assumption.
    intros y x Hy1 Hy2 Hxw. apply Hn; lia.
Qed.

Lemma search_tab_same h w f s x0 y x1 :
  y < h -> x0 <= x1 -> x1 < w -> (forall x, x0 <= x -> x < x1 -> mem (f y x) s = false) -> mem (f y x1) s = true ->
  search (tab h w f) (x0, y) s = Ok (f y x1, (x1, y)).
Proof.
  intros Hy H1 H2 Hn Hm. unfold search. rewrite tab_row by assumption.
  rewrite skipn_map, skipn_seq. cbn [Nat.add].
  now rewrite (find_row_first (f y) s x1) by (try assumption; lia).
Qed.
Lemma search_tab_later h w f s x0 y y1 x1 :
  y < y1 -> y1 < h -> (forall x, x0 <= x -> x < w -> mem (f y x) s = false) ->
  (forall y' x, y < y' -> y' < y1 -> x < w -> mem (f y' x) s = false) ->
  x1 < w -> (forall x, x < x1 -> mem (f y1 x) s = false) -> mem (f y1 x1) s = true ->
  search (tab h w f) (x0, y) s = Ok (f y1 x1, (x1, y1)).
Proof.
  intros Hy Hy1 Hr Hn Hx Hb Hm. unfold search. rewrite tab_row by lia.
  rewrite skipn_map, skipn_seq. cbn [Nat.add].
  rewrite find_row_none by (intros; apply Hr; lia).
  unfold tab at 1. rewrite skipn_map, skipn_seq. cbn [Nat.add].
  now rewrite (find_rows_first f s w y1 x1) by (try assumption; try lia; intros; apply Hn; lia).
Qed.

Lemma map_seq_eq {A} (f : nat -> A) dflt : forall l a, (forall o, o < length l -> f (a + o) = nth o l dflt) -> map f (seq a (length l)) = l.
Proof.
  induction l as [|x l IH]; intros a Hf; [reflexivity|]. cbn [length seq map]. f_equal.
  - specialize (Hf 0 ltac:(cbn; lia)). now rewrite Nat.add_0_r in Hf.
  - apply IH. intros o Ho. specialize (Hf (S o) ltac:(cbn; lia)). cbn [nth] in Hf. now replace (S a + o) with (a + S o) by lia.
Qed.

(* ================================================================== characters that are not box characters *)
Lemma mem_neq c k l : mem c l = false -> mem k l = true -> (c =? k)%N = false.
Proof.
  unfold mem. induction l as [|b l IH]; cbn [existsb]; intros H1 H2; [discriminate|].
  apply orb_false_iff in H1. destruct H1 as [H1 H1']. apply orb_true_iff in H2. destruct H2 as [H2|H2].
  - apply N.eqb_eq in H2. now subst k.
  - now apply IH.
Qed.

Lemma not_in_sub c l : mem c box_chars = false -> forallb (fun k => mem k box_chars) l = true -> mem c l = false.
Proof.
  intros H. induction l as [|k l IH]; cbn [forallb]; intro F; [reflexivity|].
  apply andb_true_iff in F. destruct F as [F1 F2]. unfold mem in *. cbn [existsb].
  rewrite (mem_neq c k box_chars H F1). now apply IH.
Qed.

Lemma prep_plain c : mem c box_chars = false -> prep c = cWhite.
Proof.
  intro H. unfold prep, mem. cbn [existsb]. destruct (c =? cWhite)%N eqn:E.
  - apply N.eqb_eq in E. subst c. reflexivity.
  - rewrite !(mem_neq c _ _ H) by reflexivity. reflexivity.
Qed.

Lemma plain_nth t o : plain t = true -> mem (nth o t cWhite) box_chars = false.
Proof.
  intro P. destruct (Nat.lt_ge_cases o (length t)) as [L|G].
  - unfold plain in P. rewrite forallb_forall in P. specialize (P _ (nth_In t cWhite L)). now apply negb_true_iff in P.
  - now rewrite nth_overflow by assumption.
Qed.

Lemma even_2 i : Nat.even (2 * i) = true.
Proof. rewrite Nat.even_mul. reflexivity. Qed.
Lemma even_2_1 i : Nat.even (2 * i + 1) = false.
Proof. rewrite Nat.add_comm, Nat.even_add_mul_2. reflexivity. Qed.
Lemma div2_2_1 i : Nat.div2 (2 * i + 1) = i.
Proof. replace (2 * i + 1) with (S (2 * i)) by lia. apply Nat.div2_succ_double. Qed.

(* ================================================================== a well-formed regular drawing *)
Section Regular.
Variable d : rdraw.
Hypothesis Hwf : wf_rdraw d = true.

Let ws := rd_ws d.
Let m := nrows d.
Let nc := ncols d.
Let v1 := rd_v1 d.
Let W := Wd d.
Let H := Hd d.

Lemma wf_facts :
  2 <= m /\ 1 <= v1 /\ v1 < nc /\
  match rd_v2 d with Some k => v1 < k /\ k < nc | None => True end /\
  forall i j, i < m -> j < nc -> length (cell_text d i j) = nth j ws 0 /\ plain (cell_text d i j) = true.
Proof.
  unfold wf_rdraw in Hwf. rewrite !andb_true_iff in Hwf. destruct Hwf as ((((A & B) & C) & D) & E).
  apply Nat.leb_le in A, B. apply Nat.ltb_lt in C.
  repeat split; try assumption.
  - destruct (rd_v2 d) as [k|]; [|exact I]. apply andb_true_iff in D. destruct D as [D1 D2].
    apply Nat.ltb_lt in D1, D2. split; assumption.
  - rewrite forallb_forall in E. unfold cell_text.
    assert (In (nth i (rd_rows d) []) (rd_rows d)) as Hin by (apply nth_In; assumption).
    specialize (E _ Hin). apply andb_true_iff in E. destruct E as [E1 E2]. apply Nat.eqb_eq in E1.
    rewrite forallb_forall in E2.
    assert (In (nth j (nth i (rd_rows d) []) [], nth j ws 0) (combine (nth i (rd_rows d) []) ws)) as Hc.
    { rewrite <- combine_nth by (rewrite E1; reflexivity). apply nth_In. rewrite combine_length, E1. fold nc. unfold ws, nc, ncols in *. lia. }
    specialize (E2 _ Hc). cbn [fst snd] in E2. apply andb_true_iff in E2. destruct E2 as [E2 _]. now apply Nat.eqb_eq in E2.
  - rewrite forallb_forall in E. unfold cell_text.
    assert (In (nth i (rd_rows d) []) (rd_rows d)) as Hin by (apply nth_In; assumption).
    specialize (E _ Hin). apply andb_true_iff in E. destruct E as [E1 E2]. apply Nat.eqb_eq in E1.
    rewrite forallb_forall in E2.
    assert (In (nth j (nth i (rd_rows d) []) [], nth j ws 0) (combine (nth i (rd_rows d) []) ws)) as Hc.
    { rewrite <- combine_nth by (rewrite E1; reflexivity). apply nth_In. rewrite combine_length, E1. fold nc. unfold ws, nc, ncols in *. lia. }
    specialize (E2 _ Hc). cbn [fst snd] in E2. apply andb_true_iff in E2. now destruct E2 as [_ E2].
Qed.

Lemma m_ge : 2 <= m. Proof. apply wf_facts. Qed.
Lemma v1_ge : 1 <= v1. Proof. apply wf_facts. Qed.
Lemma v1_lt : v1 < nc. Proof. apply wf_facts. Qed.
Lemma v2_bounds k : rd_v2 d = Some k -> v1 < k /\ k < nc.
Proof. intro E. pose proof wf_facts as (_ & _ & _ & F & _). now rewrite E in F. Qed.
Lemma cell_len i j : i < m -> j < nc -> length (cell_text d i j) = nth j ws 0.
Proof. intros. now apply wf_facts. Qed.
Lemma cell_plain i j : i < m -> j < nc -> plain (cell_text d i j) = true.
Proof. intros. now apply wf_facts. Qed.

Definition hl (i : nat) : N := if i =? 1 then dH else cH.
Definition vl (j : nat) : N := if is_dbl d j then dV else cV.

Lemma ch_junction i j : j <= nc -> char_at d (2 * i) (X ws j) = junction d i j.
Proof. intro Hj. unfold char_at. fold ws. rewrite locate_sep by assumption. now rewrite even_2, Nat.div2_double. Qed.
Lemma ch_hline i j o : j < nc -> o < nth j ws 0 -> char_at d (2 * i) (X ws j + 1 + o) = hl i.
Proof. intros Hj Ho. unfold char_at. fold ws. rewrite locate_in by assumption. now rewrite even_2, Nat.div2_double. Qed.
Lemma ch_vline i j : j <= nc -> char_at d (2 * i + 1) (X ws j) = vl j.
Proof. intro Hj. unfold char_at. fold ws. rewrite locate_sep by assumption. now rewrite even_2_1. Qed.
Lemma ch_text i j o : j < nc -> o < nth j ws 0 -> char_at d (2 * i + 1) (X ws j + 1 + o) = nth o (cell_text d i j) cWhite.
Proof. intros Hj Ho. unfold char_at. fold ws. rewrite locate_in by assumption. now rewrite even_2_1, div2_2_1. Qed.

(* the TEXT layer: the drawing and the extra last line of the Rust canvas *)
Definition chT (y x : nat) : N := if y <? H then char_at d y x else cOuter.
Definition T : layer := tab (S H) W chT.
Definition B : layer := tab (S H) W (fun y _ => if y <? H then cWhite else cOuter).

Lemma W_eq : W = S (X ws nc). Proof. reflexivity. Qed.
Lemma H_eq : H = S (2 * m). Proof. reflexivity. Qed.

Lemma Xj_lt_W j : j <= nc -> X ws j < W.
Proof. intro Hj. rewrite W_eq. pose proof (X_le ws j nc Hj (le_n _)). unfold nc, ncols, ws in *. lia. Qed.
Lemma Xin_lt j o : j < nc -> o < nth j ws 0 -> X ws j + 1 + o < X ws (S j).
Proof. intros Hj Ho. rewrite X_succ by assumption. lia. Qed.
Lemma Xin_lt_W j o : j < nc -> o < nth j ws 0 -> X ws j + 1 + o < W.
Proof. intros Hj Ho. pose proof (Xin_lt j o Hj Ho). pose proof (Xj_lt_W (S j) ltac:(lia)). lia. Qed.

Lemma getT_junction i j : i <= m -> j <= nc -> get T (2 * i) (X ws j) = Some (junction d i j).
Proof.
  intros Hi Hj. unfold T. rewrite get_tab by (try apply Xj_lt_W; try rewrite H_eq; try assumption; lia).
  unfold chT. replace (2 * i <? H) with true by (symmetry; apply Nat.ltb_lt; rewrite H_eq; lia). now rewrite ch_junction.
Qed.
Lemma getT_hline i j o : i <= m -> j < nc -> o < nth j ws 0 -> get T (2 * i) (X ws j + 1 + o) = Some (hl i).
Proof.
  intros Hi Hj Ho. unfold T. rewrite get_tab by (try apply Xin_lt_W; try rewrite H_eq; try assumption; lia).
  unfold chT. replace (2 * i <? H) with true by (symmetry; apply Nat.ltb_lt; rewrite H_eq; lia). now rewrite ch_hline.
Qed.
Lemma getT_vline i j : i < m -> j <= nc -> get T (2 * i + 1) (X ws j) = Some (vl j).
Proof.
  intros Hi Hj. unfold T. rewrite get_tab by (try apply Xj_lt_W; try rewrite H_eq; try assumption; lia).
  unfold chT. replace (2 * i + 1 <? H) with true by (symmetry; apply Nat.ltb_lt; rewrite H_eq; lia). now rewrite ch_vline.
Qed.
Lemma getT_text i j o : i < m -> j < nc -> o < nth j ws 0 -> get T (2 * i + 1) (X ws j + 1 + o) = Some (nth o (cell_text d i j) cWhite).
Proof.
  intros Hi Hj Ho. unfold T. rewrite get_tab by (try apply Xin_lt_W; try rewrite H_eq; try assumption; lia).
  unfold chT. replace (2 * i + 1 <? H) with true by (symmetry; apply Nat.ltb_lt; rewrite H_eq; lia). now rewrite ch_text.
Qed.

(* the THIN layer (and, as shown below, the BODY and GRID layers) *)
Definition TH : layer := tab (S H) W (fun y x => prep (chT y x)).
Definition thj (i j : nat) : N :=
  if i =? 0 then (if j =? 0 then cTL else if j =? nc then cTR else cT)
  else if i =? m then (if j =? 0 then cBL else if j =? nc then cBR else cB)
  else (if j =? 0 then cL else if j =? nc then cR else cX).

Lemma prep_junction i j : prep (junction d i j) = thj i j.
Proof.
  unfold junction, thj. fold nc m.
  destruct (i =? 0), (i =? m), (i =? 1), (j =? 0), (j =? nc), (is_dbl d j); reflexivity.
Qed.
Lemma prep_hl i : prep (hl i) = cH. Proof. unfold hl. destruct (i =? 1); reflexivity. Qed.
Lemma prep_vl j : prep (vl j) = cV. Proof. unfold vl. destruct (is_dbl d j); reflexivity. Qed.

Lemma get_TH y x : y < S H -> x < W -> get TH y x = option_map prep (get T y x).
Proof. intros Hy Hx. unfold TH, T. now rewrite !get_tab by assumption. Qed.

Lemma getTH_junction i j : i <= m -> j <= nc -> get TH (2 * i) (X ws j) = Some (thj i j).
Proof.
  intros Hi Hj. rewrite get_TH by (try apply Xj_lt_W; try rewrite H_eq; try assumption; lia).
  rewrite getT_junction by assumption. cbn [option_map]. now rewrite prep_junction.
Qed.
Lemma getTH_hline i j o : i <= m -> j < nc -> o < nth j ws 0 -> get TH (2 * i) (X ws j + 1 + o) = Some cH.
Proof.
  intros Hi Hj Ho. rewrite get_TH by (try apply Xin_lt_W; try rewrite H_eq; try assumption; lia).
  rewrite getT_hline by assumption. cbn [option_map]. now rewrite prep_hl.
Qed.
Lemma getTH_vline i j : i < m -> j <= nc -> get TH (2 * i + 1) (X ws j) = Some cV.
Proof.
  intros Hi Hj. rewrite get_TH by (try apply Xj_lt_W; try rewrite H_eq; try assumption; lia).
  rewrite getT_vline by assumption. cbn [option_map]. now rewrite prep_vl.
Qed.
Lemma getTH_text i j o : i < m -> j < nc -> o < nth j ws 0 -> get TH (2 * i + 1) (X ws j + 1 + o) = Some cWhite.
Proof.
  intros Hi Hj Ho. rewrite get_TH by (try apply Xin_lt_W; try rewrite H_eq; try assumption; lia).
  rewrite getT_text by assumption. cbn [option_map]. rewrite prep_plain; [reflexivity|].
  apply plain_nth. now apply cell_plain.
Qed.


(* ------------------------------------------------------------------ double lines *)
Ltac eqb_false a b := replace (a =? b) with false by (symmetry; apply Nat.eqb_neq; lia).
Ltac eqb_true a b := replace (a =? b) with true by (symmetry; apply Nat.eqb_eq; lia).

Lemma dbl_v1 : is_dbl d v1 = true.
Proof. unfold is_dbl. fold v1. now rewrite Nat.eqb_refl. Qed.
Lemma dbl_v2 k : rd_v2 d = Some k -> is_dbl d k = true.
Proof. intro E. unfold is_dbl. rewrite E, Nat.eqb_refl. apply orb_true_r. Qed.
Lemma dbl_other j : j <> v1 -> (forall k, rd_v2 d = Some k -> j <> k) -> is_dbl d j = false.
Proof.
  intros H1 H2. unfold is_dbl. fold v1. eqb_false j v1. destruct (rd_v2 d) as [k|]; [|reflexivity].
  specialize (H2 k eq_refl). now eqb_false j k.
Qed.
Lemma dbl_lt j : j < v1 -> is_dbl d j = false.
Proof. intro L. apply dbl_other; [lia|]. intros k E. apply v2_bounds in E. lia. Qed.

Lemma junction_top j : junction d 0 j = if j =? 0 then cTL else if j =? nc then cTR else if is_dbl d j then dTv else cT.
Proof. reflexivity. Qed.
Lemma junction_mid j : junction d 1 j = if j =? 0 then dLh else if j =? nc then dRh else if is_dbl d j then dXX else dXh.
Proof. unfold junction. fold m nc. pose proof m_ge as Pm. eqb_false 1 m. reflexivity. Qed.
Lemma junction_bot j : junction d m j = if j =? 0 then cBL else if j =? nc then cBR else if is_dbl d j then dBv else cB.
Proof. unfold junction. fold m nc. pose proof m_ge as Pm. eqb_false m 0. now rewrite Nat.eqb_refl. Qed.
Lemma junction_other i j : 2 <= i -> i < m ->
  junction d i j = if j =? 0 then cL else if j =? nc then cR else if is_dbl d j then dXv else cX.
Proof. intros H1 H2. unfold junction. fold m nc. eqb_false i 0. eqb_false i m. eqb_false i 1. reflexivity. Qed.

(* ------------------------------------------------------------------ the characters of a line of the TEXT layer *)
Lemma chT_in y x : y < H -> chT y x = char_at d y x.
Proof. intro L. unfold chT. now replace (y <? H) with true by (symmetry; apply Nat.ltb_lt; assumption). Qed.

Lemma rowT_even i x : i <= m -> x < W ->
  (exists j, j <= nc /\ x = X ws j /\ chT (2 * i) x = junction d i j) \/
  ((exists j o, j < nc /\ o < nth j ws 0 /\ x = X ws j + 1 + o) /\ chT (2 * i) x = hl i).
Proof.
  intros Hi Hx. rewrite chT_in by (rewrite H_eq; lia). rewrite W_eq in Hx.
  destruct (cover ws nc x (le_n _) ltac:(lia)) as [(j & H1 & H2)|(j & o & H1 & H2 & H3)].
  - left. exists j. subst x. repeat split; try assumption. now apply ch_junction.
  - right. subst x. split; [exists j, o; repeat split; assumption|]. now apply ch_hline.
Qed.
Lemma rowT_odd i x : i < m -> x < W ->
  (exists j, j <= nc /\ x = X ws j /\ chT (2 * i + 1) x = vl j) \/ mem (chT (2 * i + 1) x) box_chars = false.
Proof.
  intros Hi Hx. rewrite chT_in by (rewrite H_eq; lia). rewrite W_eq in Hx.
  destruct (cover ws nc x (le_n _) ltac:(lia)) as [(j & H1 & H2)|(j & o & H1 & H2 & H3)].
  - left. exists j. subst x. repeat split; try assumption. now apply ch_vline.
  - right. subst x. rewrite ch_text by assumption. apply plain_nth. now apply cell_plain.
Qed.

Lemma Xj_pos j : 1 <= j -> j <= nc -> 0 < X ws j.
Proof. intros H1 H2. pose proof (X_mono ws 0 j ltac:(lia) H2). rewrite X_0 in *. lia. Qed.
Lemma X_lt_inv j j' : j <= nc -> j' <= nc -> X ws j < X ws j' -> j < j'.
Proof. intros H1 H2 L. destruct (Nat.lt_ge_cases j j') as [|G]; [assumption|]. pose proof (X_le ws j' j G H1). lia. Qed.

Lemma move_T p : fst p < W -> snd p < S H -> move_to T p = Ok p.
Proof. apply move_to_tab. Qed.

Lemma search_right_T x y s a : y < S H -> search_right T (x, y) s a = scan_right T s a y (X ws nc - x) x.
Proof. intro Hy. unfold search_right. cbn [fst snd]. unfold T at 1. rewrite tab_row by assumption. now rewrite map_length, seq_length, W_eq. Qed.
Lemma search_down_T x y s a : search_down T (x, y) s a = scan_down T s a x (H - y) y.
Proof. unfold search_down. cbn [fst snd]. unfold T at 1. now rewrite tab_length. Qed.

Lemma pass c s a : mem c s = false -> mem c a = true -> passable s a (Some c).
Proof. intros. exists c. repeat split; assumption. Qed.

(* the first line: corner, then the first double T *)
Lemma chT_00 : chT 0 0 = cTL.
Proof.
  rewrite chT_in by (rewrite H_eq; lia). unfold char_at.
  replace (locate (rd_ws d) 0) with (PSep 0) by (destruct (rd_ws d); reflexivity). reflexivity.
Qed.
Lemma search_corner : search T (0, 0) [cTL] = Ok (cTL, (0, 0)).
Proof.
  unfold T. rewrite (search_tab_same (S H) W chT [cTL] 0 0 0); try lia.
  - now rewrite chT_00.
  - rewrite W_eq. lia.
  - now rewrite chT_00.
Qed.

Lemma search_top_edge : search T (0, 0) [dTv] = Ok (dTv, (X ws v1, 0)).
Proof.
  pose proof v1_ge as Pv1. pose proof v1_lt as Pv2. pose proof (eq_refl : nc = length ws) as Pnc.
  unfold T. rewrite (search_tab_same (S H) W chT [dTv] 0 0 (X ws v1)); try lia.
  - change 0 with (2 * 0) at 1. rewrite chT_in by (rewrite H_eq; lia). rewrite ch_junction by lia. rewrite junction_top.
    eqb_false v1 0. eqb_false v1 nc. now rewrite dbl_v1.
  - apply Xj_lt_W. lia.
  - intros x _ Hx. change 0 with (2 * 0). pose proof (Xj_lt_W v1 ltac:(lia)) as PXv.
    destruct (rowT_even 0 x ltac:(lia) ltac:(lia)) as [(j & H1 & H2 & H3)|(_ & H3)]; rewrite H3.
    + subst x. apply X_lt_inv in Hx; try lia. rewrite junction_top, (dbl_lt j Hx). eqb_false j nc. destruct (j =? 0); reflexivity.
    + reflexivity.
  - change 0 with (2 * 0) at 1. rewrite chT_in by (rewrite H_eq; lia). rewrite ch_junction by lia. rewrite junction_top.
    eqb_false v1 0. eqb_false v1 nc. now rewrite dbl_v1.
Qed.

Lemma info_name : recognize_information_item_name T = Ok None.
Proof.
  unfold recognize_information_item_name. rewrite move_T by (cbn [fst snd]; rewrite ?W_eq; lia). cbn [bind].
  rewrite search_corner. cbn [bind]. rewrite search_top_edge. cbn [bind snd]. reflexivity.
Qed.

(* the main crossing: the first double cross of the text *)
Lemma no_cross_top x : x < W -> mem (chT 0 x) [dXX] = false.
Proof.
  intro Hx. change 0 with (2 * 0).
  destruct (rowT_even 0 x ltac:(lia) Hx) as [(j & H1 & H2 & H3)|(_ & H3)]; rewrite H3; [|reflexivity].
  rewrite junction_top. destruct (j =? 0), (j =? nc), (is_dbl d j); reflexivity.
Qed.
Lemma no_cross_text x : x < W -> mem (chT 1 x) [dXX] = false.
Proof.
  intro Hx. change 1 with (2 * 0 + 1). pose proof m_ge as Pm.
  destruct (rowT_odd 0 x ltac:(lia) Hx) as [(j & H1 & H2 & H3)|H3].
  - rewrite H3. unfold vl. destruct (is_dbl d j); reflexivity.
  - now apply not_in_sub.
Qed.

Lemma search_cross : search T (0, 0) [dXX] = Ok (dXX, (X ws v1, 2)).
Proof.
  pose proof v1_ge as Pv1. pose proof v1_lt as Pv2. pose proof (eq_refl : nc = length ws) as Pnc. pose proof m_ge as Pm.
  assert (chT 2 (X ws v1) = dXX) as E.
  { change 2 with (2 * 1). rewrite chT_in by (rewrite H_eq; lia). rewrite ch_junction by lia. rewrite junction_mid.
    eqb_false v1 0. eqb_false v1 nc. now rewrite dbl_v1. }
  unfold T. rewrite (search_tab_later (S H) W chT [dXX] 0 0 2 (X ws v1)); try lia.
  - now rewrite E.
  - rewrite H_eq. lia.
  - intros x _ Hx. now apply no_cross_top.
  - intros y' x H1 H2 Hx. replace y' with 1 by lia. now apply no_cross_text.
  - apply Xj_lt_W. lia.
  - intros x Hx. change 2 with (2 * 1). pose proof (Xj_lt_W v1 ltac:(lia)) as PXv.
    destruct (rowT_even 1 x ltac:(lia) ltac:(lia)) as [(j & H1 & H2 & H3)|(_ & H3)]; rewrite H3; [|reflexivity].
    subst x. apply X_lt_inv in Hx; try lia. rewrite junction_mid, (dbl_lt j Hx). eqb_false j nc. destruct (j =? 0); reflexivity.
  - now rewrite E.
Qed.

(* the double line: between two vertical lines only double crosses, single crosses and the line itself *)
Lemma mid_line_char x : x < W ->
  (exists j, j <= nc /\ x = X ws j /\ get T 2 x = Some (junction d 1 j)) \/ get T 2 x = Some dH.
Proof.
  intro Hx. pose proof m_ge as Pm. unfold T. rewrite get_tab by (try assumption; rewrite H_eq; lia). change 2 with (2 * 1).
  destruct (rowT_even 1 x ltac:(lia) Hx) as [(j & H1 & H2 & H3)|(_ & H3)]; rewrite H3.
  - left. exists j. repeat split; assumption.
  - right. reflexivity.
Qed.

Lemma crossings :
  recognize_crossings T = Ok ((X ws v1, 2), option_map (fun k => (X ws k, 2)) (rd_v2 d), None).
Proof.
  pose proof v1_ge as Pv1. pose proof v1_lt as Pv2. pose proof (eq_refl : nc = length ws) as Pnc. pose proof m_ge as Pm. pose proof (Xj_lt_W v1 ltac:(lia)) as HXv.
  unfold recognize_crossings. rewrite move_T by (cbn [fst snd]; rewrite ?W_eq; lia). cbn [bind].
  rewrite search_cross. cbn [bind]. rewrite move_T by (cbn [fst snd]; rewrite ?H_eq; lia). cbn [bind].
  rewrite search_right_T by (rewrite H_eq; lia).
  assert (forall hi, v1 < hi -> hi <= nc -> (forall j, v1 < j -> j < hi -> is_dbl d j = false) ->
          forall e, 1 <= e -> e < X ws hi - X ws v1 -> passable [dXX] [dH; dXh] (get T 2 (X ws v1 + e))) as Hpass.
  { intros hi L1 L2 Hd e He1 He2. pose proof (Xj_lt_W hi L2).
    destruct (mid_line_char (X ws v1 + e) ltac:(lia)) as [(j & H1 & H2 & H3)|H3]; rewrite H3; [|now apply pass].
    assert (v1 < j) by (apply X_lt_inv; try lia). assert (j < hi) by (apply X_lt_inv; try lia).
    rewrite junction_mid, Hd by assumption. eqb_false j 0. eqb_false j nc. now apply pass. }
  assert (scan_down T [dXX] [dV; dXv] (X ws v1) (H - 2) 2 = Err) as Hdown.
  { apply (scan_down_stop T [dXX] [dV; dXv] (X ws v1) dBv (H - 2) (2 * m - 2) 2); try (rewrite ?H_eq; lia).
    - intros e He1 He2. destruct (Nat.Even_or_Odd e) as [(q & ->)|(q & ->)].
      + replace (2 + 2 * q) with (2 * (q + 1)) by lia. rewrite getT_junction by lia.
        rewrite junction_other by lia. eqb_false v1 0. eqb_false v1 nc. rewrite dbl_v1. now apply pass.
      + replace (2 + (2 * q + 1)) with (2 * (q + 1) + 1) by lia. rewrite getT_vline by lia. unfold vl. rewrite dbl_v1. now apply pass.
    - replace (2 + (2 * m - 2)) with (2 * m) by lia. rewrite getT_junction by lia. rewrite junction_bot.
      eqb_false v1 0. eqb_false v1 nc. now rewrite dbl_v1.
    - reflexivity.
    - reflexivity. }
  destruct (rd_v2 d) as [k|] eqn:Ev2.
  - destruct (v2_bounds k Ev2) as [K1 K2].
    rewrite (scan_right_found T [dXX] [dH; dXh] 2 dXX (X ws nc - X ws v1) (X ws k - X ws v1) (X ws v1)).
    + unfold opt_of.
      rewrite search_down_T, Hdown. cbn [option_map snd]. pose proof (X_mono ws v1 k K1 ltac:(lia)).
      now replace (X ws v1 + (X ws k - X ws v1)) with (X ws k) by lia.
    + pose proof (X_mono ws v1 k K1 ltac:(lia)). lia.
    + pose proof (X_le ws k nc ltac:(lia) (le_n _)). lia.
    + apply (Hpass k); try lia. intros j J1 J2. apply dbl_other; [lia|]. intros k' E'. rewrite Ev2 in E'. injection E' as <-. lia.
    + pose proof (X_mono ws v1 k K1 ltac:(lia)). replace (X ws v1 + (X ws k - X ws v1)) with (X ws k) by lia.
      change 2 with (2 * 1). rewrite getT_junction by lia. rewrite junction_mid. eqb_false k 0. eqb_false k nc. now rewrite (dbl_v2 k Ev2).
    + reflexivity.
  - rewrite (scan_right_stop T [dXX] [dH; dXh] 2 dRh (X ws nc - X ws v1) (X ws nc - X ws v1) (X ws v1)).
    + unfold opt_of.
      now rewrite search_down_T, Hdown.
    + pose proof (X_mono ws v1 nc ltac:(lia) (le_n _)). lia.
    + lia.
    + apply (Hpass nc); try lia. intros j J1 J2. apply dbl_other; [lia|]. intros k' E'. rewrite Ev2 in E'. discriminate.
    + pose proof (X_mono ws v1 nc ltac:(lia) (le_n _)). replace (X ws v1 + (X ws nc - X ws v1)) with (X ws nc) by lia.
      change 2 with (2 * 1). rewrite getT_junction by lia. rewrite junction_mid. eqb_false nc 0. now rewrite Nat.eqb_refl.
    + reflexivity.
    + reflexivity.
Qed.

(* ------------------------------------------------------------------ the body rectangle is the whole drawing *)
Lemma v1_column e : 1 <= e -> e < 2 * m -> passable [dBv] [dV; dXv; dLv; dRv; dXX] (get T (0 + e) (X ws v1)).
Proof.
  pose proof v1_ge as Pv1. pose proof v1_lt as Pv2. pose proof (eq_refl : nc = length ws) as Pnc. pose proof m_ge as Pm.
  intros He1 He2. cbn [Nat.add]. destruct (Nat.Even_or_Odd e) as [(q & ->)|(q & ->)].
  - rewrite getT_junction by lia. destruct (Nat.eq_dec q 1) as [->|Hq].
    + rewrite junction_mid. eqb_false v1 0. eqb_false v1 nc. rewrite dbl_v1. now apply pass.
    + rewrite junction_other by lia. eqb_false v1 0. eqb_false v1 nc. rewrite dbl_v1. now apply pass.
  - rewrite getT_vline by lia. unfold vl. rewrite dbl_v1. now apply pass.
Qed.

Lemma body_rect : recognize_body_rect T = Ok (0, 0, W, H).
Proof.
  pose proof v1_ge as Pv1. pose proof v1_lt as Pv2. pose proof (eq_refl : nc = length ws) as Pnc. pose proof m_ge as Pm.
  pose proof (Xj_lt_W v1 ltac:(lia)) as PXv. pose proof (Xj_pos v1 ltac:(lia) ltac:(lia)) as PXp.
  unfold recognize_body_rect. rewrite move_T by (cbn [fst snd]; rewrite ?W_eq; lia). cbn [bind].
  rewrite search_cross. cbn [bind]. unfold search_up. cbn [fst snd].
  rewrite (scan_up_found T [dTv] [dV; dXv; dLv; dRv] (X ws v1) dTv 2 2); try lia.
  2:{ intros e He1 He2. replace e with 1 by lia. change (2 - 1) with (2 * 0 + 1). rewrite getT_vline by lia.
      unfold vl. rewrite dbl_v1. now apply pass. }
  2:{ change (2 - 2) with (2 * 0). rewrite getT_junction by lia. rewrite junction_top. eqb_false v1 0. eqb_false v1 nc. now rewrite dbl_v1. }
  2:{ reflexivity. }
  cbn [bind]. change (2 - 2) with 0. rewrite search_down_T.
  rewrite (scan_down_found T [dBv] [dV; dXv; dLv; dRv; dXX] (X ws v1) dBv (H - 0) (2 * m) 0); try (rewrite ?H_eq; lia).
  2:{ intros e He1 He2. now apply v1_column. }
  2:{ cbn [Nat.add]. rewrite getT_junction by lia. rewrite junction_bot. eqb_false v1 0. eqb_false v1 nc. now rewrite dbl_v1. }
  2:{ reflexivity. }
  cbn [bind]. rewrite move_T by (cbn [fst snd]; rewrite ?H_eq; lia). cbn [bind]. unfold search_left. cbn [fst snd].
  rewrite (scan_left_found T [dLh] [dH; dXh; dBh; dTh] 2 dLh (X ws v1) (X ws v1)); try lia.
  2:{ intros e He1 He2. destruct (mid_line_char (X ws v1 - e) ltac:(lia)) as [(j & H1 & H2 & H3)|H3]; rewrite H3; [|now apply pass].
      assert (j < v1) by (apply X_lt_inv; try lia). assert (j <> 0) by (intros ->; rewrite X_0 in H2; lia).
      rewrite junction_mid, dbl_lt by assumption. eqb_false j 0. eqb_false j nc. now apply pass. }
  2:{ replace (X ws v1 - X ws v1) with (X ws 0) by (rewrite X_0; lia). change 2 with (2 * 1). rewrite getT_junction by lia. rewrite junction_mid. reflexivity. }
  2:{ reflexivity. }
  cbn [bind]. rewrite Nat.sub_diag. rewrite search_right_T by (rewrite H_eq; lia).
  rewrite (scan_right_found T [dRh] [dH; dXh; dBh; dTh; dXX] 2 dRh (X ws nc - 0) (X ws nc) 0); try lia.
  2:{ pose proof (Xj_pos nc ltac:(lia) ltac:(lia)). lia. }
  2:{ intros e He1 He2. cbn [Nat.add]. destruct (mid_line_char e ltac:(rewrite W_eq; lia)) as [(j & H1 & H2 & H3)|H3]; rewrite H3; [|now apply pass].
      assert (j < nc) by (apply X_lt_inv; try lia). assert (j <> 0) by (intros ->; rewrite X_0 in H2; lia).
      rewrite junction_mid. eqb_false j 0. eqb_false j nc. destruct (is_dbl d j); now apply pass. }
  2:{ cbn [Nat.add]. change 2 with (2 * 1). rewrite getT_junction by lia. rewrite junction_mid. eqb_false nc 0. now rewrite Nat.eqb_refl. }
  2:{ reflexivity. }
  cbn [bind fst snd Nat.add]. now rewrite W_eq, H_eq.
Qed.


(* ------------------------------------------------------------------ the THIN, BODY and GRID layers coincide *)
Definition th (y x : nat) : N := prep (chT y x).

Lemma thin_layer : map (map prep) T = TH.
Proof. unfold T, TH. now rewrite map_map_tab. Qed.

Lemma th_even i x : i <= m -> x < W ->
  (exists j, j <= nc /\ x = X ws j /\ th (2 * i) x = thj i j) \/
  ((exists j o, j < nc /\ o < nth j ws 0 /\ x = X ws j + 1 + o) /\ th (2 * i) x = cH).
Proof.
  intros Hi Hx. unfold th. destruct (rowT_even i x Hi Hx) as [(j & H1 & H2 & H3)|(P & H3)]; rewrite H3.
  - left. exists j. repeat split; try assumption. apply prep_junction.
  - right. split; [assumption|]. apply prep_hl.
Qed.
Lemma th_odd i x : i < m -> x < W ->
  (exists j, j <= nc /\ x = X ws j /\ th (2 * i + 1) x = cV) \/
  ((exists j o, j < nc /\ o < nth j ws 0 /\ x = X ws j + 1 + o) /\ th (2 * i + 1) x = cWhite).
Proof.
  intros Hi Hx. unfold th. rewrite chT_in by (rewrite H_eq; lia). rewrite W_eq in Hx.
  destruct (cover ws nc x (le_n _) ltac:(lia)) as [(j & H1 & H2)|(j & o & H1 & H2 & H3)].
  - left. exists j. subst x. repeat split; try assumption. rewrite ch_vline by assumption. apply prep_vl.
  - right. subst x. split; [exists j, o; repeat split; assumption|]. rewrite ch_text by assumption.
    apply prep_plain. apply plain_nth. now apply cell_plain.
Qed.
Lemma th_last x : th H x = cOuter.
Proof. unfold th, chT. rewrite Nat.ltb_irrefl. reflexivity. Qed.

Lemma y_cases y : y < S H -> (exists i, i <= m /\ y = 2 * i) \/ (exists i, i < m /\ y = 2 * i + 1) \/ y = H.
Proof.
  intro Hy. rewrite H_eq in *. destruct (Nat.Even_or_Odd y) as [(q & ->)|(q & ->)].
  - left. exists q. split; lia.
  - destruct (Nat.eq_dec q m) as [->|Hq]; [right; right; lia|]. right. left. exists q. split; lia.
Qed.

Lemma forallb_firstn {A} (p : A -> bool) l : forall n, forallb p l = true -> forallb p (firstn n l) = true.
Proof.
  induction l as [|a l IH]; intros n F; destruct n; try reflexivity. cbn [forallb firstn] in *.
  apply andb_true_iff in F. destruct F as [F1 F2]. now rewrite F1, IH.
Qed.
Lemma fits_tab h w f r b : r <= w -> b <= h -> fits (tab h w f) r b = true.
Proof.
  intros Hr Hb. unfold fits. rewrite tab_length. apply andb_true_iff. split; [now apply Nat.leb_le|].
  apply forallb_firstn. apply forallb_forall. intros row Hin. unfold tab in Hin. apply in_map_iff in Hin.
  destruct Hin as (y & <- & _). rewrite map_length, seq_length. now apply Nat.leb_le.
Qed.

Lemma body_layer : remove_information_item_region B TH (0, 0, W, H) = Ok TH.
Proof.
  pose proof m_ge as Pm. unfold remove_information_item_region.
  unfold B at 1. rewrite fits_tab by (rewrite ?H_eq; lia). f_equal.
  unfold B. rewrite remap_tab. unfold TH at 3. apply tab_ext. intros y x Hy Hx.
  unfold in_range. change (0 <=? x) with true. cbn [andb]. replace (x <? W) with true by (symmetry; now apply Nat.ltb_lt).
  change (S y <? 0) with false. cbv iota.
  destruct (y_cases y Hy) as [(i & Hi & ->)|[(i & Hi & ->)| ->]].
  - destruct (Nat.eq_dec i 0) as [->|Hne].
    + change (2 * 0) with 0. cbn [Nat.eqb]. unfold TH. rewrite getd_tab by lia. fold (th 0 x). change (th 0 x) with (th (2 * 0) x).
      destruct (th_even 0 x ltac:(lia) Hx) as [(j & H1 & H2 & H3)|(_ & H3)]; rewrite H3; [|reflexivity].
      unfold thj. cbn [Nat.eqb]. destruct (j =? 0), (j =? nc); reflexivity.
    + eqb_false (2 * i) 0. replace (1 <=? 2 * i) with true by (symmetry; apply Nat.leb_le; lia).
      replace (2 * i <? H) with true by (symmetry; apply Nat.ltb_lt; rewrite H_eq; lia). cbn [andb].
      unfold TH. now rewrite getd_tab by lia.
  - eqb_false (2 * i + 1) 0. replace (1 <=? 2 * i + 1) with true by (symmetry; apply Nat.leb_le; lia).
    replace (2 * i + 1 <? H) with true by (symmetry; apply Nat.ltb_lt; rewrite H_eq; lia). cbn [andb].
    unfold TH. now rewrite getd_tab by lia.
  - pose proof H_eq as PH. eqb_false H 0. rewrite Nat.ltb_irrefl, andb_false_r. fold (th H x). now rewrite th_last.
Qed.

Lemma nth_map_seq {A} (g : nat -> A) w x dflt : x < w -> nth x (map g (seq 0 w)) dflt = g x.
Proof. intro Hx. apply nth_error_nth. now apply map_seq_nth_error. Qed.

Lemma grid_row_id i x : i <= m -> x < W -> grid_row_char 0 W x (th (2 * i) x) = th (2 * i) x.
Proof.
  intros Hi Hx. pose proof (eq_refl : nc = length ws) as Pnc.
  destruct (th_even i x Hi Hx) as [(j & H1 & H2 & H3)|(_ & H3)]; rewrite H3; [|reflexivity].
  unfold thj. destruct (j =? 0) eqn:E0.
  - apply Nat.eqb_eq in E0. subst j. rewrite X_0 in H2. subst x. destruct (i =? 0), (i =? m); reflexivity.
  - destruct (j =? nc) eqn:En.
    + apply Nat.eqb_eq in En. subst j. unfold grid_row_char.
      replace (x <? W - 1) with false by (symmetry; apply Nat.ltb_ge; rewrite W_eq; lia).
      destruct (i =? 0), (i =? m); reflexivity.
    + destruct (i =? 0), (i =? m); reflexivity.
Qed.
Lemma grid_col_id y j : y < H -> j <= nc -> grid_col_char 0 H y (th y (X ws j)) = th y (X ws j).
Proof.
  intros Hy Hj. pose proof (eq_refl : nc = length ws) as Pnc. pose proof (Xj_lt_W j Hj) as HX. pose proof m_ge as Pm.
  destruct (y_cases y ltac:(lia)) as [(i & Hi & ->)|[(i & Hi & ->)| ->]]; [| |lia].
  - destruct (th_even i (X ws j) Hi HX) as [(j' & H1 & H2 & H3)|((j' & o & H1 & H2 & H3) & _)].
    + rewrite H3. unfold thj. destruct (i =? 0) eqn:E0; [|destruct (i =? m) eqn:Em].
      * apply Nat.eqb_eq in E0. subst i. destruct (j' =? 0), (j' =? nc); reflexivity.
      * apply Nat.eqb_eq in Em. subst i. unfold grid_col_char.
        replace (2 * m <? H - 1) with false by (symmetry; apply Nat.ltb_ge; rewrite H_eq; lia).
        destruct (j' =? 0), (j' =? nc); reflexivity.
      * destruct (j' =? 0), (j' =? nc); reflexivity.
    + exfalso. pose proof (Xin_lt j' o H1 H2). destruct (Nat.lt_ge_cases j (S j')) as [L|G].
      * pose proof (X_le ws j j' ltac:(lia) ltac:(lia)). lia.
      * pose proof (X_le ws (S j') j ltac:(lia) ltac:(lia)). lia.
  - destruct (th_odd i (X ws j) Hi HX) as [(j' & H1 & H2 & H3)|((j' & o & H1 & H2 & H3) & _)].
    + rewrite H3. reflexivity.
    + exfalso. pose proof (Xin_lt j' o H1 H2). destruct (Nat.lt_ge_cases j (S j')) as [L|G].
      * pose proof (X_le ws j j' ltac:(lia) ltac:(lia)). lia.
      * pose proof (X_le ws (S j') j ltac:(lia) ltac:(lia)). lia.
Qed.

Lemma grid_layer : make_grid TH (0, 0, W, H) = Ok TH.
Proof.
  pose proof m_ge as Pm. pose proof (eq_refl : nc = length ws) as Pnc. unfold make_grid. unfold TH at 1. rewrite fits_tab by (rewrite ?H_eq; lia).
  assert (mapi (fun y row =>
             if in_range 0 H y && existsb (N.eqb cH) (firstn (W - 0) (skipn 0 row))
             then mapi (fun x c => if in_range 0 W x then grid_row_char 0 W x c else c) row else row) TH = TH) as G1.
  { unfold TH, tab, mapi. rewrite mapi_from_map_seq. apply map_ext_in. intros y Hy. apply in_seq in Hy.
    fold (th y). assert (mapi_from (fun x c => if in_range 0 W x then grid_row_char 0 W x c else c) 0 (map (fun x => prep (chT y x)) (seq 0 W))
                          = map (fun x => prep (chT y x)) (seq 0 W) \/
                         in_range 0 H y && existsb (N.eqb cH) (firstn (W - 0) (skipn 0 (map (fun x => prep (chT y x)) (seq 0 W)))) = false) as [E|E].
    { destruct (y_cases y ltac:(lia)) as [(i & Hi & ->)|[(i & Hi & ->)| ->]].
      - left. rewrite mapi_from_map_seq. apply map_ext_in. intros x Hx. apply in_seq in Hx.
        unfold in_range. cbn [Nat.leb andb]. replace (x <? W) with true by (symmetry; apply Nat.ltb_lt; lia).
        apply (grid_row_id i x Hi). lia.
      - right. apply andb_false_iff. right. apply existsb_false. intros c Hc. rewrite Nat.sub_0_r in Hc. cbn [skipn] in Hc.
        rewrite firstn_all2 in Hc by (rewrite map_length, seq_length; lia). apply in_map_iff in Hc. destruct Hc as (x & <- & Hx).
        apply in_seq in Hx. fold (th (2 * i + 1) x).
        destruct (th_odd i x Hi ltac:(lia)) as [(j & _ & _ & H3)|(_ & H3)]; rewrite H3; reflexivity.
      - right. unfold in_range. now rewrite Nat.ltb_irrefl, andb_false_r. }
    - destruct (in_range 0 H y && _); [assumption|reflexivity].
    - unfold th. now rewrite E. }
  rewrite G1. f_equal. unfold TH at 1 4. rewrite remap_tab. apply tab_ext. intros y x Hy Hx. fold (th y x).
  unfold TH at 2. rewrite tab_row_nth by lia. rewrite map_length, seq_length.
  unfold in_range. cbn [Nat.leb andb]. replace (x <? W) with true by (symmetry; now apply Nat.ltb_lt).
  destruct (y <? H) eqn:EyH; [|reflexivity]. apply Nat.ltb_lt in EyH. cbn [andb].
  rewrite nth_map_seq by assumption. rewrite W_eq in Hx.
  destruct (cover ws nc x (le_n _) ltac:(lia)) as [(j & H1 & H2)|(j & o & H1 & H2 & H3)].
  - subst x. rewrite grid_col_id by assumption. now destruct (existsb _ _).
  - rewrite existsb_false; [reflexivity|]. intros y' Hy'. apply in_seq in Hy'. unfold TH. rewrite getd_tab by (rewrite ?W_eq; lia).
    fold (th y' x). destruct (y_cases y' ltac:(lia)) as [(i & Hi & ->)|[(i & Hi & ->)| ->]]; [| |lia].
    + destruct (th_even i x Hi ltac:(rewrite W_eq; lia)) as [(j' & J1 & J2 & J3)|(_ & J3)]; [|now rewrite J3].
      exfalso. subst x. pose proof (Xin_lt j o H1 H2). destruct (Nat.lt_ge_cases j' (S j)) as [L|G].
      * pose proof (X_le ws j' j ltac:(lia) ltac:(lia)). lia.
      * pose proof (X_le ws (S j) j' ltac:(lia) ltac:(lia)). lia.
    + destruct (th_odd i x Hi ltac:(rewrite W_eq; lia)) as [(j' & J1 & J2 & J3)|(_ & J3)]; [|now rewrite J3].
      exfalso. subst x. pose proof (Xin_lt j o H1 H2). destruct (Nat.lt_ge_cases j' (S j)) as [L|G].
      * pose proof (X_le ws j' j ltac:(lia) ltac:(lia)). lia.
      * pose proof (X_le ws (S j) j' ltac:(lia) ltac:(lia)). lia.
Qed.


(* ------------------------------------------------------------------ scan of the character grid of a regular drawing *)
Definition regular_canvas : canvas :=
  {| cv_text := T; cv_thin := TH; cv_body := TH; cv_grid := TH;
     cv_cross := (X ws v1, 2); cv_horz := option_map (fun k => (X ws k, 2)) (rd_v2 d); cv_vert := None;
     cv_name := None; cv_rect := (0, 0, W, H) |}.

Lemma scan_regular : scan_from T B = Ok regular_canvas.
Proof.
  unfold scan_from. rewrite info_name. cbn [bind]. rewrite crossings. cbn [bind]. rewrite body_rect. cbn [bind].
  rewrite thin_layer, body_layer. cbn [bind]. rewrite grid_layer. reflexivity.
Qed.


(* ------------------------------------------------------------------ the frame of a cell: recognize_region (THIN) and recognize_rectangle (GRID) *)
Lemma search_right_TH x y s a : y < S H -> search_right TH (x, y) s a = scan_right TH s a y (X ws nc - x) x.
Proof. intro Hy. unfold search_right. cbn [fst snd]. unfold TH at 1. rewrite tab_row by assumption. now rewrite map_length, seq_length, W_eq. Qed.
Lemma search_down_TH x y s a : search_down TH (x, y) s a = scan_down TH s a x (H - y) y.
Proof. unfold search_down. cbn [fst snd]. unfold TH at 1. now rewrite tab_length. Qed.

Lemma walk_cell r1 a1 r2 a2 r3 a3 r4 a4 i j : i < m -> j < nc ->
  mem cH r1 = false -> mem cH a1 = true -> mem cV r2 = false -> mem cV a2 = true ->
  mem cH r3 = false -> mem cH a3 = true -> mem cV r4 = false -> mem cV a4 = true ->
  mem (thj i (S j)) r1 = true -> mem (thj (S i) (S j)) r2 = true -> mem (thj (S i) j) r3 = true -> mem (thj i j) r4 = true ->
  walk TH (X ws j, 2 * i) r1 a1 r2 a2 r3 a3 r4 a4 = Ok (cell_rect d i j).
Proof.
  intros Hi Hj R1 A1 R2 A2 R3 A3 R4 A4 M1 M2 M3 M4.
  pose proof (eq_refl : nc = length ws) as Pnc. pose proof H_eq as PH. pose proof (Xj_lt_W j ltac:(lia)) as PX.
  pose proof (X_succ ws j ltac:(lia)) as PS. pose proof (X_le ws (S j) nc ltac:(lia) ltac:(lia)) as PL.
  unfold walk. unfold TH at 1. rewrite move_to_tab by (cbn [fst snd]; lia). cbn [bind].
  rewrite search_right_TH by lia.
  rewrite (scan_right_found TH r1 a1 (2 * i) (thj i (S j)) (X ws nc - X ws j) (nth j ws 0 + 1) (X ws j)); try lia; try assumption.
  2:{ intros e He1 He2. replace (X ws j + e) with (X ws j + 1 + (e - 1)) by lia. rewrite getTH_hline by lia. now apply pass. }
  2:{ replace (X ws j + (nth j ws 0 + 1)) with (X ws (S j)) by lia. apply getTH_junction; lia. }
  cbn [bind]. replace (X ws j + (nth j ws 0 + 1)) with (X ws (S j)) by lia. rewrite search_down_TH.
  rewrite (scan_down_found TH r2 a2 (X ws (S j)) (thj (S i) (S j)) (H - 2 * i) 2 (2 * i)); try lia; try assumption.
  2:{ intros e He1 He2. replace e with 1 by lia. rewrite getTH_vline by lia. now apply pass. }
  2:{ replace (2 * i + 2) with (2 * S i) by lia. apply getTH_junction; lia. }
  cbn [bind]. unfold search_left. cbn [fst snd].
  rewrite (scan_left_found TH r3 a3 (2 * i + 2) (thj (S i) j) (nth j ws 0 + 1) (X ws (S j))); try lia; try assumption.
  2:{ intros e He1 He2. replace (X ws (S j) - e) with (X ws j + 1 + (nth j ws 0 - e)) by lia.
      replace (2 * i + 2) with (2 * S i) by lia. rewrite getTH_hline by lia. now apply pass. }
  2:{ replace (X ws (S j) - (nth j ws 0 + 1)) with (X ws j) by lia. replace (2 * i + 2) with (2 * S i) by lia. apply getTH_junction; lia. }
  cbn [bind]. unfold search_up. cbn [fst snd]. replace (X ws (S j) - (nth j ws 0 + 1)) with (X ws j) by lia.
  rewrite (scan_up_found TH r4 a4 (X ws j) (thj i j) 2 (2 * i + 2)); try lia; try assumption.
  2:{ intros e He1 He2. replace e with 1 by lia. replace (2 * i + 2 - 1) with (2 * i + 1) by lia. rewrite getTH_vline by lia. now apply pass. }
  2:{ replace (2 * i + 2 - 2) with (2 * i) by lia. apply getTH_junction; lia. }
  cbn [bind]. replace (2 * i + 2 - 2) with (2 * i) by lia.
  unfold close_rectangle, point_eqb. cbn [fst snd]. rewrite !Nat.eqb_refl. cbn [andb]. unfold cell_rect. fold ws.
  repeat f_equal; lia.
Qed.

Lemma region_cell i j : i < m -> j < nc -> recognize_region TH (X ws j, 2 * i) = Ok (cell_rect d i j).
Proof.
  intros Hi Hj. pose proof m_ge as Pm. unfold recognize_region. apply walk_cell; try assumption; try reflexivity.
  - unfold thj. eqb_false i m. eqb_false (S j) 0. destruct (i =? 0), (S j =? nc); reflexivity.
  - unfold thj. eqb_false (S i) 0. eqb_false (S j) 0. destruct (S i =? m), (S j =? nc); reflexivity.
  - unfold thj. eqb_false (S i) 0. eqb_false j nc. destruct (S i =? m), (j =? 0); reflexivity.
  - unfold thj. eqb_false i m. eqb_false j nc. destruct (i =? 0), (j =? 0); reflexivity.
Qed.
Lemma rectangle_cell i j : i < m -> j < nc -> recognize_rectangle TH (X ws j, 2 * i) = Ok (cell_rect d i j).
Proof.
  intros Hi Hj. pose proof m_ge as Pm. unfold recognize_rectangle. apply walk_cell; try assumption; try reflexivity.
  - unfold thj. eqb_false i m. eqb_false (S j) 0. destruct (i =? 0), (S j =? nc); reflexivity.
  - unfold thj. eqb_false (S i) 0. eqb_false (S j) 0. destruct (S i =? m), (S j =? nc); reflexivity.
  - unfold thj. eqb_false (S i) 0. eqb_false j nc. destruct (S i =? m), (j =? 0); reflexivity.
  - unfold thj. eqb_false i m. eqb_false j nc. destruct (i =? 0), (j =? 0); reflexivity.
Qed.


(* ------------------------------------------------------------------ the text of a cell *)
Lemma text_cell i j : i < m -> j < nc -> text_from_rect T (cell_rect d i j) = Ok (cell_text d i j).
Proof.
  intros Hi Hj. pose proof (eq_refl : nc = length ws) as Pnc. pose proof H_eq as PH.
  pose proof (X_succ ws j ltac:(lia)) as PS. pose proof (Xj_lt_W (S j) ltac:(lia)) as PX.
  unfold text_from_rect, cell_rect. fold ws. replace (2 * i + 3) with (S (2 * i + 2)) by lia.
  unfold slice at 1. unfold T at 1 2. rewrite tab_length.
  replace ((S (2 * i) <=? 2 * i + 2) && (2 * i + 2 <=? S H)) with true
    by (symmetry; apply andb_true_iff; split; apply Nat.leb_le; lia).
  unfold tab. rewrite slice_map_seq by lia. replace (2 * i + 2 - S (2 * i)) with 1 by lia. cbn [seq map map_opt].
  unfold slice. rewrite map_length, seq_length.
  replace ((S (X ws j) <=? S (X ws (S j)) - 1) && (S (X ws (S j)) - 1 <=? W)) with true
    by (symmetry; apply andb_true_iff; split; apply Nat.leb_le; lia).
  rewrite slice_map_seq by lia. replace (S (X ws (S j)) - 1 - S (X ws j)) with (length (cell_text d i j)) by (rewrite cell_len by assumption; lia).
  rewrite (map_seq_eq _ cWhite).
  - destruct (cell_text d i j) as [|c r]; [reflexivity|]. cbn [text_rows app]. now rewrite app_nil_r.
  - intros o Ho. rewrite cell_len in Ho by assumption. replace (S (2 * i)) with (2 * i + 1) by lia.
    rewrite chT_in by lia. replace (S (X ws j) + o) with (X ws j + 1 + o) by lia. now apply ch_text.
Qed.

End Regular.

(* ================================================================== what is proved for every regular drawing *)
Theorem scan_regular_drawing d : wf_rdraw d = true -> scan_from (T d) (B d) = Ok (regular_canvas d).
Proof. apply scan_regular. Qed.

Theorem cells_regular_drawing d i j : wf_rdraw d = true -> i < nrows d -> j < ncols d ->
  recognize_region (cv_thin (regular_canvas d)) (X (rd_ws d) j, 2 * i) = Ok (cell_rect d i j) /\
  recognize_rectangle (cv_grid (regular_canvas d)) (X (rd_ws d) j, 2 * i) = Ok (cell_rect d i j) /\
  text_from_rect (cv_text (regular_canvas d)) (cell_rect d i j) = Ok (cell_text d i j).
Proof.
  intros Hwf Hi Hj. cbn [cv_thin cv_grid cv_text regular_canvas]. repeat split.
  - now apply region_cell.
  - now apply rectangle_cell.
  - now apply text_cell.
Qed.

(* the TEXT layer of the theorems is the grid of `draw` followed by the extra line of the Rust canvas *)
Lemma map_const_seq {A} (c : A) n : forall a, map (fun _ => c) (seq a n) = repeat c n.
Proof. induction n as [|n IH]; intro a; [reflexivity|]. cbn [seq map repeat]. now rewrite IH. Qed.

Theorem T_is_grid d : T d = draw_grid d ++ [repeat cOuter (Wd d)].
Proof.
  unfold T, draw_grid, tab. rewrite seq_S, map_app. cbn [Nat.add map]. f_equal.
  - apply map_ext_in. intros y Hy. apply in_seq in Hy. apply map_ext. intro x. unfold chT.
    now replace (y <? Hd d) with true by (symmetry; apply Nat.ltb_lt; lia).
  - f_equal. unfold chT. rewrite Nat.ltb_irrefl. apply map_const_seq.
Qed.
