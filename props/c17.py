"""C17 — the workspace holds exactly the models its history leaves in it.
Proof: coq/Props/C17.v (invariant for every history; refinement of the predicate-shaped abstract workspace of coq/C17/Abstract.v;
the document identity is part of the model: replace, deploy, evaluate serves the new document).
Correspondence: every step of generated histories, real Workspace (hook verif_snapshot) vs coq/C17/Model.v; the value of every
evaluation must be the one of the document the Coq model says is served (OEval (Some doc))."""
import concurrent.futures
import itertools
import json
import time

from vlib import core, coqterm

HEADER = 'From Coq Require Import List NArith Bool.\nFrom DV Require Import C17.Model.\nImport ListNotations.\nOpen Scope N_scope.\n'

# model alphabet: (namespace id, name id, builds, value of decision `dec`)
MODELS = [
    (1, 11, True, 101),   # A
    (2, 12, True, 102),   # B   disjoint from A
    (1, 13, True, 103),   # C   same namespace as A, different name
    (3, 11, True, 104),   # D   different namespace, same name as A
    (1, 11, True, 105),   # A'  identical namespace and name as A
    (4, 14, False, 106),  # E   fails to build (input data without type reference)
    (5, 15, True, 107),   # G   another namespace; its NAME is A's name followed by a blank (a different name: seeded change C17_f trimmed keys)
]


def nm_text(k):
    """the text of name number k: name 15 is name 11 followed by a blank"""
    return 'm11 ' if k == 15 else 'm%d' % k


def xml(m):
    ns, nm, builds, val = m
    head = '<?xml version="1.0" encoding="UTF-8"?><definitions namespace="ns%d" name="%s" id="d1" xmlns="https://www.omg.org/spec/DMN/20191111/MODEL/">' % (ns, nm_text(nm))
    if builds:
        body = '<decision name="dec" id="dd1"><variable name="dec"/><literalExpression><text>%d</text></literalExpression></decision>' % val
    else:
        body = ('<inputData name="x" id="i1"><variable name="x"/></inputData><decision name="dec" id="dd1"><variable name="dec"/>'
                '<informationRequirement><requiredInput href="#i1"/></informationRequirement><literalExpression><text>x</text></literalExpression></decision>')
    return head + body + '</definitions>'


XMLS = [xml(m) for m in MODELS]

ALPHABET = ([('add', i) for i in range(6)] + [('replace', i) for i in (1, 2, 3, 4, 5)] +
            [('remove', 1, 11), ('remove', 1, 12), ('remove', 2, 11), ('remove', 3, 13), ('remove', 9, 99), ('remove', 4, 14)] +
            [('clear',), ('deploy',), ('eval', 11), ('eval', 12), ('eval', 14)])


def coq_mdl(i):
    # doc = the value of the decision `dec` of the document: the identity of the document as an evaluation shows it
    ns, nm, b, val = MODELS[i]
    return '{| ns := %d; nm := %d; builds := %s; doc := %d |}' % (ns, nm, 'true' if b else 'false', val)


def coq_op(o):
    k = o[0]
    if k == 'add':
        return 'Add ' + coq_mdl(o[1])
    if k == 'replace':
        return 'Replace ' + coq_mdl(o[1])
    if k == 'remove':
        return 'Remove %d %d' % (o[1], o[2])
    if k == 'clear':
        return 'Clear'
    if k == 'deploy':
        return 'Deploy'
    return 'Eval %d' % o[1]


def impl_op(o):
    k = o[0]
    if k in ('add', 'replace'):
        return [k, o[1]]
    if k == 'remove':
        return ['remove', 'ns%d' % o[1], nm_text(o[2])]
    if k == 'eval':
        return ['eval', nm_text(o[1]), 'dec', '{x: 1}']
    return [k]


def spec_violation(hist, steps):
    """Property predicates evaluated on the implementation's own outputs. Returns a description or None."""
    prev_defs = []
    deployed = None  # names evaluable (name -> value) as the property prescribes
    for o, st in zip(hist, steps):
        s = st['s']
        defs = [tuple(d) for d in s['defs']]
        nss = [d[0] for d in defs]
        nms = [d[1] for d in defs]
        if sorted(s['by_ns']) != sorted(set(nss)) or len(set(nss)) != len(nss):
            return 'by-namespace lookup %s does not describe the stored list %s' % (s['by_ns'], defs)
        if sorted(s['by_name']) != sorted(set(nms)) or len(set(nms)) != len(nms):
            return 'by-name lookup %s does not describe the stored list %s' % (s['by_name'], defs)
        if o[0] == 'add':
            m = MODELS[o[1]]
            free = all(d[0] != 'ns%d' % m[0] and d[1] != nm_text(m[1]) for d in prev_defs)
            if st['r'] is not free:
                return 'add of (ns%d, m%d) returned %s although free=%s in %s' % (m[0], m[1], st['r'], free, prev_defs)
        if o[0] == 'replace':
            m = MODELS[o[1]]
            if st['r'] is not True or ('ns%d' % m[0], nm_text(m[1])) not in defs:
                return 'replace of (ns%d, m%d) did not leave the model stored: %s %s' % (m[0], m[1], st['r'], defs)
        prev_defs = defs
    return None


def expected_steps(hist, trace):
    """Model trace -> the canonical form of the harness output.  The Coq model is the oracle for WHICH document answers an
    evaluation: OEval (Some doc) -> {'deployed': doc}."""
    exp = []
    for o, (out, s) in zip(hist, trace):
        defs = [['ns%d' % d['ns'], nm_text(d['nm'])] for d in s['defs']]
        snap = {'defs': defs, 'by_ns': sorted('ns%d' % x for x in set(s['by_ns'])), 'by_name': sorted(nm_text(x) for x in set(s['by_nm'])),
                'evs': sorted(nm_text(k) for k in set(k for k, _ in s['evs']))}
        if out.name == 'OAdd':
            r = out.args[0]
        elif out.name == 'OUnit':
            r = True if o[0] == 'deploy' else None
        else:
            served = out.args[0]            # Some doc | None
            r = {'deployed': served.args[0]} if served.name == 'Some' else 'not-deployed'
        exp.append({'r': r, 's': snap})
    return exp


def canon_steps(hist, steps):
    """The harness output with the value of an evaluation reduced to the document identity it shows ({'v': number} -> {'deployed': n}):
    the alphabet documents answer `dec` with their own constant (A 101, A' 105, ...), so the value tells which document was served."""
    out = []
    for o, st in zip(hist, steps):
        r = st['r']
        if isinstance(r, dict) and 'v' in r:
            got = r['v'].get('p') if isinstance(r['v'], dict) else None
            try:
                r = {'deployed': int(got)}
            except (TypeError, ValueError):
                r = {'deployed': None, 'value': r['v']}
        out.append({'r': r, 's': st['s']})
    return out


def stale_document(hist, got, exp):
    """A description when an evaluation is answered by another document than the one the proved model serves."""
    for i, (o, a, b) in enumerate(zip(hist, got, exp)):
        if a['s'] == b['s'] and isinstance(a['r'], dict) and isinstance(b['r'], dict) and a['r'] != b['r']:
            return i, ('evaluation of m%d answered by document %s, the history leaves document %s deployed under that name'
                       % (o[1], a['r'].get('deployed'), b['r'].get('deployed')))
    return None


# ---------------------------------------------------------------------------------------------- exhaustive part
# All histories of length 1..n over the alphabet.  The Coq model walks the tree itself (`explore`, C17/Model.v: pre-order, each node
# = result of the last operation + observation of the state); the implementation runs every history of length n and a node of
# length k is step k-1 of the first leaf below it.  One text per subtree is compared (white space removed); only on a difference
# is the model's output parsed to find the first differing node.
PREFIX_LEN = 2


def preorder(depth):
    """index tuples of the histories of length 1..depth in the order `explore` lists them"""
    out = []

    def go(pre, d):
        if d == 0:
            return
        for i in range(len(ALPHABET)):
            t = pre + (i,)
            out.append(t)
            go(t, d - 1)
    go((), depth)
    return out


def node_text(o, st):
    """the text Coq prints for one node of `explore`, from the implementation's step: (out, (defs, by_ns, by_nm, evs))"""
    r = st['r']
    if o[0] in ('add', 'replace'):
        out = 'OAdd true' if r is True else 'OAdd false' if r is False else 'OAdd %r' % (r,)
    elif o[0] == 'eval':
        if isinstance(r, dict) and 'v' in r:
            v = r['v']
            out = 'OEval (Some %s)' % (v.get('p') if isinstance(v, dict) and 'p' in v else json.dumps(v))
        else:
            out = 'OEval None' if r == 'not-deployed' else 'OEval %r' % (r,)
    elif o[0] == 'deploy':
        out = 'OUnit' if r is True else 'deploy %r' % (r,)
    else:
        out = 'OUnit' if r is None else '%s %r' % (o[0], r)
    s = st['s']

    def num(x):
        return int(x.lstrip('nsm')) if isinstance(x, str) and x.lstrip('nsm').isdigit() else x

    def lst(xs):
        return '[' + '; '.join(str(x) for x in sorted(set(num(x) for x in xs))) + ']'
    # the index key sets are sets in the code (HashMap): a repeated key cannot be seen; the stored list is compared in order
    defs = '[' + '; '.join('(%s, %s)' % (num(a), num(b)) for a, b in s['defs']) + ']'
    return '(%s, (%s, %s, %s, %s))' % (out, defs, lst(s['by_ns']), lst(s['by_name']), lst(s['evs']))


def show(e):
    """a parsed Coq term back as text"""
    if isinstance(e, coqterm.App):
        return e.name if not e.args else '%s %s' % (e.name, ' '.join('(%s)' % show(a) if isinstance(a, coqterm.App) and a.args else show(a) for a in e.args))
    if isinstance(e, bool):
        return 'true' if e else 'false'
    if isinstance(e, tuple):
        return '(' + ', '.join(show(x) for x in e) + ')'
    if isinstance(e, list):
        return '[' + '; '.join(show(x) for x in e) + ']'
    return str(e)


def squeeze(t):
    return ''.join(t.split())


def run_model_raw(ctx, header, terms, shard_size):
    """ctx.run_model without parsing: the text Coq prints for each `Eval vm_compute` (16 coqc processes)."""
    import os
    import re
    if not terms:
        return []
    shards = [terms[i:i + shard_size] for i in range(0, len(terms), shard_size)]
    cdir = os.path.join(core.BUILD, 'cases')

    def work(ix):
        name = '%s_x_%d_%d_%d' % (ctx.pid, os.getpid(), id(terms) % 100000, ix)
        path = os.path.join(cdir, name + '.v')
        with open(path, 'w') as f:
            f.write(header + '\nSet Printing Width 1000000.\nSet Printing Depth 1000000.\n')
            for t in shards[ix]:
                f.write('Eval vm_compute in (%s).\n' % t)
        rc, out = core.sh(['coqc', '-noglob', '-Q', core.COQ, 'DV', path], cwd=cdir, timeout=1800)
        if rc != 0 and 'Error' not in out:
            time.sleep(5)
            rc, out = core.sh(['coqc', '-noglob', '-Q', core.COQ, 'DV', path], cwd=cdir, timeout=1800)
        if rc != 0:
            raise RuntimeError('model evaluation failed (exit status %s) in %s:\n%s' % (rc, path, out[-2000:]))
        res = []
        for chunk in re.split(r'^\s*= ', out, flags=re.M)[1:]:
            j = chunk.rfind('\n     : ')
            res.append(chunk[:j] if j >= 0 else chunk)
        if len(res) != len(shards[ix]):
            raise RuntimeError('model evaluation: %d results for %d terms in %s' % (len(res), len(shards[ix]), path))
        for ext in ('.v', '.vo', '.vok', '.vos', '.glob'):
            try:
                os.remove(os.path.join(cdir, name + ext))
            except OSError:
                pass
        return res

    with concurrent.futures.ThreadPoolExecutor(max_workers=16) as ex:
        parts = list(ex.map(work, range(len(shards))))
    return [r for part in parts for r in part]


def ws_request(h):
    return {'models': XMLS, 'ops': [impl_op(o) for o in h]}


class _Stub:
    """what run_model_raw needs of a Ctx, inside a worker process"""
    def __init__(self, pid):
        self.pid = pid


def compare_subtree(prefix, node_list, steps_of, model_text):
    """node_list: index tuples below the prefix in pre-order; steps_of(t) -> (history, step dict of its last operation | None).
    Returns None or (what, case, impl, model) for the first node that differs from the proved model."""
    got = []
    for t in node_list:
        h, st = steps_of(t)
        if st is None:
            return None      # a crash, reported with the leaf
        got.append(node_text(h[-1], st))
    if squeeze('[' + '; '.join(got) + ']') == squeeze(model_text):
        return None
    exp = coqterm.parse(model_text)
    for t, g, e in zip(node_list, got, exp):
        ge = coqterm.parse(g)
        if ge != e:
            h, st = steps_of(t)
            what = 'implementation state/result differs from the proved model'
            if ge[1] == e[1] and ge[0].name == 'OEval' and e[0].name == 'OEval' and ge[0].args[0].name == 'Some' and e[0].args[0].name == 'Some':
                what = ('evaluation of m%d answered by document %s, the history leaves document %s deployed under that name'
                        % (h[-1][1], ge[0].args[0].args[0], e[0].args[0].args[0]))
            return ('step %d (%s): %s: %s, model %s' % (len(h) - 1, h[-1], what, g, show(e)), {'history': [list(o) for o in h]}, g, show(e))
    return ('the implementation and the proved model list different numbers of histories below %s' % (prefix,),
            {'history': [list(ALPHABET[i]) for i in prefix]}, len(got), len(exp))


def exhaustive_round(args):
    """One group of prefixes, in a worker process: runs the harness on every leaf below them and the model on every subtree, compares.
    Returns counters and the violations found (reported by the parent)."""
    pid, n, depth, grp, header = args
    A = len(ALPHABET)
    below = preorder(depth)
    leaves = [p + t for p in grp for t in itertools.product(range(A), repeat=depth)]
    with concurrent.futures.ThreadPoolExecutor(max_workers=2) as ex:
        f_impl = ex.submit(core.Ctx.run_impl, None, 'ws', [ws_request([ALPHABET[i] for i in t]) for t in leaves], shards=2)
        f_model = ex.submit(run_model_raw, _Stub(pid), header,
                            ['explore alpha %d (fst (run remove init [%s]))' % (depth, '; '.join(coq_op(ALPHABET[i]) for i in p)) for p in grp],
                            max(1, (len(grp) + 1) // 2))
        impl, mtxts = f_impl.result(), f_model.result()
    res = {'leaves': len(leaves), 'nontrivial': 0, 'kinds': {}, 'nodes': 0, 'violations': []}
    by_leaf = dict(zip(leaves, impl))
    for t, st in by_leaf.items():
        h = [ALPHABET[i] for i in t]
        if any(o[0] in ('remove', 'replace') for o in h):
            res['nontrivial'] += 1
        for o in h:
            res['kinds'][o[0]] = res['kinds'].get(o[0], 0) + 1
        if not isinstance(st, list) or len(st) != len(h):
            res['violations'].append(('workspace operation sequence crashed the process or panicked: %s' % json.dumps(st)[:200], {'history': [list(o) for o in h]}, st, None))
            by_leaf[t] = None
            continue
        sv = spec_violation(h, st)
        if sv:
            res['violations'].append((sv, {'history': [list(o) for o in h]}, st, None))
    for p, mtxt in zip(grp, mtxts):
        def steps(t, p=p):
            full = p + t
            st = by_leaf.get(full + (0,) * (n - len(full)))
            return [ALPHABET[i] for i in full], (st[len(full) - 1] if st is not None else None)
        v = compare_subtree(p, below, steps, mtxt)
        res['nodes'] += len(below)
        if v:
            res['violations'].append(v)
    return res


def exhaustive(ctx, n, kinds):
    """returns the number of histories (nodes) compared"""
    alpha = 'Definition alpha : list op := [%s].\n' % '; '.join(coq_op(o) for o in ALPHABET)
    header = HEADER + alpha
    A = len(ALPHABET)
    nodes = 0
    # the top of the tree: lengths 1..PREFIX_LEN, each history run as it is
    top = preorder(min(PREFIX_LEN, n))
    impl = ctx.run_impl('ws', [ws_request([ALPHABET[i] for i in t]) for t in top], shards=16)
    mtxt = run_model_raw(ctx, header, ['explore alpha %d init' % min(PREFIX_LEN, n)], 1)[0]
    by_t = dict(zip(top, impl))

    def top_steps(t):
        h = [ALPHABET[i] for i in t]
        st = by_t[t]
        if not isinstance(st, list) or len(st) != len(h):
            ctx.violation('workspace operation sequence crashed the process or panicked: %s' % json.dumps(st)[:200], {'history': [list(o) for o in h]}, impl=st)
            return h, None
        return h, st[-1]
    v = compare_subtree((), top, top_steps, mtxt)
    nodes += len(top)
    ctx.corr_checked += len(top)
    if v:
        ctx.violation(v[0], v[1], impl=v[2], model=v[3])
    if n <= PREFIX_LEN:
        return nodes
    # below every prefix of length PREFIX_LEN: depth n - PREFIX_LEN; all leaves are run, inner nodes are read off the first leaf below them.
    # 8 worker processes (the comparison itself is Python work), each with 2 harness processes and up to 2 coqc
    depth = n - PREFIX_LEN
    prefixes = list(itertools.product(range(A), repeat=PREFIX_LEN))
    group = max(1, 12000 // (A ** depth))          # leaves per round: bounded memory
    jobs = [(ctx.pid, n, depth, prefixes[g0:g0 + group], header) for g0 in range(0, len(prefixes), group)]
    with concurrent.futures.ProcessPoolExecutor(max_workers=8) as pool:
        for res in pool.map(exhaustive_round, jobs):
            ctx.evaluations += res['leaves']
            base = len(ctx.nontrivial)
            ctx.nontrivial.update(('exhaustive', base + i) for i in range(res['nontrivial']))
            for k, c in res['kinds'].items():
                kinds[k] = kinds.get(k, 0) + c
            nodes += res['nodes']
            ctx.corr_checked += res['nodes']
            for what, case, im, mo in res['violations']:
                ctx.violation(what, case, impl=im, model=mo)
    return nodes


def random_histories(ctx, n_ex):
    # the witnesses of fixed findings run first (corpus)
    corpus = [[('add', 0), ('add', 1), ('remove', 1, 12), ('add', 1), ('add', 0)],
              [('add', 0), ('add', 1), ('replace', 3), ('add', 0), ('deploy',), ('eval', 11)],
              [('add', 0), ('deploy',), ('eval', 11), ('replace', 4), ('deploy',), ('eval', 11), ('replace', 0), ('eval', 11), ('deploy',), ('eval', 11)]]
    rnd = []
    # the random histories also use document G (a name that differs from A's by a trailing blank): operations outside the exhaustive alphabet
    WIDE = ALPHABET + [('add', 6), ('add', 6), ('replace', 6), ('eval', 15), ('eval', 15), ('remove', 5, 15)]
    evals = [o for o in WIDE if o[0] == 'eval']
    corpus += [[('add', 0), ('add', 6), ('deploy',), ('eval', 11), ('eval', 15)], [('add', 6), ('add', 0), ('deploy',), ('eval', 15), ('eval', 11), ('remove', 5, 15), ('deploy',), ('eval', 11), ('eval', 15)]]
    for j in range(ctx.pick(1500, 20000)):
        L = ctx.rng.randint(n_ex + 1, ctx.pick(14, 60))
        if j % 2 == 0:
            rnd.append([ctx.rng.choice(WIDE) for _ in range(L)])
        else:
            # every third operation on average is followed by deploy and an evaluation, so that evaluations are answered with values
            h = []
            while len(h) < L:
                h.append(ctx.rng.choice(WIDE))
                if ctx.rng.random() < 0.35:
                    h += [('deploy',), ctx.rng.choice(evals)]
                    if ctx.rng.random() < 0.3:
                        h.append(ctx.rng.choice(evals))
            rnd.append(h)
    return corpus + rnd


def run(ctx):
    ctx.proof_gate()
    ctx.build_harness()
    kinds = {}
    n_ex = ctx.pick(4, 5)
    t0 = time.time()
    n_nodes = exhaustive(ctx, n_ex, kinds)
    t_ex = time.time() - t0
    hs = random_histories(ctx, n_ex)
    impl = ctx.run_impl('ws', [ws_request(h) for h in hs], shards=16)
    traces = ctx.run_model(HEADER, ['trace remove [%s]' % '; '.join(coq_op(o) for o in h) for h in hs], shard_size=ctx.pick(100, 400))
    served_docs = 0
    for h, st, tr in zip(hs, impl, traces):
        ctx.evaluations += 1
        key = tuple(h)
        if len(h) >= 3 and any(o[0] in ('remove', 'replace') for o in h):
            ctx.nontrivial.add(key)
        for o in h:
            kinds[o[0]] = kinds.get(o[0], 0) + 1
        if not isinstance(st, list):
            ctx.violation('workspace operation sequence crashed the process or panicked: %s' % json.dumps(st)[:200], {'history': h}, impl=st)
            continue
        sv = spec_violation(h, st)
        got = canon_steps(h, st)
        exp = expected_steps(h, tr)
        ctx.corr_checked += 1
        if any(isinstance(e['r'], dict) for e in exp):
            served_docs += 1
        stale = stale_document(h, got, exp) if not sv else None
        if sv or stale:
            ctx.violation(sv or stale[1], {'history': h if sv else h[:stale[0] + 1]}, impl=st, model=exp)
            continue
        if got != exp:
            # first differing step
            i = next(i for i, (a, b) in enumerate(zip(got, exp)) if a != b)
            # evaluation possible exactly for models present at the last deploy that built: model is the Spec here (proved = abstract workspace)
            ctx.violation('step %d (%s): implementation state/result %s differs from the proved model %s' % (i, h[i], json.dumps(got[i]), json.dumps(exp[i])),
                          {'history': h[:i + 1]}, impl=got[i], model=exp[i])
            continue
        if len(ctx.samples) < 3 and len(h) > 4:
            ctx.sample({'history': [list(o) for o in h], 'final_state': got[-1]['s']})
    return ctx.finish(
        rule='histories over the alphabet of 6 DMN documents sharing namespaces/names pairwise (A, B, C=A.ns, D=A.name, A\' identical, E fails to build) and '
             '%d operations; exhaustive to length %d (%d histories of length 1..%d, the result and the state after each compared with the proved model, which also '
             'says WHICH document answers an evaluation) plus random longer ones; non-trivial = length>=3 containing remove/replace'
             % (len(ALPHABET), n_ex, n_nodes, n_ex),
        extra_cov={'exhaustive': False, 'exhaustive_prefix_length': n_ex, 'exhaustive_histories': n_nodes, 'exhaustive_seconds': round(t_ex, 1),
                   'random_histories_with_a_served_evaluation': served_docs, 'operation_histogram': kinds},
        assumptions=['the six DMN documents stand for all models: the workspace only looks at namespace, name and whether ModelEvaluator::new succeeds',
                     'HashMap key sets are compared as sorted sets',
                     'the document that answers an evaluation is identified by the constant its decision returns (A 101, B 102, C 103, D 104, A\' 105)'],
        trusted=['hook Workspace::verif_snapshot (read-only, --cfg dmntk_verif)'])


def replay(ctx, path):
    obj = json.load(open(path))
    h = [tuple(o) for o in obj['case']['history']]
    ctx.build_harness()
    impl = ctx.run_impl('ws', [{'models': XMLS, 'ops': [impl_op(o) for o in h]}])[0]
    tr = ctx.run_model(HEADER, ['trace remove [%s]' % '; '.join(coq_op(o) for o in h)])[0]
    print('history:', h)
    print('implementation:', json.dumps(impl))
    print('model         :', json.dumps(expected_steps(h, tr)))
    sv = spec_violation(h, impl) if isinstance(impl, list) else 'crash'
    got = canon_steps(h, impl) if isinstance(impl, list) else None
    fail = sv or got is None or (got != expected_steps(h, tr))
    print('REPRODUCED' if fail else 'not reproduced')
    return 1 if fail else 0


MANIFEST = dict(
    technique='Coq proof (invariant by induction over histories; refinement, through an abstraction function, of an abstract workspace given by predicates on a set of stored documents) with model/code correspondence, exhaustive to length 4 / 5',
    text='Theorems (coq/Props/C17.v, closed under the global context), for every operation history of the modelled workspace (list + two index maps + evaluator map, as workspace.rs): '
         'the index/list invariant (C17_reachable_inv); C17_refines_abstract_spec: the states read through the abstraction function and the results are a run of the ABSTRACT workspace of coq/C17/Abstract.v - '
         'a set of (namespace, name, builds, document) elements and a served relation, every operation given by a predicate on membership (add succeeds iff no stored element has that namespace or that name and then the set gains exactly it; '
         'remove n k keeps exactly the elements with another namespace AND another name - the or-semantics of Workspace::remove is the specification choice, stated not derived; replace = remove by both keys then add; clear; '
         'deploy serves exactly the stored elements that build; any modification leaves nothing served), which shares no list function or index with the implementation model and is deterministic (C17_refines_abstract_spec_unique); '
         'the sentences of the property as corollaries about that abstract workspace (C17_abs_add_iff_free, C17_abs_remove_exactly, C17_abs_remove_no_stale_key, C17_abs_remove_then_add, C17_abs_replace, C17_abs_modification_undeploys, '
         'C17_abs_deploy_exactly, C17_abs_evaluable_exactly) and transferred to the implementation model (C17_add_iff_free, C17_impl_remove_exactly, C17_impl_remove_frees_both_keys, C17_deployed_exactly, C17_mutation_undeploys, C17_failed_build_isolated). '
         'The model carries the identity of the document: C17_replace_serves_new_document - after any history, replace m; deploy; evaluate (name of m) is answered by m itself, not by a stored document of the same namespace and name. '
         'The older list-shaped abstract workspace (C17_refines_abstract) shares the filter `retained` with the implementation model and is kept as a lemma. '
         'The model is tied to workspace.rs by comparing the result and the state (hook verif_snapshot) after EVERY history of length 1..4 (quick) / 1..5 (thorough) over 22 operations on six documents, and of random longer ones; '
         'the value of each evaluation must be that of the document the Coq model says is served. The property text speaks of length 6: beyond 4 / 5 the unbounded part is the theorem, not the enumeration.',
    note='Trusted: Coq kernel + vm_compute, hand-written model of workspace.rs (correspondence-checked, not verified), harness, ModelEvaluator::new abstracted to a `builds` flag, a document identified by the constant its decision returns.')
