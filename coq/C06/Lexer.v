(* C06 — the step from TEXT to TOKENS: executable model of feel-parser/src/lexer.rs `Lexer::next_token` (lines 190-420),
   iterated to the end of the input.  Owner: ext-lexer.

   Pieces that already had a model are imported, not rewritten: the layout scanner `skip_layout` and the string-literal
   decoder `unescape_go` of C06.Model, the five-state part collector `collect`, the normal form `name_new` and the key
   look-up `mem` of C10.Model (consume_name).  New here: the keyword arms with their terminators (white space / separator /
   a look-ahead character / the unary-tests flag), the one- and two-character symbols in the order of the `match`, numeric
   literals, the four flags of the lexer (unary_tests, between, type_name, till_in) as the code sets and clears them, the
   tail of consume_name (type-name mode, the date / time / duration names), and the outcomes YyEof / YyUndef / Err.
   Characters are Unicode scalar values (N).  No proofs here. *)
From Coq Require Import List NArith Bool Arith.
From DV Require Import C06.Model.
From DV Require C10.Model.
Import ListNotations.

Module NM := DV.C10.Model.

Definition str := list N.

(* ------------------------------------------------------------------ spellings *)
Definition s_satisfies : str := [115; 97; 116; 105; 115; 102; 105; 101; 115]%N.
Definition s_external : str := [101; 120; 116; 101; 114; 110; 97; 108]%N.
Definition s_function : str := [102; 117; 110; 99; 116; 105; 111; 110]%N.
Definition s_instance : str := [105; 110; 115; 116; 97; 110; 99; 101]%N.
Definition s_between : str := [98; 101; 116; 119; 101; 101; 110]%N.
Definition s_context : str := [99; 111; 110; 116; 101; 120; 116]%N.
Definition s_return : str := [114; 101; 116; 117; 114; 110]%N.
Definition s_every : str := [101; 118; 101; 114; 121]%N.
Definition s_false : str := [102; 97; 108; 115; 101]%N.
Definition s_range : str := [114; 97; 110; 103; 101]%N.
Definition s_null : str := [110; 117; 108; 108]%N.
Definition s_else : str := [101; 108; 115; 101]%N.
Definition s_list : str := [108; 105; 115; 116]%N.
Definition s_some : str := [115; 111; 109; 101]%N.
Definition s_then : str := [116; 104; 101; 110]%N.
Definition s_true : str := [116; 114; 117; 101]%N.
Definition s_and : str := [97; 110; 100]%N.
Definition s_for : str := [102; 111; 114]%N.
Definition s_not : str := [110; 111; 116]%N.
Definition s_if : str := [105; 102]%N.
Definition s_in : str := [105; 110]%N.
Definition s_of : str := [111; 102]%N.
Definition s_or : str := [111; 114]%N.
Definition s_date_and_time : str := [100; 97; 116; 101; 32; 97; 110; 100; 32; 116; 105; 109; 101]%N.
Definition s_duration : str := [100; 117; 114; 97; 116; 105; 111; 110]%N.
Definition s_date : str := [100; 97; 116; 101]%N.
Definition s_time : str := [116; 105; 109; 101]%N.
Definition s_Any : str := [65; 110; 121]%N.
Definition s_Null : str := [78; 117; 108; 108]%N.
Definition s_boolean : str := [98; 111; 111; 108; 101; 97; 110]%N.
Definition s_number : str := [110; 117; 109; 98; 101; 114]%N.
Definition s_string : str := [115; 116; 114; 105; 110; 103]%N.
Definition s_ym_duration : str := [121; 101; 97; 114; 115; 32; 97; 110; 100; 32; 109; 111; 110; 116; 104; 115; 32; 100; 117; 114; 97; 116; 105; 111; 110]%N.
Definition s_dt_duration : str := [100; 97; 121; 115; 32; 97; 110; 100; 32; 116; 105; 109; 101; 32; 100; 117; 114; 97; 116; 105; 111; 110]%N.

(* ------------------------------------------------------------------ tokens (TokenValue, lexer.rs 52-115) *)

Inductive kw := KSatisfies | KExternal | KFunction | KInstance | KBetween | KContext | KReturn | KEvery | KRange | KElse | KList
              | KSome | KThen | KAnd | KBetweenAnd | KFor | KNot | KIf | KIn | KOf | KOr.

Inductive sym := SEllipsis | SExp | SNq | SLe | SGe | SArrow | SDot | SComma | SColon | SPlus | SMinus | SMul | SDiv | SEq | SLt | SGt
               | SLp | SRp | SLb | SRb | SLbrace | SRbrace | SAt.

Inductive ltoken :=
| LKw (k : kw)
| LSym (s : sym)
| LBool (b : bool)
| LNull
| LNum (before after : str)        (* Numeric(digits before, digits after the decimal separator) *)
| LStr (s : str)                   (* String(decoded characters) *)
| LName (n : str)                  (* Name(normal form of the chosen parts) *)
| LNameDT (n : str)                (* NameDateTime: date, time, date and time, duration *)
| LType (n : str).                 (* BuiltInTypeName *)

(* the four flags of the lexer *)
Record flags := { f_unary : bool; f_between : bool; f_type : bool; f_tillin : bool }.
Definition flags0 : flags := {| f_unary := false; f_between := false; f_type := false; f_tillin := false |}.
Definition clr_unary (fl : flags) := {| f_unary := false; f_between := f_between fl; f_type := f_type fl; f_tillin := f_tillin fl |}.
Definition set_between (b : bool) (fl : flags) := {| f_unary := f_unary fl; f_between := b; f_type := f_type fl; f_tillin := f_tillin fl |}.
Definition set_type (b : bool) (fl : flags) := {| f_unary := f_unary fl; f_between := f_between fl; f_type := b; f_tillin := f_tillin fl |}.
Definition set_tillin (b : bool) (fl : flags) := {| f_unary := f_unary fl; f_between := f_between fl; f_type := f_type fl; f_tillin := b |}.
Definition set_unary (b : bool) (fl : flags) := {| f_unary := b; f_between := f_between fl; f_type := f_type fl; f_tillin := f_tillin fl |}.

(* outcome of one call of next_token: a token, the flags afterwards and the input that is left; the end of the input;
   the undefined token; a lexer error (Err of consume_unicode) *)
Inductive lres := RTok (t : ltoken) (fl : flags) (rest : str) | REof | RUndef | RErr.

(* ------------------------------------------------------------------ the keyword arms (lexer.rs 212-308) *)

(* w is a prefix of cs: what follows it *)
Fixpoint strip (w cs : str) : option str :=
  match w with
  | [] => Some cs
  | x :: w' => match cs with
               | c :: r => if (c =? x)%N then strip w' r else None
               | [] => None
               end
  end.

(* the character of read_input's buffer at the beginning of r: white space and the end of the input read as a space *)
Definition bufch (r : str) : N := match r with [] => 32%N | c :: _ => if is_ws c then 32%N else c end.

(* is_separator, lexer.rs 963 *)
Definition is_sep (c : N) : bool :=
  (c =? 32)%N || (c =? 61)%N || (c =? 33)%N || (c =? 60)%N || (c =? 62)%N || (c =? 43)%N || (c =? 45)%N || (c =? 42)%N || (c =? 47)%N ||
  (c =? 37)%N || (c =? 46)%N || (c =? 44)%N || (c =? 41)%N || (c =? 91)%N || (c =? 93)%N || (c =? 125)%N.

(* is_next_character: the first character that is not white space is one of chars *)
Fixpoint next_char_in (chars : list N) (r : str) : bool :=
  match r with
  | [] => false
  | c :: r' => if existsb (N.eqb c) chars then true else if is_ws c then next_char_in chars r' else false
  end.

(* what has to follow the spelling of a keyword *)
Inductive term :=
| TWs                         (* WS in the buffer: a white space character or the end of the input *)
| TSep                        (* is_separator of the buffer character *)
| TNext (chars : list N)      (* is_next_character *)
| TNotKw.                     (* the unary-tests flag, then WS or an opening parenthesis *)

Definition term_ok (un : bool) (tm : term) (r : str) : bool :=
  match tm with
  | TWs => (bufch r =? 32)%N
  | TSep => is_sep (bufch r)
  | TNext chars => next_char_in chars r
  | TNotKw => un && ((bufch r =? 32)%N || (bufch r =? 40)%N)
  end.

Inductive kwout := OKw (k : kw) | OBool (b : bool) | ONull | OAnd.

(* the arms in the order of the match *)
Definition kwtable : list (str * term * kwout) :=
  [ (s_satisfies, TWs, OKw KSatisfies); (s_external, TWs, OKw KExternal); (s_function, TNext [40; 60]%N, OKw KFunction);
    (s_instance, TWs, OKw KInstance); (s_between, TWs, OKw KBetween); (s_context, TNext [60%N], OKw KContext);
    (s_return, TWs, OKw KReturn); (s_every, TWs, OKw KEvery); (s_false, TSep, OBool false); (s_range, TNext [60%N], OKw KRange);
    (s_null, TSep, ONull); (s_else, TWs, OKw KElse); (s_list, TNext [60%N], OKw KList); (s_some, TWs, OKw KSome);
    (s_then, TWs, OKw KThen); (s_true, TSep, OBool true); (s_and, TWs, OAnd); (s_for, TWs, OKw KFor); (s_not, TNotKw, OKw KNot);
    (s_if, TWs, OKw KIf); (s_in, TWs, OKw KIn); (s_of, TWs, OKw KOf); (s_or, TWs, OKw KOr) ].

Fixpoint kw_scan (tbl : list (str * term * kwout)) (un : bool) (cs : str) : option (kwout * str) :=
  match tbl with
  | [] => None
  | (w, tm, o) :: tbl' =>
    match strip w cs with
    | Some r => if term_ok un tm r then Some (o, r) else kw_scan tbl' un cs
    | None => kw_scan tbl' un cs
    end
  end.

(* the `and` arms: the between flag decides and is cleared *)
Definition kw_result (o : kwout) (fl : flags) (r : str) : lres :=
  match o with
  | OKw k => RTok (LKw k) fl r
  | OBool b => RTok (LBool b) fl r
  | ONull => RTok LNull fl r
  | OAnd => if f_between fl then RTok (LKw KBetweenAnd) (set_between false fl) r else RTok (LKw KAnd) fl r
  end.

(* ------------------------------------------------------------------ symbols (lexer.rs 309-405) *)

Definition sym2 (cs : str) : option (sym * str) :=
  match cs with
  | c :: d :: r =>
    if (c =? 46)%N && (d =? 46)%N then Some (SEllipsis, r)
    else if (c =? 42)%N && (d =? 42)%N then Some (SExp, r)
    else if (c =? 33)%N && (d =? 61)%N then Some (SNq, r)
    else if (c =? 60)%N && (d =? 61)%N then Some (SLe, r)
    else if (c =? 62)%N && (d =? 61)%N then Some (SGe, r)
    else if (c =? 45)%N && (d =? 62)%N then Some (SArrow, r)
    else None
  | _ => None
  end.

Definition sym1 (c : N) : option sym :=
  if (c =? 46)%N then Some SDot else if (c =? 44)%N then Some SComma else if (c =? 58)%N then Some SColon
  else if (c =? 43)%N then Some SPlus else if (c =? 45)%N then Some SMinus else if (c =? 42)%N then Some SMul
  else if (c =? 47)%N then Some SDiv else if (c =? 61)%N then Some SEq else if (c =? 60)%N then Some SLt
  else if (c =? 62)%N then Some SGt else if (c =? 40)%N then Some SLp else if (c =? 41)%N then Some SRp
  else if (c =? 91)%N then Some SLb else if (c =? 93)%N then Some SRb else if (c =? 123)%N then Some SLbrace
  else if (c =? 125)%N then Some SRbrace else if (c =? 64)%N then Some SAt else None.

(* ------------------------------------------------------------------ numerals (consume_digits, lexer.rs 406-415, 333-336) *)

Fixpoint digits (cs : str) : str * str :=
  match cs with
  | c :: r => if NM.is_digit c then let '(d, r') := digits r in (c :: d, r') else ([], cs)
  | [] => ([], [])
  end.

Definition numeric (cs : str) : ltoken * str :=
  let '(b, r) := digits cs in
  match r with
  | c :: d :: _ =>
    if (c =? 46)%N && NM.is_digit d then let '(a, r') := digits (tl r) in (LNum b a, r') else (LNum b [], r)
  | _ => (LNum b [], r)
  end.

(* ------------------------------------------------------------------ string literals (consume_string) *)

(* why the body of a literal is not a string: the loop of consume_string without the decoding.
   true = the input ends inside the literal (the code answers YyEof), false = a vertical space (YyUndef);
   None = none of the two, so that a failure of unescape_go is an Err of consume_unicode *)
Fixpoint string_stop (fuel : nat) (cs : str) : option bool :=
  match fuel with
  | O => None
  | S f =>
    match cs with
    | [] => Some true
    | c :: r =>
      if (c =? 92)%N then
        match r with
        | e :: r' =>
          match short_unescape e with
          | Some _ => string_stop f r'
          | None =>
            if (e =? 117)%N || (e =? 85)%N then
              match unicode_literal cs with
              | Some (v, r1) => match unicode_char 63 v r1 with Some (_, r2) => string_stop f r2 | None => None end
              | None => None
              end
            else string_stop f r
          end
        | [] => string_stop f r
        end
      else if (c =? 34)%N then None
      else if vertical_space c then Some false
      else string_stop f r
    end
  end.

(* cs = the input after the opening quote *)
Definition string_token (fl : flags) (cs : str) : lres :=
  match unescape_go 63 (S (length cs)) cs [] with
  | Some (s, rest) => RTok (LStr s) fl rest
  | None => match string_stop (S (length cs)) cs with
            | Some true => REof
            | Some false => RUndef
            | None => RErr
            end
  end.

(* ------------------------------------------------------------------ names (consume_name, lexer.rs 555-712) *)

Definition is_builtin_type (n : str) : bool :=
  existsb (NM.str_eqb n) [s_Any; s_Null; s_boolean; s_number; s_string; s_date; s_date_and_time; s_time; s_ym_duration; s_dt_duration].

(* Name::new trims every part (str::trim, the characters with the Unicode property White_Space): C10.Model.name_new has the trim.
   A collected part is a run of name part characters or one additional symbol; none of these has that property (U+1680, OGHAM SPACE
   MARK, inside the range 037F-1FFF of the grammar, is white space for is_whitespace and since the repair of is_name_start_char no name
   character), so on collected parts the trim is the identity (C10.Trim.collect_trim_all). *)
Definition name_of (parts : list str) : str := NM.name_new parts.

(* `while part_count > 0`: a scope key first, then (type-name mode) a built-in type name; the flag says which *)
Fixpoint search_t (keys : list str) (ty : bool) (parts : list str) (pc : nat) : option (nat * bool) :=
  match pc with
  | O => None
  | S k =>
    let name := name_of (firstn pc parts) in
    if NM.mem name keys then Some (pc, false)
    else if ty && is_builtin_type name then Some (pc, true)
    else search_t keys ty parts k
  end.

(* cs begins with a name start character.  The `item` branch clears till_in (`item` as the variable of an iteration or quantified context:
   the variable has been read) *)
Definition name_token (keys : list str) (fl : flags) (cs : str) : lres :=
  let '(parts, cps, endpos) := NM.collect cs 0 in
  let from (p : nat) := skipn p cs in
  if match parts with p :: _ => NM.str_eqb p NM.str_item | [] => false end
  then RTok (LName NM.str_item) (set_tillin false fl) (from (S (nth 0 cps 0)))
  else
    match (if f_tillin fl then NM.index_of NM.str_in parts 0 else None) with
    | Some (S i) => RTok (LName (name_of (firstn (S i) parts))) (set_tillin false fl) (from (S (nth i cps 0)))
    | _ =>
      match search_t keys (f_type fl) parts (length parts) with
      | Some (pc, false) => RTok (LName (name_of (firstn pc parts))) fl (from (S (nth (pc - 1) cps 0)))
      | Some (pc, true) => RTok (LType (name_of (firstn pc parts))) (set_type false fl) (from (S (nth (pc - 1) cps 0)))
      | None =>
        let name := name_of parts in
        let rest := from endpos in
        if f_type fl && is_builtin_type name then RTok (LType name) (set_type false fl) rest
        else if NM.str_eqb name s_date_and_time || NM.str_eqb name s_duration then RTok (LNameDT name) fl rest
        else if NM.str_eqb name s_date || NM.str_eqb name s_time then
          if next_char_in [58%N] rest then RTok (LName name) fl rest else RTok (LNameDT name) fl rest
        else RTok (LName name) fl rest
      end
    end.

(* consume_name before the repair of the `item` branch: `item` is returned before till_in is looked at and the flag stays set *)
Definition name_token_orig (keys : list str) (fl : flags) (cs : str) : lres :=
  let '(parts, cps, endpos) := NM.collect cs 0 in
  let from (p : nat) := skipn p cs in
  if match parts with p :: _ => NM.str_eqb p NM.str_item | [] => false end
  then RTok (LName NM.str_item) fl (from (S (nth 0 cps 0)))
  else
    match (if f_tillin fl then NM.index_of NM.str_in parts 0 else None) with
    | Some (S i) => RTok (LName (name_of (firstn (S i) parts))) (set_tillin false fl) (from (S (nth i cps 0)))
    | _ =>
      match search_t keys (f_type fl) parts (length parts) with
      | Some (pc, false) => RTok (LName (name_of (firstn pc parts))) fl (from (S (nth (pc - 1) cps 0)))
      | Some (pc, true) => RTok (LType (name_of (firstn pc parts))) (set_type false fl) (from (S (nth (pc - 1) cps 0)))
      | None =>
        let name := name_of parts in
        let rest := from endpos in
        if f_type fl && is_builtin_type name then RTok (LType name) (set_type false fl) rest
        else if NM.str_eqb name s_date_and_time || NM.str_eqb name s_duration then RTok (LNameDT name) fl rest
        else if NM.str_eqb name s_date || NM.str_eqb name s_time then
          if next_char_in [58%N] rest then RTok (LName name) fl rest else RTok (LNameDT name) fl rest
        else RTok (LName name) fl rest
      end
    end.

(* ------------------------------------------------------------------ read_next_token after read_input *)

Definition scan (keys : list str) (fl0 : flags) (cs : str) : lres :=
  let fl := clr_unary fl0 in                (* next_token: `self.unary_tests = false` after every token *)
  match cs with
  | [] => REof
  | c :: r =>
    match kw_scan kwtable (f_unary fl0) cs with
    | Some (o, r') => kw_result o fl r'
    | None =>
      match sym2 cs with
      | Some (s, r') => RTok (LSym s) fl r'
      | None =>
        if (c =? 46)%N && match r with d :: _ => NM.is_digit d | [] => false end
        then let '(a, r') := digits r in RTok (LNum [48%N] a) fl r'
        else match sym1 c with
             | Some s => RTok (LSym s) fl r
             | None =>
               if (c =? 34)%N then string_token fl r
               else if NM.is_digit c then let '(t, r') := numeric cs in RTok t fl r'
               else if NM.is_name_start c then name_token keys fl cs
               else RUndef
             end
      end
    end
  end.

(* every comment takes at least two characters, so the length of the input is enough fuel for read_input *)
Definition next_token (keys : list str) (fl : flags) (cs : str) : lres := scan keys fl (skip_layout (length cs) cs).

(* ------------------------------------------------------------------ the token stream *)

(* what the parser does to the flags between two calls, as far as the last token alone decides it: the mid-rule actions
   between_begin (after BETWEEN), type_name (after INSTANCE OF) and the *_variable_name_begin actions (after FOR / SOME / EVERY).
   The other places of feel.y that set a flag (type_name after LIST LT, RANGE LT, NAME COLON, RIGHT_ARROW, COMMA inside a
   function type; till_in after the COMMA of an iteration context) depend on the parser state and are not in this function;
   lex_trace below takes the flags to set before every token explicitly. *)
Definition policy (t : ltoken) (fl : flags) : flags :=
  match t with
  | LKw KBetween => set_between true fl
  | LKw KOf => set_type true fl
  | LKw KFor | LKw KSome | LKw KEvery => set_tillin true fl
  | _ => fl
  end.

Fixpoint lex_go (fuel : nat) (keys : list str) (fl : flags) (cs : str) : option (list ltoken) :=
  match fuel with
  | O => None
  | S f =>
    match next_token keys fl cs with
    | RTok t fl' rest => match lex_go f keys (policy t fl') rest with Some ts => Some (t :: ts) | None => None end
    | REof => Some []
    | RUndef | RErr => None
    end
  end.

(* every token takes at least one character *)
Definition lex_from (keys : list str) (fl : flags) (cs : str) : option (list ltoken) := lex_go (S (length cs)) keys fl cs.
Definition lex (keys : list str) (cs : str) : option (list ltoken) := lex_from keys flags0 cs.

(* the stream with explicit flag settings (the harness hook verif_tokens): before token i the flags named by the bits of
   the i-th number are set (1 unary tests, 2 between, 4 type name, 8 till in); every item is the token, the number of
   characters consumed so far and the flags afterwards (2 between, 4 type name, 8 till in) *)
Inductive titem := ITok (t : ltoken) (pos : nat) (fl : N) | IEof | IUndef | IErr.

Definition apply_bits (b : N) (fl : flags) : flags :=
  {| f_unary := f_unary fl || N.testbit b 0; f_between := f_between fl || N.testbit b 1;
     f_type := f_type fl || N.testbit b 2; f_tillin := f_tillin fl || N.testbit b 3 |}.

Definition flag_bits (fl : flags) : N :=
  ((if f_between fl then 2 else 0) + (if f_type fl then 4 else 0) + (if f_tillin fl then 8 else 0))%N.

Fixpoint lex_trace (fuel : nat) (keys : list str) (sched : list N) (fl : flags) (total : nat) (cs : str) : list titem :=
  match fuel with
  | O => []
  | S f =>
    let fl1 := apply_bits (hd 0%N sched) fl in
    match next_token keys fl1 cs with
    | RTok t fl' rest => ITok t (total - length rest) (flag_bits fl') :: lex_trace f keys (tl sched) fl' total rest
    | REof => [IEof]
    | RUndef => [IUndef]
    | RErr => [IErr]
    end
  end.

Definition trace (keys : list str) (sched : list N) (cs : str) : list titem :=
  lex_trace (S (length cs)) keys sched flags0 (length cs) cs.

(* ------------------------------------------------------------------ printing tokens *)

Definition kw_text (k : kw) : str :=
  match k with
  | KSatisfies => s_satisfies | KExternal => s_external | KFunction => s_function | KInstance => s_instance | KBetween => s_between
  | KContext => s_context | KReturn => s_return | KEvery => s_every | KRange => s_range | KElse => s_else | KList => s_list
  | KSome => s_some | KThen => s_then | KAnd => s_and | KBetweenAnd => s_and | KFor => s_for | KNot => s_not | KIf => s_if
  | KIn => s_in | KOf => s_of | KOr => s_or
  end.

Definition sym_text (s : sym) : str :=
  match s with
  | SEllipsis => [46; 46] | SExp => [42; 42] | SNq => [33; 61] | SLe => [60; 61] | SGe => [62; 61] | SArrow => [45; 62]
  | SDot => [46] | SComma => [44] | SColon => [58] | SPlus => [43] | SMinus => [45] | SMul => [42] | SDiv => [47] | SEq => [61]
  | SLt => [60] | SGt => [62] | SLp => [40] | SRp => [41] | SLb => [91] | SRb => [93] | SLbrace => [123] | SRbrace => [125] | SAt => [64]
  end%N.

(* strings are written with the default spelling of every character (raw where the code accepts it raw, else \u / \U), white space
   characters escaped (so that the printed text never contains U+1680 and the like) *)
Definition str_spellings (s : str) : list spelling := map (fun c => if is_ws c then U4 false else Raw) s.
Definition tok_text (t : ltoken) : str :=
  match t with
  | LKw k => kw_text k
  | LSym s => sym_text s
  | LBool true => s_true
  | LBool false => s_false
  | LNull => s_null
  | LNum b [] => b
  | LNum b a => b ++ 46%N :: a
  | LStr s => 34%N :: escape (str_spellings s) s ++ [34%N]
  | LName n | LNameDT n | LType n => n
  end.

(* one space after every token *)
Definition unlex (ts : list ltoken) : str := flat_map (fun t => tok_text t ++ [32%N]) ts.

(* a layout before the first token and one after every token: a space, then any pieces of the layout grammar of C06.Model
   (white space characters, block comments, line comments closed by a line feed) *)
Fixpoint unlex_lay (gaps : list (list piece)) (ts : list ltoken) : str :=
  match ts with
  | [] => []
  | t :: r => tok_text t ++ 32%N :: render_layout (hd [] gaps) ++ unlex_lay (tl gaps) r
  end.

(* ------------------------------------------------------------------ the C06 quantifier: which token lists are printable *)

Definition plain_char (c : N) : bool := NM.is_name_part c && negb (is_ws c).

(* the words the keyword arms react to *)
Definition kw_words : list str :=
  [s_satisfies; s_external; s_function; s_instance; s_between; s_context; s_return; s_every; s_false; s_range; s_null; s_else;
   s_list; s_some; s_then; s_true; s_and; s_for; s_not; s_if; s_in; s_of; s_or].

(* a single word: a name start character, then name part characters (plain_char: a name part character, which is never white space:
   U+1680, U+180E, U+FEFF are white space only since the repair of is_name_start_char), not the spelling of a keyword *)
Definition word_ok (w : str) : bool :=
  match w with
  | c :: _ => NM.is_name_start c && forallb plain_char w && negb (existsb (NM.str_eqb w) kw_words)
  | [] => false
  end.

(* the single-word built-in type names after which no other built-in type name can go on (`date` is left out: `date and time`) *)
Definition type_words : list str := [s_number; s_string; s_boolean; s_Any; s_Null; s_time].

(* the scope: single words, pairwise different, none of them a built-in type word *)
Fixpoint nodup_str (l : list str) : bool :=
  match l with
  | [] => true
  | x :: r => negb (NM.mem x r) && nodup_str r
  end.

Definition keys_ok (keys : list str) : bool :=
  forallb word_ok keys && nodup_str keys && forallb (fun k => negb (is_builtin_type k)) keys.

Definition digits_ok (d : str) : bool := forallb NM.is_digit d.

(* flags tracked along a token list the way lex_go does; For / Some / Every (till_in), Function / Context / Range / List
   (look-ahead terminators), Not (unary tests), names that are not scope keys and names where a type is expected are outside the
   printable lists *)
Definition tok_ok (keys : list str) (fl : flags) (t : ltoken) : bool :=
  match t with
  | LKw KAnd => negb (f_between fl)
  | LKw KBetweenAnd => f_between fl
  | LKw KFor | LKw KSome | LKw KEvery | LKw KFunction | LKw KContext | LKw KRange | LKw KList | LKw KNot => false
  | LKw _ => true
  | LSym _ | LBool _ | LNull => true
  | LNum b a => match b with [] => false | _ => digits_ok b && digits_ok a end
  | LStr s => forallb scalar s
  | LName n => NM.mem n keys && negb (f_type fl)
  | LNameDT _ => false
  | LType n => f_type fl && NM.mem n type_words
  end.

(* the flags after a printable token (what next_token leaves, then the policy) *)
Definition tok_flags (fl0 : flags) (t : ltoken) : flags :=
  let fl := clr_unary fl0 in
  match t with
  | LKw KBetweenAnd => set_between false fl
  | LKw KBetween => set_between true fl
  | LKw KOf => set_type true fl
  | LType _ => set_type false fl
  | _ => fl
  end.

Fixpoint printable_from (keys : list str) (fl : flags) (ts : list ltoken) : bool :=
  match ts with
  | [] => true
  | t :: r => tok_ok keys fl t && printable_from keys (tok_flags fl t) r
  end.

Definition printable (keys : list str) (ts : list ltoken) : bool := printable_from keys flags0 ts.

(* ------------------------------------------------------------------ from the lexer's tokens to the tokens of the Spec parser *)

(* a dictionary assigns a literal or a name to every atom number; member names and type names are positions in the scope
   keys / in type_words *)
Definition is_atom_tok (t : ltoken) : bool :=
  match t with LBool _ | LNull | LNum _ _ | LStr _ | LName _ => true | _ => false end.

Definition op_tok (o : binop) : ltoken :=
  match o with
  | Or => LKw KOr | And => LKw KAnd | Eq => LSym SEq | Nq => LSym SNq | Lt => LSym SLt | Le => LSym SLe | Gt => LSym SGt | Ge => LSym SGe
  | InOp => LKw KIn | Sub => LSym SMinus | Add => LSym SPlus | Mul => LSym SMul | Div => LSym SDiv | Exp => LSym SExp
  end.

Definition tok_op (t : ltoken) : option binop :=
  match t with
  | LKw KOr => Some Or | LKw KAnd => Some And | LKw KIn => Some InOp
  | LSym SEq => Some Eq | LSym SNq => Some Nq | LSym SLt => Some Lt | LSym SLe => Some Le | LSym SGt => Some Gt | LSym SGe => Some Ge
  | LSym SMinus => Some Sub | LSym SPlus => Some Add | LSym SMul => Some Mul | LSym SDiv => Some Div | LSym SExp => Some Exp
  | _ => None
  end.

Definition nth_str (l : list str) (n : N) : str := nth (N.to_nat n) l [].

Fixpoint pos_of (w : str) (l : list str) (i : N) : option N :=
  match l with
  | [] => None
  | x :: r => if NM.str_eqb x w then Some i else pos_of w r (i + 1)%N
  end.

Definition conc (keys : list str) (enc : N -> ltoken) (t : token) : list ltoken :=
  match t with
  | TAtom a => [enc a]
  | TOp o => [op_tok o]
  | TLp => [LSym SLp] | TRp => [LSym SRp] | TLb => [LSym SLb] | TRb => [LSym SRb]
  | TBetween => [LKw KBetween] | TBand => [LKw KBetweenAnd]
  | TInst ty => [LKw KInstance; LKw KOf; LType (nth_str type_words ty)]
  | TDot n => [LSym SDot; LName (nth_str keys n)]
  end.

Definition conc_all (keys : list str) (enc : N -> ltoken) (ts : list token) : list ltoken := flat_map (conc keys enc) ts.

Fixpoint abs (keys : list str) (dec : ltoken -> option N) (ls : list ltoken) : option (list token) :=
  match ls with
  | [] => Some []
  | l :: r =>
    let cons1 (t : token) := match abs keys dec r with Some ts => Some (t :: ts) | None => None end in
    match l with
    | LKw KInstance =>
      match r with
      | LKw KOf :: LType n :: r2 =>
        match pos_of n type_words 0, abs keys dec r2 with
        | Some ty, Some ts => Some (TInst ty :: ts)
        | _, _ => None
        end
      | _ => None
      end
    | LSym SDot =>
      match r with
      | LName n :: r2 =>
        match pos_of n keys 0, abs keys dec r2 with
        | Some i, Some ts => Some (TDot i :: ts)
        | _, _ => None
        end
      | _ => None
      end
    | LSym SLp => cons1 TLp | LSym SRp => cons1 TRp | LSym SLb => cons1 TLb | LSym SRb => cons1 TRb
    | LKw KBetween => cons1 TBetween | LKw KBetweenAnd => cons1 TBand
    | _ =>
      match tok_op l with
      | Some o => cons1 (TOp o)
      | None => if is_atom_tok l then match dec l with Some a => cons1 (TAtom a) | None => None end else None
      end
    end
  end.

(* the text-level parser: the lexer, the reading of its tokens as tokens of the Spec, the Spec parser *)
Definition parse_text (keys : list str) (dec : ltoken -> option N) (cs : str) : option tree :=
  match lex keys cs with
  | Some ls => match abs keys dec ls with Some ts => parse_tokens ts | None => None end
  | None => None
  end.
