#!/usr/bin/env python3
"""Regenerates coq/Gen/*.v from /repo's working tree (run by setup.sh and by the checks that depend on them)."""
import os, sys
sys.path.insert(0, os.path.dirname(os.path.abspath(__file__)))
os.makedirs(os.path.join(os.path.dirname(os.path.abspath(__file__)), '..', 'coq', 'Gen'), exist_ok=True)
import subprocess
_here = os.path.dirname(os.path.abspath(__file__))
for _t in sorted(f for f in os.listdir(_here) if f.endswith('2coq.py')):
    subprocess.check_call([sys.executable, os.path.join(_here, _t)])
