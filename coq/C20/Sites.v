(* C20 — the inventory of synchronisation-relevant sites of the evaluation path (types and the predicate that
   decides the hypotheses of the locking theorems).  The inventory itself, Gen/SyncSites.v, is regenerated from the
   working tree on every run by translators/syncsites2coq.py.  No proofs in this file. *)
From Coq Require Import List NArith Bool String.
From DV Require Import C20.Conc.
Import ListNotations.

Inductive sitekind :=
| SLock (is_write : bool) (lock : nat)   (* .read() / .write() on an RwLock; lock = index of the receiver *)
| SStatic (interior_mutability : bool)   (* lazy_static entry or plain static; flag: its type mentions Mutex / RwLock / RefCell / Cell / Atomic / Once *)
| SStaticMut
| SThreadLocal
| SUnsafeSendSync
| SCtxUse (cloned : bool)                (* use of the global decimal context: cloned before it is handed to the C library? *)
| SFfiCtx (private_copy : bool)          (* call of a C function that takes a context *)
| SMissingFile.

Record site := { sfile : string; sline : N; skind : sitekind; seval : bool; sfn : string }.

(* what the locking and isolation theorems assume about the code *)
Definition eval_site_ok (s : site) : bool :=
  match skind s with
  | SLock w _ => negb (w && seval s)        (* no write acquisition in the evaluation phase *)
  | SStatic m => negb m                     (* no shared mutable static *)
  | SStaticMut | SThreadLocal | SUnsafeSendSync | SMissingFile => false
  | SCtxUse c => c                          (* every decimal call gets its own context copy *)
  | SFfiCtx p => p
  end.

(* the lock acquisitions an evaluation may perform, in source order *)
Definition eval_lock_sites (l : list site) : list (bool * lockid) :=
  flat_map (fun s => match skind s with SLock w k => if seval s then [(w, k)] else [] | _ => [] end) l.

Definition count_kind (p : site -> bool) (l : list site) : nat := List.length (filter p l).
Definition is_eval_read (s : site) : bool := match skind s with SLock false _ => seval s | _ => false end.
Definition is_build_write (s : site) : bool := match skind s with SLock true _ => negb (seval s) | _ => false end.
Definition is_ctx_use (s : site) : bool := match skind s with SCtxUse _ => true | _ => false end.
Definition is_static (s : site) : bool := match skind s with SStatic _ => true | _ => false end.
