"""Generated DMN models for the model-level part of C13 (owner: C13).

The property at model level: invoking something as a function (a decision service, a knowledge model whose body is a literal
expression, a boxed context with or without result entry, a boxed invocation) inside the logic of a decision / knowledge model
leaves the scope of the CALLER as it was: every name read after (or before) the call - required inputs, required decisions,
earlier entries of a boxed context, formal parameters of the enclosing knowledge model - still has the value it had.

The models are graphs in the node format of props/c04.py and are serialised by ITS builders (`xml_of`, `box`, `text`, `nm`:
imported, not copied).  What is particular here:
  * the generator is TYPED (number / string / opaque), so values are hardly ever null and a lost or a wrongly visible binding
    changes the value: expressions are small sums, products by 2 or 3 and string concatenations;
  * callee names COLLIDE with caller names on purpose: formal parameters of knowledge models and entries of their boxed contexts are
    named like inputs, decisions and context entries of the callers, services have the names of their input data / input decisions as
    parameters; the arguments are `name + k`, i.e. DIFFER from the caller's value of the same name;
  * every logic is biased to the shapes `read + call`, `call + read`, `read + call + read`, `call + call`, `call(call) + read`, in
    literal expressions, in entries of boxed contexts (later entries read earlier ones), in bindings of boxed invocations, in
    relation cells, in bodies of knowledge models and in output / encapsulated decisions of services.
The expected values come from `Model` below: a direct Python evaluator of the node semantics (the same wiring as coq/C04/Model.v
`body` / `tev_step`, over ints and strings)."""
from props import c04 as M

INPUTS = [1, 2, 3]
KEYS = [2001, 2002, 2003, 2004]
PARAMS = [1001, 1002]
STRS = ['a', 'b', 'xy', '-', 'q r']


# ------------------------------------------------------------------ evaluator (the oracle)
class TooBig(Exception):
    """the model composes its functions so deeply that values or the number of evaluation steps explode: such a model is not used
    (values stay below 10^15 and 300 characters: far from the 34 digits where decimal128 starts to round)"""


MAX_INT, MAX_STR, MAX_STEPS = 10 ** 15, 300, 20000


def vadd(a, b):
    if isinstance(a, bool) or isinstance(b, bool):
        return None
    if isinstance(a, int) and isinstance(b, int):
        if abs(a + b) > MAX_INT:
            raise TooBig()
        return a + b
    if isinstance(a, str) and isinstance(b, str):
        if len(a) + len(b) > MAX_STR:
            raise TooBig()
        return a + b
    return None


def vmul(a, b):
    if isinstance(a, int) and isinstance(b, int) and not isinstance(a, bool) and not isinstance(b, bool):
        if abs(a * b) > MAX_INT:
            raise TooBig()
        return a * b
    return None


def typed_number(v):
    return v if isinstance(v, int) and not isinstance(v, bool) else None


class Model:
    def __init__(self, G):
        self.G = G
        self.B = M.by_id(G)
        self.steps = 0

    def funcs_into(self, rk, env):
        """required knowledge: a knowledge model brings the function values of its own knowledge requirements along"""
        for r in rk:
            n = self.B[r]
            if n['kind'] == 'bkm':
                self.funcs_into(n['rk'], env)
                env[r] = ('bkm', r)
            elif n['kind'] == 'svc':
                env[r] = ('svc', r)

    def dec(self, d, inp):
        n = self.B[d]
        env = {}
        self.funcs_into(n['rk'], env)
        for r in n['rd']:
            env[r] = inp[r] if r in inp else self.dec(r, inp)      # an input entry named like a required decision replaces it
        for r in n['ri']:
            env[r] = typed_number(inp.get(r))                      # input data are number-typed
        return self.ev(n['logic'], env)

    def svc(self, s, inp):
        n = self.B[s]
        e3 = {}
        for d in n['indecs']:
            e3[d] = inp.get(d)
        for i in n['ins']:
            e3[i] = typed_number(inp.get(i))
        vals = [(o, self.dec(o, e3)) for o in n['outs']]
        return vals[0][1] if len(vals) == 1 else dict(vals)

    def svc_params(self, s):
        return M.svc_params(self.B, self.B[s])

    def invoke(self, i, inp):
        """the value of invocable i for the input context inp; raises TooBig when the evaluation explodes"""
        self.steps = 0
        n = self.B[i]
        if n['kind'] == 'dec':
            return self.dec(i, inp)
        if n['kind'] == 'svc':
            return self.svc(i, inp)
        env = {}
        self.funcs_into([i], env)
        for p in n['params']:
            if p in inp:
                env[p] = inp[p]
        return self.ev(n['body'], env)

    def apply(self, fv, pc, env):
        if fv is None or pc is None:
            return None
        if fv[0] == 'svc':
            return self.svc(fv[1], pc)
        env2 = dict(env)
        env2.update(pc)
        return self.ev(self.B[fv[1]]['body'], env2)

    def ev(self, e, env):
        self.steps += 1
        if self.steps > MAX_STEPS:
            raise TooBig()
        k = e[0]
        if k == 'null':
            return None
        if k in ('num', 'str'):
            return e[1]
        if k == 'var':
            v = env.get(e[1])
            return None if isinstance(v, tuple) else v
        if k == 'add':
            a = self.ev(e[1], env)
            return vadd(a, self.ev(e[2], env))
        if k == 'mul':
            a = self.ev(e[1], env)
            return vmul(a, self.ev(e[2], env))
        if k == 'call':
            fv = env.get(e[1])
            args = [self.ev(a, env) for a in e[2]]
            if not isinstance(fv, tuple):
                return None
            ps = self.B[fv[1]]['params'] if fv[0] == 'bkm' else self.svc_params(fv[1])
            if len(args) < len(ps):
                return None
            pc = {}
            for p, a in zip(ps, args):
                pc[p] = a
            return self.apply(fv, pc, env)
        if k == 'invoke':
            pc = {}
            for p, x in e[2]:
                pc[p] = self.ev(x, env)
            fv = env.get(e[1])
            return self.apply(fv if isinstance(fv, tuple) else None, pc, env)
        if k == 'ctx':
            env2, acc = dict(env), {}
            for kk, x in e[1]:
                v = self.ev(x, env2)
                env2[kk] = v
                acc[kk] = v
            return self.ev(e[2], env2) if e[2] is not None else acc
        if k == 'rel':
            return [dict(zip(e[1], [self.ev(x, env) for x in row])) for row in e[2]]
        raise ValueError(e)


def canon(v):
    """the form props.c04.norm gives to the harness answer"""
    if v is None:
        return None
    if isinstance(v, int):
        return M.numc(v)
    if isinstance(v, str):
        return ('s', v)
    if isinstance(v, list):
        return ('l', tuple(canon(x) for x in v))
    if isinstance(v, dict):
        return ('c', tuple(sorted((M.nm(k), canon(x)) for k, x in v.items())))
    return ('?', repr(v))


# ------------------------------------------------------------------ generator
class Gen:
    """one model.  env: name number -> 'n' | 's' | 'x' (opaque: context or list); funcs: [dict(id, kind, ps, pt, ret)]"""

    def __init__(self, rng):
        self.rng = rng
        self.G, self.B, self.ty, self.fn = [], {}, {}, {}
        self.nid = 0

    def new(self, kind, **kw):
        self.nid += 1
        n = dict(kind=kind, id=self.nid, **kw)
        self.G.append(n)
        self.B[n['id']] = n
        return n

    # ---- leaves
    def lit(self, ty):
        return ('num', self.rng.randint(0, 9)) if ty == 'n' else ('str', self.rng.choice(STRS))

    def read(self, ty, env):
        ns = [n for n, t in env.items() if t == ty]
        return ('var', self.rng.choice(ns)) if ns else self.lit(ty)

    def arg(self, p, ty, env, funcs, depth):
        """an argument for the formal parameter p: differs from the caller's value of the name p whenever the caller has one"""
        rng = self.rng
        r = rng.random()
        if ty == 'x':
            ns = [n for n, t in env.items() if t == 'x']
            return ('var', rng.choice(ns)) if ns else ('null',)
        if depth > 0 and r < 0.2:
            return self.expr(ty, env, funcs, depth - 1, must_call=True)
        base = ('var', p) if env.get(p) == ty and r < 0.75 else self.read(ty, env)
        return ('add', base, ('num', rng.randint(1, 9) * rng.choice([1, 10, 100])) if ty == 'n' else ('str', rng.choice(['!', '?', '#'])))

    def call(self, f, env, funcs, depth):
        return ('call', f['id'], tuple(self.arg(p, t, env, funcs, depth) for p, t in zip(f['ps'], f['pt'])))

    def expr(self, ty, env, funcs, depth, must_call=False):
        rng = self.rng
        fs = [f for f in funcs if f['ret'] == ty]
        if fs and (must_call or (depth > 0 and rng.random() < 0.4)):
            return self.call(rng.choice(fs), env, funcs, depth - 1)
        if depth <= 0:
            return self.read(ty, env) if rng.random() < 0.8 else self.lit(ty)
        r = rng.random()
        if r < 0.7:
            return ('add', self.expr(ty, env, funcs, depth - 1), self.expr(ty, env, funcs, depth - 1))
        if ty == 'n' and r < 0.8:
            return ('mul', self.expr(ty, env, funcs, depth - 1), ('num', rng.choice([2, 3])))
        return self.read(ty, env)

    def probe(self, ty, env, funcs, depth=2):
        """a literal expression of type ty in which calls are preceded / followed by reads of the caller's names"""
        rng = self.rng
        fs = [f for f in funcs if f['ret'] == ty]
        if not fs:
            return self.expr(ty, env, funcs, depth)
        c = lambda: self.call(rng.choice(fs), env, funcs, depth - 1)
        rd = lambda: self.read(ty, env)
        shape = rng.choice(['cr', 'cr', 'rc', 'rcr', 'rcr', 'cc', 'ccr', 'nest', 'rnd'])
        if shape == 'cr':
            return ('add', c(), rd())
        if shape == 'rc':
            return ('add', rd(), c())
        if shape == 'rcr':
            return ('add', ('add', rd(), c()), rd())
        if shape == 'cc':
            return ('add', c(), c())
        if shape == 'ccr':
            return ('add', ('add', c(), c()), rd())
        if shape == 'nest':
            f = rng.choice(fs)
            args = []
            for p, t in zip(f['ps'], f['pt']):
                inner = [g for g in funcs if g['ret'] == t]
                args.append(self.call(rng.choice(inner), env, funcs, 0) if inner and t != 'x' else self.arg(p, t, env, funcs, 0))
            return ('add', ('call', f['id'], tuple(args)), rd())
        return self.expr(ty, env, funcs, depth + 1, must_call=True)

    # ---- boxed expressions; every generator returns (expression, type)
    def boxed(self, env, funcs, depth, want=None):
        rng = self.rng
        r = rng.random()
        bk = [f for f in funcs if f['kind'] == 'bkm' and (want is None or f['ret'] == want)]
        if depth <= 0 or r < 0.4:
            ty = want or rng.choice(['n', 'n', 'n', 's'])
            return self.probe(ty, env, funcs), ty
        if r < 0.55 and bk:
            return self.invocation(rng.choice(bk), env, funcs, depth - 1)
        if r < 0.92 or want is not None:
            return self.context(env, funcs, depth - 1, want)
        cols = tuple(rng.sample(KEYS, 2))
        return ('rel', cols, tuple(tuple(self.probe(rng.choice(['n', 'n', 's']), env, funcs, 1) for _ in cols) for _ in range(rng.randint(1, 2)))), 'x'

    def invocation(self, f, env, funcs, depth):
        rng = self.rng
        binds = []
        order = list(zip(f['ps'], f['pt']))
        rng.shuffle(order)
        for p, t in order:
            if t == 'x':
                binds.append((p, self.arg(p, t, env, funcs, 0)))
            elif depth > 0 and rng.random() < 0.25:
                binds.append((p, self.context(env, funcs, depth - 1, t)[0]))
            elif rng.random() < 0.5:
                binds.append((p, self.probe(t, env, funcs, 1)))
            else:
                binds.append((p, self.arg(p, t, env, funcs, 1)))
        return ('invoke', f['id'], tuple(binds)), f['ret']

    def context(self, env, funcs, depth, want=None, extra_keys=()):
        """entries see the earlier entries; some entries are named like names of the enclosing scope (they shadow them from there on)"""
        rng = self.rng
        fids = set(f['id'] for f in funcs)
        n = rng.randint(2, 4)
        pool = [k for k in KEYS + list(extra_keys) + [x for x in env if env[x] != 'x'] if k not in fids]
        keys = []
        while len(keys) < n:
            k = rng.choice(KEYS) if rng.random() < 0.7 else rng.choice(pool)
            if k not in keys:
                keys.append(k)
        vis = dict(env)
        es = []
        opaque = [f for f in funcs if f['ret'] == 'x']
        for k in keys:
            r = rng.random()
            if opaque and r < 0.15:
                x, t = self.call(rng.choice(opaque), vis, funcs, 1), 'x'
            elif depth > 0 and r < 0.4:
                x, t = self.boxed(vis, funcs, depth, None if rng.random() < 0.5 else rng.choice(['n', 's']))
            else:
                t = rng.choice(['n', 'n', 'n', 's'])
                x = self.probe(t, vis, funcs, 2)
            es.append((k, x))
            vis[k] = t
        if want is not None or rng.random() < 0.5:
            t = want or rng.choice(['n', 'n', 's'])
            return ('ctx', tuple(es), self.probe(t, vis, funcs, 2)), t
        return ('ctx', tuple(es), None), 'x'

    # ---- nodes
    def funcs_of(self, rk):
        out = []
        for r in rk:
            if self.B[r]['kind'] == 'bkm':
                out += self.funcs_of(self.B[r]['rk'])
            out.append(self.fn[r])
        seen, res = set(), []
        for f in out:
            if f['id'] not in seen:
                seen.add(f['id'])
                res.append(f)
        return res

    def add_bkm(self, kind=None):
        rng = self.rng
        bkms = [n['id'] for n in self.G if n['kind'] == 'bkm']
        svcs = [n['id'] for n in self.G if n['kind'] == 'svc']
        decs = [n['id'] for n in self.G if n['kind'] == 'dec' and self.ty[n['id']] != 'x']
        kind = kind or rng.choice(['lit', 'ctxres', 'ctxres', 'ctx', 'invoke', 'invoke', 'svccall', 'nested'])
        rk = []
        if kind == 'invoke' and not bkms:
            kind = 'lit'
        if kind == 'svccall' and not svcs:
            kind = 'ctxres'
        if kind == 'invoke':
            rk = [rng.choice(bkms)]
        elif kind == 'svccall':
            rk = [rng.choice(svcs)]
        elif rng.random() < 0.3 and (bkms or svcs):
            rk = [rng.choice(bkms + svcs)]
        funcs = self.funcs_of_ids(rk)
        fids = set(f['id'] for f in funcs)
        # parameter names: those of inputs, decisions and context entries (of the callers) and p1, p2
        pool = [x for x in INPUTS + decs + KEYS[:2] + PARAMS if x not in fids]
        ps = rng.sample(pool, rng.randint(1, 2))
        pt = [rng.choice(['n', 'n', 'n', 's']) for _ in ps]
        if kind == 'svccall':
            # the service is called with numbers
            pt = ['n' for _ in ps]
        env = dict(zip(ps, pt))
        if kind == 'lit' or kind == 'svccall':
            ty = rng.choice(sorted(set(pt)))
            body = self.probe(ty, env, funcs, 2) if funcs else self.expr(ty, env, funcs, 2)
        elif kind == 'ctxres':
            ty = rng.choice(sorted(set(pt)))
            body, ty = self.context(env, funcs, 0, ty, extra_keys=INPUTS + decs)
        elif kind == 'ctx':
            body, ty = self.context(env, funcs, 0, None, extra_keys=INPUTS + decs)
            if body[2] is not None:
                body, ty = ('ctx', body[1], None), 'x'
        elif kind == 'nested':
            ty = rng.choice(sorted(set(pt)))
            body, ty = self.context(env, funcs, 1, ty, extra_keys=INPUTS + decs)
        else:
            body, ty = self.invocation(self.fn[rk[0]], env, funcs, 1)
        n = self.new('bkm', params=ps, body=body, rk=rk, callable=M.kclosure(self.B, rk), shape=kind)
        self.fn[n['id']] = dict(id=n['id'], kind='bkm', ps=ps, pt=pt, ret=ty, shape=kind)
        return n

    def funcs_of_ids(self, rk):
        return self.funcs_of(rk)

    def add_svc(self):
        rng = self.rng
        decs = [n['id'] for n in self.G if n['kind'] == 'dec']
        if not decs:
            return None
        outs = rng.sample(decs, min(len(decs), rng.choice([1, 1, 1, 2])))
        encs, indecs, ins = [], [], set()
        todo = list(outs)
        seen = set(outs)
        while todo:
            d = todo.pop(0)
            ins |= set(self.B[d]['ri'])
            for r in self.B[d]['rd']:
                if r in seen:
                    continue
                seen.add(r)
                if self.ty[r] != 'x' and rng.random() < 0.4:
                    indecs.append(r)          # its value is a parameter of the service
                else:
                    encs.append(r)
                    todo.append(r)
        # an output must not also be required by another output as an input decision (kept simple: outputs are evaluated)
        n = self.new('svc', ins=sorted(ins), indecs=sorted(indecs), encs=sorted(encs), outs=outs)
        ps = M.svc_params(self.B, n)
        ret = self.ty[outs[0]] if len(outs) == 1 else 'x'
        self.fn[n['id']] = dict(id=n['id'], kind='svc', ps=ps, pt=['n' if self.B[p]['kind'] == 'input' else self.ty[p] for p in ps], ret=ret, shape='svc')
        return n

    def add_dec(self, leaf=False):
        rng = self.rng
        decs = [n['id'] for n in self.G if n['kind'] == 'dec']
        bkms = [n['id'] for n in self.G if n['kind'] == 'bkm']
        svcs = [n['id'] for n in self.G if n['kind'] == 'svc']
        ri = rng.sample(INPUTS, rng.randint(1, 3))
        rd = [] if leaf else rng.sample(decs, min(len(decs), rng.choice([0, 1, 1, 2])))
        rk = [] if leaf else rng.sample(bkms, min(len(bkms), rng.choice([1, 1, 2]))) + (rng.sample(svcs, 1) if svcs and rng.random() < 0.6 else [])
        # the parameters of the services it calls are names it knows itself (with other values)
        for s in rk:
            if self.B[s]['kind'] == 'svc':
                for p in self.fn[s]['ps']:
                    if self.B[p]['kind'] == 'input' and p not in ri and rng.random() < 0.8:
                        ri.append(p)
                    if self.B[p]['kind'] == 'dec' and p not in rd and rng.random() < 0.6:
                        rd.append(p)
        funcs = self.funcs_of(rk)
        fids = set(f['id'] for f in funcs)
        env = {i: 'n' for i in ri}
        for d in rd:
            env[d] = self.ty[d]
        if leaf:
            ty = rng.choice(['n', 'n', 's'])
            logic = self.expr(ty, env, [], 1) if ty == 'n' else ('add', ('str', rng.choice(STRS)), ('str', rng.choice(STRS)))
        else:
            logic, ty = self.boxed(env, funcs, 2)
        n = self.new('dec', logic=logic, rk=rk, rd=sorted(rd), ri=sorted(ri), callable=M.kclosure(self.B, rk), foreign=[])
        self.ty[n['id']] = ty
        return n


def gen_model(rng, size):
    g = Gen(rng)
    for _ in INPUTS:
        g.new('input')
    g.add_dec(leaf=True)
    g.add_dec(leaf=True)
    g.add_bkm(rng.choice(['lit', 'ctxres', 'ctx']))
    if rng.random() < 0.8:
        g.add_svc()
    while len(g.G) < size - 2:
        r = rng.random()
        if r < 0.3:
            g.add_bkm()
        elif r < 0.45:
            g.add_svc()
        else:
            g.add_dec()
    g.add_dec()                # callers of what was generated so far; the last one often wrapped in a service
    g.add_dec()
    if rng.random() < 0.3:
        g.add_svc()
    return g


def witness_models():
    """the shapes of the two seeded changes this part was written for, as graphs"""
    W = []
    # a service used as a function, followed by a read of the caller's input (parameter of the service = that input, other value)
    W.append([dict(kind='input', id=1), dict(kind='input', id=2),
              dict(kind='dec', id=3, rk=[], rd=[], ri=[1], callable=[], logic=('add', ('var', 1), ('num', 1))),
              dict(kind='svc', id=4, ins=[1], indecs=[], encs=[], outs=[3]),
              dict(kind='dec', id=5, rk=[4], rd=[], ri=[1, 2], callable=[4], logic=('add', ('call', 4, (('add', ('var', 1), ('num', 10)),)), ('var', 1))),
              dict(kind='dec', id=6, rk=[4], rd=[], ri=[1, 2], callable=[4], logic=('add', ('var', 2), ('call', 4, (('add', ('var', 1), ('num', 10)),)))),
              dict(kind='dec', id=7, rk=[4], rd=[3], ri=[1, 2], callable=[4],
                   logic=('ctx', ((2001, ('add', ('var', 2), ('num', 5))), (2002, ('call', 4, (('var', 2001),))), (2003, ('add', ('var', 2001), ('var', 3)))), ('add', ('var', 2002), ('var', 2003)))),
              dict(kind='bkm', id=8, params=[1001], body=('add', ('call', 4, (('add', ('var', 1001), ('num', 100)),)), ('var', 1001)), rk=[4], callable=[4]),
              dict(kind='dec', id=9, rk=[8], rd=[], ri=[1], callable=[4], logic=('add', ('add', ('call', 8, (('var', 1),)), ('call', 8, (('num', 7),))), ('var', 1)))])
    # a knowledge model whose body is a boxed context with a result entry and whose parameter is named like the caller's input
    W.append([dict(kind='input', id=1), dict(kind='input', id=2),
              dict(kind='bkm', id=3, params=[1], body=('ctx', ((2001, ('mul', ('var', 1), ('num', 2))),), ('add', ('var', 2001), ('num', 1))), rk=[], callable=[]),
              dict(kind='dec', id=4, rk=[3], rd=[], ri=[1, 2], callable=[], logic=('add', ('call', 3, (('mul', ('var', 1), ('var', 2)),)), ('var', 1))),
              dict(kind='dec', id=5, rk=[3], rd=[], ri=[1, 2], callable=[],
                   logic=('ctx', ((2002, ('ctx', ((1, ('num', 5)),), ('add', ('var', 1), ('num', 1)))), (2003, ('var', 1))), None)),
              dict(kind='dec', id=6, rk=[3], rd=[], ri=[1, 2], callable=[], logic=('invoke', 3, ((1, ('add', ('var', 1), ('num', 50))),)))])
    # a boxed invocation whose called expression is NOT a function (an input's number; a name that is not bound at all), with bindings named like the
    # caller's inputs, followed by reads of those inputs: the invocation is null and leaves nothing behind (seeded change C13_j: the context of the
    # bound parameters was pushed before the callee was looked at and popped only for a function)
    W.append([dict(kind='input', id=1), dict(kind='input', id=2),
              dict(kind='dec', id=3, rk=[], rd=[], ri=[1, 2], callable=[],
                   logic=('ctx', ((2001, ('invoke', 2, ((1, ('add', ('var', 1), ('num', 50))),))), (2002, ('add', ('var', 1), ('num', 1)))), ('add', ('var', 2002), ('var', 1)))),
              dict(kind='dec', id=4, rk=[], rd=[], ri=[1, 2], callable=[],
                   logic=('ctx', ((2001, ('invoke', 2003, ((1, ('mul', ('var', 1), ('num', 7))), (2, ('num', 9))))), (2002, ('var', 1))), ('add', ('var', 2002), ('var', 2)))),
              dict(kind='bkm', id=5, params=[1], body=('ctx', ((2001, ('invoke', 1, ((1, ('add', ('var', 1), ('num', 50))),))),), ('add', ('var', 1), ('num', 3))), rk=[], callable=[]),
              dict(kind='dec', id=6, rk=[5], rd=[], ri=[1, 2], callable=[], logic=('add', ('call', 5, (('var', 2),)), ('var', 1)))])
    return W


# ------------------------------------------------------------------ what a logic exercises
def events(e, B, out):
    """the reads and calls of an expression in evaluation order"""
    k = e[0]
    if k == 'var':
        out.append(('r', e[1]))
    elif k in ('add', 'mul'):
        events(e[1], B, out)
        events(e[2], B, out)
    elif k == 'call':
        for a in e[2]:
            events(a, B, out)
        out.append(('c', e[1]))
    elif k == 'invoke':
        for _, x in e[2]:
            events(x, B, out)
        out.append(('c', e[1]))
    elif k == 'ctx':
        for kk, x in e[1]:
            events(x, B, out)
            out.append(('w', kk))
        if e[2] is not None:
            events(e[2], B, out)
        out.append(('x', 'ctx+result' if e[2] is not None else 'ctx'))
    elif k == 'rel':
        for row in e[2]:
            for x in row:
                events(x, B, out)
    return out


def callee_names(B, f):
    """the names a callee binds while it runs: its parameters and the entries of its boxed context"""
    n = B[f]
    if n['kind'] == 'svc':
        return set(M.svc_params(B, n))
    if n['kind'] != 'bkm':
        return set()
    names = set(n['params'])
    if n['body'][0] == 'ctx':
        names |= set(kk for kk, _ in n['body'][1])
    return names


def callee_shape(B, f):
    n = B[f]
    if n['kind'] == 'svc':
        return 'service'
    if n['kind'] != 'bkm':
        return 'something that is not a function'
    b = n['body']
    return {'ctx': 'bkm context' + (' with result' if b[0] == 'ctx' and b[2] is not None else ''), 'invoke': 'bkm invocation', 'rel': 'bkm relation'}.get(b[0], 'bkm literal')


def features(G):
    B = M.by_id(G)
    out = set()
    for n in G:
        logic = n.get('logic') or n.get('body')
        if logic is None:
            continue
        ev = events(logic, B, [])
        where = 'decision' if n['kind'] == 'dec' else 'bkm body'
        for i, (k, x) in enumerate(ev):
            if k != 'c' or x not in B:
                continue
            sh = callee_shape(B, x)
            later = [y for kk, y in ev[i + 1:] if kk == 'r']
            earlier = [y for kk, y in ev[:i] if kk == 'r']
            if later:
                out.add('%s: call of %s followed by a read' % (where, sh))
                if set(later) & callee_names(B, x):
                    out.add('%s: call of %s followed by a read of a name the callee binds too' % (where, sh))
                if any(kk == 'w' and y in later for kk, y in ev[:i]):
                    out.add('%s: call of %s followed by a read of an earlier context entry' % (where, sh))
            if earlier:
                out.add('%s: call of %s preceded by a read' % (where, sh))
            if any(kk == 'c' for kk, _ in ev[i + 1:]):
                out.add('%s: call of %s followed by another call' % (where, sh))
        for i, (k, x) in enumerate(ev):
            if k == 'x' and any(kk == 'r' for kk, _ in ev[i + 1:]):
                out.add('%s: nested %s followed by a read' % (where, 'context with result entry' if x == 'ctx+result' else 'context'))
    return out


def input_sets(rng, B, fn, n, count=2):
    """input contexts (name number -> int | str) that bind every name the invocable reads from its input.
    fn: the signatures of the generated functions ({} for the hand-written graphs: every parameter is a number)"""
    out = []
    for _ in range(count):
        if n['kind'] == 'dec':
            d = {i: rng.randint(1, 9) for i in B if B[i]['kind'] == 'input'}
        else:
            ps = M.svc_params(B, n) if n['kind'] == 'svc' else n['params']
            pt = fn[n['id']]['pt'] if n['id'] in fn else ['n'] * len(ps)
            d = {p: (rng.randint(1, 9) if t == 'n' else rng.choice(STRS)) for p, t in zip(ps, pt) if t != 'x'}
        if rng.random() < 0.25:
            d[3001] = 77                     # an unrelated entry
        out.append(d)
    return out
