(* C10 — the layout of the collected parts in the input: the first part starts at the start position, every later part is
   separated from its predecessor by a (possibly empty) run of white space, every part is non-empty, and the recorded
   position of part k is the length of the input consumed up to and including it.  All inputs, no bound.
   Owner: prover-C10 (the model, C10/Model.v, is unchanged). *)
From Coq Require Import List NArith Bool Arith Lia.
From DV Require Import C10.Model.
Import ListNotations.

Definition all_ws (g : str) : Prop := Forall (fun c => is_ws c = true) g.

(* in input order: gap 1, part 1, gap 2, part 2, ... *)
Fixpoint weave (gs ps : list str) : str :=
  match gs, ps with
  | g :: gs', p :: ps' => g ++ p ++ weave gs' ps'
  | _, _ => []
  end.

(* the same text for the accumulators of the machine, which are kept in reverse *)
Fixpoint wr (ps gs : list str) : str :=
  match ps, gs with
  | p :: ps', g :: gs' => wr ps' gs' ++ g ++ p
  | _, _ => []
  end.

(* ------------------------------------------------------------------ list facts *)

Lemma firstn_snoc : forall (l : str) n, n < length l -> firstn (S n) l = firstn n l ++ [nth n l 0%N].
Proof.
  induction l as [|x l IH]; intros n Hn; [cbn in Hn; lia|].
  destruct n as [|n]; [reflexivity|].
  cbn [length] in Hn. change (firstn (S (S n)) (x :: l)) with (x :: firstn (S n) l).
  rewrite IH by lia. reflexivity.
Qed.

Lemma next_is_true : forall p inp pos, next_is p inp pos = true -> S pos < length inp /\ p (ch inp (S pos)) = true.
Proof.
  intros p inp pos H. unfold next_is in H. destruct (nth_error inp (S pos)) as [c|] eqn:E; [|discriminate H].
  split.
  - apply nth_error_Some. rewrite E. discriminate.
  - unfold ch. rewrite (nth_error_nth _ _ 0%N E). exact H.
Qed.

Lemma all_ws_app : forall g h, all_ws g -> all_ws h -> all_ws (g ++ h).
Proof. intros g h Hg Hh. apply Forall_app. split; assumption. Qed.

(* ------------------------------------------------------------------ the invariant *)

(* reversed accumulators: parts, their gaps, their recorded positions *)
Fixpoint lay (pos0 : nat) (ps gs : list str) (es : list nat) : Prop :=
  match ps, gs, es with
  | [], [], [] => True
  | p :: ps', g :: gs', e :: es' =>
      p <> [] /\ all_ws g /\ (ps' = [] -> g = []) /\ S e = pos0 + length (wr (p :: ps') (g :: gs')) /\ lay pos0 ps' gs' es'
  | _, _, _ => False
  end.

Definition linv (inp : str) (pos0 : nat) (s : mstate) (pos : nat) (a : acc) : Prop :=
  exists gs g,
    lay pos0 (a_parts a) gs (a_cps a) /\ all_ws g /\ S pos <= length inp /\
    firstn (S pos) inp = firstn pos0 inp ++ wr (a_parts a) gs ++ g ++ rev (a_cur a) /\
    match s with
    | S1 => a_parts a = [] /\ g = [] /\ a_cur a <> []
    | S3 => a_parts a <> [] /\ (a_cur a <> [] \/ next_is is_name_part inp pos = true)
    | S2 | S4 | S5 => a_parts a <> [] /\ a_cur a = []
    end.

Section Step.
Variable inp : str.
Variable pos0 : nat.
Hypothesis Hpos0 : pos0 < length inp.

Lemma len_cover : forall pos t, S pos <= length inp -> firstn (S pos) inp = firstn pos0 inp ++ t -> S pos = pos0 + length t.
Proof.
  intros pos t Hl H. apply (f_equal (@length N)) in H. rewrite app_length, !firstn_length in H. lia.
Qed.

(* the current part is closed at pos *)
Lemma record_part : forall pos ps gs es g cur,
  lay pos0 ps gs es -> all_ws g -> S pos <= length inp -> cur <> [] -> (ps = [] -> g = []) ->
  firstn (S pos) inp = firstn pos0 inp ++ wr ps gs ++ g ++ rev cur ->
  lay pos0 (rev cur :: ps) (g :: gs) (pos :: es).
Proof.
  intros pos ps gs es g cur Hl Hg Hp Hc Hfirst H. cbn [lay]. repeat split.
  - intro E. apply Hc. apply (f_equal (@rev N)) in E. rewrite rev_involutive in E. exact E.
  - exact Hg.
  - exact Hfirst.
  - cbn [wr]. apply len_cover; [exact Hp|]. exact H.
  - exact Hl.
Qed.

Lemma advance : forall p pos t, next_is p inp pos = true -> firstn (S pos) inp = firstn pos0 inp ++ t ->
  S (S pos) <= length inp /\ p (ch inp (S pos)) = true /\ firstn (S (S pos)) inp = firstn pos0 inp ++ t ++ [ch inp (S pos)].
Proof.
  intros p pos t Hn H. destruct (next_is_true _ _ _ Hn) as [Hlt Hp]. split; [lia|]. split; [exact Hp|].
  rewrite firstn_snoc by exact Hlt. rewrite H. rewrite <- app_assoc. reflexivity.
Qed.

Lemma step_linv : forall s pos a s' pos' a', linv inp pos0 s pos a -> step inp s pos a = Some (s', pos', a') -> linv inp pos0 s' pos' a'.
Proof.
  intros s pos a s' pos' a' (gs & g & Hl & Hg & Hp & Hf & Hs) H. unfold step in H. destruct a as [ps es cur]. cbn [a_parts a_cps a_cur] in *.
  destruct s.
  - (* S1 *) destruct Hs as (Hps & Hg0 & Hcur). subst ps g. destruct (next_is is_name_part inp pos) eqn:En; inversion H; subst; clear H.
    + destruct (advance _ _ _ En Hf) as (Hp' & _ & Hf').
      exists gs, []. cbn [a_parts a_cps a_cur]. refine (conj Hl (conj Hg (conj Hp' (conj _ _)))).
      * rewrite Hf'. cbn [rev app]. rewrite <- !app_assoc. reflexivity.
      * refine (conj eq_refl (conj eq_refl _)). discriminate.
    + exists ([] :: gs), []. cbn [a_parts a_cps a_cur]. refine (conj _ (conj Hg (conj Hp (conj _ _)))).
      * apply record_part; try assumption. intros _. reflexivity.
      * rewrite Hf. cbn [wr rev]. rewrite <- !app_assoc. cbn [app]. rewrite app_nil_r. reflexivity.
      * split; [discriminate|reflexivity].
  - (* S2 *) destruct Hs as (Hps & Hcur). subst cur.
    destruct (next_is is_name_part inp pos) eqn:En.
    { inversion H; subst; clear H. exists gs, g. cbn [a_parts a_cps a_cur]. refine (conj Hl (conj Hg (conj Hp (conj Hf (conj Hps _))))). right. exact En. }
    destruct (next_is is_add_sym inp pos) eqn:Ea.
    { inversion H; subst; clear H. exists gs, g. cbn [a_parts a_cps a_cur]. exact (conj Hl (conj Hg (conj Hp (conj Hf (conj Hps eq_refl))))). }
    destruct (next_is is_ws inp pos) eqn:Ew; [|discriminate H].
    inversion H; subst; clear H. exists gs, g. cbn [a_parts a_cps a_cur]. exact (conj Hl (conj Hg (conj Hp (conj Hf (conj Hps eq_refl))))).
  - (* S3 *) destruct Hs as (Hps & Hcur). destruct (next_is is_name_part inp pos) eqn:En; inversion H; subst; clear H.
    + destruct (advance _ _ _ En Hf) as (Hp' & _ & Hf').
      exists gs, g. cbn [a_parts a_cps a_cur]. refine (conj Hl (conj Hg (conj Hp' (conj _ (conj Hps _))))).
      * rewrite Hf'. cbn [rev]. rewrite <- !app_assoc. reflexivity.
      * left. discriminate.
    + destruct Hcur as [Hcur|Hcur]; [|discriminate Hcur].
      exists (g :: gs), []. cbn [a_parts a_cps a_cur]. refine (conj _ (conj (Forall_nil _) (conj Hp (conj _ _)))).
      * apply record_part; try assumption. intro E. contradiction.
      * rewrite Hf. cbn [wr rev]. rewrite <- !app_assoc. cbn [app]. rewrite app_nil_r. reflexivity.
      * split; [discriminate|reflexivity].
  - (* S4 *) destruct Hs as (Hps & Hcur). subst cur. destruct (next_is is_add_sym inp pos) eqn:En; inversion H; subst; clear H.
    + destruct (advance _ _ _ En Hf) as (Hp' & _ & Hf').
      exists (g :: gs), []. cbn [a_parts a_cps a_cur]. refine (conj _ (conj (Forall_nil _) (conj Hp' (conj _ _)))).
      * change [ch inp (S pos)] with (rev [ch inp (S pos)]).
        apply record_part; try assumption; [discriminate|intro E; contradiction|].
        rewrite Hf'. cbn [rev app]. rewrite app_nil_r. rewrite <- !app_assoc. reflexivity.
      * rewrite Hf'. cbn [wr rev app]. rewrite !app_nil_r. rewrite <- !app_assoc. reflexivity.
      * split; [discriminate|reflexivity].
    + exists gs, g. cbn [a_parts a_cps a_cur]. exact (conj Hl (conj Hg (conj Hp (conj Hf (conj Hps eq_refl))))).
  - (* S5 *) destruct Hs as (Hps & Hcur). subst cur. destruct (next_is is_ws inp pos) eqn:En; inversion H; subst; clear H.
    + destruct (advance _ _ _ En Hf) as (Hp' & Hw & Hf').
      exists gs, (g ++ [ch inp (S pos)]). cbn [a_parts a_cps a_cur]. refine (conj Hl (conj _ (conj Hp' (conj _ (conj Hps eq_refl))))).
      * apply all_ws_app; [exact Hg|]. constructor; [exact Hw|constructor].
      * rewrite Hf'. cbn [rev app]. rewrite !app_nil_r. rewrite <- !app_assoc. reflexivity.
    + exists gs, g. cbn [a_parts a_cps a_cur]. exact (conj Hl (conj Hg (conj Hp (conj Hf (conj Hps eq_refl))))).
Qed.

Lemma machine_linv : forall fuel s pos a s' pos' a', linv inp pos0 s pos a -> machine fuel inp s pos a = (s', pos', a') -> linv inp pos0 s' pos' a'.
Proof.
  induction fuel as [|f IH]; intros s pos a s' pos' a' Hi H; cbn [machine] in H.
  - inversion H; subst. exact Hi.
  - destruct (step inp s pos a) as [[[s1 p1] a1]|] eqn:E.
    + eapply IH; [eapply step_linv; eauto|exact H].
    + inversion H; subst. exact Hi.
Qed.

Lemma linv_init : linv inp pos0 S1 pos0 {| a_parts := []; a_cps := []; a_cur := [ch inp pos0] |}.
Proof.
  exists [], []. cbn [a_parts a_cps a_cur lay wr rev app]. repeat split; try (constructor; fail); [lia| |discriminate].
  rewrite firstn_snoc by exact Hpos0. reflexivity.
Qed.

End Step.

(* ------------------------------------------------------------------ the machine stops in state 2 within its fuel *)

Definition cost (inp : str) (s : mstate) (pos : nat) : nat :=
  match s with
  | S1 => 2
  | S2 => 1
  | S3 => if next_is is_name_part inp pos then 0 else 2
  | S4 => if next_is is_add_sym inp pos then 0 else 2
  | S5 => if next_is is_ws inp pos then 0 else 2
  end.

Definition measure (inp : str) (s : mstate) (pos : nat) : nat := 4 * (length inp - S pos) + cost inp s pos.

Lemma cost_le : forall inp s pos, cost inp s pos <= 2.
Proof.
  intros inp s pos. destruct s; cbn [cost]; try lia.
  - destruct (next_is is_name_part inp pos); lia.
  - destruct (next_is is_add_sym inp pos); lia.
  - destruct (next_is is_ws inp pos); lia.
Qed.

Lemma step_measure : forall inp s pos a s' pos' a', step inp s pos a = Some (s', pos', a') -> measure inp s' pos' < measure inp s pos.
Proof.
  intros inp s pos a s' pos' a' H. unfold step in H. unfold measure.
  destruct s.
  - destruct (next_is is_name_part inp pos) eqn:En; inversion H; subst; clear H.
    + destruct (next_is_true _ _ _ En) as [Hlt _]. cbn [cost]. lia.
    + cbn [cost]. lia.
  - destruct (next_is is_name_part inp pos) eqn:En.
    { inversion H; subst; clear H. cbn [cost]. rewrite En. lia. }
    destruct (next_is is_add_sym inp pos) eqn:Ea.
    { inversion H; subst; clear H. cbn [cost]. rewrite Ea. lia. }
    destruct (next_is is_ws inp pos) eqn:Ew; [|discriminate H].
    inversion H; subst; clear H. cbn [cost]. rewrite Ew. lia.
  - destruct (next_is is_name_part inp pos) eqn:En; inversion H; subst; clear H.
    + destruct (next_is_true _ _ _ En) as [Hlt _]. pose proof (cost_le inp S3 (S pos)). cbn [cost] in *. rewrite En. lia.
    + cbn [cost]. rewrite En. lia.
  - destruct (next_is is_add_sym inp pos) eqn:En; inversion H; subst; clear H.
    + destruct (next_is_true _ _ _ En) as [Hlt _]. pose proof (cost_le inp S4 (S pos)). cbn [cost] in *. rewrite En. lia.
    + cbn [cost]. rewrite En. lia.
  - destruct (next_is is_ws inp pos) eqn:En; inversion H; subst; clear H.
    + destruct (next_is_true _ _ _ En) as [Hlt _]. pose proof (cost_le inp S5 (S pos)). cbn [cost] in *. rewrite En. lia.
    + cbn [cost]. rewrite En. lia.
Qed.

Lemma machine_stops : forall fuel inp s pos a s' pos' a', measure inp s pos < fuel ->
  machine fuel inp s pos a = (s', pos', a') -> step inp s' pos' a' = None.
Proof.
  induction fuel as [|f IH]; intros inp s pos a s' pos' a' Hm H; [lia|].
  cbn [machine] in H. destruct (step inp s pos a) as [[[s1 p1] a1]|] eqn:E.
  - eapply IH; [|exact H]. pose proof (step_measure _ _ _ _ _ _ _ E). lia.
  - inversion H; subst. exact E.
Qed.

Lemma step_none_S2 : forall inp s pos a, step inp s pos a = None -> s = S2.
Proof.
  intros inp s pos a H. unfold step in H. destruct s; try reflexivity.
  - destruct (next_is is_name_part inp pos); discriminate H.
  - destruct (next_is is_name_part inp pos); discriminate H.
  - destruct (next_is is_add_sym inp pos); discriminate H.
  - destruct (next_is is_ws inp pos); discriminate H.
Qed.

(* ------------------------------------------------------------------ from the reversed accumulators to input order *)

Lemma weave_snoc : forall gs ps g p, length gs = length ps -> weave (gs ++ [g]) (ps ++ [p]) = weave gs ps ++ g ++ p.
Proof.
  induction gs as [|g0 gs IH]; intros ps g p Hl; destruct ps as [|p0 ps]; try discriminate Hl.
  - cbn. rewrite !app_nil_r. reflexivity.
  - cbn [app weave]. rewrite IH by (cbn in Hl; lia). rewrite <- !app_assoc. reflexivity.
Qed.

Lemma lay_length : forall pos0 ps gs es, lay pos0 ps gs es -> length gs = length ps /\ length es = length ps.
Proof.
  intros pos0. induction ps as [|p ps IH]; intros gs es H; destruct gs as [|g gs]; destruct es as [|e es]; cbn [lay] in H; try contradiction.
  - split; reflexivity.
  - destruct H as (_ & _ & _ & _ & H). destruct (IH _ _ H) as [H1 H2]. cbn [length]. split; lia.
Qed.

Lemma wr_weave : forall ps gs, length gs = length ps -> wr ps gs = weave (rev gs) (rev ps).
Proof.
  induction ps as [|p ps IH]; intros gs Hl; destruct gs as [|g gs]; try discriminate Hl; [reflexivity|].
  cbn [wr rev]. rewrite weave_snoc by (rewrite !rev_length; cbn in Hl; lia). rewrite IH by (cbn in Hl; lia). reflexivity.
Qed.

(* the layout of the collected parts, in input order *)
Record layout (inp : str) (pos0 : nat) (parts gaps : list str) (cps : list nat) : Prop := {
  lo_gaps : length gaps = length parts;
  lo_cps : length cps = length parts;
  lo_first : hd [] gaps = [];
  lo_ws : Forall all_ws gaps;
  lo_nonempty : Forall (fun p => p <> []) parts;
  lo_pos : forall k, 1 <= k <= length parts -> S (nth (k - 1) cps 0) = pos0 + length (weave (firstn k gaps) (firstn k parts))
}.

Lemma firstn_snoc_le : forall A (l : list A) x k, k <= length l -> firstn k (l ++ [x]) = firstn k l.
Proof. intros A l x k Hk. rewrite firstn_app. replace (k - length l) with 0 by lia. cbn [firstn]. apply app_nil_r. Qed.

Lemma lay_layout : forall inp pos0 ps gs es, lay pos0 ps gs es -> layout inp pos0 (rev ps) (rev gs) (rev es).
Proof.
  intros inp pos0. induction ps as [|p ps IH]; intros gs es H; destruct gs as [|g gs]; destruct es as [|e es]; cbn [lay] in H; try contradiction.
  - constructor; cbn; try reflexivity; try constructor. intros k Hk. lia.
  - destruct H as (Hp & Hg & Hfirst & He & H). pose proof (lay_length _ _ _ _ H) as [Hlg Hle].
    destruct (IH _ _ H) as [I1 I2 I3 I4 I5 I6]. cbn [rev].
    constructor.
    + rewrite !app_length, I1. reflexivity.
    + rewrite !app_length, I2. reflexivity.
    + destruct ps as [|p1 ps].
      * destruct gs; [|discriminate Hlg]. cbn. apply Hfirst. reflexivity.
      * destruct gs as [|g1 gs]; [discriminate Hlg|]. cbn [rev] in *.
        destruct (rev gs ++ [g1]) as [|x l] eqn:E; [destruct (rev gs); discriminate E|]. cbn [app hd] in *. exact I3.
    + apply Forall_app. split; [exact I4|]. constructor; [exact Hg|constructor].
    + apply Forall_app. split; [exact I5|]. constructor; [exact Hp|constructor].
    + intros k Hk. rewrite app_length in Hk. cbn [length] in Hk. rewrite rev_length in *.
      destruct (le_lt_dec k (length ps)) as [Hle'|Hgt].
      * rewrite !firstn_snoc_le by (rewrite rev_length; lia). rewrite app_nth1 by (rewrite rev_length; lia).
        apply I6. lia.
      * assert (k = S (length ps)) by lia. subst k.
        rewrite !firstn_all2 by (rewrite app_length, rev_length; cbn [length]; lia).
        rewrite app_nth2 by (rewrite rev_length; lia). rewrite rev_length.
        replace (S (length ps) - 1 - length es) with 0 by lia. cbn [nth].
        rewrite He. rewrite (wr_weave (p :: ps) (g :: gs)) by (cbn [length]; lia). reflexivity.
Qed.

(* ------------------------------------------------------------------ the collector *)

(* for every input and every start position inside it: the collected parts, the white-space runs between them and the run after
   the last one cover the input from the start position to the position where the collector stops, in order and without overlap *)
Theorem collect_layout : forall inp pos parts cps endpos,
  pos < length inp -> collect inp pos = (parts, cps, endpos) ->
  exists gaps tail,
    layout inp pos parts gaps cps /\ all_ws tail /\ 1 <= length parts /\ endpos <= length inp /\
    firstn endpos inp = firstn pos inp ++ weave gaps parts ++ tail.
Proof.
  intros inp pos parts cps endpos Hpos H. unfold collect in H.
  destruct (machine (4 * S (length inp)) inp S1 pos {| a_parts := []; a_cps := []; a_cur := [ch inp pos] |}) as [[s p] a] eqn:E.
  inversion H; subst; clear H.
  pose proof (machine_linv inp pos Hpos _ _ _ _ _ _ _ (linv_init inp pos Hpos) E) as (gs & g & Hl & Hg & Hp & Hf & Hs).
  assert (Hstop : step inp s p a = None).
  { eapply machine_stops; [|exact E]. unfold measure. cbn [cost]. lia. }
  apply step_none_S2 in Hstop. subst s. destruct Hs as (Hne & Hcur).
  pose proof (lay_length _ _ _ _ Hl) as [Hlg Hle].
  exists (rev gs), g. split; [apply lay_layout; exact Hl|]. split; [exact Hg|]. split.
  - rewrite rev_length. destruct (a_parts a); [contradiction|cbn; lia].
  - split; [exact Hp|]. rewrite Hf, Hcur. cbn [rev]. rewrite app_nil_r. rewrite wr_weave by exact Hlg. reflexivity.
Qed.
