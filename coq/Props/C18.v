(* C18 — property theorems only.  Proofs are in C18/Proofs.v, C18/ProofsService.v, C18/ProofsDto.v. *)
From Coq Require Import List NArith Bool.
From DV Require Import C17.Model C17.Proofs C18.Model C18.Proofs C18.Service C18.ProofsService C18.Dto C18.ProofsDto C18.Wire C18.ProofsWire.
Import ListNotations.
Open Scope N_scope.

(* (i) rendering: every value built from null / boolean / number / string / list / context — every string and key,
   with quotation marks, reverse solidus, control and non-ASCII characters — is rendered as a text the strict
   RFC 8259 parser accepts and that decodes to the value *)
Theorem C18_json_roundtrip : forall v, wf v = true -> plain v = true -> json_decode (jsonify v) = Some v.
Proof. exact json_roundtrip. Qed.

(* values of every other kind (dates, times, durations, ranges, functions) are rendered as a JSON string holding their text *)
Theorem C18_jsonify_wellformed : forall v, wf v = true ->
  json_parse (jsonify v) = Some (to_json v) /\ json_decode (jsonify v) = Some (strip v).
Proof. intros v H. split; [exact (jsonify_wellformed v H)|exact (jsonify_decodes v H)]. Qed.

Theorem C18_jsonify_injective : forall v w, wf v = true -> wf w = true -> plain v = true -> plain w = true ->
  jsonify v = jsonify w -> v = w.
Proof. exact jsonify_injective. Qed.

(* a number in plain notation (sign, digits without superfluous leading zero, optional fraction) is a JSON number *)
Theorem C18_number_is_json : forall n rest, wf_num n = true -> dstart rest = true ->
  parse_number (render_num n ++ rest) = Some (JNum (nneg n) (nint n) (nfrac n) None, rest).
Proof. exact parse_number_render. Qed.

(* the same tree written compactly (serde_json: error and TCK bodies) *)
Theorem C18_compact_roundtrip : forall v, wf v = true -> plain v = true -> json_decode (compact v) = Some v.
Proof. exact compact_roundtrip. Qed.

(* (ii) the service is the workspace state machine *)
Theorem C18_service_refines_workspace : forall qs,
  fst (serve_all replace_fixed init qs) = fst (run remove init (ops_of qs)) /\
  snd (serve_all replace_fixed init qs) = reports qs (snd (arun ainit (ops_of qs))) /\
  defs (fst (serve_all replace_fixed init qs)) = adefs (fst (arun ainit (ops_of qs))) /\
  Inv (fst (serve_all replace_fixed init qs)).
Proof. exact service_refines_workspace. Qed.

Theorem C18_errors_leave_state : forall s q, Inv s ->
  is_err (snd (serve replace_fixed s q)) = true -> fst (serve replace_fixed s q) = s.
Proof. exact errors_leave_state. Qed.

Theorem C18_faults_do_not_disturb : forall pre bad post,
  Forall (fun q => op_of q = None) bad ->
  snd (serve_all replace_fixed (fst (serve_all replace_fixed init (pre ++ bad))) post) =
  snd (serve_all replace_fixed (fst (serve_all replace_fixed init pre)) post).
Proof. exact faults_do_not_disturb. Qed.

Theorem C18_faults_answer_errors : forall bad s,
  Forall (fun q => op_of q = None) bad ->
  fst (serve_all replace_fixed s bad) = s /\ Forall (fun r => is_err r = true) (snd (serve_all replace_fixed s bad)).
Proof. exact faults_transparent. Qed.

Theorem C18_replace_substitutes : forall qs m, let s := fst (serve_all replace_fixed init qs) in
  serve replace_fixed s (QReplace (CModel m)) =
  ({| defs := filter (retained (ns m) (nm m)) (defs s) ++ [m];
      by_ns := ns m :: by_ns (remove s (ns m) (nm m)); by_nm := nm m :: by_nm (remove s (ns m) (nm m)); evs := [] |}, RStatus 2).
Proof. exact replace_substitutes. Qed.

Theorem C18_evaluate_iff_deployed : forall s k,
  snd (serve replace_fixed s (QEvaluate k true)) = RValue k <-> mem k (evs s) = true.
Proof. exact evaluate_iff_deployed. Qed.

(* every answer of the service is a well-formed JSON document: failures in the errors member, results in the data member,
   and the data member of an evaluation decodes to the evaluated value *)
Theorem C18_every_answer_wellformed : forall (txt : N -> text) (msg : err -> text) (result : N -> value),
  (forall n, wf_text (txt n) = true) -> (forall e, wf_text (msg e) = true) -> (forall k, wf (result k) = true) ->
  forall r, exists j,
    json_parse (body txt msg result r) = Some (JObj [(if is_err r then k_errors else k_data, j)]) /\
    (forall k, r = RValue k -> decode j = Some (strip (result k))) /\
    (forall e, r = RErr e -> j = JArr [JObj [(k_details, JStr (msg e))]]).
Proof. exact every_answer_wellformed. Qed.

(* (iii) TCK: a value converted to its DTO and back is unchanged, provided the lexical forms of the leaves read back
   (numbers: C07, temporal values: C14) and the context keys are FEEL names *)
Theorem C18_tck_roundtrip : forall (tyname : N -> text) (parse_simple : text -> text -> option value)
    (parse_name : text -> option text) (ok_leaf : value -> Prop) (ok_key : text -> Prop),
  (forall v ty tx, ok_leaf v -> to_dto tyname v = DSimple (Some ty) (Some tx) false -> parse_simple ty tx = Some v) ->
  (forall k, ok_key k -> parse_name k = Some k) ->
  forall v, tck_value v = true -> ok ok_leaf ok_key v -> from_dto parse_simple parse_name (to_dto tyname v) = Some v.
Proof. exact tck_roundtrip. Qed.

(* the same with the concrete type names (xsd:string, xsd:decimal, ...), the concrete readers (strings as they are, numbers in plain
   notation through the strict number reader, booleans, temporal leaves keeping their text, xsd:duration split by its day/time part)
   and keys kept as they are: the premises for strings, numbers and booleans are discharged, those for temporal leaves reduce to
   "the text names the kind" (their lexical forms are C14's subject).  to_dto0 / from_dto0 / tck_body are the functions the
   correspondence check evaluates against the answers of /tck/evaluate. *)
Theorem C18_tck_roundtrip_concrete : forall v, tck_value v = true -> ok (fun x => leaf_ok x = true) (fun _ => True) v ->
  from_dto0 (to_dto0 v) = Some v.
Proof. exact tck_roundtrip0. Qed.

Example C18_tck_wire_nonvacuous :
  let v := VCtx [([97], VList [VNum {| nneg := true; nint := [1; 0]; nfrac := [5; 0] |}; VStr [34; 92; 10]; VNull; VBool false]);
                 ([98; 32; 98], VOther 5 [80; 84; 49; 83])] in
  from_dto0 (to_dto0 v) = Some v /\ json_decode (tck_body v) <> None.
Proof. exact tck_wire_nonvacuous. Qed.

(* the code of the pinned commit *)
Theorem C18_jsonify_orig_refuted :
  (wf v_john = true /\ plain v_john = true /\ json_parse (jsonify_orig v_john) = None) /\
  (wf v_inject = true /\ plain v_inject = true /\
   json_decode (jsonify_orig v_inject) = Some (VList [VStr [97]; VStr [98]])) /\
  (wf v_key = true /\ plain v_key = true /\
   json_decode (jsonify_orig v_key) = Some (VCtx [([97], VNum {| nneg := false; nint := [1]; nfrac := [] |}); ([98], VNull)])) /\
  (wf v_date = true /\ json_parse (jsonify_orig v_date) = None).
Proof. exact jsonify_orig_refuted. Qed.

Theorem C18_body_orig_refuted :
  json_parse (body_orig (fun _ => []) (fun _ => []) (fun _ => v_john) (RValue 0)) = None /\
  json_parse (body (fun _ => []) (fun _ => []) (fun _ => v_john) (RValue 0)) = Some (JObj [(k_data, to_json v_john)]).
Proof. exact body_orig_refuted. Qed.

Theorem C18_replace_orig_refuted : exists qs,
  snd (serve_all replace_orig init qs) <> reports qs (snd (arun ainit (ops_of qs))).
Proof. exact replace_orig_refuted. Qed.

Example C18_nonvacuous :
  let v := VCtx [([97; 34; 98], VList [VNum {| nneg := true; nint := [1; 0]; nfrac := [5; 0] |};
                                        VStr [72; 10; 1; 233; 128512; 92; 34]; VNull; VBool false; VList []; VCtx []])] in
  wf v = true /\ plain v = true /\ json_decode (jsonify v) = Some v /\ jsonify v <> jsonify_orig v.
Proof. exact roundtrip_nonvacuous. Qed.

Example C18_service_nonvacuous :
  serve_all replace_fixed init [QAdd (CModel mA); QAdd CBadBase64; QReplace (CModel mA); QRejected; QDeploy; QEvaluate 11 true; QEvaluate 12 true; QEvaluate 11 false]
  = (fst (run remove init [Add mA; Replace mA; Deploy]),
     [RAdded 1 11; RErr EBase64; RStatus 2; RErr EBadRequest; RStatus 4; RValue 11; RErr ENotDeployed; RErr EInput]).
Proof. exact service_nonvacuous. Qed.

Print Assumptions C18_json_roundtrip.
Print Assumptions C18_jsonify_wellformed.
Print Assumptions C18_jsonify_injective.
Print Assumptions C18_number_is_json.
Print Assumptions C18_compact_roundtrip.
Print Assumptions C18_service_refines_workspace.
Print Assumptions C18_errors_leave_state.
Print Assumptions C18_faults_do_not_disturb.
Print Assumptions C18_faults_answer_errors.
Print Assumptions C18_replace_substitutes.
Print Assumptions C18_evaluate_iff_deployed.
Print Assumptions C18_every_answer_wellformed.
Print Assumptions C18_tck_roundtrip.
Print Assumptions C18_tck_roundtrip_concrete.
Print Assumptions C18_tck_wire_nonvacuous.
Print Assumptions C18_jsonify_orig_refuted.
Print Assumptions C18_body_orig_refuted.
Print Assumptions C18_replace_orig_refuted.
Print Assumptions C18_nonvacuous.
Print Assumptions C18_service_nonvacuous.
