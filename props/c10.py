"""C10 — names with spaces and symbols resolve to their bound value (longest match).

Proof: coq/Props/C10.v (the longest-prefix loop, for all key sets and inputs; the two normalisers).
Correspondence: scopes built programmatically (dv ast, names given as part lists -> Name::new), expressions in which bound names are
spelled with and without spaces around the additional symbols and stand next to operators, keywords and brackets;
the real parser's leaves (in order) are compared with the token stream of coq/C10/Model.v (lex_all over the scope keys the
implementation reports), the evaluated value with the arithmetic over the bound values; then the same name texts in every
expression position (argument, if / for / some / every / filter sub-expression, context entry, path head) and names introduced by
context entries, formal parameters and iteration variables.
White space beyond blank / tab / newline: U+1680, U+180E, U+FEFF (inside the name character ranges of the grammar; white space and nothing
else for the lexer since the repair of is_name_start_char), U+00A0, U+2003, U+3000, U+200B, U+2028, U+0085, U+202F, a byte order mark in
front -- inside and around the parts of the bound names (Name::new trims White_Space, the model does too: the scope keys of the
implementation = name_new of the model on the same part lists) and in the gaps of the texts; a bound name written with ANY white space in
its gaps (C10_longest_written) must come out as that name, and a text with the three code points must give the answer of the same text
with blanks in their place."""
import json
import re

from vlib import core
from vlib.coqterm import App

HEADER = 'From Coq Require Import List NArith Bool.\nFrom DV Require Import C10.Model.\nImport ListNotations.\nOpen Scope N_scope.\n'

WORDS = ['a', 'b', 'c', 'x1', 'Total', 'żółw', 'ν', 'd_2']
SYMS = ['.', '/', '-', "'", '+', '*']
VALUES = [1000003, 20011, 307, 41, 5000011, 60013, 709]
# U+1680, U+180E, U+FEFF: white space for the lexer and inside the name character ranges of the grammar (the lexer took them for both until
# is_name_start_char was repaired: C10_char_classes, _orig_refuted witnesses); of the three str::trim removes U+1680 only
AMBIG = ['\u1680', '\u180e', '\ufeff']
# white space for the lexer only; all but U+200B have the Unicode property White_Space (what str::trim in Name::new removes)
WS_X = ['\u00a0', '\u2003', '\u3000', '\u200b', '\u2028', '\u0085', '\u202f', '\u2000']
LEXER_WS = set(chr(c) for c in list(range(9, 14)) + [0x20, 0x85, 0xa0, 0x1680, 0x180e] + list(range(0x2000, 0x200c)) + [0x2028, 0x2029, 0x202f, 0x205f, 0x3000, 0xfeff])
RUST_WS = set(chr(c) for c in list(range(9, 14)) + [0x20, 0x85, 0xa0, 0x1680] + list(range(0x2000, 0x200b)) + [0x2028, 0x2029, 0x202f, 0x205f, 0x3000])


def rust_trim(s):
    """str::trim: the characters with the Unicode property White_Space (char::is_whitespace) at both ends."""
    i, j = 0, len(s)
    while i < j and s[i] in RUST_WS:
        i += 1
    while j > i and s[j - 1] in RUST_WS:
        j -= 1
    return s[i:j]


def coq_str(s):
    return '[' + '; '.join(str(ord(c)) for c in s) + ']'


def name_new(parts):
    """Name::new (feel/src/names.rs)."""
    out, prev = '', False
    for i, p in enumerate(parts):
        p = rust_trim(p)
        cur = p in SYMS
        if i > 0 and not prev and not cur and p != '':
            out += ' '
        out += p
        prev = cur
    return out


def gen_name(rng, single_syms=True):
    """Parts of a name: 1..4 words, joined by a space or by one additional symbol."""
    n = rng.choice([1, 1, 2, 2, 3, 4])
    parts = [rng.choice(WORDS)]
    for _ in range(n - 1):
        if rng.random() < 0.5:
            parts.append(rng.choice(SYMS))
            if rng.random() < 0.12:
                parts.append(rng.choice(SYMS))          # two symbols in a row
        parts.append(rng.choice(WORDS))
    if rng.random() < 0.08:
        parts.append(rng.choice(SYMS))                  # a name ending in a symbol
    return parts


def spell(rng, parts):
    """The name as written in an expression: single / several spaces between words, symbols with or without spaces around them."""
    out = ''
    for i, p in enumerate(parts):
        if i:
            if p in SYMS or parts[i - 1] in SYMS:
                out += rng.choice(['', '', ' ', '  ', '\t'])
            else:
                out += rng.choice([' ', ' ', '  ', '\t', ' \n '])
        out += p
    return out


def gen_scope(rng):
    """2..6 bound names: random ones, prefixes of them, and operator-joined combinations of bound names."""
    names = []
    base = gen_name(rng)
    names.append(base)
    for _ in range(rng.choice([1, 2, 3])):
        k = rng.random()
        if k < 0.3 and len(base) > 1:
            cut = rng.choice([i for i in range(1, len(base)) if base[i - 1] not in SYMS] or [1])
            names.append(base[:cut])
        elif k < 0.6:
            other = gen_name(rng)
            names.append(other)
            if rng.random() < 0.7:
                names.append(base + [rng.choice(['-', '+', '*', '/', '.'])] + other)
        elif k < 0.8:
            names.append(base + [rng.choice(WORDS)])
        else:
            names.append(gen_name(rng))
    uniq, seen = [], set()
    for p in names:
        t = name_new(p)
        if t not in seen and not any(w in ('in', 'item', 'and', 'or') for w in p):
            seen.add(t)
            uniq.append(p)
    return uniq


def gen_text(rng, scope):
    """An arithmetic text over the bound names (and a few unbound combinations) with every spacing."""
    n = rng.choice([1, 1, 2, 2, 3])
    out = ''
    for i in range(n):
        if i:
            out += rng.choice([' ', '', '  ']) + rng.choice(['+', '-', '*', '-', '-']) + rng.choice([' ', '', '  '])
        k = rng.random()
        if k < 0.7:
            out += spell(rng, rng.choice(scope))
        elif k < 0.8:
            out += str(rng.choice([1, 2, 17]))
        elif k < 0.9:
            # words of bound names recombined (may or may not be bound)
            ws = [p for nm in scope for p in nm if p not in SYMS]
            out += spell(rng, [rng.choice(ws), rng.choice(SYMS + [' '] * 2).strip() or rng.choice(ws), rng.choice(ws)][:rng.choice([1, 3])])
        else:
            out += spell(rng, gen_name(rng))
    return out


# ------------------------------------------------------------------------------------------------ white space beyond blank / tab / newline

def x_word(rng):
    """A word with one of the three overlapping code points inside, in front or behind, or a plain word."""
    w = rng.choice(WORDS[:5])
    k = rng.random()
    c = rng.choice(AMBIG)
    if k < 0.25:
        return w + c + rng.choice(['b', 'c', '1'])
    if k < 0.45:
        return w + c
    if k < 0.6:
        return c + w
    if k < 0.65:
        return c
    return w


def x_pad(rng, p):
    """The part as a caller of Name::new may hand it over: White_Space around it (trimmed), U+200B / U+180E / U+FEFF around it (kept)."""
    k = rng.random()
    if k < 0.55:
        return p
    pad = [' ', '\t', '\u00a0', '\u1680', '\u2003', '\u3000', '\u2028', '\u0085', '\n']
    if k < 0.9:
        return rng.choice(pad + ['']) * rng.choice([1, 2]) + p + rng.choice(pad + ['', '']) * rng.choice([1, 2])
    return rng.choice(['\u200b', '\u180e', '\ufeff', ' \ufeff']) + p + rng.choice(['', '\u200b', '\ufeff '])


def gen_name_x(rng):
    """Parts of a bound name with the overlapping code points in its words, padded parts, now and then an empty or all-white part."""
    n = rng.choice([1, 1, 2, 2, 3])
    parts = [x_word(rng)]
    for _ in range(n - 1):
        if rng.random() < 0.45:
            parts.append(rng.choice(SYMS))
        if rng.random() < 0.12:
            parts.append(rng.choice(['', ' ', '\u1680', '\u00a0\u1680', '\u180e', '\ufeff']))
        parts.append(x_word(rng))
    if rng.random() < 0.1:
        parts.append(rng.choice(SYMS + ['\u1680', '']))
    return [x_pad(rng, p) for p in parts]


def gen_scope_x(rng):
    names = [gen_name_x(rng)]
    base = names[0]
    for _ in range(rng.choice([1, 2, 3])):
        k = rng.random()
        if k < 0.35:
            names.append(gen_name(rng))
        elif k < 0.6:
            other = gen_name_x(rng)
            names.append(other)
            if rng.random() < 0.6:
                names.append(base + [rng.choice(['-', '+', '*', '/', '.'])] + other)
        elif k < 0.8 and len(base) > 1:
            names.append(base[:rng.randrange(1, len(base))])
        else:
            names.append([rust_trim(p) for p in base if rust_trim(p)])        # the same name handed over without the padding
    uniq, seen = [], set()
    for p in names:
        t = name_new(p)
        if t and t not in seen and not any(rust_trim(w) in ('in', 'item', 'and', 'or') for w in p):
            seen.add(t)
            uniq.append(p)
    return uniq


X_GAPS = ['\u00a0', '\u2003', '\u3000', '\u200b', ' \u1680', ' \u180e ', '\t\ufeff', '\u1680', '\u180e', '\ufeff', '\u1680 ', '\ufeff ', '\u2028', '\u0085 ',
          ' ', '  ', '']


def spell_x(rng, parts, strict=False):
    """The name written with every kind of white space in the gaps.  strict: the parts as Name::new stores them and a non-empty gap between two
    words, so the text is a spelling of the name (any white space, the three code points included, at any place of a gap); otherwise the
    parts with their padding and now and then no gap between two words."""
    out = ''
    for i, p in enumerate(parts):
        p = rust_trim(p) if strict else p.strip(' \t\n')
        if i:
            sym = p in SYMS or rust_trim(parts[i - 1]) in SYMS
            g = rng.choice(X_GAPS)
            if strict:
                while g == '' and not sym:
                    g = rng.choice(X_GAPS)
            elif g == '' and not sym and rng.random() < 0.8:
                g = ' '
            out += g
        out += p
    return out


def regular(parts):
    """A name that can be written in a text: every trimmed part is one additional symbol or a word of name characters (no white space of the
    lexer in it: a part that holds U+1680 / U+180E / U+FEFF / U+200B can be bound through Name::new but not written)."""
    for i, p in enumerate(parts):
        t = rust_trim(p)
        if t in SYMS:
            if i == 0:
                return False
            continue
        if not t or t[0].isdigit() or any(ch in SYMS or ch in LEXER_WS for ch in t):
            return False
    return True


def gen_text_x(rng, scope):
    """Texts over a scope with every kind of white space: spellings of the bound names (strict and not), the three code points
    next to operators, a byte order mark in front, white space behind."""
    n = rng.choice([1, 1, 2, 3])
    out = rng.choice(['', '', '\ufeff', '\u1680', '\u00a0 '])
    for i in range(n):
        if i:
            out += rng.choice([' ', '', '\u00a0', '\u1680', '\ufeff', ' \u180e']) + rng.choice(['+', '-', '*', '-']) + rng.choice([' ', '', '\u2003', '\u1680', '\ufeff', '\u180e '])
        k = rng.random()
        if k < 0.75:
            out += spell_x(rng, rng.choice(scope), strict=rng.random() < 0.4)
        elif k < 0.85:
            out += str(rng.choice([1, 2, 17]))
        else:
            out += spell_x(rng, gen_name_x(rng))
    return out + rng.choice(['', '', ' ', '\u3000', '\u1680', '\ufeff', '\u200b'])


# ------------------------------------------------------------------------------------------------ model <-> implementation

def model_tokens(term):
    """Parsed `option (list tok)` -> list of ('name', text) | ('num', text) | ('sym', char) or None."""
    if not (isinstance(term, App) and term.name == 'Some'):
        return None
    out = []
    for t in term.args[0]:
        if t.name == 'KName':
            out.append(('name', ''.join(chr(c) for c in t.args[0])))
        elif t.name == 'KNum':
            out.append(('num', ''.join(chr(c) for c in t.args[0])))
        else:
            out.append(('sym', chr(t.args[0])))
    return out


def leaves(ast):
    """In-order leaves of an arithmetic / path tree; None when the tree has another shape."""
    k = ast[0]
    if k == 'Name':
        return [('name', ast[1])]
    if k == 'Numeric':
        return [('num', ast[1])] if ast[2] == '' else None
    if k in ('Add', 'Sub', 'Mul', 'Div'):
        l, r = leaves(ast[1]), leaves(ast[2])
        return None if l is None or r is None else l + [('sym', {'Add': '+', 'Sub': '-', 'Mul': '*', 'Div': '/'}[k])] + r
    if k == 'Neg':
        x = leaves(ast[1])
        return None if x is None else [('sym', '-')] + x
    if k == 'Path':
        l, r = leaves(ast[1]), leaves(ast[2])
        return None if l is None or r is None else l + [('sym', '.')] + r
    return None


def well_formed(toks):
    """operand (op operand)*, operand = -* (name | num)  — what the grammar accepts of such a token stream (paths: name after dot)."""
    i, n = 0, len(toks)
    if n == 0:
        return False
    while True:
        while i < n and toks[i] == ('sym', '-'):
            i += 1
        if i >= n or toks[i][0] not in ('name', 'num'):
            return False
        i += 1
        if i == n:
            return True
        if toks[i][0] != 'sym' or toks[i][1] not in '+-*/.':
            return False
        if toks[i][1] == '.' and (i + 1 >= n or toks[i + 1][0] != 'name'):
            return False
        if toks[i][1] == '*' and i + 1 < n and toks[i + 1] == ('sym', '*'):
            return False
        i += 1


def value_of(toks, env):
    """Value of a well-formed stream without / and . over integer bindings; None when a name is unbound or the stream is outside that fragment."""
    expr = ''
    for k, t in toks:
        if k == 'name':
            if t not in env:
                return 'null'
            expr += '(%d)' % env[t]
        elif k == 'num':
            expr += str(int(t))
        else:
            if t in '/.':
                return None
            expr += t
    try:
        return eval(expr, {'__builtins__': {}})
    except Exception:
        return None


def impl_number(v):
    if isinstance(v, dict) and 'p' in v:
        try:
            return int(v['p'])
        except ValueError:
            return v['p']
    return 'null' if v is None else v


# ------------------------------------------------------------------------------------------------ positions

def positions(rng, T, val, single, star=False, dot=False):
    """(expression, expected value) pairs: the text T (value val, a non-negative integer) in every position a name may occur in."""
    P = T if single else '(%s)' % T
    # `T * 2` with a bound name that continues T with `*` reads that longer name (longest match): parenthesise T there
    PM = '(%s)' % T if star else P
    out = [
        ('sum([%s])' % T, val), ('if %s = %s then %s else 0' % (T, T, T), val), ('for i in [1] return %s' % T, [val]),
        ('some i in [1] satisfies %s = %s' % (T, T), True), ('every i in [1] satisfies %s >= 0' % T, True),
        ('[%s][1]' % T, val), ('[7][%s = %s]' % (T, T), 7), ('{k: %s}.k' % T, val), ('%s between 0 and 99999999999999' % T, True),
        ('%s in [0..99999999999999]' % T, True), ('(%s)' % T, val), ('- %s' % P, -val), ('1 + %s' % P, 1 + val), ('%s * 2' % PM, 2 * val),
        ('if true then %s else %s' % (T, T), val), ('[1,2,3][item = 2 + 0 * %s]' % P, 2), ('max(0, %s)' % T, val),
        ('{r: %s, s: r + 1}.s' % T, val + 1),
        # the word `in` AFTER the name, behind a for / some / every whose variable name ended at its own `in` (seeded change C10_c: the lexer
        # flag "a variable name ends before in" stayed set after some / every and cut every later name at the next `in`)
        ('some i in [1] satisfies %s in [0..99999999999999]' % T, True), ('every i in [1] satisfies %s in [0..99999999999999]' % T, True),
        ('(some i in [1] satisfies true) and %s in [0..99999999999999]' % T, True), ('(every i in [1] satisfies true) and %s in [0..99999999999999]' % T, True),
        ('for i in [1] return %s in [0..99999999999999]' % T, [True]), ('[for i in [1] return i, %s in [0..99999999999999]][2]' % T, True),
        ('some i in [%s] satisfies i in [0..99999999999999]' % T, True),
        # the name BEHIND a function definition (with and without formal parameters), a context literal and a filter in the same expression: whatever
        # these push on the parsing scope is popped again, the enclosing names stay bound (seeded change C10_i: `function()` popped twice)
        ('[function() 1, %s][2]' % T, val), ('[function(q) q, %s][2]' % T, val), ('if (function() true)() then %s else 0' % T, val),
        ('[{k: 1}, %s][2]' % T, val), ('{f: function() 5, r: f() + %s}.r' % P, 5 + val), ('[[1][item = 1], %s][2]' % T, val),
    ]
    if single and not dot:
        # (not when a bound name contains the symbol `.`: behind T the two dots of `T..T` may continue a longer bound name - with `c.` and `c` bound,
        # `c..c` is the member c of `c.`, by the longest-match rule itself; a false alarm of the thorough tier in the last hours, corrected here)
        # the name as an interval endpoint and as the operand of a unary comparison, inside a scope pushed by a binder while the name is bound in an
        # ENCLOSING context (these positions resolve through Scope::search_deep; seeded change C10_g: only the context on top was consulted)
        out += [('for i in [1] return %s in [%s..%s]' % (T, T, T), [True]), ('some i in [1] satisfies %s in [%s..%s]' % (T, T, T), True),
                ('every i in [1] satisfies %s in (< %s, > %s, %s)' % (T, T, T, T), True), ('{r: %s in [%s..%s]}.r' % (T, T, T), True),
                ('(function(q) q in [%s..%s])(%s)' % (T, T, T), True), ('[7][%s in [%s..%s]]' % (T, T, T), 7),
                ('for i in [1] return {r: (function(q) q in (>= %s))(%s)}.r' % (T, T), [True]), ('%s in [%s..%s]' % (T, T, T), True)]
    return out


def binder_cases(rng):
    """Names introduced by context entries, formal parameters and iteration variables (multi-word, with symbols)."""
    out = []
    for _ in range(6):
        p = gen_name(rng)
        if any(w in ('in', 'item') for w in p):
            continue
        s1, s2 = spell(rng, p), spell(rng, p)
        out += [
            ('{%s: 5, r: %s + 1}.r' % (s1, s2), 6, 'context entry'),
            ('{f: function(%s) %s + 1, r: f(5)}.r' % (s1, s2), 6, 'formal parameter'),
            ('for %s in [5] return %s + 1' % (s1, s2), [6], 'iteration variable'),
            ('some %s in [5] satisfies %s = 5' % (s1, s2), True, 'quantified variable'),
            ('{%s: 5, r: %s * 2 - %s}.r' % (s1, s2, s1), 5, 'context entry'),
        ]
    return out


def canon_v(v):
    if isinstance(v, list):
        return [canon_v(x) for x in v]
    return impl_number(v)


# ------------------------------------------------------------------------------------------------ run

def run(ctx):
    ctx.proof_gate()
    ctx.build_harness()
    rng = ctx.rng
    scopes = []
    # systematic scopes first: prefixes, operator-joined combinations, symbols
    for sym in SYMS:
        scopes.append([['a'], ['b'], ['a', sym, 'b']])
        scopes.append([['a'], ['b']])
        scopes.append([['a', sym, 'b'], ['a', sym, 'b', 'c']])
    scopes += [[['a'], ['a', 'b'], ['a', 'b', 'c']], [['a', 'b'], ['b', 'c'], ['c']], [['Total'], ['Total', 'x1'], ['x1', '-', 'a'], ['a']]]
    for _ in range(ctx.pick(250, 6000)):
        scopes.append(gen_scope(rng))
    # white space beyond blank / tab / newline, the three code points of the name character ranges: in the bound names and in the texts
    n_plain = len(scopes)
    x_chars = AMBIG + WS_X
    scopes.append([['a'], ['b'], ['a', '+', 'b'], ['a', 'b']])
    scopes.append([['a'], ['b'], ['a', '+']])
    for w in x_chars[:6]:
        scopes.append([['a' + w], ['b'], ['a', w + 'b', 'c'], [w + 'a', '+', w, 'b'], ['c', ' ' + w + ' ', 'a']])
    for _ in range(ctx.pick(70, 2500)):
        sc = gen_scope_x(rng)
        if sc:
            scopes.append(sc)
    cases = []
    for six, sc in enumerate(scopes):
        bind = [[p, VALUES[i % len(VALUES)]] for i, p in enumerate(sc)]
        env = {name_new(p): VALUES[i % len(VALUES)] for i, p in enumerate(sc)}
        if six >= n_plain:
            texts = [(gen_text_x(rng, sc), None) for _ in range(ctx.pick(4, 8))]
            for q in sc:
                if regular(q):
                    # the name written with any white space in its gaps is that name
                    texts.append((rng.choice(['', '\ufeff', ' ']) + spell_x(rng, q, strict=True) + rng.choice(['', ' ', '\u3000']), name_new(q)))
            if six < n_plain + 2:
                for w in x_chars:
                    texts += [(t, None) for t in (
                        'a+' + w + ' b', 'a+ ' + w + 'b', 'a+' + w + 'b', 'a' + w + '+b', 'a ' + w + '+ b', 'a' + w + ' +b', 'a' + w + 'b', 'a ' + w + 'b',
                        'a' + w + ' b', 'a ' + w + ' b', w + 'a b', 'a b' + w, 'a b' + w + '+1', 'a' + w, 'a' + w + '-b', 'a+' + w + ' + b', 'a+' + w + '+ b')]
            for t, direct in texts:
                cases.append({'scope': sc, 'bind': bind, 'env': env, 'text': t, 'x': True, 'direct': direct, 'six': six})
            continue
        texts = [gen_text(rng, sc) for _ in range(ctx.pick(5, 8))]
        if len(sc) == 3 and sc[0] == ['a'] and len(sc[2]) == 3:
            s = sc[2][1]
            texts += ['a%sb' % s, 'a %s b' % s, 'a %sb' % s, 'a%s b' % s, 'a%sb%sa' % (s, s), 'b %s a' % s, 'a  %s\tb - a' % s]
        if sc[:2] == [['a'], ['b']] and len(sc) == 2:
            texts += ['a%sb' % s for s in SYMS] + ['a %s b' % s for s in SYMS]
            # U+1680, U+180E, U+FEFF are white space (C10_char_classes): they end the word like a blank (the original lexer went on with the word)
            texts += ['a\u1680b', 'a\u180eb', 'a\ufeffb', 'a \u1680b', 'a+\ufeffb']
        for t in texts:
            cases.append({'scope': sc, 'bind': bind, 'env': env, 'text': t, 'six': six})
    # the witnesses of C10_longest_written_gap_rule_orig_refuted / _word_rule_orig_refuted / C10_reading_nonvacuous against the real parser: the
    # tokens stated in coq/Props/C10.v for the repaired lexer (lex_all) are the tokens of the model on this run and the leaves of the real parser
    # (the tokens stated there for lex_all_chars_orig are what the parser gave before the repair: a seeded revert is caught here first)
    for sc, t, toks in (
            ([['a'], ['b'], ['a', 'b']], 'a\u1680b', [('name', 'a b')]),
            ([['a'], ['b'], ['a', '+', 'b']], 'a+\u1680 b', [('name', 'a+b')]),
            ([['a'], ['b'], ['a', '+', 'b']], 'a+ \u1680b', [('name', 'a+b')]),
            ([['a'], ['a', '\u180eb']], 'a \u180eb', [('name', 'a'), ('name', 'b')]),
            ([['a'], ['b'], ['a', 'b']], 'a\u1680 b', [('name', 'a b')]),
            ([['a'], ['b'], ['a', 'b']], 'a\u180eb', [('name', 'a b')]),
            ([['a'], ['b'], ['a', '+', 'b']], 'a+\ufeffb', [('name', 'a+b')])):
        scopes.append(sc)
        cases.append({'scope': sc, 'bind': [[p, VALUES[i % len(VALUES)]] for i, p in enumerate(sc)], 'env': {name_new(p): VALUES[i % len(VALUES)] for i, p in enumerate(sc)},
                      'text': t, 'x': True, 'direct': None, 'six': len(scopes) - 1, 'tokens': toks})
    # names handed over as one text: From<&str> for Name trims the text and nothing else
    str_names = [' a', 'a b\u1680', '\u00a0a  b\u3000', '\ufeffa', 'a\u180e', '\u200ba b', ' a + b ', '\t\u2003x1\n', 'a\u1680b', '\u1680', ' \u0085Total\u2028']
    str_cases = [{'bind': [[t, 5], [['zz'], 1]], 'e': 'zz', 'mode': 'expr', 'eval': True} for t in str_names]
    impl_all = ctx.run_impl('ast', [{'bind': c['bind'], 'e': c['text'], 'mode': 'expr', 'eval': True} for c in cases] + str_cases +
                            [{'bind': c['bind'], 'e': ''.join(' ' if ch in AMBIG else ch for ch in c['text']), 'mode': 'expr', 'eval': True} for c in cases if c.get('x')])
    impl = impl_all[:len(cases)]
    impl_str = impl_all[len(cases):len(cases) + len(str_cases)]
    for c, gb in zip([c for c in cases if c.get('x')], impl_all[len(cases) + len(str_cases):]):
        c['blank'] = gb
    terms = []
    for c, g in zip(cases, impl):
        keys = g.get('keys', [])
        c['keys'] = keys
        terms.append('lex_all [%s] %s' % ('; '.join(coq_str(k) for k in keys), coq_str(c['text'])))
    # Name::new of the model on the part lists of the bound names (every scope with white space in its parts, a sample of the others)
    name_scopes = [six for six in range(len(scopes)) if six >= n_plain or six % 5 == 0]
    name_terms = ['map name_new [%s]' % '; '.join('[%s]' % '; '.join(coq_str(q) for q in p) for p in scopes[six]) for six in name_scopes]
    name_terms += ['map name_of_text [%s]' % '; '.join(coq_str(t) for t in str_names)]
    model_all = ctx.run_model(HEADER, terms + name_terms, shard_size=max(120, (len(terms) + len(name_terms) + 15) // 16))
    model = model_all[:len(terms)]
    model_names = {six: sorted(''.join(chr(ch) for ch in n) for n in ns) for six, ns in zip(name_scopes, model_all[len(terms):-1])}
    keys_of_scope = {}
    for c in cases:
        keys_of_scope.setdefault(c['six'], sorted(c['keys']))
    kinds = {'one-name': 0, 'operators': 0, 'rejected': 0, 'unbound': 0, 'white-space-cases': 0, 'written-names': 0, 'same-as-blanks': 0, 'other-reading-differs': 0,
             'name-new-scopes': 0, 'trimmed-parts': 0, 'comment-or-exponent': 0}
    for six in name_scopes:
        ctx.evaluations += 1
        ctx.corr_checked += 1
        kinds['name-new-scopes'] += 1
        kinds['trimmed-parts'] += sum(1 for p in scopes[six] for q in p if rust_trim(q) != q)
        if six in keys_of_scope and model_names[six] != keys_of_scope[six]:
            ctx.corr_broken('Name::new', {'bound': scopes[six]}, keys_of_scope[six], model_names[six])
    for t, g, m in zip(str_names, impl_str, model_all[-1]):
        ctx.evaluations += 1
        ctx.corr_checked += 1
        mk = ''.join(chr(ch) for ch in m)
        if sorted(g.get('keys', [])) != sorted([mk, 'zz']) or mk != rust_trim(t):
            ctx.corr_broken('Name::from(&str)', {'name': t}, g.get('keys'), mk)
    # white space is white space, on the implementation's own output (no model involved): a text means what the same text with blanks in the
    # place of U+1680 / U+180E / U+FEFF means -- same tree, same value, same kind of error (fixed in /repo: was 1180 of 2232 texts)
    for c, g in zip(cases, impl):
        if not (c.get('x') and any(ch in c['text'] for ch in AMBIG)) or 'panic' in g or 'crash' in g:
            continue
        gb = c['blank']
        if (gb.get('v'), gb.get('err'), gb.get('ast')) != (g.get('v'), g.get('err'), g.get('ast')):
            kinds['other-reading-differs'] += 1
            c['differs'] = True
            if kinds['other-reading-differs'] <= 10:
                show = ''.join('<U+%04X>' % ord(ch) if ch in AMBIG else ch for ch in c['text'])
                ctx.violation('`%s` with %s bound gives %s, the same text with blanks in the place of the code points gives %s: white space read as a name character'
                              % (show, sorted(c['env']), json.dumps(g.get('v', g.get('err'))), json.dumps(gb.get('v', gb.get('err')))),
                              {'text': c['text'], 'bound': c['scope'], 'blank': True}, impl=g, model=gb)
        else:
            kinds['same-as-blanks'] += 1
    good_texts = []
    for c, g, m in zip(cases, impl, model):
        ctx.evaluations += 1
        ctx.corr_checked += 1
        if 'panic' in g or 'crash' in g:
            ctx.violation('the parser panicked on `%s` with the names %s bound' % (c['text'], sorted(c['env'])), {'text': c['text'], 'bound': c['scope']}, impl=g)
            continue
        want_keys = sorted(c['env'])
        if sorted(c['keys']) != want_keys:
            ctx.violation('scope keys %s differ from the bound names %s' % (c['keys'], want_keys), {'text': c['text'], 'bound': c['scope']}, impl=g)
            continue
        mt = model_tokens(m)
        ast = g.get('ast')
        lv = leaves(ast) if ast is not None else None
        if c.get('differs'):
            continue
        # the property itself, on the implementation's own output: longest bound name at every name position
        if mt is None:
            continue
        if any(a[0] == 'sym' and b[0] == 'sym' and a[1] + b[1] in ('/*', '//', '**') for a, b in zip(mt, mt[1:])):
            # two operator characters left over behind a name: a comment or the exponent operator for the real lexer (layout and operators are C06)
            kinds['comment-or-exponent'] += 1
            continue
        ctx.nontrivial.add((tuple(want_keys), c['text']))
        if c.get('tokens') is not None and mt != c['tokens']:
            ctx.corr_broken('witness of coq/Props/C10.v', {'text': c['text'], 'bound': c['scope']}, lv, mt)
        if c.get('direct') is not None:
            # the Spec on a name written in the text (C10_longest_written): it is that name, whatever white space stands in its gaps
            kinds['written-names'] += 1
            if mt != [('name', c['direct'])]:
                ctx.violation('the bound name `%s` written as `%s` is read as %s' % (c['direct'], c['text'], mt),
                              {'text': c['text'], 'bound': c['scope'], 'written': c['direct']}, impl=g, model=mt)
                continue
        if ast is None:
            kinds['rejected'] += 1
            if well_formed(mt):
                ctx.violation('`%s` with %s bound is rejected; longest match gives the tokens %s' % (c['text'], want_keys, mt),
                              {'text': c['text'], 'bound': c['scope']}, impl=g, model=mt)
            continue
        if lv != mt:
            ctx.violation('`%s` with %s bound: the parser read %s, longest match gives %s' % (c['text'], want_keys, lv, mt),
                          {'text': c['text'], 'bound': c['scope']}, impl=g, model=mt)
            continue
        if c.get('x'):
            kinds['white-space-cases'] += 1
        kinds['one-name' if len(mt) == 1 else 'operators'] += 1
        ev = value_of(mt, c['env'])
        if ev is not None:
            got = impl_number(g.get('v'))
            if ev == 'null':
                kinds['unbound'] += 1
            if got != ev:
                ctx.violation('`%s` with %s evaluates to %s, the bound values give %s' % (c['text'], c['env'], got, ev),
                              {'text': c['text'], 'bound': c['scope'], 'values': c['env']}, impl=g, model=ev)
                continue
            if isinstance(ev, int) and 0 <= ev <= 99999999999999 and len(good_texts) < ctx.pick(120, 2000) and rng.random() < 0.3:
                good_texts.append((c, ev, len(mt) == 1))
        if len(ctx.samples) < 5 and len(mt) > 1 and any(' ' in t or any(s in t for s in SYMS) for k, t in mt if k == 'name'):
            ctx.sample({'bound': want_keys, 'text': c['text'], 'tokens': mt, 'value': g.get('v')})
    # every expression position
    pos_cases = []
    for c, ev, single in good_texts:
        star = any(rust_trim(q) == '*' for parts in c['scope'] for q in parts)
        dot = any(rust_trim(q) == '.' for parts in c['scope'] for q in parts)
        for e, want in positions(rng, c['text'], ev, single, star, dot):
            pos_cases.append({'bind': c['bind'], 'e': e, 'want': want, 'what': 'position', 'bound': c['scope']})
    for e, want, what in binder_cases(rng):
        pos_cases.append({'bind': [], 'e': e, 'want': want, 'what': what, 'bound': []})
    # the same with the introduced name ALSO bound outside, to another value: the innermost binding wins (seeded change C10_f: the scope was
    # searched from the outermost context)
    for _ in range(4):
        p = gen_name(rng)
        if any(w in ('in', 'item') for w in p):
            continue
        s1 = spell(rng, p)
        outer = [[p, 1000], [['zz'], 1]]
        for e, want, what in (('{%s: 5, r: %s + 1}.r' % (s1, s1), 6, 'context entry hides an outer binding'),
                              ('{f: function(%s) %s + 1, r: f(5)}.r' % (s1, s1), 6, 'formal parameter hides an outer binding'),
                              ('for %s in [5] return %s + 1' % (s1, s1), [6], 'iteration variable hides an outer binding'),
                              ('some %s in [5] satisfies %s = 5' % (s1, s1), True, 'quantified variable hides an outer binding'),
                              ('(for %s in [5] return %s + 1)[1] + %s' % (s1, s1, s1), 1006, 'outer binding visible again behind the binder'),
                              ('%s + zz' % s1, 1001, 'outer binding')):
            pos_cases.append({'bind': outer, 'e': e, 'want': want, 'what': what, 'bound': [p, ['zz']]})
    # an iteration variable whose name is an operator-joined combination of names bound outside: inside the binder the text is the variable, BEHIND the
    # binder (its context popped) the same characters are arithmetic on the outer names again (seeded change C10_h: the set of bound names the lexer
    # asks for was cached and survived the pop)
    for sym, outer_v in (('-', 9), ('+', 15), ('/', 4)):
        t = 'a%sb' % sym
        ab = [[['a'], 12], [['b'], 3]]
        for e, want in (('sum(for %s in [1,2] return %s*10) + %s' % (t, t, t), 30 + outer_v),
                        ('(for %s in [5] return %s + 1)[1] + %s' % (t, t, t), 6 + outer_v),
                        ('if (some %s in [1,2] satisfies %s > 1) then %s else 0' % (t, t, t), outer_v),
                        ('if (every %s in [1,2] satisfies %s > 0) then %s else 0' % (t, t, t), outer_v),
                        ('[%s, sum(for %s in [1,2] return %s), %s]' % (t, t, t, t), [outer_v, 3, outer_v])):
            pos_cases.append({'bind': ab, 'e': e, 'want': want, 'what': 'operator-joined iteration variable, the same text behind the binder', 'bound': [['a'], ['b']]})
    # names that differ only in the case of their letters are different names, each with its own value - in the scope, in a context literal, as formal
    # parameters and as iteration variables (seeded change C10_j: the ordering of names, which keys the map of a context, ignored case)
    for lo, up in ((['rate'], ['Rate']), (['net', 'income'], ['Net', 'income']), (['\u017c\u00f3\u0142w'], ['\u017b\u00f3\u0142w']), (['a', '-', 'b'], ['A', '-', 'b'])):
        tl, tu = name_new(lo), name_new(up)
        both = [[lo, 2], [up, 10], [['zz'], 1]]
        for e, want in ((tu, 10), (tl, 2), ('%s * 10 + %s' % (tu, tl), 102), ('(%s) - (%s)' % (tu, tl), 8), ('[%s, %s]' % (tl, tu), [2, 10]), ('if %s > %s then zz else 0' % (tu, tl), 1)):
            pos_cases.append({'bind': both, 'e': e, 'want': want, 'what': 'names differing only in letter case', 'bound': [lo, up, ['zz']]})
        pos_cases.append({'bind': [[['zz'], 1]], 'e': '{%s: 7, %s: 8, r: %s * 10 + %s}.r' % (tu, tl, tu, tl), 'want': 78, 'what': 'context entries differing only in letter case', 'bound': [['zz']]})
        pos_cases.append({'bind': [[['zz'], 1]], 'e': '(function(%s, %s) %s * 10 + %s)(4, 3)' % (tu, tl, tu, tl), 'want': 43, 'what': 'formal parameters differing only in letter case', 'bound': [['zz']]})
        pos_cases.append({'bind': [[['zz'], 1]], 'e': 'for %s in [4], %s in [3] return %s * 10 + %s' % (tu, tl, tu, tl), 'want': [43], 'what': 'iteration variables differing only in letter case', 'bound': [['zz']]})
    # bound names that are exactly the words with which temporal literals begin (date, time, duration are names, not keywords): as operands, arguments,
    # list items, in if / for / filter, as iteration variables and typed parameters (seeded change C10_k: a bound name fell through the tweaks meant for
    # unbound names and came out as the head of a temporal literal)
    tb = [[['date'], 5], [['time'], 7], [['duration'], 9], [['zz'], 1]]
    for e, want in (('date + 1', 6), ('time * 2', 14), ('duration - zz', 8), ('[date, time, duration]', [5, 7, 9]), ('if date > zz then time else duration', 7), ('sum([date, time])', 12),
                    ('for i in [1, 2] return i + date', [6, 7]), ('[1, 2, 3][item = zz + zz + date - date]', 2), ('max(date, time, duration)', 9), ('date in [1..9]', True),
                    ('{r: time + 1}.r', 8), ('(function(q) q + duration)(1)', 10), ('for date in [3] return date + 1', [4]), ('some time in [1, 2] satisfies time > 1', True)):
        pos_cases.append({'bind': tb, 'e': e, 'want': want, 'what': 'bound name spelled like the head of a temporal literal', 'bound': [['date'], ['time'], ['duration'], ['zz']]})
    # the keyword `in` as the first part of an iteration variable: no variable name before it, the text is an ordinary name (fixed 83bd59b: was a panic)
    for text in ('for in+x in [1] return 1', 'some in-x in [1] satisfies true', 'every in.a in [1] satisfies true'):
        pos_cases.append({'bind': [[['zz'], 1]], 'e': text, 'want': 'parse', 'what': 'in as first part', 'bound': [['zz']]})
    # listed findings: the witnesses run on every run
    for parts, text in ((['a', '+', '-', 'b'], 'a+-b + 0'), (['a', '+', '-', 'b'], 'a + - b - 0'), (['a', '.', '.', 'b'], 'a..b + 0'), (['Total', '+'], 'Total+ + 1 - 1'), (['Total', '+'], 'Total+ * 1')):
        pos_cases.append({'bind': [[parts, 41], [['zz'], 1]], 'e': text, 'want': 41, 'what': 'symbols in a row', 'bound': [parts, ['zz']]})
    for text, want in (('({vc: 4}).vc * 2', 8), ('{p: {vc: 4}}.p.vc - 1', 3), ('[{vc: 4}][1].vc + 1', 5), ('({vc: 4}).vc', 4), ('({vc: 4}).vc*2', 8)):
        pos_cases.append({'bind': [[['zz'], 1]], 'e': text, 'want': want, 'what': 'member after dot', 'bound': [['zz']], 'known': 'member-name-not-in-scope'})
    # path heads bound to a context, to a list of contexts and to a list of lists of contexts (the scope's flattened keys qualify the members of a
    # bound context; for a list value they must not invent a bound name `head.member`; seeded change C10_d), one- and several-word names
    cx = lambda **kv: {'ctx': [[k.split(' '), v] for k, v in kv.items()]}
    for head, member in ((['orders'], 'amount'), (['order', 'lines'], 'unit price'), (['a', '-', 'b'], 'c')):
        lst_v = {'list': [cx(**{member: 5}), cx(**{member: 7})]}
        ctx_v = cx(**{member: 5})
        ht = name_new(head)
        for sp in ('.', ' . ', '. '):
            for bound_v, want, what in ((lst_v, [5, 7], 'path head bound to a list of contexts'), (ctx_v, 5, 'path head bound to a context'),
                                        ({'list': [lst_v]}, None, 'path head bound to a list of lists')):
                if want is None:
                    continue
                pos_cases.append({'bind': [[head, bound_v], [['zz'], 1]], 'e': '%s%s%s' % (ht, sp, member), 'want': want, 'what': what, 'bound': [head, ['zz']]})
            pos_cases.append({'bind': [[head, lst_v], [['zz'], 1]], 'e': 'sum(%s%s%s) + zz' % (ht, sp, member), 'want': 13, 'what': 'path head bound to a list of contexts', 'bound': [head, ['zz']]})
            pos_cases.append({'bind': [[head, lst_v], [['zz'], 1]], 'e': 'count(%s[%s > 4]%s%s)' % (ht, member, sp, member), 'want': 2, 'what': 'path head bound to a list of contexts', 'bound': [head, ['zz']]})
    # a context entry whose key (a string) is an operator-joined combination of bound names and whose own value is that same text as arithmetic:
    # the entry's name is bound for the entries that FOLLOW it, not inside its own value (seeded change C10_e: the key entered the parsing
    # scope as soon as it was read)
    for sym, val in (('-', 40), ('+', 42), ('*', 41), ('/', 41)):
        t = 'a%sb' % sym
        bnd = [[['a'], 41], [['b'], 1]]
        pos_cases.append({'bind': bnd, 'e': 'get value({"%s": %s}, "%s")' % (t, t, t), 'want': val, 'what': 'entry name inside its own value', 'bound': [['a'], ['b']]})
        pos_cases.append({'bind': bnd, 'e': '{"%s": %s, c: a %s b}.c' % (t, t, sym), 'want': val, 'what': 'entry name inside its own value', 'bound': [['a'], ['b']]})
        pos_cases.append({'bind': bnd, 'e': '{"%s": %s + 0, c: %s}.c' % (t, t, t), 'want': val, 'what': 'entry name inside its own value', 'bound': [['a'], ['b']]})
    pimpl = ctx.run_impl('ast', [{'bind': c['bind'], 'e': c['e'], 'mode': 'expr', 'eval': True} for c in pos_cases])
    pk = {}
    for c, g in zip(pos_cases, pimpl):
        ctx.evaluations += 1
        pk[c['what']] = pk.get(c['what'], 0) + 1
        got = canon_v(g.get('v')) if 'v' in g else g.get('err', g)
        # a listed finding excuses exactly its own symptom (the longer made-up name is unbound: the value is null), never a panic or an error
        if got != c['want'] and c.get('known') and 'v' in g and got in (None, 'null') and ctx.known(c['known'], c):
            continue
        if got != c['want']:
            ctx.violation('`%s` (%s) with %s bound gives %s, expected %s' % (c['e'], c['what'], [name_new(p) for p in c['bound']], got, c['want']),
                          {'text': c['e'], 'bound': c['bound'], 'expected': c['want']}, impl=g)
    return ctx.finish(
        rule='scopes of 2..6 bound names (1..4 words, additional symbols, prefixes and operator-joined combinations of other bound names; every symbol with '
             'a / b / a<sym>b systematically); texts spell the names with 0..2 spaces or tabs around symbols and between words and join them with + - *; '
             'scopes whose parts carry U+1680 / U+180E / U+FEFF inside, in front or behind, padded with White_Space (blank, tab, U+00A0, U+1680, U+2003, U+3000, U+2028, '
             'U+0085) or with U+200B / U+180E / U+FEFF, with empty and all-white parts; texts with these characters in the gaps, next to the operators, in front (byte order mark) and behind, '
             'every one of 11 such characters in 17 fixed places of a / b / a+b / a b; every writable bound name written with any white space in its gaps (written-names); '
             'Name::new and From<&str> of the model against the scope keys of the implementation (name-new-scopes); the witnesses of the _refuted theorems; '
             'then each resolved text in 18 expression positions and names introduced by context entries, parameters, iteration variables; non-trivial = distinct (scope, text); '
             'same-as-blanks = texts with U+1680 / U+180E / U+FEFF that give the tree, value or error of the same text with blanks in their place; other-reading-differs = those that do not '
             '(each one a VIOLATION; 0 since the repair of is_name_start_char, see NOTES-C10.md)',
        extra_cov={'outcomes': kinds, 'positions': pk},
        assumptions=['names are bound through Name::new on part lists (normal form); words are not FEEL keywords or literals',
                     'token order is read off the AST leaves in order (tree shape itself is C06)',
                     'white space is what is_whitespace of lexer.rs says (30 code points, U+1680 / U+180E / U+FEFF among them); is_name_start of the model = the ranges of grammar rule 28 less these'],
        trusted=['harness sub-command dv ast (scope built programmatically, flattened keys reported)'])


def replay(ctx, path):
    obj = json.load(open(path))
    c = obj['case']
    ctx.build_harness()
    bind = [[p, VALUES[i % len(VALUES)]] for i, p in enumerate(c.get('bound', []))]
    g = ctx.run_impl('ast', [{'bind': bind, 'e': c['text'], 'mode': 'expr', 'eval': True}])[0]
    print('bound names:', [name_new(p) for p in c.get('bound', [])])
    print('input      :', json.dumps(c['text']))
    print('parser     :', json.dumps(g))
    m = ctx.run_model(HEADER, ['lex_all [%s] %s' % ('; '.join(coq_str(k) for k in g.get('keys', [])), coq_str(c['text']))])[0]
    mt = model_tokens(m)
    print('model      :', mt)
    if c.get('blank'):
        gb = ctx.run_impl('ast', [{'bind': bind, 'e': ''.join(' ' if ch in AMBIG else ch for ch in c['text']), 'mode': 'expr', 'eval': True}])[0]
        print('with blanks:', json.dumps(gb))
        fail = (gb.get('v'), gb.get('err'), gb.get('ast')) != (g.get('v'), g.get('err'), g.get('ast'))
    elif 'written' in c:
        fail = mt != [('name', c['written'])] or g.get('ast') is None or leaves(g['ast']) != mt
    elif 'expected' in c:
        got = canon_v(g.get('v')) if 'v' in g else g.get('err', g)
        fail = got != c['expected']
    else:
        ast = g.get('ast')
        fail = (ast is None and mt is not None and well_formed(mt)) or (ast is not None and leaves(ast) != mt) or \
               (ast is not None and mt is not None and value_of(mt, c.get('values', {})) not in (None, impl_number(g.get('v'))))
    print('REPRODUCED' if fail else 'not reproduced')
    return 1 if fail else 0


MANIFEST = dict(
    technique='Coq proof (longest-prefix loop of the name lexer, layout invariant of the part collector and uniqueness of the reading, for all key sets and inputs; normaliser agreement; the trim of Name::new) with lexer/model correspondence',
    text='coq/Props/C10.v: for every set of scope keys and every input the modelled name lexer returns the longest bound prefix of the collected name parts and resumes right after it (else the whole candidate), for both values of the for/some/every flag with the `item` and `in` tweaks characterised exactly (C10_lex_name_cases); for every input the collected parts are non-empty, do not overlap, are separated by white space only, and consumed text ++ rest = input after any chosen prefix, so no character is lost or read twice (C10_parts_disjoint, C10_gaps_whitespace, C10_backtrack_no_loss, C10_lex_name_no_loss); every part is a maximal word or one additional symbol (C10_collect_shape). Longest match on the text, for EVERY input: no white space character is a name character (C10_char_classes: is_name_start_char = the ranges of the grammar less is_whitespace, repaired in /repo; U+1680, U+180E, U+FEFF were both), the collected parts and gaps are a `reading` of the input (C10_collect_reading: gaps are white space, parts are words = runs of name characters or single additional symbols, a non-empty gap between two words, no name character directly behind a word), a reading is unique, so any bound name written at the position with any white space in its gaps is a prefix of the collected parts and no bound name written there is longer than the token (C10_longest_written: no hypothesis on the characters of the input, no caveat on how a character is read; C10_canon_reading: the rule is the one of the earlier rounds); with the character classes of the code before the repair it failed (C10_longest_written_gap_rule_orig_refuted: `a<U+1680>b` with `a b` bound was an unbound name, `a+<U+1680> b` with `a+b` bound was a + b; C10_longest_written_word_rule_orig_refuted, C10_overlap_reading_orig_refuted; the texts run against the real parser on every run and every generated text with one of the three code points must give the tree, value or error of the same text with blanks in their place). name_new of the model is Name::new with its str::trim of every part (Unicode White_Space, not the white space of the lexer: C10_white_space_classes); C10_name_new_trim, C10_trim_collected: on the parts the collector returns the trim is the identity, for every input; coq/C06/Lexer.v uses this name_new. The two name normalisers are compared. The model (part-collecting state machine, position bookkeeping, back-tracking, Name::new, From<&str>) is tied to lexer.rs / names.rs by comparing token streams, scope keys and evaluated values on generated scopes and spellings with every kind of white space in the names and in the texts, then the resolved names are placed in every expression position and introduced by binders.',
    note='Trusted: Coq kernel + vm_compute, hand-written model of consume_name / Name::new / flatten_name_parts (correspondence-checked), harness dv ast, arithmetic oracle over the bound integers. The three code points U+1680, U+180E, U+FEFF are name characters and white space in the grammar of the standard; in lexer.rs they are white space only (fixed: is_name_start_char excludes is_whitespace), and the check asserts that reading.')
