(* C18 — TCK round trip with the concrete type names and leaf readers: the premises of tck_roundtrip discharged for
   strings, numbers in plain notation and booleans; temporal leaves keep their text. *)
From Coq Require Import List NArith Bool Lia.
From DV Require Import C18.Model C18.Proofs C18.Service C18.Dto C18.ProofsDto C18.Wire.
Import ListNotations.
Open Scope N_scope.

Lemma read_decimal_render : forall n, wf_num n = true -> read_decimal (render_num n) = Some (VNum n).
Proof.
  intros n H. unfold read_decimal. pose proof (parse_number_render n [] H eq_refl) as E. rewrite app_nil_r in E. rewrite E.
  destruct n; reflexivity.
Qed.

Lemma leaf_reads_back : forall v ty tx, leaf v = true -> leaf_ok v = true ->
  to_dto tyname0 v = DSimple (Some ty) (Some tx) false -> parse_simple0 ty tx = Some v.
Proof.
  intros v ty tx Hl Hok E. destruct v as [|b|n|s|l|es|k d]; try discriminate.
  - cbn [to_dto] in E. injection E as E1 E2. subst ty tx. destruct b; reflexivity.
  - cbn [to_dto] in E. injection E as E1 E2. subst ty tx. cbn [leaf_ok] in Hok.
    change (parse_simple0 (tyname0 2) (render_num n)) with (read_decimal (render_num n)). apply read_decimal_render. exact Hok.
  - cbn [to_dto] in E. injection E as E1 E2. subst ty tx. reflexivity.
  - cbn [to_dto] in E. unfold xsd_of_kind in E. cbn [leaf_ok] in Hok.
    destruct (k =? 1) eqn:K1; [injection E as E1 E2; subst ty tx; apply N.eqb_eq in K1; subst k; reflexivity|].
    destruct (k =? 2) eqn:K2; [injection E as E1 E2; subst ty tx; apply N.eqb_eq in K2; subst k; reflexivity|].
    destruct (k =? 3) eqn:K3; [injection E as E1 E2; subst ty tx; apply N.eqb_eq in K3; subst k; reflexivity|].
    destruct (k =? 4) eqn:K4.
    { injection E as E1 E2. subst ty tx. apply N.eqb_eq in K4. subst k. apply negb_true_iff in Hok.
      change (parse_simple0 (tyname0 7) d) with (Some (VOther (if is_dt d then 5 else 4) d)). rewrite Hok. reflexivity. }
    destruct (k =? 5) eqn:K5; [|discriminate].
    injection E as E1 E2. subst ty tx. apply N.eqb_eq in K5. subst k.
    change (parse_simple0 (tyname0 7) d) with (Some (VOther (if is_dt d then 5 else 4) d)). rewrite Hok. reflexivity.
Qed.

(* typed values sent in TCK format and received back are unchanged: concrete type names, readers and names *)
Theorem tck_roundtrip0 : forall v, tck_value v = true -> ok (fun x => leaf_ok x = true) (fun _ => True) v ->
  from_dto0 (to_dto0 v) = Some v.
Proof.
  intros v Ht Hok. unfold from_dto0, to_dto0.
  apply (tck_roundtrip tyname0 parse_simple0 parse_name0 (fun x => leaf_ok x = true) (fun _ => True)).
  - intros x ty tx Hx E. destruct x as [|b|n|s|l|es|k d]; try (cbn [to_dto] in E; discriminate).
    + apply leaf_reads_back; [reflexivity|exact Hx|exact E].
    + apply leaf_reads_back; [reflexivity|exact Hx|exact E].
    + apply leaf_reads_back; [reflexivity|exact Hx|exact E].
    + apply leaf_reads_back; [reflexivity|exact Hx|exact E].
  - intros k _. reflexivity.
  - exact Ht.
  - exact Hok.
Qed.

Example tck_wire_nonvacuous :
  let v := VCtx [([97], VList [VNum {| nneg := true; nint := [1; 0]; nfrac := [5; 0] |}; VStr [34; 92; 10]; VNull; VBool false]);
                 ([98; 32; 98], VOther 5 [80; 84; 49; 83])] in
  from_dto0 (to_dto0 v) = Some v /\ json_decode (tck_body v) <> None.
Proof. vm_compute. split; [reflexivity|discriminate]. Qed.
