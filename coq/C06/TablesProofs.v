(* C06 — finite theorems on the regenerated LALR tables (re-checked against feel-parser/src/lalr.rs on every run):
   on every ordered pair and triple of operators the tables build the tree the Spec parser dictates.
   Owner: builder-parse. *)
From Coq Require Import List NArith ZArith Bool Arith.
From DV Require Import C06.Model C06.Lr.
Import ListNotations.

Lemma binop_eqb_eq : forall a b, binop_eqb a b = true -> a = b.
Proof. destruct a, b; simpl; intro H; try reflexivity; discriminate H. Qed.

Lemma tree_eqb_eq : forall a b, tree_eqb a b = true -> a = b.
Proof.
  induction a as [x|o l IHl r IHr|x IHx|x IHx lo IHlo hi IHhi|x IHx ty|x IHx n|x IHx i IHi|f IHf x IHx];
    destruct b; simpl; intro H; try discriminate H;
    repeat match goal with
           | H : _ && _ = true |- _ => apply andb_true_iff in H; destruct H
           end;
    repeat match goal with
           | H : N.eqb _ _ = true |- _ => apply N.eqb_eq in H; subst
           | H : binop_eqb _ _ = true |- _ => apply binop_eqb_eq in H; subst
           end;
    f_equal; auto.
Qed.

Lemma otree_eqb_eq : forall a b, otree_eqb a b = true -> a = b.
Proof.
  destruct a, b; simpl; intro H; try discriminate H; try reflexivity.
  f_equal. apply tree_eqb_eq; exact H.
Qed.

Lemma all_items_complete : forall i : item, In i all_items.
Proof.
  destruct i as [o neg|neg| | | |]; try destruct o; try destruct neg; vm_compute; tauto.
Qed.

Lemma pairs_agree_true : pairs_agree = true.
Proof. vm_compute. reflexivity. Qed.

Lemma triples_agree_true : triples_agree = true.
Proof. vm_compute. reflexivity. Qed.

(* bound: chains  [-] a  op1 [-] b  op2 [-] c  over the 34 operator items (14 binary operators and `between .. and`,
   each followed by a plain or negated operand; instance of, path, filter, invocation), 2 * 34^2 token lists *)
Lemma tables_pairs : forall (n : bool) (i j : item),
  tables_tree (chain n [i; j]) = parse_tokens (chain n [i; j]).
Proof.
  intros n i j. apply otree_eqb_eq.
  pose proof pairs_agree_true as H. unfold pairs_agree in H.
  rewrite forallb_forall in H. assert (Hn : In n [false; true]) by (destruct n; simpl; tauto).
  specialize (H n Hn). rewrite forallb_forall in H. specialize (H i (all_items_complete i)).
  rewrite forallb_forall in H. exact (H j (all_items_complete j)).
Qed.

(* bound: 2 * 34^3 token lists *)
Lemma tables_triples : forall (n : bool) (i j k : item),
  tables_tree (chain n [i; j; k]) = parse_tokens (chain n [i; j; k]).
Proof.
  intros n i j k. apply otree_eqb_eq.
  pose proof triples_agree_true as H. unfold triples_agree in H.
  rewrite forallb_forall in H. assert (Hn : In n [false; true]) by (destruct n; simpl; tauto).
  specialize (H n Hn). rewrite forallb_forall in H. specialize (H i (all_items_complete i)).
  rewrite forallb_forall in H. specialize (H j (all_items_complete j)).
  rewrite forallb_forall in H. exact (H k (all_items_complete k)).
Qed.
