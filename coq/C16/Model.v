(* C16 — executable model of feel/src/types.rs (is_equivalent, is_conformant, coerced) and of
   Value::type_of (feel/src/values.rs).  The two relations are transliterated with their early
   returns; is_conformant swaps its arguments on function parameters, so both are defined with
   fuel and used saturated (fuel = size a + size b).  No proofs in this file. *)
From Coq Require Import List NArith Bool Arith.
Import ListNotations.

(* the ten simple types *)
Inductive simple := SAny | SNull | SNumber | SString | SBoolean | SDate | STime | SDateTime | SDtd | SYmd.

Inductive ftype :=
| TS (s : simple)
| TList (t : ftype)
| TRange (t : ftype)
| TCtx (es : list (N * ftype))          (* BTreeMap<Name, FeelType>: keys unique *)
| TFun (ps : list ftype) (r : ftype).

Definition simple_eqb (a b : simple) : bool :=
  match a, b with
  | SAny, SAny | SNull, SNull | SNumber, SNumber | SString, SString | SBoolean, SBoolean
  | SDate, SDate | STime, STime | SDateTime, SDateTime | SDtd, SDtd | SYmd, SYmd => true
  | _, _ => false end.

Fixpoint size (t : ftype) : nat :=
  match t with
  | TS _ => 1
  | TList t | TRange t => S (size t)
  | TCtx es => S (fold_right (fun e n => size (snd e) + n) 0 es)
  | TFun ps r => S (size r + fold_right (fun p n => size p + n) 0 ps)
  end.

Fixpoint lookup (k : N) (es : list (N * ftype)) : option ftype :=
  match es with [] => None | (k', t) :: r => if N.eqb k k' then Some t else lookup k r end.

(* loop over `a.iter().enumerate()` indexing b[i]; lengths have been compared by the caller *)
Fixpoint all2 (f : ftype -> ftype -> bool) (a b : list ftype) : bool :=
  match a, b with
  | [], _ => true
  | x :: a', y :: b' => f x y && all2 f a' b'
  | _ :: _, [] => false
  end.

(* self.is_equivalent(other) *)
Fixpoint equiv (fuel : nat) (a b : ftype) : bool :=
  match fuel with O => false | S f =>
  match b, a with
  | TS sb, TS sa => simple_eqb sa sb
  | TList tb, TList ta => equiv f ta tb
  | TRange tb, TRange ta => equiv f ta tb
  | TCtx eb, TCtx ea =>
      Nat.eqb (length ea) (length eb) &&
      forallb (fun e => match lookup (fst e) eb with Some tb => equiv f (snd e) tb | None => false end) ea
  | TFun pb rb, TFun pa ra =>
      Nat.eqb (length pa) (length pb) && all2 (equiv f) pa pb && equiv f ra rb
  | _, _ => false
  end end.

(* the version at the pinned commit: the result types are compared inside the parameter loop *)
Fixpoint equiv_orig (fuel : nat) (a b : ftype) : bool :=
  match fuel with O => false | S f =>
  match b, a with
  | TS sb, TS sa => simple_eqb sa sb
  | TList tb, TList ta => equiv_orig f ta tb
  | TRange tb, TRange ta => equiv_orig f ta tb
  | TCtx eb, TCtx ea =>
      Nat.eqb (length ea) (length eb) &&
      forallb (fun e => match lookup (fst e) eb with Some tb => equiv_orig f (snd e) tb | None => false end) ea
  | TFun pb rb, TFun pa ra =>
      Nat.eqb (length pa) (length pb) && all2 (fun x y => equiv_orig f x y && equiv_orig f ra rb) pa pb
  | _, _ => false
  end end.

(* self.is_conformant(other) *)
Fixpoint conf (fuel : nat) (a b : ftype) : bool :=
  match fuel with O => false | S f =>
  if equiv f a b then true else
  match a with TS SNull => true | _ =>
  match b with TS SAny => true | _ =>
  match b, a with
  | TList tb, TList ta => conf f ta tb
  | TCtx eb, TCtx ea =>
      forallb (fun e => match lookup (fst e) ea with Some ta => conf f ta (snd e) | None => false end) eb
  | TFun pb rb, TFun pa ra =>
      Nat.eqb (length pa) (length pb) && all2 (conf f) pb pa && conf f ra rb
  | TRange tb, TRange ta => conf f ta tb
  | _, _ => false
  end end end end.

Definition equivalent (a b : ftype) : bool := equiv (size a + size b) a b.
Definition conformant (a b : ftype) : bool := conf (S (size a + size b)) a b.
Definition equivalent_orig (a b : ftype) : bool := equiv_orig (size a + size b) a b.

(* derived PartialEq on FeelType (used by type_of on lists); BTreeMap equality compares the sorted entry sequences *)
Fixpoint all2e (f : ftype -> ftype -> bool) (x y : list (N * ftype)) : bool :=
  match x, y with
  | [], [] => true
  | (k, t) :: x', (k', t') :: y' => N.eqb k k' && f t t' && all2e f x' y'
  | _, _ => false end.

Fixpoint teqb (fuel : nat) (a b : ftype) : bool :=
  match fuel with O => false | S f =>
  match a, b with
  | TS sa, TS sb => simple_eqb sa sb
  | TList ta, TList tb => teqb f ta tb
  | TRange ta, TRange tb => teqb f ta tb
  | TCtx ea, TCtx eb => all2e (teqb f) ea eb
  | TFun pa ra, TFun pb rb => Nat.eqb (length pa) (length pb) && all2 (teqb f) pa pb && teqb f ra rb
  | _, _ => false
  end end.
Definition type_eqb (a b : ftype) : bool := teqb (size a + size b) a b.

(* ---------------- values and coercion ---------------- *)
Inductive value :=
| VNull
| VAtom (s : simple) (payload : N)        (* number, string, boolean, date ... with an opaque payload; s is never SAny/SNull *)
| VList (vs : list value)
| VCtx (es : list (N * value))            (* keys unique and ascending, as in BTreeMap *)
| VRange (lo hi : value)
| VFun (ps : list ftype) (r : ftype).

Fixpoint type_of (v : value) : ftype :=
  match v with
  | VNull => TS SNull
  | VAtom s _ => TS s
  | VList vs =>
      match vs with
      | [] => TList (TS SNull)
      | x :: _ =>
          let t := type_of x in
          if forallb (fun y => type_eqb (type_of y) t) vs then TList t else TList (TS SAny)
      end
  | VCtx es => TCtx (map (fun e => (fst e, type_of (snd e))) es)
  | VRange lo hi =>
      let a := type_of lo in let b := type_of hi in
      if type_eqb a b then TRange a else TRange (TS SAny)
  | VFun ps r => TFun ps r
  end.

(* FeelType::coerced after the fix: commit (unwrap is tried for every target type) *)
Definition coerced (target : ftype) (v : value) : value :=
  if conformant (type_of v) target then v else
  let wrap := match target with
              | TList item => if conformant (type_of v) item then Some (VList [v]) else None
              | _ => None end in
  match wrap with
  | Some w => w
  | None =>
      match v with
      | VList [x] => if conformant (type_of x) target then x else VNull
      | _ => VNull
      end
  end.

(* FeelType::coerced at the pinned commit: for a list target only the wrap is tried *)
Definition coerced_orig (target : ftype) (v : value) : value :=
  if conformant (type_of v) target then v else
  match target with
  | TList item => if conformant (type_of v) item then VList [v] else VNull
  | _ =>
      match v with
      | VList [x] => if conformant (type_of x) target then x else VNull
      | _ => VNull
      end
  end.
