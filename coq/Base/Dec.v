(* Base/Dec.v — finite decimal numbers (owner: builder-dec; used by C07, C02; importable by others).
   A FEEL number / decimal128 datum is a sign, a coefficient and an exponent; its value is
   (-1)^neg * coef * 10^expo.  There is no NaN and no Infinity in this type: "no evaluation ever
   produces an infinite or not-a-number value" is a type-level fact of the models and a checked
   fact of the code.  Values are compared exactly by cross-scaling to the smaller exponent
   (integers only: no rationals, no reals).  No proofs in this file (see Base/DecFacts.v). *)
From Coq Require Import ZArith NArith Bool List.
Import ListNotations.
Open Scope Z_scope.

Record dec := mkdec { neg : bool; coef : N; expo : Z }.

(* signed coefficient *)
Definition sval (d : dec) : Z := if neg d then - Z.of_N (coef d) else Z.of_N (coef d).

(* the signed coefficient rescaled to the exponent e0 <= expo d (exact) *)
Definition scaled (d : dec) (e0 : Z) : Z := sval d * 10 ^ (expo d - e0).

Definition emin2 (a b : dec) : Z := Z.min (expo a) (expo b).

(* exact comparison of the values *)
Definition dcmp (a b : dec) : comparison := Z.compare (scaled a (emin2 a b)) (scaled b (emin2 a b)).

(* value equality: 1.0 = 1.00, -0 = 0 *)
Definition veq (a b : dec) : Prop := scaled a (emin2 a b) = scaled b (emin2 a b).
Definition veqb (a b : dec) : bool := Z.eqb (scaled a (emin2 a b)) (scaled b (emin2 a b)).
Definition vlt (a b : dec) : Prop := scaled a (emin2 a b) < scaled b (emin2 a b).
Definition vle (a b : dec) : Prop := scaled a (emin2 a b) <= scaled b (emin2 a b).

Definition dzero : dec := mkdec false 0 0.
Definition dis_zero (d : dec) : bool := N.eqb (coef d) 0.
Definition dneg (d : dec) : dec := mkdec (negb (neg d)) (coef d) (expo d).
Definition dabs (d : dec) : dec := mkdec false (coef d) (expo d).
Definition of_Z (m : Z) (e : Z) : dec := mkdec (m <? 0) (Z.abs_N m) e.

(* number of decimal digits of a coefficient (0 has one digit) *)
Fixpoint ndigits_fuel (fuel : nat) (n : N) : N :=
  match fuel with
  | O => 1%N
  | S f => if (n <? 10)%N then 1%N else N.succ (ndigits_fuel f (n / 10)%N)
  end.
Definition ndigits (n : N) : N := ndigits_fuel (N.to_nat (N.size n)) n.

(* adjusted exponent: the exponent of the most significant digit *)
Definition adjusted (d : dec) : Z := expo d + Z.of_N (ndigits (coef d)) - 1.

(* decimal128 format *)
Definition PREC : N := 34.
Definition EMAX : Z := 6144.
Definition EMIN : Z := -6143.
Definition ETINY : Z := -6176.   (* EMIN - (PREC - 1): smallest exponent *)
Definition ETOP : Z := 6111.     (* EMAX - (PREC - 1): largest exponent *)

(* a finite decimal128 datum *)
Definition in_format (d : dec) : bool :=
  (coef d <? 10 ^ PREC)%N && (ETINY <=? expo d) && (expo d <=? ETOP).

(* removal of trailing zeros (decNumberReduce): zero becomes 0E+0, the exponent is not raised above ETOP *)
Fixpoint strip_zeros (fuel : nat) (c : N) (e : Z) : N * Z :=
  match fuel with
  | O => (c, e)
  | S f => if (N.eqb (c mod 10) 0)%N && (e <? ETOP) then strip_zeros f (c / 10)%N (e + 1) else (c, e)
  end.
Definition dreduce (d : dec) : dec :=
  if dis_zero d then mkdec (neg d) 0 0
  else let (c, e) := strip_zeros (N.to_nat (N.size (coef d))) (coef d) (expo d) in mkdec (neg d) c e.
