(* C13 — property theorems only: evaluation is pure on the scope-stack machine of coq/C01/Impl.v (proofs in C01/Proofs.v);
   the push / pop discipline that makes it so, construct by construct, on the counting machine (C13/Counting.v, proofs in
   C13/CountingProofs.v); the parser's scope discipline (C13/ParseDiscipline.v, C13/ParseDisciplineProofs.v); the scope of a
   decision's logic in the model-level ImplModel of C04 (C13/InvocationProofs.v). *)
From Coq Require Import List ZArith NArith Bool.
From DV Require Import C01.Syntax C01.Spec C01.Impl C01.Proofs C13.ParseScope C13.ParseScopeProofs.
From DV Require Import C13.Counting C13.CountingProofs C13.ParseDiscipline C13.ParseDisciplineProofs.
From DV Require C04.Model C13.InvocationProofs.
Import ListNotations.
Open Scope Z_scope.

(* after evaluating ANY expression of the fragment over ANY scope stack the stack is exactly what it was
   (every push is matched by a pop and no set_entry reaches a context that was there before) *)
Theorem C13_stack_restored : forall f S e, snd (run_impl f S e) = S.
Proof. intros f S e. unfold run_impl. rewrite run_refines. reflexivity. Qed.

(* any sequence of evaluations of prepared expressions over one scope returns, for each of them, the value it
   returns when evaluated alone, and leaves the scope untouched — whatever the order and the repetitions *)
Theorem C13_repeatable : forall f S es,
  thread (run_impl f) S es = (map (fun e => fst (run_impl f S e)) es, S).
Proof. intros f S es. unfold run_impl. apply evaluations_repeatable. Qed.

(* the value is a function of the expression and the bindings only: the machine and the stack-free semantics agree *)
Theorem C13_value_is_semantic : forall f S e, fst (run_impl f S e) = eval cart_impl f S e.
Proof. intros f S e. unfold run_impl. rewrite run_refines. reflexivity. Qed.

(* a successful parse leaves the parsing scope as it found it: the scope actions the parser performs for ANY expression of the
   fragment (push at `{`, `for`, `some`, `every`, `function(`; add the names; pop at the end of the construct) are balanced *)
Theorem C13_parse_scope_balanced : forall f e S, pexec (pacts f e) S = S.
Proof. exact parse_scope_balanced. Qed.

Example C13_nonvacuous :
  let S := [[(101%N, vnum 2)]; [(102%N, VStr [97%N])]] in
  let e := EFilter (EList [ECtx [(103%N, enum 1)]; ECtx [(103%N, enum 5)]]) (EBin Gt (EName 103%N) (EName 101%N)) in
  run_impl 20 S e = (VCtx [(103%N, vnum 5)], S).
Proof. vm_compute. reflexivity. Qed.

(* ======================= the push / pop discipline of the evaluator =======================
   run_counting V cartf: the machine of C01/Impl.v with every Scope::push and Scope::pop counted; cstep V cartf r = ONE construct
   over an arbitrary evaluator r of its sub-expressions and of function bodies; code = the placements of builders.rs / iterations.rs.
   balanced st st' := exists k, pushes st' = pushes st + k /\ pops st' = pops st + k /\ stk st' = stk st. *)

(* per construct, over ALL outcomes of the sub-evaluations: r is any function (it may answer null, a non-boolean, a poisoned value,
   a function with more formal names than arguments, an empty or null domain, a non-list filter operand ...) that is balanced itself *)
Theorem C13_every_path_balanced : forall (cartf : list (N * list value) -> list ctx) (r : cstate -> expr -> value * cstate),
  (forall st e, balanced st (snd (r st e))) ->
  forall st e, balanced st (snd (cstep code cartf r st e)).
Proof. exact every_path_balanced. Qed.

Theorem C13_run_counting_balanced : forall cartf f st e,
  exists k, pushes (snd (run_counting code cartf f st e)) = (pushes st + k)%nat /\
            pops (snd (run_counting code cartf f st e)) = (pops st + k)%nat /\
            stk (snd (run_counting code cartf f st e)) = stk st.
Proof. intros cartf f st e. exact (run_counting_balanced cartf f st e). Qed.

(* the counting machine IS the machine: same value, same stack *)
Theorem C13_counting_is_run : forall cartf f st e,
  run cartf f (stk st) e = (fst (run_counting code cartf f st e), stk (snd (run_counting code cartf f st e))).
Proof. exact counting_is_run. Qed.

(* hence C13_stack_restored, this time as a consequence of pushes = pops on every path (not of the value semantics) *)
Theorem C13_stack_restored_by_discipline : forall f S e,
  snd (run_impl f S e) = S /\
  pushes (snd (run_counting code cart_impl f (cstart S) e)) = pops (snd (run_counting code cart_impl f (cstart S) e)).
Proof.
  intros f S e. split; [exact (stack_restored_by_discipline cart_impl f S e) | exact (proj1 (run_counting_counts cart_impl f S e))].
Qed.

(* the discipline is a property of WHERE the pushes and pops sit: the seeded placements, expressed as variants of the same layer,
   break it, each on its error path and only there.  counts x = (pushes, pops, depth of the stack left) from a stack of depth 1 *)
Theorem C13_seeded_C13_b_refuted :      (* also C01_d: (function(a, b) a)(1), f(b: 1) *)
  counts (run_counting seeded_C13_b cart_impl 10 (cstart [[]]) w_too_few_args) = (1, 0, 2)%nat /\
  counts (run_counting seeded_C13_b cart_impl 10 (cstart [[]]) w_named_missing) = (1, 0, 2)%nat /\
  counts (run_counting seeded_C13_b cart_impl 10 (cstart [[]]) w_enough_args) = (1, 1, 1)%nat /\
  counts (run_counting code cart_impl 10 (cstart [[]]) w_too_few_args) = (0, 0, 1)%nat.
Proof. exact seeded_C13_b_refuted. Qed.

Theorem C13_seeded_C13_d_refuted :      (* every x in [1, true] satisfies x *)
  counts (run_counting seeded_C13_d cart_impl 10 (cstart [[]]) w_every_non_boolean) = (2, 1, 2)%nat /\
  counts (run_counting seeded_C13_d cart_impl 10 (cstart [[]]) w_every_boolean) = (2, 2, 1)%nat /\
  counts (run_counting code cart_impl 10 (cstart [[]]) w_every_non_boolean) = (2, 2, 1)%nat.
Proof. exact seeded_C13_d_refuted. Qed.

Theorem C13_seeded_C13_a_refuted :      (* [{item: 1}][item = 1] *)
  counts (run_counting seeded_C13_a cart_impl 10 (cstart [[]]) w_filter_item_entry) = (2, 1, 2)%nat /\
  counts (run_counting seeded_C13_a cart_impl 10 (cstart [[]]) w_filter_plain) = (3, 3, 1)%nat /\
  counts (run_counting code cart_impl 10 (cstart [[]]) w_filter_item_entry) = (2, 2, 1)%nat.
Proof. exact seeded_C13_a_refuted. Qed.

(* ======================= the parser's scope discipline =======================
   pacts f e (C13/ParseScope.v) transliterates the scope actions of the reduce actions of feel-parser/src/parser.rs in reduction
   order (the check compares it with the action trace of the real parser).  walk d acts: d = number of contexts this parse has
   pushed and not yet popped; None as soon as an action would pop or write a context of the caller. *)
Theorem C13_parse_discipline : forall f e d, walk d (pacts f e) = Some d.
Proof. exact walk_pacts. Qed.

(* at every moment of a successful parse the scope is the caller's scope with the parser's own contexts on top *)
Theorem C13_parse_never_touches_callers_scope : forall f e pre suf S, pacts f e = pre ++ suf -> exists T, pexec pre S = T ++ S.
Proof. exact parse_never_touches_callers_scope. Qed.

Theorem C13_parse_pushes_equal_pops : forall f e, count_push (pacts f e) = count_pop (pacts f e).
Proof. exact parse_pushes_equal_pops. Qed.

(* not by construction: pacts is one member of a family of placements (pacts_v false), and the other member - one push per
   quantified variable, one pop: the seeded change C13_c - keeps every clause for one variable and loses them for two *)
Theorem C13_pacts_is_placement_false : forall f e, pacts_v false f e = pacts f e.
Proof. exact pacts_v_false. Qed.

Theorem C13_seeded_C13_c_refuted :      (* some x in [1] satisfies x = 1   /   some x in [1], y in [2] satisfies x = y *)
  walk 0 (pacts_v true 10 w_one_variable) = Some 0%nat /\
  pexec (pacts_v true 10 w_one_variable) [[7%N]] = [[7%N]] /\
  walk 0 (pacts_v true 10 w_two_variables) = Some 1%nat /\
  pexec (pacts_v true 10 w_two_variables) [[7%N]] = [[101%N]; [7%N]] /\
  count_push (pacts_v true 10 w_two_variables) = 2%nat /\ count_pop (pacts_v true 10 w_two_variables) = 1%nat /\
  pexec (pacts 10 w_two_variables) [[7%N]] = [[7%N]].
Proof. exact seeded_C13_c_refuted. Qed.

(* ======================= model level: the scope of a decision's logic in the ImplModel of C04 =======================
   C04.Model.tev threads the (flattened) scope through the evaluation of a decision's logic: invocations of knowledge models
   (positional / boxed), of decision services (svc: arbitrary), boxed contexts with and without result entry, relations.
   impl_invoke / body take the caller's input context by value: the scope that an invocation could disturb is this one. *)
Theorem C13_invocation_restores_scope : forall f svc sc e, snd (C04.Model.tev false f svc sc e) = sc.
Proof. exact C13.InvocationProofs.invocation_restores_scope. Qed.

Theorem C13_invocations_repeatable : forall f svc sc l,
  C04.Model.evs (C04.Model.tev false f svc) sc l = (map (fun e => fst (C04.Model.tev false f svc sc e)) l, sc).
Proof. exact C13.InvocationProofs.invocations_repeatable. Qed.

Theorem C13_decision_logic_restores_scope : forall svc sc e,
  C04.Model.tev false C04.Model.TFUEL svc sc e = (C04.Model.teval svc sc e, sc).
Proof. exact C13.InvocationProofs.decision_logic_restores_scope. Qed.

(* the variant in which a boxed context leaves its entries behind (the pinned commit; the seeded change C04_d for contexts with a
   result entry): {k: 1, <result>: k} *)
Theorem C13_leaky_context_orig_refuted :
  let e := C04.Model.ECtx [(2001%N, C04.Model.enum 1)] (Some (C04.Model.EVar 2001%N)) in
  snd (C04.Model.tev true 5 (fun _ _ => C04.Model.VNull) [] e) = [(2001%N, C04.Model.vnum 1)] /\
  snd (C04.Model.tev false 5 (fun _ _ => C04.Model.VNull) [] e) = [].
Proof. exact C13.InvocationProofs.leaky_context_orig_refuted. Qed.

Print Assumptions C13_stack_restored.
Print Assumptions C13_repeatable.
Print Assumptions C13_value_is_semantic.
Print Assumptions C13_parse_scope_balanced.
Print Assumptions C13_nonvacuous.
Print Assumptions C13_every_path_balanced.
Print Assumptions C13_run_counting_balanced.
Print Assumptions C13_counting_is_run.
Print Assumptions C13_stack_restored_by_discipline.
Print Assumptions C13_seeded_C13_b_refuted.
Print Assumptions C13_seeded_C13_d_refuted.
Print Assumptions C13_seeded_C13_a_refuted.
Print Assumptions C13_parse_discipline.
Print Assumptions C13_parse_never_touches_callers_scope.
Print Assumptions C13_parse_pushes_equal_pops.
Print Assumptions C13_pacts_is_placement_false.
Print Assumptions C13_seeded_C13_c_refuted.
Print Assumptions C13_invocation_restores_scope.
Print Assumptions C13_invocations_repeatable.
Print Assumptions C13_decision_logic_restores_scope.
Print Assumptions C13_leaky_context_orig_refuted.
