(* C12 — the cycle search of check_cyclic_dependencies (model: C12/Model.v, dfs_loop / dfs_all / has_cycle) is exact on ALL graphs.
   Small-step invariant of the iterative depth-first search (white = no colour, grey = Some false = on the explicit stack,
   black = Some true = done):
     - the stack is a chain of edges, its nodes are distinct and are exactly the grey nodes;
     - the first `next` targets of a stack entry are black or dangling, except the last one, which is the entry above it;
     - every requirement of a black node that is a node is black and was finished earlier (finish_rank), so the finishing order
       is a numbering that decreases along every requirement: a topological order;
     - the black nodes are distinct nodes of the graph, so the numbering stays <= the number of rows of the graph.
   Fuel: a measure (white rows + remaining targets of the stack entries) decreases in every step, so dfs_fuel g is enough.
   Nothing is assumed about the graph: duplicate rows (the first one counts, as in `targets`), duplicate targets, self references,
   dangling targets and any order of the rows are all covered. *)
From Coq Require Import List Arith Bool PeanoNat Lia.
From DV Require Import C12.Model C12.Proofs.
Import ListNotations.

(* ------------------------------------------------------------------ the numbering read off the colours the search returns *)
Fixpoint black_list (c : colours) : list nat :=
  match c with [] => [] | (m, b) :: r => if b then m :: black_list r else black_list r end.
(* 1 + the number of nodes finished before n; 0 for a node that was never finished *)
Fixpoint finish_rank (c : colours) (n : nat) : nat :=
  match c with [] => 0 | (m, b) :: r => if (m =? n) && b then S (length (black_list r)) else finish_rank r n end.

Definition decreasing (g : graph) (rank : nat -> nat) : Prop :=
  forall n ts m, targets g n = Some ts -> In m ts -> targets g m <> None -> rank m < rank n.

(* ------------------------------------------------------------------ basics *)
Lemma targets_in : forall g n ts, targets g n = Some ts -> In n (map fst g).
Proof.
  induction g as [|[m ts'] g IH]; intros n ts H; cbn [targets] in H; [discriminate|].
  cbn [map fst]. destruct (m =? n) eqn:E; [left; apply Nat.eqb_eq; exact E | right; eapply IH; exact H].
Qed.

Lemma in_targets : forall g n, In n (map fst g) -> exists ts, targets g n = Some ts.
Proof.
  induction g as [|[m ts'] g IH]; intros n H; [inversion H|]. cbn [targets].
  destruct (m =? n) eqn:E; [eexists; reflexivity|]. apply IH. destruct H as [H | H]; [|exact H].
  cbn [fst] in H. apply Nat.eqb_neq in E. contradiction.
Qed.

Lemma colour_cons : forall x b c n, colour ((x, b) :: c) n = if x =? n then Some b else colour c n.
Proof. reflexivity. Qed.

Lemma colour_cons_same : forall x b c, colour ((x, b) :: c) x = Some b.
Proof. intros. rewrite colour_cons, Nat.eqb_refl. reflexivity. Qed.

Lemma colour_cons_other : forall x b c n, x <> n -> colour ((x, b) :: c) n = colour c n.
Proof. intros x b c n H. rewrite colour_cons. apply Nat.eqb_neq in H. rewrite H. reflexivity. Qed.

Lemma path_trans : forall g a b c, path g a b -> path g b c -> path g a c.
Proof.
  intros g a b c H. induction H as [n m ts Ht Hin | n m k ts Ht Hin Hp IH]; intros H2.
  - eapply path_step; eauto.
  - eapply path_step; [exact Ht | exact Hin | apply IH; exact H2].
Qed.

Lemma dfs_loop_S : forall f g node next rest c,
  dfs_loop (S f) g ((node, next) :: rest) c =
  match targets g node with
  | None => dfs_loop f g rest ((node, true) :: c)
  | Some ts =>
    match nth_error ts next with
    | None => dfs_loop f g rest ((node, true) :: c)
    | Some t =>
      match colour c t with
      | Some false => Cycle
      | Some true => dfs_loop f g ((node, S next) :: rest) c
      | None => match targets g t with
                | Some _ => dfs_loop f g ((t, 0) :: (node, S next) :: rest) ((t, false) :: c)
                | None => dfs_loop f g ((node, S next) :: rest) c
                end
      end
    end
  end.
Proof. reflexivity. Qed.

(* ------------------------------------------------------------------ the search stays within its fuel: a measure that decreases in every step *)
Fixpoint white_weight (l : graph) (c : colours) : nat :=
  match l with
  | [] => 0
  | (m, ts) :: r => (match colour c m with None => S (length ts) | Some _ => 0 end) + white_weight r c
  end.
Definition tlen (g : graph) (n : nat) : nat := match targets g n with Some ts => length ts | None => 0 end.
Fixpoint stack_weight (g : graph) (stack : list (nat * nat)) : nat :=
  match stack with [] => 0 | (n, i) :: r => S (tlen g n - i) + stack_weight g r end.

Lemma white_weight_mono : forall l c x b, white_weight l ((x, b) :: c) <= white_weight l c.
Proof.
  induction l as [|[m ts] r IH]; intros c x b; cbn [white_weight]; [lia|].
  specialize (IH c x b). rewrite colour_cons. destruct (x =? m); [lia|]. lia.
Qed.

Lemma white_weight_drop : forall l c t b ts, targets l t = Some ts -> colour c t = None ->
  white_weight l ((t, b) :: c) + S (length ts) <= white_weight l c.
Proof.
  induction l as [|[m ts'] r IH]; intros c t b ts Ht Hc; cbn [targets] in Ht; [discriminate|].
  cbn [white_weight]. destruct (m =? t) eqn:E.
  - apply Nat.eqb_eq in E. subst m. injection Ht as ->. rewrite colour_cons_same, Hc.
    pose proof (white_weight_mono r c t b). lia.
  - apply Nat.eqb_neq in E. rewrite colour_cons_other by congruence. specialize (IH c t b ts Ht Hc). lia.
Qed.

Lemma white_weight_le_nil : forall l c, white_weight l c <= white_weight l [].
Proof.
  induction l as [|[m ts] r IH]; intros c; cbn [white_weight colour]; [lia|]. specialize (IH c). destruct (colour c m); lia.
Qed.

Lemma white_weight_nil : forall g, white_weight g [] = length g + edge_count g.
Proof.
  induction g as [|[m ts] r IH]; [reflexivity|]. cbn [white_weight colour length]. unfold edge_count in *. cbn [fold_right snd]. lia.
Qed.

Lemma loop_fuel : forall g f stack c, white_weight g c + stack_weight g stack < f -> dfs_loop f g stack c <> DfsFuel.
Proof.
  intros g. induction f as [|f IH]; intros stack c H; [lia|].
  destruct stack as [|[node next] rest]; [cbn [dfs_loop]; discriminate|].
  rewrite dfs_loop_S. cbn [stack_weight] in H. unfold tlen in H at 1.
  pose proof (white_weight_mono g c node true) as Hm.
  destruct (targets g node) as [ts|] eqn:Ht; [|apply IH; lia].
  destruct (nth_error ts next) as [t|] eqn:Hn; [|apply IH; lia].
  assert (Hlt : next < length ts) by (apply nth_error_Some; congruence).
  assert (Hadv : white_weight g c + stack_weight g ((node, S next) :: rest) < f).
  { cbn [stack_weight]. unfold tlen at 1. rewrite Ht. lia. }
  destruct (colour c t) as [[|]|] eqn:Hc; [apply IH; exact Hadv | discriminate |].
  destruct (targets g t) as [tt|] eqn:Htt; [|apply IH; exact Hadv].
  apply IH. pose proof (white_weight_drop g c t false tt Htt Hc) as Hd.
  cbn [stack_weight] in *. unfold tlen in * |- *. rewrite Htt. rewrite Ht in *. lia.
Qed.

Lemma all_fuel : forall g starts c, (forall s, In s starts -> In s (map fst g)) -> dfs_all g starts c <> DfsFuel.
Proof.
  intros g. induction starts as [|s rest IH]; intros c Hs; cbn [dfs_all]; [discriminate|].
  assert (Hrest : forall x, In x rest -> In x (map fst g)) by (intros x Hx; apply Hs; right; exact Hx).
  destruct (colour c s) eqn:Hc; [apply IH; exact Hrest|].
  destruct (in_targets g s (Hs s (or_introl eq_refl))) as [ts Ht].
  assert (Hf : dfs_loop (dfs_fuel g) g [(s, 0)] ((s, false) :: c) <> DfsFuel).
  { apply loop_fuel. cbn [stack_weight]. unfold tlen. rewrite Ht.
    pose proof (white_weight_drop g c s false ts Ht Hc). pose proof (white_weight_le_nil g c).
    rewrite white_weight_nil in *. unfold dfs_fuel. lia. }
  destruct (dfs_loop (dfs_fuel g) g [(s, 0)] ((s, false) :: c)); [discriminate | apply IH; exact Hrest | congruence].
Qed.

(* ------------------------------------------------------------------ the invariant *)
Definition black_closed (g : graph) (c : colours) : Prop :=
  forall n ts m, colour c n = Some true -> targets g n = Some ts -> In m ts -> targets g m <> None ->
                 colour c m = Some true /\ finish_rank c m < finish_rank c n.

Definition blacks_ok (g : graph) (c : colours) : Prop :=
  NoDup (black_list c) /\ (forall x, In x (black_list c) -> colour c x = Some true) /\ (forall x, In x (black_list c) -> In x (map fst g)).

Definition done_upto (g : graph) (c : colours) (ts : list nat) (i : nat) (above : option nat) : Prop :=
  forall k m, k < i -> nth_error ts k = Some m -> targets g m <> None -> colour c m = Some true \/ (above = Some m /\ S k = i).

Fixpoint stack_inv (g : graph) (c : colours) (above : option nat) (stack : list (nat * nat)) : Prop :=
  match stack with
  | [] => True
  | (n, i) :: rest =>
    colour c n = Some false /\ ~ In n (map fst rest) /\
    (exists ts, targets g n = Some ts /\ done_upto g c ts i above /\ (forall a, above = Some a -> In a ts)) /\
    stack_inv g c (Some n) rest
  end.

Definition inv (g : graph) (stack : list (nat * nat)) (c : colours) : Prop :=
  stack_inv g c None stack /\ (forall x, colour c x = Some false -> In x (map fst stack)) /\ black_closed g c /\ blacks_ok g c.

Lemma finish_rank_le : forall c n, finish_rank c n <= length (black_list c).
Proof.
  induction c as [|[m b] r IH]; intros n; cbn [finish_rank black_list]; [lia|].
  specialize (IH n). destruct b; cbn [length]; destruct (m =? n); cbn [andb]; lia.
Qed.

Lemma finish_rank_cons_other : forall x b c n, x <> n -> finish_rank ((x, b) :: c) n = finish_rank c n.
Proof. intros x b c n H. cbn [finish_rank]. apply Nat.eqb_neq in H. rewrite H. reflexivity. Qed.

Lemma finish_rank_cons_false : forall x c n, finish_rank ((x, false) :: c) n = finish_rank c n.
Proof. intros x c n. cbn [finish_rank]. rewrite andb_false_r. reflexivity. Qed.

Lemma stack_grey : forall g c stack above x, stack_inv g c above stack -> In x (map fst stack) -> colour c x = Some false.
Proof.
  intros g c. induction stack as [|[n i] rest IH]; intros above x H Hin; [inversion Hin|].
  cbn [stack_inv] in H. destruct H as (Hg & _ & _ & Hr). destruct Hin as [<- | Hin]; [exact Hg | eapply IH; eauto].
Qed.

Lemma stack_inv_ext : forall g c c' stack above,
  (forall m, colour c m = Some true -> colour c' m = Some true) ->
  (forall n, In n (map fst stack) -> colour c n = Some false -> colour c' n = Some false) ->
  stack_inv g c above stack -> stack_inv g c' above stack.
Proof.
  intros g c c'. induction stack as [|[n i] rest IH]; intros above Hb Hg H; [exact I|].
  cbn [stack_inv] in *. destruct H as (Hn & Hnd & (ts & Ht & Hd & Ha) & Hr).
  split; [apply Hg; [left; reflexivity | exact Hn]|]. split; [exact Hnd|]. split.
  - exists ts. split; [exact Ht|]. split; [|exact Ha].
    intros k m Hk Hnth Hm. destruct (Hd k m Hk Hnth Hm) as [H | H]; [left; apply Hb; exact H | right; exact H].
  - apply IH; [exact Hb | intros x Hx; apply Hg; right; exact Hx | exact Hr].
Qed.

Lemma stack_inv_above_black : forall g c a stack, stack_inv g c (Some a) stack -> colour c a = Some true -> stack_inv g c None stack.
Proof.
  intros g c a [|[n i] rest] H Ha; [exact I|]. cbn [stack_inv] in *. destruct H as (Hn & Hnd & (ts & Ht & Hd & _) & Hr).
  split; [exact Hn|]. split; [exact Hnd|]. split; [|exact Hr]. exists ts. split; [exact Ht|]. split; [|intros ? ?; discriminate].
  intros k m Hk Hnth Hm. destruct (Hd k m Hk Hnth Hm) as [H | [H _]]; [left; exact H | left; injection H as <-; exact Ha].
Qed.

Lemma chain_path : forall g c stack a, stack_inv g c (Some a) stack -> forall x, In x (map fst stack) -> path g x a.
Proof.
  intros g c. induction stack as [|[n i] rest IH]; intros a H x Hin; [inversion Hin|].
  cbn [stack_inv] in H. destruct H as (_ & _ & (ts & Ht & _ & Ha) & Hr).
  assert (Hna : path g n a) by (eapply path_one; [exact Ht | apply Ha; reflexivity]).
  destruct Hin as [<- | Hin]; [exact Hna | eapply path_trans; [eapply IH; eauto | exact Hna]].
Qed.

(* colouring a white node grey keeps what is known about the black ones *)
Lemma black_closed_white : forall g c t, black_closed g c -> colour c t = None -> black_closed g ((t, false) :: c).
Proof.
  intros g c t Hb Hw n ts m Hn Ht Hin Hm. rewrite !finish_rank_cons_false.
  assert (Hnt : t <> n) by (intros ->; rewrite colour_cons_same in Hn; discriminate).
  rewrite colour_cons_other in Hn by exact Hnt. destruct (Hb n ts m Hn Ht Hin Hm) as [H1 H2].
  split; [|exact H2]. rewrite colour_cons_other; [exact H1 | intros ->; congruence].
Qed.

Lemma blacks_ok_white : forall g c t, blacks_ok g c -> colour c t = None -> blacks_ok g ((t, false) :: c).
Proof.
  intros g c t (H1 & H2 & H3) Hw. unfold blacks_ok. cbn [black_list]. split; [exact H1|]. split; [|exact H3].
  intros x Hx. rewrite colour_cons_other; [apply H2; exact Hx | intros ->; rewrite (H2 x Hx) in Hw; discriminate].
Qed.

(* finishing a grey node all of whose requirements are black or dangling *)
Lemma black_closed_finish : forall g c n ts, black_closed g c -> colour c n = Some false -> targets g n = Some ts ->
  (forall m, In m ts -> targets g m <> None -> colour c m = Some true) -> black_closed g ((n, true) :: c).
Proof.
  intros g c n ts Hb Hgrey Ht Hall x xs m Hx Hxs Hin Hm.
  assert (Hother : forall y, colour c y = Some true -> colour ((n, true) :: c) y = Some true /\ finish_rank ((n, true) :: c) y = finish_rank c y).
  { intros y Hy. assert (n <> y) by (intros ->; congruence). rewrite colour_cons_other, finish_rank_cons_other by assumption. auto. }
  destruct (Nat.eq_dec n x) as [<- | Hne].
  - rewrite Ht in Hxs. injection Hxs as <-. destruct (Hother m (Hall m Hin Hm)) as [H1 H2]. split; [exact H1|]. rewrite H2.
    cbn [finish_rank]. rewrite Nat.eqb_refl. cbn [andb]. pose proof (finish_rank_le c m). lia.
  - rewrite colour_cons_other in Hx by exact Hne. destruct (Hb x xs m Hx Hxs Hin Hm) as [H1 H2].
    destruct (Hother m H1) as [H3 H4]. destruct (Hother x Hx) as [_ H5]. split; [exact H3 | lia].
Qed.

Lemma blacks_ok_finish : forall g c n ts, blacks_ok g c -> colour c n = Some false -> targets g n = Some ts -> blacks_ok g ((n, true) :: c).
Proof.
  intros g c n ts (H1 & H2 & H3) Hgrey Ht. unfold blacks_ok. cbn [black_list]. split; [|split].
  - constructor; [intros Hin; rewrite (H2 n Hin) in Hgrey; discriminate | exact H1].
  - intros x [<- | Hx]; [apply colour_cons_same|]. rewrite colour_cons. destruct (n =? x); [reflexivity | apply H2; exact Hx].
  - intros x [<- | Hx]; [eapply targets_in; exact Ht | apply H3; exact Hx].
Qed.

(* popping the top entry (n, i) once its targets are exhausted *)
Lemma inv_pop : forall g n i rest c ts, inv g ((n, i) :: rest) c -> targets g n = Some ts -> nth_error ts i = None -> inv g rest ((n, true) :: c).
Proof.
  intros g n i rest c ts (Hs & Hg & Hb & Hk) Ht Hnth. cbn [stack_inv] in Hs. destruct Hs as (Hn & Hnd & (ts' & Ht' & Hd & _) & Hr).
  rewrite Ht in Ht'. injection Ht' as <-.
  assert (Hall : forall m, In m ts -> targets g m <> None -> colour c m = Some true).
  { intros m Hin Hm. destruct (In_nth_error ts m Hin) as [k Hk']. apply nth_error_None in Hnth.
    assert (k < length ts) by (apply nth_error_Some; congruence).
    destruct (Hd k m ltac:(lia) Hk' Hm) as [H' | [H' _]]; [exact H' | discriminate]. }
  split; [|split; [|split]].
  - apply stack_inv_above_black with (a := n); [|apply colour_cons_same].
    apply stack_inv_ext with (c := c); [| |exact Hr].
    + intros m Hm. rewrite colour_cons. destruct (n =? m); [reflexivity | exact Hm].
    + intros x Hx Hxg. rewrite colour_cons_other; [exact Hxg | intros ->; contradiction].
  - intros x Hx. rewrite colour_cons in Hx. destruct (n =? x) eqn:E; [discriminate|]. apply Nat.eqb_neq in E.
    destruct (Hg x Hx) as [H' | H']; [cbn [fst] in H'; contradiction | exact H'].
  - eapply black_closed_finish; eauto.
  - eapply blacks_ok_finish; eauto.
Qed.

(* stepping over a target that is black or dangling *)
Lemma inv_advance : forall g n i rest c ts t, inv g ((n, i) :: rest) c -> targets g n = Some ts -> nth_error ts i = Some t ->
  (colour c t = Some true \/ targets g t = None) -> inv g ((n, S i) :: rest) c.
Proof.
  intros g n i rest c ts t (Hs & Hg & Hb & Hk) Ht Hnth Hdone. split; [|split; [|split]]; [|exact Hg | exact Hb | exact Hk].
  cbn [stack_inv] in *. destruct Hs as (Hn & Hnd & (ts' & Ht' & Hd & Ha) & Hr). rewrite Ht in Ht'. injection Ht' as <-.
  split; [exact Hn|]. split; [exact Hnd|]. split; [|exact Hr]. exists ts. split; [exact Ht|]. split; [|exact Ha].
  intros k m Hk' Hkm Hm. destruct (Nat.eq_dec k i) as [-> | Hne].
  - rewrite Hnth in Hkm. injection Hkm as <-. destruct Hdone as [H' | H']; [left; exact H' | contradiction].
  - destruct (Hd k m ltac:(lia) Hkm Hm) as [H' | [H' _]]; [left; exact H' | discriminate].
Qed.

(* descending into a white target that is a node *)
Lemma inv_push : forall g n i rest c ts t tt, inv g ((n, i) :: rest) c -> targets g n = Some ts -> nth_error ts i = Some t ->
  colour c t = None -> targets g t = Some tt -> inv g ((t, 0) :: (n, S i) :: rest) ((t, false) :: c).
Proof.
  intros g n i rest c ts t tt (Hs & Hg & Hb & Hk) Ht Hnth Hw Htt.
  assert (Hnotin : ~ In t (map fst ((n, i) :: rest))).
  { intros Hin. rewrite (stack_grey g c _ None t Hs Hin) in Hw. discriminate. }
  assert (Hs' : stack_inv g ((t, false) :: c) None ((n, i) :: rest)).
  { apply stack_inv_ext with (c := c); [| |exact Hs].
    - intros m Hm. rewrite colour_cons_other; [exact Hm | intros ->; congruence].
    - intros x Hx Hxg. rewrite colour_cons_other; [exact Hxg | intros ->; congruence]. }
  split; [|split; [|split]].
  - cbn [stack_inv] in Hs' |- *. destruct Hs' as (Hn & Hnd & (ts' & Ht' & Hd & _) & Hr). rewrite Ht in Ht'. injection Ht' as <-.
    split; [apply colour_cons_same|]. split; [exact Hnotin|]. split.
    { exists tt. split; [exact Htt|]. split; [intros k m Hk'; lia | intros ? ?; discriminate]. }
    split; [exact Hn|]. split; [exact Hnd|]. split; [|exact Hr]. exists ts. split; [exact Ht|]. split.
    + intros k m Hk' Hkm Hm. destruct (Nat.eq_dec k i) as [-> | Hne].
      * rewrite Hnth in Hkm. injection Hkm as <-. right. split; reflexivity.
      * destruct (Hd k m ltac:(lia) Hkm Hm) as [H' | [H' _]]; [left; exact H' | discriminate].
    + intros a Ha. injection Ha as <-. eapply nth_error_In; exact Hnth.
  - intros x Hx. rewrite colour_cons in Hx. destruct (t =? x) eqn:E.
    + apply Nat.eqb_eq in E. left. exact E.
    + right. apply (Hg x Hx).
  - apply black_closed_white; assumption.
  - apply blacks_ok_white; assumption.
Qed.

(* a grey target closes a cycle through the stack *)
Lemma grey_target_cycle : forall g n i rest c ts t, inv g ((n, i) :: rest) c -> targets g n = Some ts -> nth_error ts i = Some t ->
  colour c t = Some false -> on_cycle g t.
Proof.
  intros g n i rest c ts t (Hs & Hg & _ & _) Ht Hnth Hgrey. unfold on_cycle.
  assert (Hnt : path g n t) by (eapply path_one; [exact Ht | eapply nth_error_In; exact Hnth]).
  destruct (Hg t Hgrey) as [H' | H']; [cbn [fst] in H'; subst n; exact Hnt|].
  cbn [stack_inv] in Hs. destruct Hs as (_ & _ & _ & Hr).
  eapply path_trans; [eapply chain_path; [exact Hr | exact H'] | exact Hnt].
Qed.

Definition coloured_kept (c c' : colours) : Prop := forall x, colour c x <> None -> colour c' x <> None.

Lemma coloured_kept_cons : forall x b c, coloured_kept c ((x, b) :: c).
Proof. intros x b c y Hy. rewrite colour_cons. destruct (x =? y); [discriminate | exact Hy]. Qed.

Lemma loop_inv : forall g f stack c, inv g stack c ->
  match dfs_loop f g stack c with
  | Cycle => exists n, on_cycle g n
  | NoCycle c' => inv g [] c' /\ coloured_kept c c'
  | DfsFuel => True
  end.
Proof.
  intros g. induction f as [|f IH]; intros stack c Hinv; [exact I|].
  destruct stack as [|[node next] rest]; [cbn [dfs_loop]; split; [exact Hinv | intros x Hx; exact Hx]|].
  rewrite dfs_loop_S.
  assert (Hnode : exists ts, targets g node = Some ts).
  { destruct Hinv as (Hs & _). cbn [stack_inv] in Hs. destruct Hs as (_ & _ & (ts & Ht & _) & _). exists ts. exact Ht. }
  destruct Hnode as [ts Ht]. rewrite Ht.
  assert (Hkeep : forall x b stack' c0, inv g stack' ((x, b) :: c0) ->
            match dfs_loop f g stack' ((x, b) :: c0) with
            | Cycle => exists n, on_cycle g n
            | NoCycle c' => inv g [] c' /\ coloured_kept c0 c'
            | DfsFuel => True
            end).
  { intros x b stack' c0 Hi. specialize (IH stack' ((x, b) :: c0) Hi). destruct (dfs_loop f g stack' ((x, b) :: c0)); [exact IH | | exact I].
    destruct IH as [H1 H2]. split; [exact H1|]. intros y Hy. apply H2. apply coloured_kept_cons. exact Hy. }
  destruct (nth_error ts next) as [t|] eqn:Hn.
  2:{ apply Hkeep. eapply inv_pop; eauto. }
  destruct (colour c t) as [[|]|] eqn:Hc.
  - apply IH. eapply inv_advance; eauto.
  - exists t. eapply grey_target_cycle; eauto.
  - destruct (targets g t) as [tt|] eqn:Htt.
    + apply Hkeep. eapply inv_push; eauto.
    + apply IH. eapply inv_advance; eauto.
Qed.

Lemma inv_start : forall g c s, inv g [] c -> colour c s = None -> In s (map fst g) -> inv g [(s, 0)] ((s, false) :: c).
Proof.
  intros g c s (_ & Hg & Hb & Hk) Hw Hs. destruct (in_targets g s Hs) as [ts Ht]. split; [|split; [|split]].
  - cbn [stack_inv]. split; [apply colour_cons_same|]. split; [intros []|]. split; [|exact I].
    exists ts. split; [exact Ht|]. split; [intros k m Hk'; lia | intros ? ?; discriminate].
  - intros x Hx. rewrite colour_cons in Hx. destruct (s =? x) eqn:E; [left; apply Nat.eqb_eq; exact E | destruct (Hg x Hx)].
  - apply black_closed_white; assumption.
  - apply blacks_ok_white; assumption.
Qed.

Lemma all_inv : forall g starts c, inv g [] c -> (forall s, In s starts -> In s (map fst g)) ->
  match dfs_all g starts c with
  | Cycle => exists n, on_cycle g n
  | NoCycle c' => inv g [] c' /\ coloured_kept c c' /\ (forall s, In s starts -> colour c' s <> None)
  | DfsFuel => True
  end.
Proof.
  intros g. induction starts as [|s rest IH]; intros c Hinv Hs; cbn [dfs_all].
  - split; [exact Hinv|]. split; [intros x Hx; exact Hx | intros s []].
  - assert (Hrest : forall x, In x rest -> In x (map fst g)) by (intros x Hx; apply Hs; right; exact Hx).
    destruct (colour c s) as [b|] eqn:Hc.
    + specialize (IH c Hinv Hrest). destruct (dfs_all g rest c) as [|c'|]; [exact IH | | exact I].
      destruct IH as (H1 & H2 & H3). split; [exact H1|]. split; [exact H2|].
      intros x [<- | Hx]; [apply H2; congruence | apply H3; exact Hx].
    + pose proof (loop_inv g (dfs_fuel g) [(s, 0)] ((s, false) :: c) (inv_start g c s Hinv Hc (Hs s (or_introl eq_refl)))) as Hl.
      destruct (dfs_loop (dfs_fuel g) g [(s, 0)] ((s, false) :: c)) as [|c1|]; [exact Hl | | exact I].
      destruct Hl as [Hi1 Hk1]. specialize (IH c1 Hi1 Hrest). destruct (dfs_all g rest c1) as [|c'|]; [exact IH | | exact I].
      destruct IH as (H1 & H2 & H3). split; [exact H1|].
      assert (Hk : coloured_kept c c').
      { intros y Hy. apply H2. apply Hk1. apply coloured_kept_cons. exact Hy. }
      split; [exact Hk|]. intros x [<- | Hx]; [|apply H3; exact Hx].
      apply H2. apply Hk1. rewrite colour_cons_same. discriminate.
Qed.

Lemma inv_nil : forall g, inv g [] [].
Proof.
  intros g. split; [exact I|]. split; [intros x Hx; discriminate|]. split; [intros n ts m Hn; discriminate|].
  split; [constructor|]. split; intros x [].
Qed.

(* ------------------------------------------------------------------ what a passed check gives: the finishing order is a decreasing numbering
   bounded by the number of rows; so the graph has no cycle *)
Lemma passed_numbering : forall g c, has_cycle g = NoCycle c ->
  decreasing g (finish_rank c) /\ (forall n, finish_rank c n <= length g).
Proof.
  intros g c H. unfold has_cycle in H. pose proof (all_inv g (map fst g) [] (inv_nil g) (fun s Hs => Hs)) as Ha. rewrite H in Ha.
  destruct Ha as ((_ & Hg & Hb & (Hk1 & _ & Hk3)) & _ & Hcol). split.
  - intros n ts m Ht Hin Hm.
    assert (Hn : colour c n = Some true).
    { pose proof (Hcol n (targets_in g n ts Ht)) as Hne. destruct (colour c n) as [[|]|] eqn:E; [reflexivity | destruct (Hg n E) | congruence]. }
    apply (Hb n ts m Hn Ht Hin Hm).
  - intros n. pose proof (finish_rank_le c n). pose proof (NoDup_incl_length Hk1 Hk3) as Hl. rewrite map_length in Hl. lia.
Qed.

Lemma has_cycle_in_fuel : forall g, has_cycle g <> DfsFuel.
Proof. intros g. apply all_fuel. auto. Qed.

Lemma has_cycle_sound : forall g, has_cycle g = Cycle -> exists n, on_cycle g n.
Proof.
  intros g H. unfold has_cycle in H. pose proof (all_inv g (map fst g) [] (inv_nil g) (fun s Hs => Hs)) as Ha. rewrite H in Ha. exact Ha.
Qed.

Lemma passed_no_cycle : forall g c, has_cycle g = NoCycle c -> forall n, ~ on_cycle g n.
Proof. intros g c H. apply (ranked_no_cycle g (finish_rank c)). apply (passed_numbering g c H). Qed.

(* EXACT, for every graph: within fuel; Cycle iff some node is on a cycle; otherwise NoCycle *)
Lemma cycle_check_exact : forall g,
  has_cycle g <> DfsFuel /\
  (has_cycle g = Cycle <-> exists n, on_cycle g n) /\
  ((exists c, has_cycle g = NoCycle c) <-> forall n, ~ on_cycle g n).
Proof.
  intros g. pose proof (has_cycle_in_fuel g) as Hf. pose proof (has_cycle_sound g) as Hs. pose proof (passed_no_cycle g) as Hp.
  split; [exact Hf|]. destruct (has_cycle g) as [|c|] eqn:E; [| |congruence].
  - split; [split; [exact Hs | reflexivity]|]. split.
    + intros [c Hc]. discriminate.
    + intros Hno. destruct (Hs eq_refl) as [n Hn]. destruct (Hno n Hn).
  - split; [split; [discriminate|]|].
    + intros [n Hn]. destruct (Hp c eq_refl n Hn).
    + split; [intros _; exact (Hp c eq_refl) | intros _; exists c; reflexivity].
Qed.

(* a passed check yields a numbering: exists, decreasing along every requirement between nodes, at most the number of rows *)
Lemma passed_check_topological : forall g, (forall n, ~ on_cycle g n) ->
  exists rank : nat -> nat, decreasing g rank /\ forall n, rank n <= length g.
Proof.
  intros g Hno. destruct (proj2 (proj2 (proj2 (cycle_check_exact g))) Hno) as [c Hc].
  exists (finish_rank c). apply passed_numbering. exact Hc.
Qed.

(* ------------------------------------------------------------------ the whole build, without a numbering given *)
Lemma follow_ok_passed : forall g c fuel n, has_cycle g = NoCycle c -> length g < fuel -> follow fuel g n = Ok.
Proof.
  intros g c fuel n H Hf. destruct (passed_numbering g c H) as [Hd Hb].
  apply (ranked_follow_ok g (finish_rank c) Hd). specialize (Hb n). lia.
Qed.

Lemma cyclic_rejected : forall d, (exists n, on_cycle (deps d) n) -> forall fuel, build fuel d = Err.
Proof.
  intros d Hc fuel. unfold build. rewrite (proj2 (proj1 (proj2 (cycle_check_exact (deps d)))) Hc). reflexivity.
Qed.

Lemma acyclic_build : forall fuel d, (forall n, ~ on_cycle (deps d) n) -> length (deps d) < fuel ->
  build fuel d = first_not_ok (map table_build (tables d)).
Proof.
  intros fuel d Hno Hf. destruct (proj2 (proj2 (proj2 (cycle_check_exact (deps d)))) Hno) as [c Hc].
  unfold build. rewrite Hc. destruct (first_not_ok_tables (tables d)) as [H | H]; rewrite H.
  - rewrite (first_not_ok_app_ok _ _ H). apply first_not_ok_all_ok. apply Forall_forall. intros o Ho.
    apply in_map_iff in Ho. destruct Ho as (n & <- & _). eapply follow_ok_passed; eauto.
  - apply first_not_ok_app_err. exact H.
Qed.

Lemma total : forall fuel d, length (deps d) < fuel ->
  (build fuel d = Ok \/ build fuel d = Err) /\
  ((exists n, on_cycle (deps d) n) -> build fuel d = Err) /\
  ((forall n, ~ on_cycle (deps d) n) -> build fuel d = first_not_ok (map table_build (tables d))).
Proof.
  intros fuel d Hf. split; [|split; [intros Hc; apply cyclic_rejected; exact Hc | intros Hno; apply acyclic_build; assumption]].
  destruct (has_cycle (deps d)) as [|c|] eqn:E.
  - right. unfold build. rewrite E. reflexivity.
  - rewrite (acyclic_build fuel d (passed_no_cycle _ c E) Hf). apply first_not_ok_tables.
  - destruct (has_cycle_in_fuel _ E).
Qed.

(* a model that was built evaluates: every invocable of it returns a value *)
Lemma built_evaluates : forall fuel d ms n, length (deps d) < fuel -> build fuel d = Ok -> evaluate fuel d ms n = Ok.
Proof.
  intros fuel d ms n Hf Hb. unfold build in Hb. destruct (has_cycle (deps d)) as [|c|] eqn:E; [discriminate | | discriminate].
  destruct (passed_numbering _ c E) as [Hd Hr]. apply (evaluate_total fuel d (finish_rank c) ms n Hd). specialize (Hr n). lia.
Qed.

(* item definitions: the search finds the self reference through a chain of components of EVERY depth (the finite sweep went to depth 6) *)
Lemma nested_cycle_found : forall d n cs rest, has_cycle (item_graph (ItemDef n None (nested d n :: cs) :: rest)) = Cycle.
Proof. intros d n cs rest. apply (proj1 (proj2 (cycle_check_exact _))). exists n. apply nested_self_reference_cycle. Qed.

(* ------------------------------------------------------------------ concrete graphs *)
Definition g_ring3_tail : graph := [(9, [0; 7]); (0, [1]); (1, [2; 2]); (2, [8; 0])].          (* 9 -> 0 -> 1 -> 2 -> 0, with a dangling 7 and 8 and a doubled edge *)
Definition g_diamond : graph := [(0, [1; 2]); (1, [3]); (2, [3; 5]); (3, [])].                 (* 0 -> 1,2 -> 3; 5 dangling *)
Definition diamond_colours : colours :=
  match has_cycle g_diamond with NoCycle c => c | _ => [] end.

Lemma examples :
  has_cycle g_ring3_tail = Cycle /\ on_cycle g_ring3_tail 0 /\ build 0 (mk_defs [] g_ring3_tail) = Err /\
  has_cycle g_diamond = NoCycle diamond_colours /\
  map (finish_rank diamond_colours) [0; 1; 2; 3; 5] = [4; 2; 3; 1; 0] /\
  build 5 (mk_defs [mk_table First 1 [o_plain] [mk_rule 1 [1]]] g_diamond) = Ok /\
  has_cycle [(4, [4])] = Cycle /\ has_cycle [(0, [1]); (1, []); (0, [0])] = NoCycle [(0, true); (1, true); (1, false); (0, false)].
Proof.
  split; [vm_compute; reflexivity|]. split.
  { eapply path_step with (m := 1) (ts := [1]); [reflexivity | left; reflexivity|].
    eapply path_step with (m := 2) (ts := [2; 2]); [reflexivity | left; reflexivity|].
    eapply path_one with (ts := [8; 0]); [reflexivity | right; left; reflexivity]. }
  repeat split; vm_compute; reflexivity.
Qed.
