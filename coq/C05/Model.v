(* C05 — FEEL parsing and evaluation are total.  (owner: builder-total)
   ImplModel of the places where the anchored code computes with machine integers, indexes a vector or loops:

     feel-evaluator/src/bifs/core.rs   sublist2 sublist3 substring insert_before remove
     feel-evaluator/src/builders.rs    build_filter (numeric index)
     feel-evaluator/src/iterations.rs  FeelIterator::run (the for/some/every odometer)
     feel/src/temporal/ym_duration.rs  TryFrom<&str> (i64 month count), Display (abs)
     feel-number/src/number.rs         scientific_to_plain (number of zeros)
     feel-parser/src/parser.rs         Parser::parse (table indexes; tables are in Gen/LalrTables.v)

   Machine arithmetic is explicit: every + - * neg abs on usize / isize / i64 goes through an operation that takes the
   build: Debug (overflow checks on: the operation panics) or Release (two's-complement wrap).  Slicing and Vec::insert /
   remove panic in both builds when out of bounds.  An outcome is a value description, null, or Panic.
   `xxx_orig` is the code of the pinned commit f2b7a1b where a defect was repaired since.  No proofs in this file. *)
From Coq Require Import ZArith List Bool.
Import ListNotations.
Open Scope Z_scope.

Inductive build := Debug | Release.

Definition usize_max : Z := 18446744073709551615.
Definition isize_max : Z := 9223372036854775807.
Definition isize_min : Z := -9223372036854775808.
Definition two64 : Z := 18446744073709551616.

Definition wrap_u (z : Z) : Z := z mod two64.
Definition wrap_i (z : Z) : Z := (z - isize_min) mod two64 + isize_min.
Definition in_u (z : Z) : bool := (0 <=? z) && (z <=? usize_max).
Definition in_i (z : Z) : bool := (isize_min <=? z) && (z <=? isize_max).

(* result of a machine operation: a value, or the overflow panic of a build with overflow checks *)
Inductive mres := MOk (z : Z) | MTrap.

Definition mach_u (b : build) (exact : Z) : mres :=
  if in_u exact then MOk exact else match b with Debug => MTrap | Release => MOk (wrap_u exact) end.
Definition mach_i (b : build) (exact : Z) : mres :=
  if in_i exact then MOk exact else match b with Debug => MTrap | Release => MOk (wrap_i exact) end.

Definition uadd b x y := mach_u b (x + y).
Definition usub b x y := mach_u b (x - y).
Definition iadd b x y := mach_i b (x + y).
Definition imul b x y := mach_i b (x * y).
Definition ineg b x := mach_i b (- x).
Definition iabs b x := mach_i b (Z.abs x).
(* `u64 as i64`: a cast never panics *)
Definition u64_as_i64 (z : Z) : Z := wrap_i z.
(* checked_* : None instead of overflow, in every build *)
Definition checked_iadd x y : option Z := if in_i (x + y) then Some (x + y) else None.
Definition checked_imul x y : option Z := if in_i (x * y) then Some (x * y) else None.
Definition i64_try_from_u64 (z : Z) : option Z := if z <=? isize_max then Some z else None.

(* ------------------------------------------------------------------ FEEL numbers as the position arguments see them
   Int z: integral value z (whatever its scale: 1.0 is Int 1 since commit 7e647d9); Frac neg t: non-integral, sign and truncation. *)
Inductive num := Int (z : Z) | Frac (neg : bool) (trunc : Z).

Definition is_positive (n : num) : bool := match n with Int z => 0 <? z | Frac neg _ => negb neg end.
Definition is_negative (n : num) : bool := match n with Int z => z <? 0 | Frac neg _ => neg end.
Definition nabs (n : num) : num := match n with Int z => Int (Z.abs z) | Frac _ t => Frac false (Z.abs t) end.
Definition ntrunc (n : num) : num := match n with Int z => Int z | Frac _ t => Int t end.
Definition to_usize (n : num) : option Z := match n with Int z => if in_u z then Some z else None | Frac _ _ => None end.
Definition to_isize (n : num) : option Z := match n with Int z => if in_i z then Some z else None | Frac _ _ => None end.
Definition lt_one (n : num) : bool := match n with Int z => z <? 1 | Frac neg t => neg || (t <? 1) end.

(* ------------------------------------------------------------------ outcomes *)
Inductive out :=
| Null
| Slice (first last : Z)          (* items[first..last] / chars skip(first) take(last-first) *)
| Inserted (at_ : Z)              (* Vec::insert(at, x) *)
| Removed (at_ : Z)               (* Vec::remove(at) *)
| Item (at_ : Z)                  (* items.get(at) was Some *)
| Panic.

Definition slice (len first last : Z) : out := if (first <=? last) && (last <=? len) then Slice first last else Panic.
Definition vec_insert (len at_ : Z) : out := if at_ <=? len then Inserted at_ else Panic.
Definition vec_remove (len at_ : Z) : out := if at_ <? len then Removed at_ else Panic.

Definition bind (m : mres) (k : Z -> out) : out := match m with MOk z => k z | MTrap => Panic end.
Notation "'do' x <- m ; k" := (bind m (fun x => k)) (at level 200, x name, m at level 100, k at level 200).

(* ------------------------------------------------------------------ sublist (core.rs sublist2 / sublist3), len = items.len() *)
Definition sublist3 (b : build) (len : Z) (pos length : num) : out :=
  match to_usize length with
  | None => Null
  | Some l =>
    let neg_branch :=
      if is_negative pos then
        match to_usize (nabs pos) with
        | Some p =>
          if len <? p then Null else
          do first <- usub b len p;
          if first <? len then
            do rest <- usub b len first;
            if l <=? rest then (do last <- uadd b first l; slice len first last) else Null
          else Null
        | None => Null
        end
      else Null in
    if is_positive pos then
      match to_usize pos with
      | Some p =>
        do first <- usub b p 1;
        if first <? len then
          do rest <- usub b len first;
          if l <=? rest then (do last <- uadd b first l; slice len first last) else neg_branch
        else neg_branch
      | None => neg_branch
      end
    else neg_branch
  end.

(* pinned commit: `let first = items.len() - position; let last = first + length; if first < len && last <= len` *)
Definition sublist3_orig (b : build) (len : Z) (pos length : num) : out :=
  match to_usize length with
  | None => Null
  | Some l =>
    let neg_branch :=
      if is_negative pos then
        match to_usize (nabs pos) with
        | Some p =>
          do first <- usub b len p;
          do last <- uadd b first l;
          if (first <? len) && (last <=? len) then slice len first last else Null
        | None => Null
        end
      else Null in
    if is_positive pos then
      match to_usize pos with
      | Some p =>
        do first <- usub b p 1;
        do last <- uadd b first l;
        if (first <? len) && (last <=? len) then slice len first last else neg_branch
      | None => neg_branch
      end
    else neg_branch
  end.

Definition sublist2 (b : build) (len : Z) (pos : num) : out :=
  let neg_branch :=
    if is_negative pos then
      match to_usize (nabs pos) with
      | Some p => if p <=? len then (do first <- usub b len p; slice len first len) else Null
      | None => Null
      end
    else Null in
  if is_positive pos then
    match to_usize pos with
    | Some p => do index <- usub b p 1; if index <? len then slice len index len else neg_branch
    | None => neg_branch
    end
  else neg_branch.

(* ------------------------------------------------------------------ substring (core.rs), len = input_string.chars().count();
   skip(i).take(c) never panics, the description is Slice i (i+c) *)
Definition substring3 (b : build) (len : Z) (start length : num) : out :=
  match to_isize start with
  | None => Null
  | Some s =>
    if lt_one length then Null else
    match to_usize (ntrunc length) with
    | None => Null
    | Some count =>
      let neg_branch :=
        if s <? 0 then
          do index <- iadd b len s;
          if 0 <=? index then
            do rest <- usub b len index;
            if count <=? rest then Slice index (index + count) else Null
          else Null
        else Null in
      if 0 <? s then
        do index <- iadd b s (-1);
        if index <? len then
          do rest <- usub b len index;
          if count <=? rest then Slice index (index + count) else neg_branch
        else neg_branch
      else neg_branch
    end
  end.

(* pinned commit: `index < len && index + count <= len` *)
Definition substring3_orig (b : build) (len : Z) (start length : num) : out :=
  match to_isize start with
  | None => Null
  | Some s =>
    if lt_one length then Null else
    match to_usize (ntrunc length) with
    | None => Null
    | Some count =>
      let neg_branch :=
        if s <? 0 then
          do index <- iadd b len s;
          if 0 <=? index then
            do e <- uadd b index count;
            if e <=? len then Slice index (Z.min len (index + count)) else Null
          else Null
        else Null in
      if 0 <? s then
        do index <- iadd b s (-1);
        if index <? len then
          do e <- uadd b index count;
          if e <=? len then Slice index (Z.min len (index + count)) else neg_branch
        else neg_branch
      else neg_branch
    end
  end.

Definition substring2 (b : build) (len : Z) (start : num) : out :=
  match to_isize start with
  | None => Null
  | Some s =>
    let neg_branch :=
      if s <? 0 then (do index <- iadd b len s; if 0 <=? index then Slice index len else Null) else Null in
    if 0 <? s then (do index <- iadd b s (-1); if index <? len then Slice index len else neg_branch) else neg_branch
  end.

(* ------------------------------------------------------------------ insert before / remove (core.rs) *)
Definition insert_before (b : build) (len : Z) (pos : num) : out :=
  let neg_branch :=
    if is_negative pos then
      match to_usize (nabs pos) with
      | Some i => if i <=? len then (do at_ <- usub b len i; vec_insert len at_) else Null
      | None => Null
      end
    else Null in
  if is_positive pos then
    match to_usize pos with
    | Some i => if i <=? len then (do at_ <- usub b i 1; vec_insert len at_) else neg_branch
    | None => neg_branch
    end
  else neg_branch.

Definition remove (b : build) (len : Z) (pos : num) : out :=
  let neg_branch :=
    if is_negative pos then
      match to_usize (nabs pos) with
      | Some i => if i <=? len then (do at_ <- usub b len i; vec_remove len at_) else Null
      | None => Null
      end
    else Null in
  if is_positive pos then
    match to_usize pos with
    | Some i => do index <- usub b i 1; if index <? len then vec_remove len index else neg_branch
    | None => neg_branch
    end
  else neg_branch.

(* ------------------------------------------------------------------ numeric filter index (builders.rs build_filter); Frac = index.is_integer() fails *)
Definition filter_index (b : build) (len : Z) (index : num) : out :=
  match index with
  | Frac _ _ => Null
  | Int _ =>
    if negb (is_negative index) then
      match to_usize index with
      | None => Null
      | Some n => if (0 <? n) && (n <=? len) then (do i <- usub b n 1; if i <? len then Item i else Null) else Null
      end
    else
      match to_usize (nabs index) with
      | None => Null
      | Some n => if (0 <? n) && (n <=? len) then (do i <- usub b len n; if i <? len then Item i else Null) else Null
      end
  end.

(* ------------------------------------------------------------------ years and months duration literal (ym_duration.rs)
   years / months: the decimal values of the captured digit groups (None: group absent); a written group that does not fit u64
   makes the literal invalid (fix for C14; before it, and at the pinned commit, such a group was skipped).
   Result: YmOk total_months | YmErr (invalid literal -> null) | YmPanic. *)
Inductive ymres := YmOk (months : Z) | YmErr | YmPanic.

Definition parse_u64 (digits : option Z) : option Z := match digits with Some z => if in_u z then Some z else None | None => None end.

Definition ym_parse (b : build) (years months : option Z) (negative : bool) : ymres :=
  let step1 : option (Z * bool) :=
    match years, parse_u64 years with
    | _, Some y => match i64_try_from_u64 y with
                | Some y' => match checked_imul y' 12 with
                             | Some m => match checked_iadd 0 m with Some t => Some (t, true) | None => None end
                             | None => None end
                | None => None end
    | Some _, None => None
    | None, None => Some (0, false)
    end in
  match step1 with
  | None => YmErr
  | Some (t1, v1) =>
    let step2 : option (Z * bool) :=
      match months, parse_u64 months with
      | _, Some m => match i64_try_from_u64 m with
                  | Some m' => match checked_iadd t1 m' with Some t => Some (t, true) | None => None end
                  | None => None end
      | Some _, None => None
      | None, None => Some (t1, v1)
      end in
    match step2 with
    | None => YmErr
    | Some (t2, v2) =>
      match (if negative then ineg b t2 else MOk t2) with
      | MTrap => YmPanic
      | MOk t3 => if v2 then YmOk t3 else YmErr
      end
    end
  end.

(* pinned commit: `total_months += (years as i64) * 12; total_months += months as i64; if sign { total_months = -total_months }` *)
Definition ym_parse_orig (b : build) (years months : option Z) (negative : bool) : ymres :=
  let r1 : mres * bool :=
    match parse_u64 years with
    | Some y => (match imul b (u64_as_i64 y) 12 with MOk m => iadd b 0 m | MTrap => MTrap end, true)
    | None => (MOk 0, false)
    end in
  match r1 with
  | (MTrap, _) => YmPanic
  | (MOk t1, v1) =>
    let r2 : mres * bool :=
      match parse_u64 months with
      | Some m => (iadd b t1 (u64_as_i64 m), true)
      | None => (MOk t1, v1)
      end in
    match r2 with
    | (MTrap, _) => YmPanic
    | (MOk t2, v2) =>
      match (if negative then ineg b t2 else MOk t2) with
      | MTrap => YmPanic
      | MOk t3 => if v2 then YmOk t3 else YmErr
      end
    end
  end.

(* Display: `let mut month = self.0.abs(); let year = month / 12; month -= year * 12;` — true iff it panics *)
Definition ym_display_panics (b : build) (total : Z) : bool :=
  match iabs b total with
  | MTrap => true
  | MOk m => let year := Z.quot m 12 in
             match imul b year 12 with
             | MTrap => true
             | MOk ym => match mach_i b (m - ym) with MTrap => true | MOk _ => false end
             end
  end.

(* ------------------------------------------------------------------ scientific_to_plain (number.rs): `exponent_digits - after_decimal.len()` in usize.
   The text comes from decQuad to-scientific-string of a finite number with ndigits coefficient digits and exponent e > 0:
   d.ddd E+(e + ndigits - 1), after_decimal.len() = ndigits - 1 *)
Definition sci_zero_count (b : build) (ndigits e : Z) : mres := usub b (e + ndigits - 1) (ndigits - 1).

(* ------------------------------------------------------------------ the odometer of FeelIterator::run (iterations.rs)
   A state per iteration variable, innermost first (the code reverses the declaration order before the loop). *)
Record ist := mk_ist { ix : Z; up : bool; st_start : Z; st_end : Z }.
Definition step_of (s : ist) : Z := if up s then 1 else -1.
Definition set_ix (s : ist) (i : Z) : ist := mk_ist i (up s) (st_start s) (st_end s).

Inductive adv := Next (states : list ist) | Done | AdvPanic.

(* one pass of the `'inner` loop; `carry` is the variable `overflow`, the head of the list is position x, last = (x == last_iteration_state_index) *)
Fixpoint advance_from (states : list ist) : adv :=
  match states with
  | [] => Next []               (* not reached with carry on a non-empty list: the last position breaks the outer loop *)
  | s :: rest =>
    let is_last := match rest with [] => true | _ => false end in
    let next := checked_iadd (ix s) (step_of s) in
    let beyond := match next with Some n => if up s then st_end s <? n else n <? st_end s | None => true end in
    if is_last && beyond then Done else
    if beyond then
      match advance_from rest with
      | Next rest' => Next (set_ix s (st_start s) :: rest')
      | other => other
      end
    else match next with Some n => Next (set_ix s n :: rest) | None => Done end
  end.

(* pinned commit: `index + step` in isize *)
Fixpoint advance_from_orig (b : build) (states : list ist) : adv :=
  match states with
  | [] => Next []
  | s :: rest =>
    let is_last := match rest with [] => true | _ => false end in
    match iadd b (ix s) (step_of s) with
    | MTrap => AdvPanic
    | MOk n =>
      let beyond := if up s then st_end s <? n else n <? st_end s in
      if is_last && beyond then Done else
      if beyond then
        match advance_from_orig b rest with
        | Next rest' => Next (set_ix s (st_start s) :: rest')
        | other => other
        end
      else Next (set_ix s n :: rest)
    end
  end.

Inductive runres := Finished (visited : list (list ist)) | OutOfFuel | RunPanic.

(* the outer loop: every pass hands the current states to the handler (their indexes are the bound values), then advances *)
Fixpoint run (fuel : nat) (states : list ist) (acc : list (list ist)) : runres :=
  match fuel with
  | O => OutOfFuel
  | S f =>
    let acc' := states :: acc in
    match advance_from states with
    | Done => Finished (rev acc')
    | Next states' => run f states' acc'
    | AdvPanic => RunPanic
    end
  end.

Fixpoint run_orig (b : build) (fuel : nat) (states : list ist) (acc : list (list ist)) : runres :=
  match fuel with
  | O => OutOfFuel
  | S f =>
    let acc' := states :: acc in
    match advance_from_orig b states with
    | Done => Finished (rev acc')
    | Next states' => run_orig b f states' acc'
    | AdvPanic => RunPanic
    end
  end.

(* the index vectors handed to the handler, innermost variable first *)
Definition visited_indexes (r : runres) : option (list (list Z)) := match r with Finished v => Some (map (map ix) v) | _ => None end.

(* add_range / add_list *)
Definition range_state (a z : Z) : ist := mk_ist a (a <=? z) a z.
Definition list_state (n : Z) : ist := mk_ist 0 true 0 (n - 1).

(* size of the domain of one state as the odometer sees it (an empty list counts as one pass, without a binding) *)
Definition dsize (s : ist) : Z := Z.max 1 (if up s then st_end s - st_start s + 1 else st_start s - st_end s + 1).
Definition digit (s : ist) : Z := if up s then ix s - st_start s else st_start s - ix s.
Fixpoint total (states : list ist) : Z := match states with [] => 1 | s :: r => dsize s * total r end.
Fixpoint rank (states : list ist) : Z := match states with [] => 0 | s :: r => digit s + dsize s * rank r end.
