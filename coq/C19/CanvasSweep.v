(* C19 — finite sweeps (vm_compute) over regular drawings: the whole chain text -> lines -> canvas -> plane -> table on a bounded
   family of shapes; they complement the theorems of CanvasProofs.v that hold for every shape.  (owner: ext-canvas) *)
From Coq Require Import List NArith Bool Arith.
From DV Require Import C19.Model C19.Canvas C19.CanvasDraw.
Import ListNotations.

Definition txt (a b w : nat) : list N := [N.of_nat (65 + a); N.of_nat (97 + b)] ++ repeat 32%N w.
Definition num_cell (r : nat) : list N := [32%N; N.of_nat (49 + r); 32%N].
Definition hp_cell : list N := [32; 85; 32]%N.

(* a table with ni inputs, no outputs, na annotations, nr rules; column widths 2..4, all texts different *)
Definition sample (ni no na nr : nat) : stable :=
  {| s_hp := hp_cell;
     s_ins := map (fun j => txt 0 j (j mod 3)) (seq 0 ni);
     s_outs := map (fun j => txt 1 j ((j + 1) mod 2)) (seq 0 no);
     s_anns := map (fun j => txt 2 j 0) (seq 0 na);
     s_rules := map (fun r => (num_cell r, map (fun j => txt (3 + r) j (j mod 3)) (seq 0 ni),
                               map (fun j => txt (6 + r) j ((j + 1) mod 2)) (seq 0 no),
                               map (fun j => txt (9 + r) j 0) (seq 0 na))) (seq 0 nr) |}.

Definition shapes : list (nat * nat * nat * nat) :=
  flat_map (fun ni => flat_map (fun no => flat_map (fun na => map (fun nr => (ni, no, na, nr)) [1; 2; 3]) [0; 1; 2]) [1; 2; 3]) [1; 2; 3].
Definition sample_of (sh : nat * nat * nat * nat) : stable := let '(ni, no, na, nr) := sh in sample ni no na nr.

(* an injective coding of strings, and the two text parsers on coded texts *)
Definition code (t : list N) : N := fold_right (fun c acc => (c + 2097152 * acc)%N) 1%N t.
Definition parse_hp (x : N) : option N := if (x =? code hp_cell)%N then Some 1%N else None.
Definition parse_num (x : N) : option nat :=
  option_map S (find (fun r => (x =? code (num_cell r))%N) (seq 0 9)).

Definition fields_eqb (a b : fields) : bool :=
  all2 N.eqb (f_inputs a) (f_inputs b) && all2 N.eqb (f_input_values a) (f_input_values b) &&
  all2 (all2 N.eqb) (f_input_entries a) (f_input_entries b) &&
  match f_label a, f_label b with Some x, Some y => (x =? y)%N | None, None => true | _, _ => false end &&
  all2 N.eqb (f_components a) (f_components b) && all2 N.eqb (f_output_values a) (f_output_values b) &&
  all2 (all2 N.eqb) (f_output_entries a) (f_output_entries b) &&
  all2 N.eqb (f_annotations a) (f_annotations b) && all2 (all2 N.eqb) (f_annotation_entries a) (f_annotation_entries b).

(* text -> plane: exactly the drawn plane (numbers, rectangles, texts) *)
Definition plane_ok (sh : nat * nat * nat * nat) : bool :=
  let d := table_drawing (sample_of sh) in
  wf_rdraw d && outcome_eqb (canvas_cplane (draw d)) (Ok (None, expected_plane d)).

(* text -> table: orientation, hit policy, rule count and every field *)
Definition table_ok (sh : nat * nat * nat * nat) : bool :=
  let s := sample_of sh in
  match canvas_to_plane code (draw (table_drawing s)) with
  | Some p =>
      match recognize_plane parse_hp parse_num p with
      | Some (AsRow, hp, n, f) => (hp =? 1)%N && (n =? length (s_rules s)) && fields_eqb f (fields_of (abs_table code s))
      | _ => false
      end
  | None => false
  end.

Lemma plane_sweep : forallb plane_ok shapes = true.
Proof. vm_compute. reflexivity. Qed.
Lemma table_sweep : forallb table_ok shapes = true.
Proof. vm_compute. reflexivity. Qed.

Lemma plane_bounded ni no na nr : In (ni, no, na, nr) shapes ->
  let d := table_drawing (sample ni no na nr) in
  wf_rdraw d = true /\ outcome_eqb (canvas_cplane (draw d)) (Ok (None, expected_plane d)) = true.
Proof.
  intro Hin. pose proof plane_sweep as S. rewrite forallb_forall in S. specialize (S _ Hin).
  unfold plane_ok, sample_of in S. now apply andb_true_iff in S.
Qed.
Lemma table_bounded ni no na nr : In (ni, no, na, nr) shapes -> table_ok (ni, no, na, nr) = true.
Proof. intro Hin. pose proof table_sweep as S. rewrite forallb_forall in S. now apply S. Qed.
