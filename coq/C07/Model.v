(* C07 — numbers print as plain decimal text that denotes exactly their value.
   ImplModel:
     to_sci             decQuadToString (decCommon.c decFloatToString): the to-scientific-string
                        conversion of the General Decimal Arithmetic specification
     sci_to_plain       scientific_to_plain of feel-number/src/number.rs, transliterated over
                        character lists (split on "E+" / "E-", split on '.', usize parse, zero padding,
                        the usize subtraction with explicit underflow = None)
     sci_to_plain_orig  the same function at the pinned commit (before the two fix: commits)
     print              Display / jsonify of FeelNumber = sci_to_plain (to_sci d)
     from_plain         FromStr / the Numeric(before, after) token path on plain text, before rounding
   Spec:
     is_plain, is_json  the shape of the text;  denotes  the value of a plain decimal numeral
   No proofs in this file. *)
From Coq Require Import ZArith NArith Bool List Ascii.
From Coq Require String.
From DV Require Import Base.Dec.
Import ListNotations.
Open Scope char_scope.
Open Scope Z_scope.

Definition str := list ascii.

(* ------------------------------------------------------------------ characters and digit strings *)
Definition is_digit (c : ascii) : bool :=
  match c with
  | "0" | "1" | "2" | "3" | "4" | "5" | "6" | "7" | "8" | "9" => true
  | _ => false
  end.

Definition digit_val (c : ascii) : N :=
  match c with
  | "1" => 1 | "2" => 2 | "3" => 3 | "4" => 4 | "5" => 5 | "6" => 6 | "7" => 7 | "8" => 8 | "9" => 9
  | _ => 0
  end%N.

Definition digit_char (n : N) : ascii :=
  match n with
  | 0 => "0" | 1 => "1" | 2 => "2" | 3 => "3" | 4 => "4" | 5 => "5" | 6 => "6" | 7 => "7" | 8 => "8" | _ => "9"
  end%N.

(* value of a digit string, most significant digit first *)
Fixpoint digits_acc (acc : N) (s : str) : N :=
  match s with
  | [] => acc
  | c :: t => digits_acc (acc * 10 + digit_val c)%N t
  end.
Definition digits_val (s : str) : N := digits_acc 0 s.

(* decimal digits of a natural number, no leading zeros, "0" for zero *)
Fixpoint digits_fuel (fuel : nat) (n : N) : str :=
  match fuel with
  | O => []
  | S f => if (n <? 10)%N then [digit_char n] else digits_fuel f (n / 10)%N ++ [digit_char (n mod 10)%N]
  end.
Definition digits_of (n : N) : str := digits_fuel (S (N.to_nat (N.size n))) n.

Definition all_digits (s : str) : bool := forallb is_digit s.
Definition zeros (n : nat) : str := repeat "0" n.
Definition len (s : str) : Z := Z.of_nat (length s).

(* ------------------------------------------------------------------ decQuadToString *)
Definition sign_of (d : dec) : str := if neg d then ["-"] else [].

Definition to_sci_unsigned (c : N) (e : Z) : str :=
  let ds := digits_of c in
  let pre := len ds + e in              (* digits before the point in plain notation *)
  if (0 <? e) || (pre <? -5) then
    (* exponential form: one digit, '.', the other digits, E, sign, |adjusted exponent| *)
    let adj := pre - 1 in
    match ds with
    | [] => []
    | c1 :: rest =>
        (c1 :: match rest with [] => [] | _ => "." :: rest end)
        ++ "E" :: (if adj <? 0 then "-" else "+") :: digits_of (Z.abs_N adj)
    end
  else if 0 <? pre then
    if e =? 0 then ds
    else firstn (Z.to_nat pre) ds ++ "." :: skipn (Z.to_nat pre) ds
  else "0" :: "." :: zeros (Z.to_nat (- pre)) ++ ds.

Definition to_sci (d : dec) : str := sign_of d ++ to_sci_unsigned (coef d) (expo d).

(* ------------------------------------------------------------------ Rust string primitives *)
(* s.split(c): the text before the first c, and the text after it (None when c does not occur) *)
Fixpoint split_char (c : ascii) (s : str) : str * option str :=
  match s with
  | [] => ([], None)
  | a :: t => if Ascii.eqb a c then ([], Some t)
              else let (x, y) := split_char c t in (a :: x, y)
  end.

(* the first two items of s.split(c) *)
Definition split_two (c : ascii) (s : str) : str * option str :=
  match split_char c s with
  | (a, None) => (a, None)
  | (a, Some r) => (a, Some (fst (split_char c r)))
  end.

(* s.split("c1c2"): the text before the first occurrence of the two-character pattern and the text after it *)
Fixpoint split_pat (c1 c2 : ascii) (s : str) : option (str * str) :=
  match s with
  | [] => None
  | a :: t =>
      match t with
      | b :: t' => if Ascii.eqb a c1 && Ascii.eqb b c2 then Some ([], t')
                   else match split_pat c1 c2 t with Some (x, y) => Some (a :: x, y) | None => None end
      | [] => None
      end
  end.

(* the second item of s.split("c1c2"), given the text after the first occurrence *)
Definition next_piece (c1 c2 : ascii) (r : str) : str :=
  match split_pat c1 c2 r with Some (x, _) => x | None => r end.

(* usize::from_str: optional '+', at least one digit, digits only; None = Err (the caller unwraps: panic).
   The 2^64 bound is not modelled: the exponent text of a decimal128 has at most four digits. *)
Definition parse_usize (s : str) : option N :=
  let t := match s with "+" :: t => t | _ => s end in
  match t with
  | [] => None
  | _ => if all_digits t then Some (digits_val t) else None
  end.

(* a - b on usize: None = overflow panic (debug) / absurd allocation (release) *)
Definition checked_sub (a b : N) : option N := if (a <? b)%N then None else Some (a - b)%N.

Definition contains_char (c : ascii) (s : str) : bool := existsb (fun a => Ascii.eqb a c) s.

(* ------------------------------------------------------------------ scientific_to_plain *)
(* the body of the function as it was at the pinned commit *)
Definition sci_to_plain_orig (s : str) : option str :=
  match split_pat "E" "+" s with
  | Some (before_exponent, r) =>
      match parse_usize (next_piece "E" "+" r) with
      | None => None
      | Some exponent_digits =>
          if contains_char "." before_exponent then
            match split_two "." before_exponent with
            | (before_decimal, Some after_decimal) =>
                match checked_sub exponent_digits (N.of_nat (length after_decimal)) with
                | None => None
                | Some z => Some (before_decimal ++ after_decimal ++ zeros (N.to_nat z))
                end
            | (_, None) => None
            end
          else Some (before_exponent ++ zeros (N.to_nat exponent_digits))
      end
  | None =>
      match split_pat "E" "-" s with
      | Some (before_exponent, r) =>
          match parse_usize (next_piece "E" "-" r) with
          | None => None
          | Some exponent_digits =>
              let zs := zeros (N.to_nat (exponent_digits - 1)) in     (* (1..exponent_digits): empty when 0 *)
              if contains_char "." before_exponent then
                match split_two "." before_exponent with
                | (before_decimal, Some after_decimal) => Some ("0" :: "." :: zs ++ before_decimal ++ after_decimal)
                | (_, None) => None
                end
              else Some ("0" :: "." :: zs ++ before_exponent)
          end
      | None => Some s
      end
  end.

Definition is_zero_digit (s : str) : bool := match s with ["0"] => true | _ => false end.

(* after fix 2 (a zero coefficient has no digits to shift: 0E+3 is "0"), unsigned text *)
Definition sci_to_plain_unsigned (s : str) : option str :=
  match split_pat "E" "+" s with
  | Some (before_exponent, r) =>
      match parse_usize (next_piece "E" "+" r) with
      | None => None
      | Some exponent_digits =>
          if contains_char "." before_exponent then
            match split_two "." before_exponent with
            | (before_decimal, Some after_decimal) =>
                match checked_sub exponent_digits (N.of_nat (length after_decimal)) with
                | None => None
                | Some z => Some (before_decimal ++ after_decimal ++ zeros (N.to_nat z))
                end
            | (_, None) => None
            end
          else if is_zero_digit before_exponent then Some before_exponent
          else Some (before_exponent ++ zeros (N.to_nat exponent_digits))
      end
  | None => sci_to_plain_orig s
  end.

(* after fix 1 (the sign is stripped before the digits are rearranged and re-attached afterwards) *)
Definition sci_to_plain (s : str) : option str :=
  match s with
  | "-" :: t => match sci_to_plain_unsigned t with Some r => Some ("-" :: r) | None => None end
  | _ => sci_to_plain_unsigned s
  end.

(* Display / jsonify *)
Definition print (d : dec) : option str := sci_to_plain (to_sci d).
Definition print_orig (d : dec) : option str := sci_to_plain_orig (to_sci d).

(* ------------------------------------------------------------------ Spec *)
(* -?digits(.digits)? *)
Definition unsigned_plain (s : str) : bool :=
  match split_char "." s with
  | (ip, None) => negb (length ip =? 0)%nat && all_digits ip
  | (ip, Some fp) => negb (length ip =? 0)%nat && all_digits ip && negb (length fp =? 0)%nat && all_digits fp
  end.
Definition strip_sign (s : str) : bool * str := match s with "-" :: t => (true, t) | _ => (false, s) end.
Definition is_plain (s : str) : bool := unsigned_plain (snd (strip_sign s)).

(* JSON number without exponent: -?(0|[1-9]digits)(.digits)? — is_plain and no superfluous leading zero *)
Definition no_leading_zero (s : str) : bool :=
  match s with
  | "0" :: c :: _ => negb (is_digit c)
  | _ => true
  end.
Definition is_json (s : str) : bool := is_plain s && no_leading_zero (snd (strip_sign s)).

(* the number a plain numeral denotes: coefficient = all its digits, exponent = -(number of fraction digits) *)
Definition denotes (s : str) : option dec :=
  if is_plain s then
    let (sg, u) := strip_sign s in
    match split_char "." u with
    | (ip, None) => Some (mkdec sg (digits_val ip) 0)
    | (ip, Some fp) => Some (mkdec sg (digits_val (ip ++ fp)) (- len fp))
    end
  else None.

(* ------------------------------------------------------------------ I/O helpers for the correspondence check *)
Definition show (o : option str) : option String.string := option_map String.string_of_list_ascii o.
(* run-length form of long zero runs: [(text, number of zeros that follow it)] — printing a 6000-character string is slow *)
Fixpoint rle (s : str) (cur : str) (z : nat) : list (String.string * nat) :=
  match s with
  | [] => [(String.string_of_list_ascii (rev cur), z)]
  | "0" :: t => rle t cur (S z)
  | c :: t => if Nat.leb 8 z then (String.string_of_list_ascii (rev cur), z) :: rle t [c] O
              else rle t (c :: zeros z ++ cur) O
  end.
Definition show_rle (o : option str) : option (list (String.string * nat)) := option_map (fun s => rle s [] O) o.
Definition rd (s : String.string) : str := String.list_ascii_of_string s.

(* a scientific or plain numeral "[-]ddd[.ddd][E[+-]ddd]" as the exact datum it writes (test operands) *)
Definition parse_exp (s : str) : option Z :=
  match s with
  | "-" :: t => if all_digits t && negb (length t =? 0)%nat then Some (- Z.of_N (digits_val t)) else None
  | "+" :: t => if all_digits t && negb (length t =? 0)%nat then Some (Z.of_N (digits_val t)) else None
  | t => if all_digits t && negb (length t =? 0)%nat then Some (Z.of_N (digits_val t)) else None
  end.
Definition read_dec (s : str) : option dec :=
  let (m, x) := split_char "E" s in
  match denotes m with
  | None => None
  | Some p =>
      match x with
      | None => Some p
      | Some xs => match parse_exp xs with Some e => Some (mkdec (neg p) (coef p) (expo p + e)) | None => None end
      end
  end.
