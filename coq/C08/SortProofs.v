(* C08 — sort(list, precedes) (C08/Model2.v sort_by) and the number sort of median / mode (C08/Model.v nsort):
   permutation for every relation; sorted and stable when the relation is a strict weak order on the items. *)
From Coq Require Import List NArith ZArith Bool Arith Lia Permutation Sorted.
From DV Require Import C09.Values C09.Model C09.Proofs C08.Model C08.Model2 C08.Proofs.
Import ListNotations.

Section Generic.
Context {A : Type}.
Variable lt : A -> A -> bool.

(* ---- permutation: for every relation ---- *)
Lemma insert_by_perm : forall x l, Permutation (insert_by lt x l) (x :: l).
Proof.
  intros x l. induction l as [|y r IH]; cbn [insert_by]; auto.
  destruct (lt x y); auto.
  eapply perm_trans; [apply perm_skip; exact IH|apply perm_swap].
Qed.
Lemma sort_by_perm_acc : forall l acc, Permutation (fold_left (fun a x => insert_by lt x a) l acc) (l ++ acc).
Proof.
  induction l as [|x l IH]; intros acc; cbn [fold_left app]; auto.
  eapply perm_trans; [apply IH|]. eapply perm_trans; [apply Permutation_app_head; apply insert_by_perm|].
  apply Permutation_sym. apply Permutation_middle.
Qed.
Theorem sort_by_perm : forall l, Permutation (sort_by lt l) l.
Proof. intros l. unfold sort_by. eapply perm_trans; [apply sort_by_perm_acc|]. rewrite app_nil_r. apply Permutation_refl. Qed.

(* ---- the hypothesis: lt is a strict weak order on the items ---- *)
(* irreflexive, transitive, and incomparability is transitive (x < z implies x < y or y < z); a strict total order is one *)
Definition swo_on (l : list A) : bool :=
  forallb (fun x => negb (lt x x) &&
    forallb (fun y => forallb (fun z => implb (lt x y && lt y z) (lt x z) && implb (lt x z) (lt x y || lt y z)) l) l) l.

(* a does not come after b: b does not strictly precede a *)
Definition not_after (a b : A) : Prop := lt b a = false.
Definition sorted_by (l : list A) : Prop := StronglySorted not_after l.
(* neither precedes the other *)
Definition eqv (a b : A) : bool := negb (lt a b) && negb (lt b a).

Section Domain.
Variable P : A -> Prop.
Hypothesis Hirr : forall x, P x -> lt x x = false.
Hypothesis Htrans : forall x y z, P x -> P y -> P z -> lt x y = true -> lt y z = true -> lt x z = true.
Hypothesis Hneg : forall x y z, P x -> P y -> P z -> lt x z = true -> lt x y = true \/ lt y z = true.

Lemma lt_asym : forall x y, P x -> P y -> lt x y = true -> lt y x = false.
Proof.
  intros x y Px Py H. destruct (lt y x) eqn:E; auto.
  rewrite <- (Hirr x Px). symmetry. apply (Htrans x y x); auto.
Qed.

Lemma insert_by_P : forall x l, Forall P (x :: l) -> Forall P (insert_by lt x l).
Proof. intros x l H. eapply Permutation_Forall; [apply Permutation_sym; apply insert_by_perm|exact H]. Qed.

Lemma insert_by_sorted : forall x l, Forall P (x :: l) -> sorted_by l -> sorted_by (insert_by lt x l).
Proof.
  intros x l. induction l as [|y r IH]; intros HP S; cbn [insert_by].
  - constructor; constructor.
  - inversion HP as [|? ? Px HP']; subst. inversion HP' as [|? ? Py Pr]; subst.
    inversion S as [|? ? Sr Fy]; subst.
    destruct (lt x y) eqn:E.
    + constructor; [exact S|]. constructor.
      * unfold not_after. apply lt_asym; auto.
      * rewrite Forall_forall in *. intros w Hw. unfold not_after.
        destruct (lt w x) eqn:W; auto.
        assert (lt w y = true) by (apply (Htrans w x y); auto).
        specialize (Fy w Hw). unfold not_after in Fy. congruence.
    + constructor.
      * apply IH; auto.
      * eapply Permutation_Forall; [apply Permutation_sym; apply insert_by_perm|].
        constructor; [exact E|exact Fy].
Qed.

(* every item that is neither before nor after z keeps its place relative to the other such items *)
Lemma insert_by_filter : forall z x l, P z -> Forall P (x :: l) -> sorted_by l ->
  filter (eqv z) (insert_by lt x l) = filter (eqv z) l ++ (if eqv z x then [x] else []).
Proof.
  intros z x l Pz. induction l as [|y r IH]; intros HP S; cbn [insert_by].
  - cbn. destruct (eqv z x); reflexivity.
  - inversion HP as [|? ? Px HP']; subst. inversion HP' as [|? ? Py Pr]; subst.
    inversion S as [|? ? Sr Fy]; subst.
    destruct (lt x y) eqn:E.
    + destruct (eqv z x) eqn:Z.
      * assert (N : forall w, In w (y :: r) -> eqv z w = false).
        { intros w Hw.
          assert (Pw : P w) by (rewrite Forall_forall in HP'; apply HP'; exact Hw).
          assert (Xw : lt x w = true).
          { destruct Hw as [<-|Hw]; [exact E|].
            destruct (Hneg x w y Px Pw Py E) as [H|H]; auto.
            rewrite Forall_forall in Fy. specialize (Fy w Hw). unfold not_after in Fy. congruence. }
          unfold eqv in Z. apply andb_true_iff in Z. destruct Z as [Z1 Z2].
          apply negb_true_iff in Z1. apply negb_true_iff in Z2.
          destruct (Hneg x z w Px Pz Pw Xw) as [H|H]; [congruence|].
          unfold eqv. rewrite H. reflexivity. }
        assert (F : filter (eqv z) (y :: r) = []).
        { clear - N. induction (y :: r) as [|a q IHq]; auto. cbn. rewrite (N a (or_introl eq_refl)). apply IHq.
          intros w Hw. apply N. right. exact Hw. }
        change (filter (eqv z) (x :: y :: r)) with (if eqv z x then x :: filter (eqv z) (y :: r) else filter (eqv z) (y :: r)).
        rewrite Z, F. reflexivity.
      * change (filter (eqv z) (x :: y :: r)) with (if eqv z x then x :: filter (eqv z) (y :: r) else filter (eqv z) (y :: r)).
        rewrite Z, app_nil_r. reflexivity.
    + cbn [filter]. rewrite (IH (Forall_cons _ Px Pr) Sr).
      destruct (eqv z y); reflexivity.
Qed.

Lemma sort_by_acc_spec : forall l acc, Forall P (l ++ acc) -> sorted_by acc ->
  sorted_by (fold_left (fun a x => insert_by lt x a) l acc) /\
  forall z, P z -> filter (eqv z) (fold_left (fun a x => insert_by lt x a) l acc) = filter (eqv z) acc ++ filter (eqv z) l.
Proof.
  induction l as [|x l IH]; intros acc HP S; cbn [fold_left].
  - split; auto. intros z _. cbn. rewrite app_nil_r. reflexivity.
  - cbn [app] in HP. inversion HP as [|? ? Px HP']; subst.
    apply Forall_app in HP'. destruct HP' as [Pl Pacc].
    assert (PI : Forall P (x :: acc)) by (constructor; auto).
    destruct (IH (insert_by lt x acc)) as [S' F'].
    + apply Forall_app. split; auto. apply insert_by_P. exact PI.
    + apply insert_by_sorted; auto.
    + split; auto. intros z Pz. rewrite (F' z Pz), (insert_by_filter z x acc Pz PI S).
      rewrite <- app_assoc. f_equal. cbn [filter]. destruct (eqv z x); reflexivity.
Qed.

(* two sorted lists with the same items in which tied items stand in the same order are the same list *)
Lemma stable_sorted_unique : forall r1 r2, (forall x, In x r1 -> P x) -> sorted_by r1 -> sorted_by r2 -> Permutation r1 r2 ->
  (forall z, P z -> filter (eqv z) r1 = filter (eqv z) r2) -> r1 = r2.
Proof.
  induction r1 as [|a r1 IH]; intros r2 HP S1 S2 Pm F.
  - apply Permutation_nil in Pm. auto.
  - destruct r2 as [|b r2]; [apply Permutation_sym, Permutation_nil in Pm; discriminate|].
    assert (Pa : P a) by (apply HP; left; reflexivity).
    apply StronglySorted_inv in S1. destruct S1 as [S1 F1]. apply StronglySorted_inv in S2. destruct S2 as [S2 F2].
    rewrite Forall_forall in F1, F2.
    assert (E : a = b).
    { assert (L1 : lt b a = false).
      { assert (Hb : In b (a :: r1)) by (eapply Permutation_in; [apply Permutation_sym; exact Pm|left; reflexivity]).
        destruct Hb as [<-|Hb]; [apply Hirr; exact Pa|exact (F1 b Hb)]. }
      assert (L2 : lt a b = false).
      { assert (Ha : In a (b :: r2)) by (eapply Permutation_in; [exact Pm|left; reflexivity]).
        destruct Ha as [->|Ha]; [apply Hirr; exact Pa|exact (F2 a Ha)]. }
      assert (Eaa : eqv a a = true) by (unfold eqv; rewrite (Hirr a Pa); reflexivity).
      assert (Eab : eqv a b = true) by (unfold eqv; rewrite L1, L2; reflexivity).
      specialize (F a Pa). cbn [filter] in F. rewrite Eaa, Eab in F. injection F. auto. }
    subst b. f_equal. apply IH; auto.
    + intros x Hx. apply HP. right. exact Hx.
    + eapply Permutation_cons_inv. exact Pm.
    + intros z Pz. specialize (F z Pz). cbn [filter] in F. destruct (eqv z a); [injection F; auto|exact F].
Qed.
End Domain.

Lemma swo_on_props : forall l, swo_on l = true ->
  (forall x, In x l -> lt x x = false) /\
  (forall x y z, In x l -> In y l -> In z l -> lt x y = true -> lt y z = true -> lt x z = true) /\
  (forall x y z, In x l -> In y l -> In z l -> lt x z = true -> lt x y = true \/ lt y z = true).
Proof.
  intros l H. unfold swo_on in H. rewrite forallb_forall in H.
  split; [|split].
  - intros x Hx. specialize (H x Hx). apply andb_true_iff in H. destruct H as [H _]. apply negb_true_iff in H. exact H.
  - intros x y z Hx Hy Hz L1 L2. specialize (H x Hx). apply andb_true_iff in H. destruct H as [_ H].
    rewrite forallb_forall in H. specialize (H y Hy). rewrite forallb_forall in H. specialize (H z Hz).
    apply andb_true_iff in H. destruct H as [H _]. rewrite L1, L2 in H. cbn in H. exact H.
  - intros x y z Hx Hy Hz L1. specialize (H x Hx). apply andb_true_iff in H. destruct H as [_ H].
    rewrite forallb_forall in H. specialize (H y Hy). rewrite forallb_forall in H. specialize (H z Hz).
    apply andb_true_iff in H. destruct H as [_ H]. rewrite L1 in H. cbn in H. apply orb_true_iff in H. exact H.
Qed.

(* sort(list, precedes): a permutation; no later item precedes an earlier one; items that are tied keep their input order *)
Theorem sort_by_spec : forall l, swo_on l = true ->
  Permutation (sort_by lt l) l /\ sorted_by (sort_by lt l) /\
  forall z, In z l -> filter (eqv z) (sort_by lt l) = filter (eqv z) l.
Proof.
  intros l H. destruct (swo_on_props l H) as (Hi & Ht & Hn).
  split; [apply sort_by_perm|].
  destruct (sort_by_acc_spec (fun x => In x l) Hi Ht Hn l []) as [S F].
  - rewrite app_nil_r. apply Forall_forall. auto.
  - constructor.
  - split; [exact S|]. intros z Hz. exact (F z Hz).
Qed.

(* ... and that determines the result *)
Theorem sort_by_unique : forall l res, swo_on l = true -> Permutation res l -> sorted_by res ->
  (forall z, In z l -> filter (eqv z) res = filter (eqv z) l) -> res = sort_by lt l.
Proof.
  intros l res H Pm S F. destruct (swo_on_props l H) as (Hi & Ht & Hn).
  destruct (sort_by_spec l H) as (Pm' & S' & F').
  apply (stable_sorted_unique (fun x => In x l) Hi); auto.
  - intros x Hx. eapply Permutation_in; [exact Pm|exact Hx].
  - eapply perm_trans; [exact Pm|apply Permutation_sym; exact Pm'].
  - intros z Hz. rewrite (F z Hz), (F' z Hz). reflexivity.
Qed.

(* sorted_by, read by positions *)
Lemma sorted_by_nth : forall l, sorted_by l -> forall i j d, (i < j < length l)%nat -> lt (nth j l d) (nth i l d) = false.
Proof.
  intros l S. induction S as [|a l S IH F]; intros i j d Hij; cbn [length] in Hij; [lia|].
  destruct j as [|j]; [lia|]. destruct i as [|i]; cbn [nth].
  - rewrite Forall_forall in F. apply F. apply nth_In. lia.
  - apply IH. lia.
Qed.

End Generic.

(* ================= the number order of median and mode ================= *)
Lemma ninsert_is_insert_by : forall x l, ninsert x l = insert_by nlt x l.
Proof. intros x l. induction l as [|y r IH]; cbn [ninsert insert_by]; [reflexivity|]. unfold nlt at 1. rewrite IH. reflexivity. Qed.
Lemma nsort_is_sort_by : forall l, nsort l = sort_by nlt l.
Proof.
  intros l. unfold nsort, sort_by. generalize (@nil (Z * Z)) as acc. induction l as [|x l IH]; intros acc; cbn [fold_left]; [reflexivity|].
  rewrite ninsert_is_insert_by. apply IH.
Qed.

Open Scope Z_scope.
(* three numbers on a common exponent *)
Lemma ncmp3 : forall a b c : Z * Z, exists x y z : Z,
  ncmp (fst a) (snd a) (fst b) (snd b) = (x ?= y) /\ ncmp (fst b) (snd b) (fst c) (snd c) = (y ?= z) /\
  ncmp (fst a) (snd a) (fst c) (snd c) = (x ?= z).
Proof.
  intros [c1 e1] [c2 e2] [c3 e3]. cbn [fst snd]. set (E := Z.min e1 (Z.min e2 e3)).
  exists (c1 * 10 ^ (e1 - E)), (c2 * 10 ^ (e2 - E)), (c3 * 10 ^ (e3 - E)).
  rewrite (ncmp_common c1 e1 c2 e2 E), (ncmp_common c2 e2 c3 e3 E), (ncmp_common c1 e1 c3 e3 E) by (unfold E; lia).
  repeat split.
Qed.

Lemma nlt_irrefl : forall x, nlt x x = false.
Proof. intros [c e]. unfold nlt, ncmp. cbn [fst snd]. rewrite Z.compare_refl. reflexivity. Qed.
Lemma nlt_trans : forall x y z, nlt x y = true -> nlt y z = true -> nlt x z = true.
Proof.
  intros a b c. unfold nlt. destruct (ncmp3 a b c) as (x & y & z & -> & -> & ->).
  destruct (Z.compare_spec x y); destruct (Z.compare_spec y z); destruct (Z.compare_spec x z); cbn; intros; try reflexivity; try discriminate; lia.
Qed.
Lemma nlt_negtrans : forall x y z, nlt x z = true -> nlt x y = true \/ nlt y z = true.
Proof.
  intros a b c. unfold nlt. destruct (ncmp3 a b c) as (x & y & z & -> & -> & ->).
  destruct (Z.compare_spec x y); destruct (Z.compare_spec y z); destruct (Z.compare_spec x z); cbn; intros; auto; try discriminate; lia.
Qed.
Lemma eqv_nlt : forall x y, eqv nlt x y = neqv x y.
Proof.
  intros x y. unfold eqv, nlt, neqv. rewrite (ncmp_antisym (fst x) (snd x) (fst y) (snd y)).
  destruct (ncmp (fst x) (snd x) (fst y) (snd y)); reflexivity.
Qed.
Lemma nlt_swo : forall l, swo_on nlt l = true.
Proof.
  intros l. unfold swo_on. apply forallb_forall. intros x _. rewrite nlt_irrefl. cbn [negb andb].
  apply forallb_forall. intros y _. apply forallb_forall. intros z _. apply andb_true_iff. split.
  - destruct (nlt x y) eqn:A; destruct (nlt y z) eqn:B; cbn; auto. apply (nlt_trans x y z A B).
  - destruct (nlt x z) eqn:C; cbn; auto. destruct (nlt_negtrans x y z C) as [H|H]; rewrite H; auto. apply orb_true_r.
Qed.

(* the sort used by median and mode is the stable ascending sort of the numbers *)
Theorem nsort_spec : forall l,
  Permutation (nsort l) l /\ StronglySorted (fun a b => nlt b a = false) (nsort l) /\
  forall z, filter (neqv z) (nsort l) = filter (neqv z) l.
Proof.
  intros l. rewrite nsort_is_sort_by.
  destruct (sort_by_acc_spec nlt (fun _ => True) (fun x _ => nlt_irrefl x)
              (fun x y z _ _ _ => nlt_trans x y z) (fun x y z _ _ _ => nlt_negtrans x y z) l []) as [S F].
  - apply Forall_forall. auto.
  - constructor.
  - split; [apply sort_by_perm|]. split; [exact S|].
    intros z. specialize (F z I). cbn [filter app] in F.
    rewrite (filter_ext _ _ (eqv_nlt z)) in F. rewrite (filter_ext _ _ (eqv_nlt z)) in F. exact F.
Qed.

(* ================= sort(list, precedes) as a built-in ================= *)
Definition precedes_true (f : value -> value -> value) (x y : value) : bool := is_true (f x y).

Theorem sort_spec : forall xs f, swo_on (precedes_true f) xs = true ->
  exists res, b_sort (VList xs) 2 f = VList res /\ Permutation res xs /\
    sorted_by (precedes_true f) res /\
    forall z, In z xs -> filter (eqv (precedes_true f) z) res = filter (eqv (precedes_true f) z) xs.
Proof.
  intros xs f H. exists (sort_by (precedes_true f) xs). split; [reflexivity|].
  apply sort_by_spec. exact H.
Qed.
Theorem sort_is_determined : forall xs f res, swo_on (precedes_true f) xs = true -> Permutation res xs ->
  sorted_by (precedes_true f) res ->
  (forall z, In z xs -> filter (eqv (precedes_true f) z) res = filter (eqv (precedes_true f) z) xs) ->
  b_sort (VList xs) 2 f = VList res.
Proof. intros xs f res H Pm S F. cbn. f_equal. symmetry. apply sort_by_unique; auto. Qed.
Theorem sort_permutation_any_relation : forall xs f, exists res, b_sort (VList xs) 2 f = VList res /\ Permutation res xs.
Proof. intros xs f. exists (sort_by (precedes_true f) xs). split; [reflexivity|apply sort_by_perm]. Qed.
Theorem sort_outside_domain : forall l n f,
  (match l with VList _ => n <> 2%N | _ => True end) -> b_sort l n f = VNull.
Proof.
  intros l n f H. destruct l; try reflexivity. cbn. destruct (N.eqb n 2) eqn:E; auto. apply N.eqb_eq in E. contradiction.
Qed.

(* the hypothesis holds for `function(x, y) x < y` and `x > y` on a list of numbers with ties, and the sort is stable there *)
Lemma sort_nonvacuous :
  let l := [VNum 3 0; VNum 1 0; VNum 20 (-1); VNum 10 (-1); VNum 2 0] in
  swo_on (precedes_true v_lt) l = true /\ swo_on (precedes_true v_gt) l = true /\
  b_sort (VList l) 2 v_lt = VList [VNum 1 0; VNum 10 (-1); VNum 20 (-1); VNum 2 0; VNum 3 0] /\
  b_sort (VList l) 2 v_gt = VList [VNum 3 0; VNum 20 (-1); VNum 2 0; VNum 1 0; VNum 10 (-1)] /\
  b_sort (VList [VStr [98]%N; VStr [97; 98]%N; VStr []]) 2 v_lt = VList [VStr []; VStr [97; 98]%N; VStr [98]%N].
Proof. repeat split; vm_compute; reflexivity. Qed.
