"""C08 — built-in functions return their specified value for all arguments; named = positional.
Proof: coq/Props/C08.v (characterisations for all list / string lengths and all positions).
Correspondence: every call is issued positionally and with named parameters through parse + evaluate of the working tree
and compared with coq/C08/Model.v (list, string, aggregate, boolean, context functions), with coq/C08/Model2.v (sort with a
`precedes` function, stddev, split / replace / matches on literal patterns; the Python reference of these
must agree with the Coq model), or, for string / number, with a reference written here.
The numeric aggregates (sum, mean, median, stddev) compute in the model with the shared decimal128 layer coq/Base/DecRound.v
(dadd / dsub / ddiv / dsqrt, the operations C02 proves correctly rounded); they are exercised on lists the old 34-digit assumption
excluded (sums that round at every step, ties, overflow to null, tiny + huge, subnormal means, squares that round twice) and are
compared with the real code, with the Coq model (exponent spans up to 400 digits) and with a libmpdec (Python decimal) reference."""
import decimal
import itertools
import json
import os
from decimal import Decimal

from vlib import core
from vlib.coqterm import App
from props import c09 as V9
from props.c09 import V, num, st, lst, cx, rng, fun, date, VNULL, VTRUE, VFALSE

HEADER = ('From Coq Require Import List NArith ZArith Bool.\nFrom DV Require Import C09.Values C09.Model C08.Model.\n'
          'Import ListNotations.\nOpen Scope Z_scope.\n')
HEADER2 = ('From Coq Require Import List NArith ZArith Bool.\nFrom DV Require Import C09.Values C09.Model C08.Model C08.Model2.\n'
           'Import ListNotations.\nOpen Scope Z_scope.\n')
ORIG = os.environ.get('C08_MODEL', '') == 'orig'      # development aid: compare with the model of the pinned commit
POS = 'pos_orig' if ORIG else 'pos'
NAM = 'nam_orig' if ORIG else 'nam'

# bif -> (FEEL name, Coq constructor, {arity: [parameter names]}, spread)
BIFS = {
    'all': ('All', {1: ['list']}, True), 'any': ('Any', {1: ['list']}, True), 'max': ('Max', {1: ['list']}, True), 'min': ('Min', {1: ['list']}, True),
    'sum': ('Sum', {1: ['list']}, True), 'mean': ('Mean', {1: ['list']}, True), 'median': ('Median', {1: ['list']}, True), 'mode': ('Mode', {1: ['list']}, True),
    'append': ('Append', {}, False), 'concatenate': ('Concatenate', {}, False), 'union': ('Union', {}, False),
    'contains': ('Contains', {2: ['string', 'match']}, False), 'starts with': ('StartsWith', {2: ['string', 'match']}, False),
    'ends with': ('EndsWith', {2: ['string', 'match']}, False), 'substring before': ('SubstringBefore', {2: ['string', 'match']}, False),
    'substring after': ('SubstringAfter', {2: ['string', 'match']}, False),
    'count': ('Count', {1: ['list']}, False), 'distinct values': ('DistinctValues', {1: ['list']}, False), 'flatten': ('Flatten', {1: ['list']}, False),
    'reverse': ('Reverse', {1: ['list']}, False), 'get entries': ('GetEntries', {1: ['m']}, False), 'get value': ('GetValue', {2: ['m', 'key']}, False),
    'index of': ('IndexOf', {2: ['list', 'match']}, False), 'list contains': ('ListContains', {2: ['list', 'match']}, False),
    'insert before': ('InsertBefore', {3: ['list', 'position', 'newItem']}, False), 'not': ('Not', {1: ['negand']}, False),
    'remove': ('Remove', {2: ['list', 'position']}, False), 'string length': ('StringLength', {1: ['string']}, False),
    'sublist': ('Sublist', {2: ['list', 'start position'], 3: ['list', 'start position', 'length']}, False),
    'substring': ('Substring', {2: ['string', 'start position'], 3: ['string', 'start position', 'length']}, False),
}
PN = {'list': 'PList', 'match': 'PMatch', 'position': 'PPosition', 'newItem': 'PNewItem', 'start position': 'PStartPosition', 'length': 'PLength',
      'string': 'PString', 'm': 'PM', 'key': 'PKey', 'negand': 'PNegand'}
# functions with a reference in this file only
REF_NAMES = {'matches': {2: ['input', 'pattern']}, 'replace': {3: ['input', 'pattern', 'replacement']}, 'split': {2: ['string', 'delimiter']},
             'string': {1: ['from']}, 'number': {3: ['from', 'grouping separator', 'decimal separator']}, 'sort': {2: ['list', 'precedes']},
             'stddev': {1: ['list']}}


# ------------------------------------------------------------------ canonical forms
def dnum(c, e):
    return Decimal('%dE%d' % (c, e))      # exact, independent of the context precision


class NV(V):
    """a number c * 10^e written as a FEEL expression (FEEL has no exponent literals); .dec = its exact value"""
    __slots__ = ('dec',)


def numx(c, e):
    """the number c * 10^e (|c| < 10^34, -6176 <= e <= 6111: a decimal128 datum; c * 10**e is exact in the implementation)"""
    assert abs(c) < 10 ** 34 and -6176 <= e <= 6111
    if e == 0:
        feel = str(c)
    elif -30 <= e < 0:
        digits = str(abs(c)).rjust(-e + 1, '0')
        feel = ('-' if c < 0 else '') + digits[:e] + '.' + digits[e:]       # a plain literal keeps its scale: 1.50 is (150, -2)
    else:
        feel = '(%d*10**%d)' % (c, e)
    v = NV(feel, '(VNum %s %s)' % (V9.z(c), V9.z(e)), 'num')
    v.dec = dnum(c, e)
    return v


def vdec(v):
    return v.dec if isinstance(v, NV) else Decimal(v.feel)


def norm_impl(j):
    if j is None or isinstance(j, (bool, str)):
        return j
    if isinstance(j, list):
        return ('l', tuple(norm_impl(x) for x in j))
    if isinstance(j, dict):
        if 'n' in j:
            return ('n', Decimal(j['n']))
        if 'c' in j:
            return ('c', tuple((k, norm_impl(v)) for k, v in j['c']))
        return ('o', json.dumps(j, sort_keys=True))
    return ('o', repr(j))


def norm_term(t):
    """value term printed by Coq -> the same canonical form"""
    if isinstance(t, App):
        n, a = t.name, t.args
        if n == 'VNull':
            return None
        if n == 'VBool':
            return a[0]
        if n == 'VNum':
            return ('n', dnum(a[0], a[1]))
        if n == 'VStr':
            return ''.join(chr(x) for x in a[0])
        if n == 'VList':
            return ('l', tuple(norm_term(x) for x in a[0]))
        if n == 'VCtx':
            return ('c', tuple((''.join(chr(x) for x in k), norm_term(v)) for k, v in a[0]))
        if n == 'VDate':
            return ('o', json.dumps({'d': '%s-%02d-%02d' % (V9.ytext(a[0]), a[1], a[2])}, sort_keys=True))
        if n == 'VFun':
            return ('o', json.dumps({'f': a[0]}, sort_keys=True))
        return ('o', repr(t))
    return ('o', repr(t))


def norm_opt(t):
    if isinstance(t, App) and t.name == 'None':
        return 'TRAP'
    if isinstance(t, App) and t.name == 'Some':
        return norm_term(t.args[0])
    return ('o', repr(t))


def norm_v(v):
    """a generated value -> canonical form (used by the references)"""
    if v.kind == 'null':
        return None
    if v.kind == 'boolean':
        return v.feel == 'true'
    if v.kind == 'num':
        return ('n', vdec(v))
    if v.kind == 'str':
        return v.feel[1:-1]
    return ('o', v.feel)


def show(x):
    if x is None:
        return 'null'
    if x is True:
        return 'true'
    if x is False:
        return 'false'
    if isinstance(x, str):
        return json.dumps(x, ensure_ascii=False)
    if isinstance(x, tuple):
        if x[0] == 'n':
            return str(x[1])
        if x[0] == 'l':
            return '[%s]' % ', '.join(show(y) for y in x[1])
        if x[0] == 'c':
            return '{%s}' % ', '.join('%s: %s' % (k, show(v)) for k, v in x[1])
        return x[1]
    return repr(x)


# ------------------------------------------------------------------ call texts
def positional_text(name, args):
    return '%s(%s)' % (name, ', '.join(a.feel for a in args))


def named_text(name, pnames, args, order):
    return '%s(%s)' % (name, ', '.join('%s: %s' % (pnames[i], args[i].feel) for i in order))


def coq_pos(name, args):
    return '%s %s [%s]' % (POS, BIFS[name][0], '; '.join(a.coq for a in args))


def coq_nam(name, pnames, args, order):
    return '%s %s [%s]' % (NAM, BIFS[name][0], '; '.join('(%s, %s)' % (PN[pnames[i]], args[i].coq) for i in order))


# ------------------------------------------------------------------ value pools
SUPP = '\U0001F600'
STRINGS = ['', 'a', 'abc', 'hello world', 'aXbXc', 'é€z', 'a' + SUPP + 'b', SUPP + SUPP + '\U00010000', 'ab' + SUPP + 'é￿z', 'aaa', 'abab']


# nulls that come out of a failed evaluation carry a trace message inside the implementation (Value::Null(Some(..))); FEEL knows one null:
# every list function must treat them like the literal null (seeded change C08_c: distinct values compared the messages)
VNULL_T1 = V('floor(true)', 'VNull', 'null')
VNULL_T2 = V('abs("a")', 'VNull', 'null')


def list_pool():
    one, two, three, onez, a_, b_ = num('1'), num('2'), num('3'), num('1.0'), st('a'), st('b')
    return [
        lst(VNULL, VNULL_T1), lst(VNULL_T1, one, VNULL_T2, VNULL), lst(lst(VNULL), lst(VNULL_T1), lst(VNULL_T2)), lst(cx(a=VNULL), cx(a=VNULL_T1)),
        lst(), lst(one), lst(one, two, three), lst(one, onez, two, one), lst(VNULL), lst(one, VNULL, two), lst(lst(one), lst(one, two), one),
        lst(lst(), lst(lst(one)), VNULL, lst(VNULL)), lst(a_, b_, a_), lst(one, a_, VTRUE, VNULL, one),
        lst(one, two, three, num('4'), num('5'), num('6'), num('7'), num('8')), lst(num('3'), num('1'), num('2'), num('3.0'), num('1'), num('2.00'), num('2'), num('3')),
        lst(cx(a=one), cx(a=onez), cx(a=two), cx(b=one)), lst(date(2021, 1, 1), date(2021, 1, 1), date(2021, 1, 2)),
    ]


ELEMENTS = None


def element_pool():
    one, onez = num('1'), num('1.0')
    return [one, onez, num('2'), num('9'), st('a'), st(''), VNULL, VTRUE, lst(one), lst(), cx(a=one), date(2021, 1, 1), VNULL_T1, lst(VNULL_T2)]


def positions(n):
    """every position from -(n+2) to n+2, 0, non-integers, 1.0-style spellings, non-numbers"""
    ps = [num(str(i)) for i in range(-(n + 2), n + 3)]
    ps += [num('1.0'), num('-1.0'), num('1.5'), num('-1.5'), num('0.5'), num('2.00'), num('0.0'), VNULL, st('1'), num('18446744073709551616'), num('-9223372036854775809')]
    if n >= 2:
        ps.append(num('%d.0' % n))
    return ps


def lengths(n):
    ls = [num(str(i)) for i in range(-1, n + 3)]
    ls += [num('1.0'), num('1.5'), num('0.5'), num('0.0'), num('2.9'), VNULL, st('1'), num('18446744073709551616')]
    return ls


# ------------------------------------------------------------------ references for the validated-only functions
def ref_call(name, args):
    """returns (specified value, known-finding key or None, value the pinned suite asks for or None); raises KeyError when there is no reference"""
    a = [norm_v(x) for x in args]
    if name == 'matches':
        if len(a) == 3:
            raise KeyError          # flags: the regex dialect is not modelled
        if len(a) == 2 and isinstance(a[0], str) and isinstance(a[1], str):
            return a[1] in a[0]
        return None
    if name == 'replace':
        if len(a) == 4:
            # flags: the regex dialect is not modelled, except flag q (XPath fn:replace: "all characters in the regular expression are treated as
            # representing themselves"), alone or with i (case-insensitive): a literal replacement
            if all(isinstance(x, str) for x in a) and a[3] in ('q', 'qi', 'iq') and '$' not in a[2] and '\\' not in a[2] and a[1] != '':
                import re as _re
                return _re.sub(_re.escape(a[1]), lambda m: a[2], a[0], flags=_re.I if 'i' in a[3] else 0)
            raise KeyError
        if len(a) == 3 and all(isinstance(x, str) for x in a):
            return a[0].replace(a[1], a[2])
        return None
    if name == 'split':
        if len(a) == 2 and isinstance(a[0], str) and isinstance(a[1], str):
            if a[1] == '':
                return ('l', ('',) + tuple(a[0]) + ('',))        # Regex::split with a pattern that matches the empty string
            return ('l', tuple(a[0].split(a[1])))
        return None
    if name == 'string':
        if len(a) != 1 or a[0] is None:
            return None
        v = args[0]
        if v.kind == 'str':
            return a[0]
        if v.kind in ('boolean', 'num'):
            return v.feel
        raise KeyError
    if name == 'number':
        if len(a) != 3 or not isinstance(a[0], str):
            return None
        g, d = a[1], a[2]
        if not (g is None or g in (' ', '.', ',')) or not (d is None or d in ('.', ',')):
            return None
        if g is not None and g == d:
            return None
        s = a[0]
        if g is not None:
            s = s.replace(g, '')
        if d is not None:
            s = s.replace(d, '.')
        import re
        if not re.fullmatch(r'-?[0-9]+(\.[0-9]+)?', s):
            raise KeyError          # the lexical space of FeelNumber::from_str belongs to C07 / C02
        return ('n', Decimal(s))
    if name == 'sort':
        if len(a) != 2 or args[0].kind != 'list' or args[1].kind != 'function':
            return None
        if not args[1].feel.startswith('function(x, y)'):
            return None             # the ordering function must take two parameters
        items = args[0].items
        desc = '>' in args[1].feel
        kinds = set(i.kind for i in items)
        if kinds - {'num', 'str'} or '.a' in args[1].feel:
            raise KeyError          # items sorted by a key: the Coq model only
        if len(kinds) > 1 or (kinds and kinds <= {'null', 'boolean', 'list'}):
            raise KeyError
        key = (lambda v: Decimal(v.feel)) if kinds == {'num'} else (lambda v: [ord(ch) for ch in v.feel[1:-1]])
        return ('l', tuple(norm_v(v) for v in sorted(items, key=key, reverse=desc)))
    if name == 'stddev':
        if len(args) == 1 and args[0].kind == 'list':
            items = args[0].items
        elif len(args) >= 2:
            items = args
        else:
            return None
        if len(items) < 2 or any(i.kind != 'num' for i in items):
            return None
        r = ref_aggregate('stddev', [vdec(i) for i in items])
        return None if r is None else ('n', r)
    raise KeyError


# ------------------------------------------------------------------ libmpdec reference of sum / mean / median / stddev
C34 = decimal.Context(prec=34, rounding=decimal.ROUND_HALF_EVEN, Emax=6144, Emin=-6143, clamp=1, traps=[])
C37 = decimal.Context(prec=37, rounding=decimal.ROUND_HALF_EVEN, Emax=6144, Emin=-6143, clamp=1, traps=[])      # decNumberPower(x, 2): 34 + 1 + 2 digits


def fin(d):
    """null (None) for a result that is not a finite number"""
    return d if d is not None and d.is_finite() else None


def ref_square(d):
    """FeelNumber::square: the product rounded to 37 digits, then to 34"""
    return C34.plus(C37.multiply(d, d))


def agg_items(name, args):
    """the numbers a call of a numeric aggregate works on, None when it is not a call on numbers only"""
    if len(args) == 1 and args[0].kind == 'list':
        items = getattr(args[0], 'items', None)
    elif len(args) >= 2 or (len(args) == 1 and name != 'stddev'):
        items = args
    else:
        return None
    if not items or any(i.kind != 'num' for i in items):
        return None
    return [vdec(i) for i in items]


def ref_aggregate(name, xs):
    """the value core.rs computes, operation by operation, with libmpdec (an independent implementation of IEEE 754-2008 decimal128);
    a non-finite intermediate result stays non-finite, the final result is then null"""
    if name == 'sum':
        s = xs[0]
        for x in xs[1:]:
            s = C34.add(s, x)
        return fin(s)
    if name == 'mean':
        s = Decimal(0)
        for x in xs:
            s = C34.add(s, x)
        return fin(C34.divide(s, Decimal(len(xs))))
    if name == 'median':
        l = sorted(xs)
        k = len(l) // 2
        if len(l) % 2 == 0:
            return fin(C34.divide(C34.add(l[k - 1], l[k]), Decimal(2)))
        return l[k]
    if name == 'stddev':
        if len(xs) < 2:
            return None
        s = Decimal(0)
        for x in xs:
            s = C34.add(s, x)
        n = Decimal(len(xs))
        avg = C34.divide(s, n)
        s2 = Decimal(0)
        for x in xs:
            q = ref_square(C34.subtract(x, avg))
            if not q.is_finite():
                return None
            s2 = C34.add(s2, q)
        return fin(C34.sqrt(C34.divide(s2, C34.subtract(n, Decimal(1)))))
    raise KeyError


def wide_for_coq(name, args):
    """Base/Dec.v counts digits by repeated division: a sum of numbers whose digits span thousands of positions takes a minute in Coq.
    Such calls (mean and stddev start from 0, so every number far from 1 is one) are compared with libmpdec only."""
    xs = agg_items(name, args)
    if not xs:
        return False
    nz = [x for x in xs if x != 0]
    if not nz:
        return False
    exps = [x.as_tuple().exponent for x in xs] + ([0] if name in ('mean', 'stddev') else [])
    if name == 'sum':
        acc = xs[0]
        for x in xs[1:-1]:
            acc = C34.add(acc, x)
            if acc == 0:
                exps.append(0)          # a partial sum that cancels is reduced to 0E+0: the next addition spans down to exponent 0
    hi = max(max(x.adjusted() for x in nz), max(exps))
    return hi - min(exps) > 400


AGG = ('sum', 'mean', 'median', 'stddev')


# ------------------------------------------------------------------ the second model file (coq/C08/Model2.v)
def literal(v):
    return v.kind == 'str' and (v.feel[1:-1].isalnum() or v.feel == '""')       # the empty pattern matches at every position


def coq_ref_term(name, args):
    """Coq term of coq/C08/Model2.v for a call of sort / split / replace / matches / stddev, None where the model does not apply"""
    if name == 'sort' and len(args) == 2 and args[1].kind == 'function':
        body = args[1].feel
        arity = int(args[1].coq.split()[1].split('%')[0])      # (VFun k%N)
        bykey = '(fun x y => %s (b_get_value x (VStr [97%%N])) (b_get_value y (VStr [97%%N])))'      # x.a on a context
        rel = ('v_lt' if body.endswith('x < y') else 'v_gt' if body.endswith('x > y') else '(fun x _ => x)' if body.endswith(') x') else
               bykey % 'v_lt' if body.endswith('x.a < y.a') else bykey % 'v_gt' if body.endswith('x.a > y.a') else None)
        if rel is None:
            return None
        return 'b_sort %s %d%%N %s' % (args[0].coq, arity, rel)
    if name in ('split', 'matches') and len(args) == 2 and (args[1].kind != 'str' or literal(args[1])):
        return '%s %s %s' % ('b_split' if name == 'split' else 'b_matches', args[0].coq, args[1].coq)
    if name == 'replace' and len(args) == 3 and (args[1].kind != 'str' or literal(args[1])) and '$' not in args[2].feel:
        return 'b_replace %s %s %s' % (args[0].coq, args[1].coq, args[2].coq)
    if name == 'stddev':
        if wide_for_coq(name, args):
            return None         # exponents thousands of digits apart: too slow in Coq (ndigits), libmpdec reference only
        return 'pos_stddev [%s]' % '; '.join(a.coq for a in args)      # all arithmetic: Base/DecRound.v (C02: correctly rounded)
    return None


def model2_value(name, t):
    """canonical form of the value the second model file specifies"""
    return norm_term(t)


def strict(x):
    """canonical form that keeps the scale of numbers apart (1 and 1.0): used where the order of tied items matters"""
    if isinstance(x, tuple) and x[0] == 'l':
        return ('l', tuple(strict(y) for y in x[1]))
    if isinstance(x, tuple) and x[0] == 'n':
        return ('N', x[1].as_tuple())
    return x


def strict_impl(j):
    if isinstance(j, list):
        return ('l', tuple(strict_impl(x) for x in j))
    if isinstance(j, dict) and 'p' in j and 'n' in j:
        return ('N', Decimal(j['p']).as_tuple())
    return norm_impl(j)


# ------------------------------------------------------------------ case generation
def mklist(*vs):
    v = lst(*vs)
    return v


def attach_items(v, items):
    v.items = items
    return v


class LV(V):
    __slots__ = ('items',)


def lstv(*vs):
    b = lst(*vs)
    x = LV(b.feel, b.coq, 'list')
    x.items = list(vs)
    return x


N34 = 10 ** 34 - 1
# operands whose square FeelNumber::square rounds differently from the correctly rounded product (37-digit intermediate ends in 500 / 499..)
SQUARE_WITNESSES = [(10684414991928191245, 0), (937428563637741499122048, 0), (586940504458955264613, 0), (3466772939162165125852, 0),
                    (21923737484694362627434111, -7), (7457802933188070211305279607310, -20), (414281490290469809702688017683129, 3),
                    (1251, -3090), (2499, -3090), (7501, -3090), (8749, -3090), (11251, -3090), (12499, -3090)]      # the last six: on the subnormal grid


def hard_number_lists(ctx):
    """number lists the old `sums stay within 34 digits` assumption excluded; (class, [numbers])"""
    r = ctx.rng
    out = []
    add = lambda cls, *pairs: out.append((cls, [numx(c, e) for c, e in pairs]))
    # sums of 34-digit numbers: every step rounds; exact ties (both parities), just above / below a tie
    for k in (N34, N34 - 1, 5 * 10 ** 33, 5 * 10 ** 33 + 1, 1234567890123456789012345678901234, 1234567890123456789012345678901233):
        for tail in ((5, -1), (50000001, -8), (49999999, -8), (-5, -1), (15, -1), (25, -1), (1, 0), (5, -20)):
            add('tie', (k, 0), tail)
            add('tie', tail, (k, 0), (k, 0))
            add('tie', (-k, 3), (tail[0], tail[1] + 3), (1, 2))
    for _ in range(ctx.pick(60, 600)):
        n = r.randint(2, 7)
        e0 = r.choice([0, 0, -2, -10, 5, -30, 20])
        add('round', *[(r.choice([1, 1, -1]) * r.randint(10 ** 32, N34), e0 + r.choice([0, 0, 0, 1, -1, 2, -3])) for _ in range(n)])
    for _ in range(ctx.pick(40, 400)):
        n = r.randint(1, 6)
        items = []
        for _ in range(n):
            nd = r.choice([1, 5, 17, 33, 34, 34])
            items.append((r.choice([1, 1, -1]) * r.randint(10 ** (nd - 1), 10 ** nd - 1), r.choice([0, 0, -3, -20, 10, -33, 30])))
        add('mixed', *items)
    # the order of the items matters; tiny + huge
    add('order', (1, 34), (5, 0), (5, 0))
    add('order', (5, 0), (5, 0), (1, 34))
    add('order', (1, 33), (5, -1), (5, -1))
    add('order', (5, -1), (5, -1), (1, 33))
    add('absorb', (1, 40), (1, -40))
    add('absorb', (1, 40), (1, -40), (-1, 40))
    add('absorb', (1, -40), (1, 40), (-1, 40))
    add('absorb', (N34, 0), (-N34, 0), (1, -10))
    add('absorb', (1, -10), (N34, 0), (-N34, 0))
    add('absorb', (1, 300), (1, -300), (7, 0))
    add('absorb', (25, -1), (35, -1), (1, 34), (-1, 34))
    add('absorb-wide', (1, 3080), (-1, 3080), (5, 0))
    add('absorb-wide', (9, 6111), (1, 0), (2, 0))
    add('absorb-wide', (1, -6176), (1, 6111))
    add('absorb-wide', (1, -6176), (1, 0))
    # overflow: null, also when later items would bring the sum back; the largest number that is still a result
    big = (N34, 6111)
    add('overflow', big, (5, 6110))
    add('overflow', big, (4, 6110))
    add('overflow', big, big)
    add('overflow', (-N34, 6111), (-5, 6110))
    add('overflow', (-N34, 6111), (-4, 6110))
    add('overflow', big, (5, 6110), (-(N34 - 1), 6111))
    add('overflow', big, (-(N34 - 1), 6111), (5, 6110))
    add('overflow', big, big, (-N34, 6111), (-N34, 6111))
    add('overflow', big, (-N34, 6111), big, (-N34, 6111))
    add('overflow', (9 * 10 ** 33, 6111), (9 * 10 ** 33, 6111))
    add('overflow', (9 * 10 ** 33, 6111), (9 * 10 ** 33, 6111), (-9 * 10 ** 33, 6111))
    add('overflow', (9 * 10 ** 33, 6111), (-9 * 10 ** 33, 6111), (9 * 10 ** 33, 6111))
    add('overflow', (5 * 10 ** 33, 6111), (5 * 10 ** 33, 6111))
    add('overflow', (5 * 10 ** 33, 6111), (4999999999999999999999999999999999, 6111), (5, 6110))
    add('overflow', (1, 6111), (2, 6111), big)
    add('overflow', (1, 3080), (1, 3080))            # the squares of stddev overflow
    add('overflow', (1, 3070), (3, 3072), (-2, 3071))
    # the subnormal grid: exact sums, quotients that underflow gradually, ties on the grid
    for l in ([(1, -6176)] * 3, [(1, -6176), (2, -6176)], [(3, -6176), (4, -6176)], [(1, -6176), (1, -6176), (1, -6176), (2, -6176)], [(1, -6176)],
              [(5, -6176), (-2, -6176)], [(1, -6143), (1, -6176), (1, -6176)], [(1, -6160), (3, -6170)], [(N34, -6176), (1, -6176)],
              [(1, -3080), (3, -3080), (2, -3080)], [(1251, -3090), (0, 0), (0, 0)], [(1, -3088), (-1, -3088)], [(15, -3089), (-15, -3089), (0, 0)]):
        add('subnormal', *l)
    # quotients that are exact ties: (a + b) / 2 and s / n with a 35th digit 5
    add('div-tie', (4999999999999999999999999999999999, 0), (5 * 10 ** 33, 0))
    add('div-tie', (4999999999999999999999999999999998, 0), (4999999999999999999999999999999999, 0))
    add('div-tie', (N34, 0), (N34 - 1, 0))
    add('div-tie', (N34, 0), (N34 - 2, 0))
    add('div-tie', (N34, -5), (0, 0))
    add('div-tie', (N34 - 2, -5), (0, 0))
    add('div-tie', (N34, 7), (0, 0), (0, 0), (0, 0))
    add('div-tie', (1, 0), (0, 0), (0, 0))
    add('div-tie', (2, 0), (0, 0), (0, 0))
    add('div-tie', (1, 0), (2, 0), (4, 0), (0, 0), (0, 0), (0, 0), (0, 0))
    # stddev: deviations whose squares round twice (mean 0, deviation = the witness), constant lists, large spreads
    for c, e in SQUARE_WITNESSES:
        add('square', (c, e), (-c, e))
        add('square', (c, e), (-c, e), (0, 0))
        add('square', (2 * c, e), (0, 0), (-2 * c, e), (0, 0))
    for _ in range(ctx.pick(30, 300)):
        nd = r.randint(18, 34)
        c = r.randint(10 ** (nd - 1), 10 ** nd - 1)
        e = r.choice([0, -10, 10, -40])
        add('square', (c, e), (-c, e))
    add('stddev', (N34, 0), (N34, 0), (N34, 0))
    add('stddev', (N34, 0), (-N34, 0))
    add('stddev', (1, 0), (1, 0), (1, 0), (1, 0))
    add('stddev', (1, 20), (1, -20))
    add('stddev', (123456789012345678901234567890, -4), (987654321098765432109876543210, -5), (1, -5), (33333333333333333333333333333333, -2))
    return out


def gen_cases(ctx):
    r = ctx.rng
    quick = ctx.quick
    cases = []   # (name, args)
    add = lambda name, *args: cases.append((name, list(args)))
    lists = list_pool()
    elems = element_pool()
    strs = [st(s) for s in STRINGS]
    nonlists = [VNULL, num('1'), st('a'), cx(a=num('1'))]
    # random lists (length 0..8, duplicates, nulls, nested) and random strings over the three planes: a few in the quick tier, many in the thorough tier
    for _ in range(ctx.pick(4, 60)):
        lists.append(lst(*[r.choice(elems) for _ in range(r.randint(0, 8))]))
    for _ in range(ctx.pick(3, 40)):
        STR_EXTRA = ''.join(r.choice(V9.CHARS) for _ in range(r.randint(1, 7)))
        if '"' not in STR_EXTRA and '\\' not in STR_EXTRA:
            strs.append(st(STR_EXTRA))
    # --- substring: every start x every length for every string
    for s in strs:
        n = len(s.feel) - 2      # characters (code points) between the quotation marks
        for p in positions(n):
            add('substring', s, p)
            for ln in lengths(n):
                if quick and n > 6 and r.random() < 0.6:
                    continue
                add('substring', s, p, ln)
    for bad in (VNULL, num('12'), lstv(st('a'))):
        add('substring', bad, num('1'))
        add('substring', bad, num('1'), num('1'))
    # --- sublist / remove / insert before
    for l in lists:
        n = l.coq.count(';') + 1 if l.feel != '[]' else 0
        n = len(top_items(l))
        for p in positions(n):
            add('sublist', l, p)
            add('remove', l, p)
            add('insert before', l, p, st('new'))
            if r.random() < 0.3:
                add('insert before', l, p, VNULL)
            for ln in lengths(n):
                if quick and n > 4 and r.random() < 0.7:
                    continue
                add('sublist', l, p, ln)
    for bad in nonlists:
        add('sublist', bad, num('1'))
        add('sublist', bad, num('1'), num('1'))
        add('remove', bad, num('1'))
        add('insert before', bad, num('1'), num('1'))
    # --- equality based and structural list functions
    for l in lists + nonlists:
        for f in ('count', 'distinct values', 'flatten', 'reverse'):
            add(f, l)
        for x in elems:
            add('index of', l, x)
            add('list contains', l, x)
    for l1 in lists:
        for l2 in lists:
            if quick and r.random() < 0.5:
                continue
            add('union', l1, l2)
            add('concatenate', l1, l2)
        add('union', l1)
        add('concatenate', l1)
        add('append', l1, num('9'))
        add('append', l1, VNULL, lstv(num('1')))
        add('union', l1, num('1'))
        add('concatenate', l1, VNULL)
        add('union', l1, lists[3], lists[2])
        add('concatenate', l1, lists[3], lists[2])
    add('append', num('1'), num('2'))
    # --- aggregates: number lists 0..8 with duplicates, scales, nulls; string lists; mixed
    nums = [num(t) for t in ['1', '2', '3', '1.0', '2.50', '-4', '0', '10', '7.25', '3', '100', '0.5']]
    agg_lists = [[]]
    for k in range(1, 9):
        for _ in range(ctx.pick(6, 40)):
            agg_lists.append([r.choice(nums) for _ in range(k)])
    agg_lists += [[num('1'), VNULL], [VNULL, num('1')], [num('1'), VNULL, num('3')], [VNULL], [num('1'), st('a')], [st('a'), num('1')], [VTRUE, num('1')],
                  [st('b'), st('a'), st('c')], [st('a'), st('B'), st('a'), st('é')], [st('a'), VNULL], [st('a'), VNULL, st('b')], [num('2'), num('2.0'), num('1')],
                  [num('1'), num('2'), num('3'), num('4')], [num('5'), num('1'), num('5'), num('1'), num('3')], [num('1'), num('1.0'), num('2'), num('2.00'), num('3')]]
    for items in agg_lists:
        for f in ('min', 'max', 'sum', 'mean', 'median', 'mode', 'stddev'):
            add(f, lstv(*items))
            if 1 <= len(items) <= 5:
                add(f, *items)
    for bad in nonlists:
        for f in ('min', 'max', 'sum', 'mean', 'median', 'mode', 'all', 'any', 'stddev'):
            add(f, bad)
    # --- the same aggregates on lists that need rounding, overflow, underflow (hard_number_lists)
    for cls, items in hard_number_lists(ctx):
        for f in ('sum', 'mean', 'median', 'stddev') + (('min', 'max', 'mode') if cls in ('tie', 'overflow', 'subnormal', 'order') else ()):
            add(f, lstv(*items))
            if 2 <= len(items) <= 4 and (cls != 'round' or r.random() < 0.3):
                add(f, *items)
        if r.random() < 0.1:
            add('sum', lstv(*(items + [VNULL])))
            add('mean', lstv(*([st('a')] + items)))
    # --- all / any over every list of length 0..3 (4 in the thorough tier) of {true, false, null, 1}
    atoms = [VTRUE, VFALSE, VNULL, num('1')]
    for k in range(0, ctx.pick(4, 5)):
        for items in itertools.product(atoms, repeat=k):
            for f in ('all', 'any'):
                add(f, lstv(*items))
                if k >= 1:
                    add(f, *items)
    # --- string predicates and substring before / after
    for s in STRINGS:
        ms = {'', s, s[:1], s[-1:], s[1:3], s[:-1], 'X', 'zz', SUPP, 'b', 'ab', s + 'a'}
        for m in sorted(ms):
            for f in ('contains', 'starts with', 'ends with', 'substring before', 'substring after', 'matches', 'split'):
                if f in ('matches', 'split') and m != '' and not m.isalnum():
                    continue
                add(f, st(s), st(m))
            if m == '' or m.isalnum():
                add('replace', st(s), st(m), st('-'))
                add('replace', st(s), st(m), st(''))
        add('string length', st(s))
    for f in ('contains', 'starts with', 'ends with', 'substring before', 'substring after'):
        add(f, st('a'), VNULL)
        add(f, VNULL, st('a'))
        add(f, num('1'), st('1'))
    add('string length', VNULL)
    add('string length', num('12'))
    # flag q: the pattern is taken literally - letters and digits (which a backslash would turn into \b, \d, \w, \s ...: fixed in /repo ca8f302) and
    # every regex metacharacter; with i on top the match ignores case and stays literal (seeded change C08_j: q was dropped next to i)
    for s0, pat in (('abc', 'b'), ('a.b.c', '.'), ('1+1=2', '+'), ('a1b1', '1'), ('d w s', 'w'), ('x(y)z', '(y)'), ('a*b', '*'), ('AbCb', 'b'), ('a[1]', '[1]'), ('a^b$c', '^'), ('a|b', '|'), ('q?q', '?'), ('aBc', 'b'), ('{n}', '{n}')):
        for fl in ('q', 'qi', 'iq'):
            add('replace', st(s0), st(pat), st('-'), st(fl))
            add('replace', st(s0), st(pat.upper()), st('<>'), st(fl))
    add('replace', st('  abc '), st('b'), st('x'))
    add('replace', st('abc'), st('c'), st(' '))
    add('replace', st('a b c d '), st('x'), st('y'))
    # --- not, get value, get entries
    for v in [VTRUE, VFALSE, VNULL, num('1'), st('true'), lstv(VTRUE)]:
        add('not', v)
    ctxs = [cx(), cx(a=num('1')), cx(b=st('x'), a=VNULL), cx(a=cx(b=num('2')), c=lst(num('1')))]
    for c in ctxs + [VNULL, lstv()]:
        add('get entries', c)
        for k in [st('a'), st('b'), st('z'), VNULL, num('1')]:
            add('get value', c, k)
    # --- conversion functions (reference only)
    for v in [num('1'), num('-1'), num('1.50'), num('0'), num('123456789012345678'), st('a'), st(''), VTRUE, VFALSE, VNULL]:
        add('string', v)
    for text, g, d in [('1', VNULL, VNULL), ('1 000', st(' '), VNULL), ('1,000.5', st(','), st('.')), ('1.000,5', st('.'), st(',')), ('1,5', VNULL, st(',')),
                       ('1.5', VNULL, st('.')), ('1 000', st(' '), st(' ')), ('1', st('x'), VNULL), ('1', VNULL, st(' ')), ('12', st(','), st(',')), ('-12.75', VNULL, VNULL),
                       ('1.000.000', st('.'), VNULL)]:
        add('number', st(text), g, d)
    add('number', num('1'), VNULL, VNULL)
    lt, gt = fun(['x', 'y'], 'x < y'), fun(['x', 'y'], 'x > y')
    for items in agg_lists:
        if items and all(i.kind == 'num' for i in items) or items and all(i.kind == 'str' for i in items):
            add('sort', lstv(*items), lt)
            add('sort', lstv(*items), gt)
    for items in ([num('2'), num('2.0'), num('1'), num('2.00'), num('1.0')], [num('1.0'), num('1'), num('1.00')],
                  [num('3'), num('1'), num('2.0'), num('1.0'), num('2')]):
        add('sort', lstv(*items), lt)
        add('sort', lstv(*items), gt)
    # contexts sorted by one entry: distinct items tie, the input order of the tied items must be kept
    rows = [cx(a=num(a), b=num(str(i))) for i, a in enumerate(['2', '1', '2.0', '1', '3', '1.0', '2'])]
    for k in (2, 4, 7):
        add('sort', lstv(*rows[:k]), fun(['x', 'y'], 'x.a < y.a'))
        add('sort', lstv(*rows[:k]), fun(['x', 'y'], 'x.a > y.a'))
    add('sort', lstv(), lt)
    add('sort', num('1'), lt)
    add('sort', lstv(num('1')), fun(['x'], 'x'))
    # --- every arity, including wrong ones, for every function
    filler = [lstv(num('1'), num('2')), num('1'), num('1'), num('1'), num('1')]
    sfiller = [st('abc'), st('b'), st('x'), st('i'), st('q')]
    for name in list(BIFS) + list(REF_NAMES):
        f = sfiller if name in ('contains', 'starts with', 'ends with', 'substring before', 'substring after', 'matches', 'replace', 'split', 'string length', 'string', 'number') else filler
        if name == 'substring':
            f = [st('abc'), num('1'), num('1'), num('1'), num('1')]
        for k in range(0, 6):
            if name == 'sort':
                continue
            cases.append((name, (f + f)[:k]))
    return cases


def top_items(l):
    """number of top-level items of a generated list value (from its Coq term)"""
    t = l.coq
    assert t.startswith('(VList [')
    body = t[len('(VList ['):-2]
    if not body.strip():
        return []
    out, depth, cur = [], 0, ''
    for ch in body:
        if ch in '([':
            depth += 1
        elif ch in ')]':
            depth -= 1
        if ch == ';' and depth == 0:
            out.append(cur)
            cur = ''
        else:
            cur += ch
    out.append(cur)
    return out


def in_domain_for_named(name, args):
    """the named form takes the list itself; f(true) with a non-list is the variadic form, which has no named spelling"""
    if BIFS.get(name, (None, None, False))[2] or name == 'stddev':
        return len(args) == 1 and args[0].kind == 'list'
    return True


def known_class(ctx, name, args, spec, got):
    """deviations of the working tree that are listed in known_findings.txt (class test first, then the listing)"""
    if name == 'replace' and isinstance(spec, str) and isinstance(got, str) and spec != spec.strip() and got == spec.strip():
        return ctx.known('replace-trim')
    return False


def check_squares(ctx):
    """FeelNumber::square (decNumberPower(x, 2), the squares of stddev) against coq/C08/Model.v nsquare (two roundings: 37 digits, then 34)
    and libmpdec; returns the counts for the coverage record"""
    r = ctx.rng
    xs = list(SQUARE_WITNESSES) + [(0, 0), (0, 5), (-1, -7), (1, 3072), (1, 3073), (32, 3071), (316227766016837933199889354443271853 // 100, 3039),
                                   (N34, 3039), (N34, 3038), (1, -3088), (3, -3089), (5, -3090), (75, -3089), (123456789, -3093), (N34, -3100), (N34, -3110), (N34, 0), (N34, -17)]
    for _ in range(ctx.pick(150, 1500)):
        nd = r.randint(1, 34)
        xs.append((r.choice([1, -1]) * r.randint(10 ** (nd - 1), 10 ** nd - 1), r.choice([0, -5, 20, -3075, -3080, -3090, -3100, 3050, 3060, 3070])))
    found = 0
    tries = 0
    while found < ctx.pick(6, 40) and tries < 200000:          # operands where the two roundings differ from the one rounding of x * x (about 1 in 2000)
        tries += 1
        nd = r.randint(18, 34)
        c = r.randint(10 ** (nd - 1), 10 ** nd - 1)
        d = Decimal(c)
        if C34.multiply(d, d) != ref_square(d):
            xs.append((c, r.choice([0, -12, 9])))
            found += 1
    impl = ctx.run_impl('num', [{'op': 'square', 'a': '%dE%d' % (c, e)} for c, e in xs])
    model = ctx.run_model(HEADER2, ['nsquare (%s, %s)' % (V9.z(c), V9.z(e)) for c, e in xs], tag='sq%d' % os.getpid())
    twice = 0
    for (c, e), ri, m in zip(xs, impl, model):
        ctx.evaluations += 1
        ctx.corr_checked += 1
        d = dnum(c, e)
        case = {'function': 'FeelNumber::square', 'positional': '%dE%d' % (c, e), 'named': None}
        if 'r' not in ri:
            ctx.violation('FeelNumber::square(%dE%d) does not answer: %s' % (c, e, ri), case, impl=ri)
            continue
        iv = None if ri['r'] is None else Decimal(ri['r']['n'])
        iv = iv if iv is not None and iv.is_finite() else None
        mv = None
        if isinstance(m, App) and m.name == 'Some':
            pc, pe = m.args[0]
            mv = dnum(pc, pe)
        pv = fin(ref_square(d))
        if pv != mv:
            ctx.broken.append('C08: libmpdec and coq/C08/Model.v nsquare disagree on %dE%d: %s / %s' % (c, e, pv, mv))
        if iv != mv:
            ctx.corr_broken('FeelNumber::square differs from nsquare', case, str(iv), str(mv))
        elif iv is not None:
            ctx.nontrivial.add('square %dE%d' % (c, e))
            if iv != fin(C34.multiply(d, d)):
                twice += 1
    return {'operands': len(xs), 'result_differs_from_the_correctly_rounded_product': twice}


def run(ctx):
    ctx.proof_gate()
    ctx.build_harness()
    r = ctx.rng
    cases = gen_cases(ctx)
    reqs, terms, meta = [], [], []
    terms2, idx2 = [], []
    for name, args in cases:
        pn = (BIFS[name][1] if name in BIFS else REF_NAMES[name]).get(len(args))
        orders = []
        if pn:
            perms = list(itertools.permutations(range(len(args))))
            if ctx.quick and len(perms) > 2:
                orders = [list(perms[0])] + [list(r.choice(perms[1:]))]
            else:
                orders = [list(q) for q in perms]
        e = [positional_text(name, args)] + [named_text(name, pn, args, o) for o in orders]
        reqs.append({'e': '[%s, null]' % ', '.join(e)})
        wide = name in BIFS and name in AGG and wide_for_coq(name, args)
        if name in BIFS:
            if not wide:
                terms.append('[%s]' % '; '.join([coq_pos(name, args)] + [coq_nam(name, pn, args, o) for o in orders]))
        else:
            t2 = coq_ref_term(name, args)
            if t2 is not None:
                idx2.append(len(meta))
                terms2.append(t2)
        meta.append((name, args, pn, orders, wide))
    impl = ctx.run_impl('feel', reqs, shards=16)
    model = ctx.run_model(HEADER, terms, shard_size=max(200, len(terms) // 16 + 1), tag='calls%d' % os.getpid())
    model2 = dict(zip(idx2, ctx.run_model(HEADER2, terms2, shard_size=max(50, len(terms2) // 16 + 1), tag='ref%d' % os.getpid())))
    model2_calls = {}
    mpdec_only, mpdec_checked = {}, {}
    mi = iter(model)
    per_bif = {}
    dbg = []
    named_calls = 0

    def shw(x):
        return 'a panic' if x == 'TRAP' else show(x)

    for ix, ((name, args, pn, orders, wide), ri) in enumerate(zip(meta, impl)):
        ctx.evaluations += 1
        per_bif[name] = per_bif.get(name, 0) + 1
        ptext = positional_text(name, args)
        ntexts = [named_text(name, pn, args, o) for o in orders]
        case = {'function': name, 'positional': ptext, 'named': ntexts[-1] if ntexts else None}
        m = next(mi) if name in BIFS and not wide else None
        v = ri.get('v')
        if 'panic' in ri or 'crash' in ri:
            # find out which of the spellings traps
            single = ctx.run_impl('feel', [{'e': t} for t in [ptext] + ntexts])
            got = ['TRAP' if ('panic' in a or 'crash' in a) else norm_impl(a.get('v')) for a in single]
        elif not isinstance(v, list) or len(v) != len(ntexts) + 2:
            ctx.violation('%s could not be parsed or built: %s' % (ptext, ri), case, impl=ri)
            continue
        else:
            got = [norm_impl(x) for x in v[:-1]]
        ip, inns = got[0], got[1:]
        if name in BIFS and wide:
            # digits thousands of positions apart: the libmpdec reference alone (it is cross-checked with the Coq model on every other call)
            rv = ref_aggregate(name, agg_items(name, args))
            sp = None if rv is None else ('n', rv)
            sns = [sp] * len(ntexts)
            mpdec_only[name] = mpdec_only.get(name, 0) + 1
        elif name in BIFS:
            spec = [norm_opt(x) for x in m]
            sp, sns = spec[0], spec[1:]
            xs = agg_items(name, args) if name in AGG else None
            if xs:
                rv = ref_aggregate(name, xs)
                mpdec_checked[name] = mpdec_checked.get(name, 0) + 1
                if (None if rv is None else ('n', rv)) != sp:
                    ctx.broken.append('C08: libmpdec and the Coq model (Base/DecRound.v) disagree on %s: %s / %s' % (ptext, rv, shw(sp)))
        else:
            try:
                sp = ref_call(name, args)
            except KeyError:
                sp = Ellipsis      # no reference for this argument tuple: only named = positional is checked
            if ix in model2:
                # the Coq model (coq/C08/Model2.v) is the specification; the Python reference must agree with it where it exists
                sm = model2_value(name, model2[ix])
                model2_calls[name] = model2_calls.get(name, 0) + 1
                if sp is not Ellipsis and sp != sm:
                    ctx.broken.append('C08: the Python reference and coq/C08/Model2.v disagree on %s: %s / %s' % (ptext, shw(sp), shw(sm)))
                sp = sm
                if name == 'sort' and ip == sp and isinstance(v, list) and v and strict_impl(v[0]) != strict(norm_term(model2[ix])):
                    ctx.violation('%s: tied items do not keep their order (the sort is specified stable)' % ptext, case,
                                  impl=shw(ip), specified=show(norm_term(model2[ix])))
                    continue
            sns = [sp if in_domain_for_named(name, args) else None] * len(ntexts)
        if ip is not None and ip != 'TRAP':
            ctx.nontrivial.add(ptext)
        if sp is not Ellipsis:
            ctx.corr_checked += 1
            if ip != sp:
                dbg.append((name, 'pos', ptext, shw(ip), shw(sp)))
            if ip != sp and not known_class(ctx, name, args, sp, ip):
                ctx.violation('%s gives %s, the specified value is %s' % (ptext, shw(ip), shw(sp)), case, impl=shw(ip), specified=shw(sp))
                continue
        for ntext, inn, sn in zip(ntexts, inns, sns):
            named_calls += 1
            ncase = dict(case, named=ntext)
            if sp is not Ellipsis and inn != sn:
                dbg.append((name, 'nam', ntext, shw(inn), shw(sn)))
                if not known_class(ctx, name, args, sn, inn):
                    ctx.violation('%s gives %s, the specified value is %s' % (ntext, shw(inn), shw(sn)), ncase, impl=shw(inn), specified=shw(sn))
                    break
            if in_domain_for_named(name, args) and inn != ip:
                dbg.append((name, 'n/p', ntext, shw(inn), shw(ip)))
                ctx.violation('named and positional invocation differ: %s gives %s, %s gives %s' % (ptext, shw(ip), ntext, shw(inn)), ncase,
                              impl={'positional': shw(ip), 'named': shw(inn)})
                break
    squares = check_squares(ctx)
    if os.environ.get('C08_DEBUG'):
        seen = {}
        for d in dbg:
            seen.setdefault((d[0], d[1]), []).append(d)
        for k, ds in sorted(seen.items()):
            print('DEBUG', k, len(ds))
            for d in ds[:int(os.environ.get('C08_DEBUG'))]:
                print('      %s -> impl %s, specified %s' % (d[2], d[3], d[4]))
    for i in (5, len(cases) // 3, len(cases) // 2):
        name, args, pn, orders, _ = meta[i]
        ctx.sample({'call': positional_text(name, args), 'impl': impl[i].get('v')})
    return ctx.finish(
        rule='substring: 11 strings over ASCII / BMP / supplementary planes x every start position from -(n+2) to n+2, 0, 1.0, -1.0, 1.5, 0.5, 2.00, 0.0, n.0, null, a string, 2^64, -2^63-1 '
             'x every length from -1 to n+2, 1.0, 1.5, 0.5, 0.0, 2.9, absent, null, a string, 2^64; sublist / remove / insert before: 14 lists of length 0..8 (duplicates, equal numbers with '
             'different scale, nulls, nested lists, contexts, dates) x the same positions and lengths; index of / list contains: every list x 12 elements; union / concatenate / append: pairs and triples; '
             'min max sum mean median mode stddev: random number lists of length 0..8 with duplicates and scales plus null / string / mixed lists, list form and variadic form; '
             'sum mean median stddev (no assumption on the size of a sum): lists of 34-digit numbers whose sums round at every step, exact ties of both parities and values just beside a tie, '
             'order-dependent sums, tiny + huge, overflow to null (at the threshold, in the middle of a list, negative, in the even median and in the squares of stddev), the subnormal grid '
             '(exact sums, quotients that underflow gradually, ties on the grid), quotients that are exact ties, deviations whose square FeelNumber::square rounds twice, each compared with the '
             'Coq model over Base/DecRound.v (digit spans up to 400) and with libmpdec (all; the two must agree); FeelNumber::square itself on witnesses of the double rounding, the subnormal '
             'grid, the overflow edge and random operands; all / any: every list '
             'over {true, false, null, 1} up to length %d; string predicates and substring before / after: every string x its prefixes, suffixes, infixes, non-matches, the empty string; '
             'every function with 0..5 arguments; each call positionally and with named parameters (declared order + one random permutation of the names in the quick tier, all permutations in the thorough tier). non-trivial = a call whose result is not null'
             % ctx.pick(3, 4),
        extra_cov={'calls_per_function': per_bif, 'named_invocations': named_calls, 'functions': len(per_bif), 'model_variant': 'orig' if ORIG else 'current',
                   'validated_only': ['number', 'string'], 'second_model_calls': model2_calls,
                   'numeric_aggregates_coq_and_libmpdec': mpdec_checked, 'numeric_aggregates_libmpdec_only': mpdec_only, 'feelnumber_square': squares},
        assumptions=['regular expressions: literal alphanumeric patterns only, no flags',
                     'named forms of the variadic aggregates are compared with the positional form for list arguments only (f(true) is the variadic spelling)'],
        trusted=['references for string and number are written in Python, not proved',
                 'numeric aggregates whose digits span more than 400 positions (mean / stddev of numbers far from 1: the loops start from 0) are compared with libmpdec only: Base/Dec.v counts digits by repeated division (a minute per operation in Coq)',
                 'sort: the ordering functions issued are `x < y` and `x > y` (C09 v_lt / v_gt in the model); Rust leaves slice::sort_by open for relations that are not strict weak orders, the model and the theorems cover strict weak orders',
                 'the Rust regex engine is sampled, not modelled; the decNumber kernel is tied to Base/DecRound.v by correspondence only (C02), the 37-digit intermediate rounding of decNumberPower(x, 2) by the square cases here'])


def replay(ctx, path):
    obj = json.load(open(path))
    ctx.build_harness()
    c = obj.get('case')
    if not c:
        print(json.dumps(obj, indent=1))
        return 1
    print('what:', obj.get('what'))
    reqs = [{'e': c['positional']}] + ([{'e': c['named']}] if c.get('named') else [])
    for q, a in zip(reqs, ctx.run_impl('feel', reqs)):
        print('  %s  ->  %s' % (q['e'], json.dumps(a, ensure_ascii=False)))
    print('  specified:', obj.get('specified'))
    return 1


MANIFEST = dict(
    technique='Coq proof (one Gallina function per built-in transliterating bifs/core.rs with the positional and named dispatch; characterisation theorems for all list / string lengths and positions; named = positional) with model/code correspondence on boundary-exhaustive argument tuples',
    text='Theorems (coq/Props/C08.v, closed under the global context) characterise the modelled built-ins for lists and strings of any length and every position / length argument (substring, sublist, insert before, remove: window semantics from 1, negative positions from the end, any numeric position that denotes an integer whatever its exponent, null exactly outside the domain; flatten and distinct values / union by equations whose only solution is the function: leaves left to right, first occurrences in list order under FEEL equality (C08_flatten_is_determined, C08_distinct_values_is_determined); index of, list contains, union, distinct values, flatten, reverse, append, concatenate, count, min, max, sum, mean, median, mode, all, any, not, string predicates, substring before / after, get value, get entries) and show that the named dispatch gives the positional result. The numeric aggregates compute in the model with the SHARED decimal128 layer coq/Base/DecRound.v (dadd / dsub / ddiv / dsqrt, the operations C02 proves correctly rounded; no private arithmetic, no assumption on the size of a sum): sum is the left-to-right fold of correctly rounded additions starting with the first item, null once a step overflows (C08_sum_is_rounded_fold, C08_add_correctly_rounded: null exactly at the decimal128 overflow threshold, otherwise within half a unit of the 34-digit quantum, ties to even, exact when the sum fits); mean is the correctly rounded quotient of the rounded sum from 0 by the count (C08_mean_correctly_rounded); median is the middle item of the stable number sort or the correctly rounded half of the correctly rounded sum of the two middle items (C08_median_spec, C08_median_order_statistic); stddev is the exact sequence of rounded operations of core.rs (C08_stddev_spec: sum from 0, / n, squared deviations added from 0, / (n - 1), sqrt; the square is FeelNumber::square = decNumberPower(x, 2), which rounds twice, 37 then 34 digits: C08_square_two_roundings, C08_square_is_not_the_rounded_product); every aggregate of numbers in format is null or a number in format (C08_aggregates_in_format). mode is exact (C08_mode, C08_mode_is_determined); the number sort of median / mode is the stable ascending sort (C08_number_sort_stable); sort(list, precedes) is a permutation for every relation and, when precedes is a strict weak order on the items, sorted, stable, and the only such list (C08_sort_by_precedes, C08_sort_is_determined); split / replace / matches on literal patterns: join(split(s, d), d) = s, no piece contains d, replace = split then join with the replacement, a pattern that does not occur changes nothing, the recursive equations (C08_split_join ... C08_replace_equation), the empty pattern matches at every position as Regex::split does (C08_split_empty_delimiter). Tied to feel-evaluator/src/bifs by issuing every generated call positionally and with named parameters through parse + evaluate and comparing with the model (sort: including the order of tied items 1 / 1.0; numeric aggregates: also lists whose sums round at every step, ties, overflow, underflow, tiny + huge, compared with the Coq model and with libmpdec); string and number are validated against references, not proved.',
    note='Trusted: Coq kernel + vm_compute, hand-written model of bifs/core.rs, positional.rs, named.rs (correspondence-checked), Python references for string / number, harness. Regex dialect beyond literal patterns and number-to-text conversion (C07) are outside the theorems; the decNumber kernel is tied to Base/DecRound.v by correspondence (C02 and the aggregate / square cases here); numeric aggregate calls whose digits span more than 400 positions are compared with libmpdec only (digit counting in Coq is too slow there).')
