(* C03 — decision tables return what their hit policy prescribes.
   Executable models.  Two layers:
     Spec      : `sat` (an input entry is satisfied by a value) and `dt_spec` (declarative hit
                 policies over the list of satisfied rules);
     ImplModel : model-evaluator/src/builders/decision_table.rs as written (EvaluatedRule,
                 get_matching_rules_prioritized with its comparator over the *flattened* list of
                 output values, get_result with outputs[0] as nth_error, the default output
                 value handled only for one default) on top of the three-valued unary-test
                 evaluation of feel-evaluator/src/builders.rs (build_in, eval_in_list,
                 eval_in_negated_list, eval_in_range, the eval_in_unary family).
   Values are abstract: null, integers, strings (codes ordered as the strings they stand
   for), booleans.  No proofs in this file. *)
From Coq Require Import List ZArith NArith Bool.
Import ListNotations.

(* ------------------------------------------------------------------ values *)
Inductive atom := ANull | ANum (z : Z) | AStr (s : N) | ABool (b : bool).

Inductive kind := KNull | KNum | KStr | KBool.
Definition kind_of (a : atom) : kind :=
  match a with ANull => KNull | ANum _ => KNum | AStr _ => KStr | ABool _ => KBool end.
Definition kind_eqb (a b : kind) : bool :=
  match a, b with KNull, KNull | KNum, KNum | KStr, KStr | KBool, KBool => true | _, _ => false end.

(* Rust `==` on Value (derived PartialEq; numbers by value) *)
Definition atom_eqb (a b : atom) : bool :=
  match a, b with
  | ANull, ANull => true
  | ANum x, ANum y => Z.eqb x y
  | AStr x, AStr y => N.eqb x y
  | ABool x, ABool y => Bool.eqb x y
  | _, _ => false
  end.

(* a result composed from one rule: a single value or a context keyed by component names
   (FeelContext = BTreeMap: association list sorted by key, later entries replace earlier) *)
Inductive rv := RAtom (a : atom) | RCtx (es : list (N * atom)).

Fixpoint ctx_set (k : N) (v : atom) (es : list (N * atom)) : list (N * atom) :=
  match es with
  | [] => [(k, v)]
  | (k', v') :: r =>
      match N.compare k k' with
      | Lt => (k, v) :: es
      | Eq => (k, v) :: r
      | Gt => (k', v') :: ctx_set k v r
      end
  end.

Fixpoint ctx_get (k : N) (es : list (N * atom)) : option atom :=
  match es with [] => None | (k', v) :: r => if N.eqb k k' then Some v else ctx_get k r end.

Definition mk_ctx (names : list N) (vals : list atom) : list (N * atom) :=
  fold_left (fun es kv => ctx_set (fst kv) (snd kv) es) (combine names vals) [].

Fixpoint ctx_eqb (a b : list (N * atom)) : bool :=
  match a, b with
  | [], [] => true
  | (k, v) :: a', (k', v') :: b' => N.eqb k k' && atom_eqb v v' && ctx_eqb a' b'
  | _, _ => false
  end.

Definition rv_eqb (a b : rv) : bool :=
  match a, b with
  | RAtom x, RAtom y => atom_eqb x y
  | RCtx x, RCtx y => ctx_eqb x y
  | _, _ => false
  end.

Inductive outcome :=
| OOne (r : rv)              (* a single result *)
| OMany (l : list rv)        (* a list of results *)
| OCrash                     (* index out of bounds at evaluation: outputs[0] on a table without output clause *)
| OBuildCrash.               (* index out of bounds while building: a rule with too few entries *)

Definition onull : outcome := OOne (RAtom ANull).

(* ------------------------------------------------------------------ unary tests *)
Inductive cmpop := CLt | CLe | CGt | CGe.

Inductive item :=
| ILit (a : atom)
| ICmp (o : cmpop) (a : atom)
| IRange (lo : atom) (lc : bool) (hi : atom) (hc : bool).

Inductive utest := UAny | UPos (l : list item) | UNeg (l : list item).

(* ---------------- Spec: satisfaction (two-valued; defined for EVERY value and every test: a literal is satisfied by the equal
   value only — the literal null by the null value —, a comparison or interval only by a value of the kind of its
   number / string endpoints, so by no null value and no value of another kind; `-` by every value, null included;
   not(...) by every value that satisfies none of the tests, so also by a null value against comparisons) ---------------- *)
Definition lt_atom (a b : atom) : bool :=
  match a, b with ANum x, ANum y => Z.ltb x y | AStr x, AStr y => N.ltb x y | _, _ => false end.
(* FEEL orders numbers among themselves and strings among themselves: `<= true`, `<= null` hold of no value *)
Definition le_atom (a b : atom) : bool :=
  match a, b with ANum x, ANum y => Z.leb x y | AStr x, AStr y => N.leb x y | _, _ => false end.

Definition sat_item (x : atom) (i : item) : bool :=
  match i with
  | ILit a => atom_eqb x a
  | ICmp CLt a => lt_atom x a
  | ICmp CLe a => le_atom x a
  | ICmp CGt a => lt_atom a x
  | ICmp CGe a => le_atom a x
  | IRange lo lc hi hc => (if lc then le_atom lo x else lt_atom lo x) && (if hc then le_atom x hi else lt_atom x hi)
  end.

Definition sat (x : atom) (u : utest) : bool :=
  match u with
  | UAny => true
  | UPos l => existsb (sat_item x) l
  | UNeg l => negb (existsb (sat_item x) l)
  end.

(* well-typed: every literal of the test is null or has the kind of the value (any literal if the value is null);
   comparisons and intervals only over numbers and strings (so not against a null value) *)
Definition ordered_kind (k : kind) : bool := match k with KNum | KStr => true | _ => false end.
Definition item_typed (k : kind) (i : item) : bool :=
  match i with
  | ILit a => kind_eqb (kind_of a) k || kind_eqb k KNull || kind_eqb (kind_of a) KNull
  | ICmp _ a => kind_eqb (kind_of a) k && ordered_kind k
  | IRange lo _ hi _ => kind_eqb (kind_of lo) k && kind_eqb (kind_of hi) k && ordered_kind k
  end.
Definition utest_typed (k : kind) (u : utest) : bool :=
  match u with UAny => true | UPos l | UNeg l => forallb (item_typed k) l end.
Definition value_typed (x : atom) (u : utest) : bool := utest_typed (kind_of x) u.

(* ---------------- ImplModel: three-valued evaluation as in feel-evaluator ---------------- *)
Inductive tv := TT | TF | TN.
Definition of_bool (b : bool) : tv := if b then TT else TF.
Definition is_tt (t : tv) : bool := match t with TT => true | _ => false end.

(* eval_ternary_equality, left = input value *)
Definition teq (l r : atom) : option bool :=
  match l, r with
  | ABool a, ABool b => Some (Bool.eqb a b)
  | ANum a, ANum b => Some (Z.eqb a b)
  | AStr a, AStr b => Some (N.eqb a b)
  | ANull, ANull => Some true
  | ANull, _ => None
  | _, ANull => Some false
  | _, _ => None
  end.

Definition in_equal (l r : atom) : tv := match teq l r with Some true => TT | _ => TF end.

Definition cmp_c (o : cmpop) (c : comparison) : bool :=
  match o, c with
  | CLt, Lt => true
  | CLe, Lt | CLe, Eq => true
  | CGt, Gt => true
  | CGe, Gt | CGe, Eq => true
  | _, _ => false
  end.

(* eval_in_unary_less / _less_or_equal / _greater / _greater_or_equal *)
Definition in_cmp (o : cmpop) (l r : atom) : tv :=
  match l, r with
  | ANum a, ANum b => of_bool (cmp_c o (Z.compare a b))
  | AStr a, AStr b => of_bool (cmp_c o (N.compare a b))
  | _, _ => TN
  end.

(* eval_in_range *)
Definition in_range (x lo : atom) (lc : bool) (hi : atom) (hc : bool) : tv :=
  match x, lo, hi with
  | ANum v, ANum l, ANum h =>
      of_bool ((if lc then Z.leb l v else Z.ltb l v) && (if hc then Z.leb v h else Z.ltb v h))
  | AStr v, AStr l, AStr h =>
      of_bool ((if lc then N.leb l v else N.ltb l v) && (if hc then N.leb v h else N.ltb v h))
  | _, _, _ => TN
  end.

(* one item of eval_in_list; None = an item kind the loop does not handle (it returns null at once).
   nl = the null literal is a test like any other literal (after the fix); at the pinned commit it was not handled *)
Definition item_tv_gen (nl : bool) (x : atom) (i : item) : option tv :=
  match i with
  | ILit ANull => if nl then Some (in_equal x ANull) else None
  | ILit a => Some (in_equal x a)
  | ICmp o a => Some (in_cmp o x a)
  | IRange lo lc hi hc => Some (in_range x lo lc hi hc)
  end.

Fixpoint in_list_gen (nl : bool) (x : atom) (items : list item) : tv :=
  match items with
  | [] => TF
  | i :: rest =>
      match item_tv_gen nl x i with
      | None => TN
      | Some TT => TT
      | Some _ => in_list_gen nl x rest
      end
  end.

Definition item_tv := item_tv_gen true.
Definition in_list := in_list_gen true.

(* eval_in_negated_list at the pinned commit: only number / string literals and the four comparisons *)
Definition item_tv_neg_orig (x : atom) (i : item) : option tv :=
  match i with
  | ILit (ANum n) => Some (in_equal x (ANum n))
  | ILit (AStr s) => Some (in_equal x (AStr s))
  | ILit _ => None
  | ICmp o a => Some (in_cmp o x a)
  | IRange _ _ _ _ => None
  end.

Fixpoint in_neg_list_orig (x : atom) (items : list item) : tv :=
  match items with
  | [] => TT
  | i :: rest =>
      match item_tv_neg_orig x i with
      | None => TN
      | Some TT => TF
      | Some _ => in_neg_list_orig x rest
      end
  end.

(* eval_in_negated_list after the fix: the negation of eval_in_list *)
Definition in_neg_list_gen (nl : bool) (x : atom) (items : list item) : tv :=
  match in_list_gen nl x items with TT => TF | TF => TT | TN => TN end.
Definition in_neg_list := in_neg_list_gen true.

Section InTest.
Variable orig : bool.       (* the pinned commit: `-` does not match null *)
Variable nl : bool.         (* the null literal is handled as a test *)
Variable neg : atom -> list item -> tv.
(* build_in on the value of a parsed unary-tests node; at the pinned commit `-` did not match a null value *)
Definition in_test (x : atom) (u : utest) : tv :=
  match u with
  | UAny => match x with ANull => if orig then TF else TT | _ => TT end
  | UPos l => in_list_gen nl x l
  | UNeg l => neg x l
  end.
End InTest.

(* ------------------------------------------------------------------ tables *)
Inductive agg := AList | ACount | ASum | AMin | AMax.
Inductive policy := PUnique | PAny | PPriority | PFirst | PRuleOrder | POutputOrder | PCollect (a : agg).

Record iclause := { i_values : option (list item) }.        (* allowed input values *)
Record oclause := { o_name : option N; o_values : option (list atom); o_default : option atom }.
Record rule := { r_in : list utest; r_out : list atom }.    (* output entries are literal values *)
Record table := { t_policy : policy; t_inputs : list iclause; t_outputs : list oclause; t_rules : list rule }.

(* `entry in allowed values`, shared by both layers for output entries: Out(entry, values) *)
Definition out_filter_gen (nl : bool) (vals : option (list atom)) (a : atom) : atom :=
  match vals with
  | None => a
  | Some vs => if is_tt (in_list_gen nl a (map ILit vs)) then a else ANull
  end.
Definition out_filter := out_filter_gen true.

Fixpoint position (v : atom) (l : list atom) : option nat :=
  match l with
  | [] => None
  | o :: r => if atom_eqb o v then Some O else option_map S (position v r)
  end.

Definition is_some {A} (o : option A) : bool := match o with Some _ => true | None => false end.

Fixpoint flat_some {A} (l : list (option A)) : list A :=
  match l with [] => [] | Some a :: r => a :: flat_some r | None :: r => flat_some r end.

(* stable insertion sort by a three-way comparator (Vec::sort_by is a stable sort) *)
Section Sort.
Context {A : Type}.
Variable cmp : A -> A -> comparison.
Fixpoint insert (x : A) (l : list A) : list A :=
  match l with
  | [] => [x]
  | y :: r => match cmp x y with Gt => y :: insert x r | _ => x :: l end
  end.
Definition ssort (l : list A) : list A := fold_right insert [] l.
End Sort.

(* aggregates: bifs::core::{sum,min,max} as written *)
Fixpoint sum_go (acc : Z) (l : list atom) : atom :=
  match l with [] => ANum acc | ANum v :: r => sum_go (acc + v) r | _ => ANull end.
Definition bif_sum (l : list atom) : atom :=
  match l with ANum n :: r => sum_go n r | _ => ANull end.

Fixpoint minz_go (acc : Z) (l : list atom) : atom :=
  match l with [] => ANum acc | ANum v :: r => minz_go (if Z.ltb v acc then v else acc) r | _ => ANull end.
Fixpoint mins_go (acc : N) (l : list atom) : atom :=
  match l with [] => AStr acc | AStr v :: r => mins_go (if N.ltb v acc then v else acc) r | _ => ANull end.
Definition bif_min (l : list atom) : atom :=
  match l with ANum n :: r => minz_go n r | AStr s :: r => mins_go s r | _ => ANull end.

(* max at the pinned commit skipped nulls after the first element (repaired in /repo by a fix of C08: now as min) *)
Fixpoint maxz_go_orig (acc : Z) (l : list atom) : atom :=
  match l with [] => ANum acc | ANum v :: r => maxz_go_orig (if Z.ltb acc v then v else acc) r | ANull :: r => maxz_go_orig acc r | _ => ANull end.
Fixpoint maxs_go_orig (acc : N) (l : list atom) : atom :=
  match l with [] => AStr acc | AStr v :: r => maxs_go_orig (if N.ltb acc v then v else acc) r | ANull :: r => maxs_go_orig acc r | _ => ANull end.
Definition bif_max_orig (l : list atom) : atom :=
  match l with ANum n :: r => maxz_go_orig n r | AStr s :: r => maxs_go_orig s r | _ => ANull end.

Fixpoint maxz_go (acc : Z) (l : list atom) : atom :=
  match l with [] => ANum acc | ANum v :: r => maxz_go (if Z.ltb acc v then v else acc) r | _ => ANull end.
Fixpoint maxs_go (acc : N) (l : list atom) : atom :=
  match l with [] => AStr acc | AStr v :: r => maxs_go (if N.ltb acc v then v else acc) r | _ => ANull end.
Definition bif_max (l : list atom) : atom :=
  match l with ANum n :: r => maxz_go n r | AStr s :: r => maxs_go s r | _ => ANull end.

(* ================================================================== ImplModel *)
Record erule := { matches : bool; outs : list atom }.       (* EvaluatedRule *)

Section Impl.
(* orig = true: the code at the pinned commit; false: after the fix commits.
   nl = true: the null literal handled as a unary test (a repair that was NOT made: known finding null-literal-entry) *)
Variable orig : bool.
Variable nl : bool.

Definition neg : atom -> list item -> tv := if orig then in_neg_list_orig else in_neg_list_gen nl.

Definition component_names (t : table) : list N := flat_some (map o_name (t_outputs t)).
(* pinned commit: all output values of all clauses appended into one vector *)
Definition output_values_flat (t : table) : list atom := concat (flat_some (map o_values (t_outputs t))).
(* after the fix: one vector per output clause (empty when the clause has no output values) *)
Definition output_values (t : table) : list (list atom) :=
  map (fun oc => match o_values oc with Some vs => vs | None => [] end) (t_outputs t).

(* parse_decision_table indexes rule.input_entries[i] for every input clause and rule.output_entries[i]
   for every output clause *)
Definition build_ok (t : table) : bool :=
  forallb (fun r => Nat.leb (length (t_inputs t)) (length (r_in r)) && Nat.leb (length (t_outputs t)) (length (r_out r))) (t_rules t).

Definition entry_true (x : atom) (ic : iclause) (e : utest) : bool :=
  match i_values ic with
  | None => is_tt (in_test orig nl neg x e)
  | Some vs => is_tt (in_list_gen nl x vs) && is_tt (in_test orig nl neg x e)
  end.

Fixpoint rule_matches (xs : list atom) (ics : list iclause) (es : list utest) : bool :=
  match ics, xs, es with
  | [], _, _ => true
  | ic :: ics', x :: xs', e :: es' => entry_true x ic e && rule_matches xs' ics' es'
  | _, _, _ => false
  end.

Fixpoint rule_outs (ocs : list oclause) (os : list atom) : list atom :=
  match ocs, os with
  | oc :: ocs', o :: os' => out_filter_gen nl (o_values oc) o :: rule_outs ocs' os'
  | _, _ => []
  end.

Definition eval_rule (t : table) (xs : list atom) (r : rule) : erule :=
  {| matches := rule_matches xs (t_inputs t) (r_in r); outs := rule_outs (t_outputs t) (r_out r) |}.

Definition matching (t : table) (xs : list atom) : list erule :=
  filter matches (map (eval_rule t xs) (t_rules t)).

Definition cmp_pos (p1 p2 : option nat) (rest : comparison) : comparison :=
  match p1, p2 with
  | Some i1, Some i2 => if Nat.ltb i1 i2 then Lt else if Nat.ltb i2 i1 then Gt else rest
  | Some _, None => Lt
  | None, Some _ => Gt
  | None, None => rest
  end.

(* the comparator of get_matching_rules_prioritized at the pinned commit: positions in the flattened vector *)
Fixpoint cmp_outs_flat (ov : list atom) (a b : list atom) : comparison :=
  match a, b with
  | v1 :: a', v2 :: b' => cmp_pos (position v1 ov) (position v2 ov) (cmp_outs_flat ov a' b')
  | _, _ => Eq
  end.

(* after the fix: positions in the output values of the clause the entry belongs to *)
Fixpoint cmp_outs (ovs : list (list atom)) (a b : list atom) : comparison :=
  match a, b, ovs with
  | v1 :: a', v2 :: b', ov :: ovs' => cmp_pos (position v1 ov) (position v2 ov) (cmp_outs ovs' a' b')
  | _, _, _ => Eq
  end.

Definition prioritized (t : table) (xs : list atom) : list erule :=
  if orig
  then ssort (fun x y => cmp_outs_flat (output_values_flat t) (outs x) (outs y)) (matching t xs)
  else ssort (fun x y => cmp_outs (output_values t) (outs x) (outs y)) (matching t xs).

(* get_result; None = index out of bounds *)
Definition get_result (t : table) (e : erule) : option rv :=
  if Nat.ltb 1 (length (outs e)) then
    if Nat.eqb (length (outs e)) (length (component_names t))
    then Some (RCtx (mk_ctx (component_names t) (outs e)))
    else Some (RAtom ANull)
  else match outs e with [] => None | a :: _ => Some (RAtom a) end.

Fixpoint get_results (t : table) (l : list erule) : option (list rv) :=
  match l with
  | [] => Some []
  | e :: r => match get_result t e, get_results t r with Some x, Some xs => Some (x :: xs) | _, _ => None end
  end.

Definition one (o : option rv) : outcome := match o with Some r => OOne r | None => OCrash end.
Definition many (o : option (list rv)) : outcome := match o with Some l => OMany l | None => OCrash end.

Definition or_null (o : option atom) : atom := match o with Some d => d | None => ANull end.

(* evaluate_default_output_value at the pinned commit: the defined defaults in one vector, only len()==1 handled *)
Definition default_value_orig (t : table) : outcome :=
  match flat_some (map o_default (t_outputs t)) with
  | [d] => OOne (RAtom d)
  | _ => onull
  end.

(* after the fix: one optional default per output clause, several clauses give a context *)
Definition default_value_fixed (t : table) : outcome :=
  let ds := map o_default (t_outputs t) in
  if forallb (fun d => negb (is_some d)) ds then onull else
  match ds with
  | [d] => OOne (RAtom (or_null d))
  | _ => if Nat.eqb (length ds) (length (component_names t))
         then OOne (RCtx (mk_ctx (component_names t) (map or_null ds)))
         else onull
  end.

Definition default_value (t : table) : outcome := if orig then default_value_orig t else default_value_fixed t.

Fixpoint firsts (l : list erule) : option (list atom) :=
  match l with
  | [] => Some []
  | e :: r => match outs e, firsts r with a :: _, Some xs => Some (a :: xs) | _, _ => None end
  end.

Definition aggregate (f : list atom -> atom) (t : table) (xs : list atom) : outcome :=
  if Nat.ltb 1 (length (component_names t)) then onull else
  match matching t xs with
  | [] => default_value t
  | m => match firsts m with Some l => OOne (RAtom (f l)) | None => OCrash end
  end.

Definition hit_policy (t : table) (xs : list atom) : outcome :=
  match t_policy t with
  | PUnique =>
      match matching t xs with
      | [] => default_value t
      | [e] => one (get_result t e)
      | _ => onull
      end
  | PAny =>
      match matching t xs with
      | [] => default_value t
      | e :: r =>
          match get_result t e, get_results t (e :: r) with
          | Some first, Some all => if forallb (rv_eqb first) all then OOne first else onull
          | _, _ => OCrash
          end
      end
  | PPriority =>
      match prioritized t xs with [] => default_value t | e :: _ => one (get_result t e) end
  | PFirst =>
      match matching t xs with [] => default_value t | e :: _ => one (get_result t e) end
  | PRuleOrder | PCollect AList =>
      match matching t xs with [] => default_value t | m => many (get_results t m) end
  | POutputOrder =>
      match prioritized t xs with [] => default_value t | m => many (get_results t m) end
  | PCollect ACount =>
      match matching t xs with [] => default_value t | m => OOne (RAtom (ANum (Z.of_nat (length m)))) end
  | PCollect ASum => aggregate bif_sum t xs
  | PCollect AMin => aggregate bif_min t xs
  | PCollect AMax => aggregate (if orig then bif_max_orig else bif_max) t xs
  end.

Definition dt_impl_gen (t : table) (xs : list atom) : outcome :=
  if build_ok t then hit_policy t xs else OBuildCrash.
End Impl.

Definition dt_impl := dt_impl_gen false false.         (* the code now *)
Definition dt_impl_orig := dt_impl_gen true false.     (* the pinned commit *)
Definition dt_impl_nl := dt_impl_gen false true.       (* the code if the null literal were handled as a test *)

(* ================================================================== Spec *)
(* a rule is a hit iff every input entry is satisfied by the corresponding input value (an input
   with allowed values satisfies an entry only if it is one of the allowed values) *)
Definition entry_sat (x : atom) (ic : iclause) (e : utest) : bool :=
  match i_values ic with None => sat x e | Some vs => existsb (sat_item x) vs && sat x e end.

Fixpoint all3 {A B C} (f : A -> B -> C -> bool) (a : list A) (b : list B) (c : list C) : bool :=
  match a, b, c with
  | [], [], [] => true
  | x :: a', y :: b', z :: c' => f x y z && all3 f a' b' c'
  | _, _, _ => false
  end.

Definition rule_sat (t : table) (xs : list atom) (r : rule) : bool := all3 entry_sat xs (t_inputs t) (r_in r).

Definition hits (t : table) (xs : list atom) : list rule := filter (rule_sat t xs) (t_rules t).

(* the outputs of a rule: an entry that is not one of the clause's output values is null *)
Definition spec_outs (t : table) (r : rule) : list atom :=
  map (fun p => out_filter (o_values (fst p)) (snd p)) (combine (t_outputs t) (r_out r)).

Definition names (t : table) : list N := flat_some (map o_name (t_outputs t)).

(* one output clause: the value; several: the context keyed by the component names *)
Definition compose (t : table) (vals : list atom) : rv :=
  match vals with
  | [a] => RAtom a
  | _ => RCtx (mk_ctx (names t) vals)
  end.

Definition spec_out (t : table) (r : rule) : rv := compose t (spec_outs t r).

(* priority key of a rule: per output clause the position of the output in that clause's own
   list of output values; no list or not a member = after every listed value *)
Definition key1 (oc : oclause) (a : atom) : option nat :=
  match o_values oc with None => None | Some vs => position a vs end.

Definition cmp_key1 (a b : option nat) : comparison :=
  match a, b with
  | Some i, Some j => Nat.compare i j
  | Some _, None => Lt
  | None, Some _ => Gt
  | None, None => Eq
  end.

Fixpoint cmp_keys (a b : list (option nat)) : comparison :=
  match a, b with
  | x :: a', y :: b' => match cmp_key1 x y with Eq => cmp_keys a' b' | c => c end
  | _, _ => Eq
  end.

Definition key (t : table) (r : rule) : list (option nat) :=
  map (fun p => key1 (fst p) (snd p)) (combine (t_outputs t) (spec_outs t r)).

Definition by_priority (t : table) (l : list rule) : list rule :=
  ssort (fun x y => cmp_keys (key t x) (key t y)) l.

Definition spec_default (t : table) : rv :=
  match t_outputs t with
  | [oc] => RAtom (or_null (o_default oc))
  | ocs =>
      if existsb (fun oc => is_some (o_default oc)) ocs
      then RCtx (mk_ctx (names t) (map (fun oc => or_null (o_default oc)) ocs))
      else RAtom ANull
  end.

Fixpoint nums (l : list atom) : option (list Z) :=
  match l with [] => Some [] | ANum z :: r => option_map (cons z) (nums r) | _ => None end.
Fixpoint strs (l : list atom) : option (list N) :=
  match l with [] => Some [] | AStr s :: r => option_map (cons s) (strs r) | _ => None end.

Definition spec_sum (l : list atom) : atom :=
  match nums l with Some (z :: zs) => ANum (fold_right Z.add 0%Z (z :: zs)) | _ => ANull end.
Definition spec_min (l : list atom) : atom :=
  match nums l, strs l with
  | Some (z :: zs), _ => ANum (fold_right Z.min z zs)
  | _, Some (s :: ss) => AStr (fold_right N.min s ss)
  | _, _ => ANull
  end.
Definition spec_max (l : list atom) : atom :=
  match nums l, strs l with
  | Some (z :: zs), _ => ANum (fold_right Z.max z zs)
  | _, Some (s :: ss) => AStr (fold_right N.max s ss)
  | _, _ => ANull
  end.

Definition single_out (t : table) (r : rule) : atom := hd ANull (spec_outs t r).

Definition spec_agg (f : list atom -> atom) (t : table) (hs : list rule) : outcome :=
  match t_outputs t with
  | [_] => OOne (RAtom (f (map (single_out t) hs)))
  | _ => onull                       (* aggregation is defined for single-output tables only *)
  end.

Definition dt_spec (t : table) (xs : list atom) : outcome :=
  match hits t xs with
  | [] => match t_policy t, t_outputs t with
          | PCollect (ASum | AMin | AMax), (_ :: _ :: _) => onull
          | _, _ => OOne (spec_default t)
          end
  | h :: hs =>
      match t_policy t with
      | PUnique => match hs with [] => OOne (spec_out t h) | _ => onull end
      | PAny => if forallb (fun r => rv_eqb (spec_out t h) (spec_out t r)) hs then OOne (spec_out t h) else onull
      | PFirst => OOne (spec_out t h)
      | PPriority => OOne (spec_out t (hd h (by_priority t (h :: hs))))
      | PRuleOrder | PCollect AList => OMany (map (spec_out t) (h :: hs))
      | POutputOrder => OMany (map (spec_out t) (by_priority t (h :: hs)))
      | PCollect ACount => OOne (RAtom (ANum (Z.of_nat (length (h :: hs)))))
      | PCollect ASum => spec_agg spec_sum t (h :: hs)
      | PCollect AMin => spec_agg spec_min t (h :: hs)
      | PCollect AMax => spec_agg spec_max t (h :: hs)
      end
  end.

(* ================================================================== hypotheses of the refinement (boolean, evaluated by the check too) *)
Fixpoint nodupb (l : list N) : bool :=
  match l with [] => true | x :: r => negb (existsb (N.eqb x) r) && nodupb r end.

(* well-shaped table: at least one output clause, every rule has exactly one entry per clause,
   several output clauses are all named, with distinct names *)
Definition wf (t : table) : bool :=
  Nat.ltb 0 (length (t_outputs t)) &&
  forallb (fun r => Nat.eqb (length (r_in r)) (length (t_inputs t)) && Nat.eqb (length (r_out r)) (length (t_outputs t))) (t_rules t) &&
  (if Nat.ltb 1 (length (t_outputs t))
   then forallb (fun oc => is_some (o_name oc)) (t_outputs t) && nodupb (names t)
   else true).

Definition nonnull (a : atom) : bool := negb (kind_eqb (kind_of a) KNull).

Definition entry_typed (x : atom) (ic : iclause) (e : utest) : bool :=
  value_typed x e && match i_values ic with None => true | Some vs => forallb (item_typed (kind_of x)) vs end.

(* well-typed evaluation: one input value per input clause, every literal of the clause's entries and allowed values
   is null or has the kind of the value *)
Definition typed_nl (t : table) (xs : list atom) : bool :=
  Nat.eqb (length xs) (length (t_inputs t)) &&
  forallb (fun r => all3 entry_typed xs (t_inputs t) (r_in r)) (t_rules t).

(* known finding null-literal-entry: the literal null is not handled as a unary test by the code *)
Definition item_nonnull (i : item) : bool := match i with ILit ANull => false | _ => true end.
Definition utest_nonnull (u : utest) : bool := match u with UAny => true | UPos l | UNeg l => forallb item_nonnull l end.
Definition no_null_lits (t : table) : bool :=
  forallb (fun ic => match i_values ic with None => true | Some vs => forallb item_nonnull vs end) (t_inputs t) &&
  forallb (fun oc => match o_values oc with None => true | Some vs => forallb nonnull vs end) (t_outputs t) &&
  forallb (fun r => forallb utest_nonnull (r_in r)) (t_rules t).

Definition typed (t : table) (xs : list atom) : bool := typed_nl t xs && no_null_lits t.

(* the hypotheses of the refinement theorem about the code as it is (C03_policy_refines), besides wf: no null literal in
   the table (known finding null-literal-entry) and one input value per input clause.  Nothing is asked of the input values:
   null inputs and values of another kind than the literals of an entry are inside. *)
Definition arity_ok (t : table) (xs : list atom) : bool := Nat.eqb (length xs) (length (t_inputs t)).
Definition in_scope (t : table) (xs : list atom) : bool := no_null_lits t && arity_ok t xs.
