(* C02 — property theorems only.  Proofs are in C02/Proofs.v, C02/Sqrt.v, C02/Format.v, C02/DivExact.v and Base/DecFacts.v.
   The theorems are about the specification model (Base/DecRound.v); the C kernel is tied to it by the correspondence check only. *)
From Coq Require Import ZArith NArith Bool List.
From DV Require Import Base.Dec Base.DecFacts Base.DecRound C02.Model C02.Proofs C02.Sqrt C02.Format C02.DivExact.
Import ListNotations.
Open Scope Z_scope.

(* HEADLINE.  The rounding step every operation ends with returns a decimal128 datum (exponent in range) whose value is a
   nearest one to the exact value m*10^e at the target quantum (34 digits, or the subnormal grid), half-way cases go to the even
   coefficient, and nothing is rounded when the exact value fits.  All values are written at the common base exponent b. *)
Theorem C02_round34_nearest_even : forall s m e d, (0 < m)%N -> round34 s m e = Some d ->
  let e1 := target_exp m e in let b := Z.min e ETINY in
  neg d = s /\ ETINY <= expo d <= ETOP /\
  2 * Z.abs (Z.of_N (coef d) * 10 ^ (expo d - b) - Z.of_N m * 10 ^ (e - b)) <= 10 ^ (e1 - b) /\
  (e < e1 -> 2 * Z.abs (Z.of_N (coef d) * 10 ^ (expo d - b) - Z.of_N m * 10 ^ (e - b)) = 10 ^ (e1 - b) ->
   N.even (round_half_even m (Z.to_N (e1 - e))) = true) /\
  (e1 = e -> Z.of_N (coef d) * 10 ^ (expo d - b) = Z.of_N m * 10 ^ (e - b)).
Proof. exact round34_nearest_even. Qed.

Theorem C02_round_half_even : forall m drop, (0 < drop)%N ->
  let p := (10 ^ drop)%N in let q := round_half_even m drop in
  2 * Z.abs (Z.of_N q * Z.of_N p - Z.of_N m) <= Z.of_N p /\
  (2 * Z.abs (Z.of_N q * Z.of_N p - Z.of_N m) = Z.of_N p -> N.even q = true).
Proof. exact round_half_even_spec. Qed.

(* representable values are returned unchanged (also: a literal of up to 34 significant digits is exact, C07) *)
Theorem C02_round_exact : forall s m e, (m < 10 ^ PREC)%N -> ETINY <= e <= ETOP -> round34 s m e = Some (mkdec s m e).
Proof. exact round34_exact. Qed.

(* every result of the rounding step is a decimal128 datum: coefficient below 10^34, exponent -6176..6111 (so no operation of the model can
   return anything but a finite number or null) *)
Theorem C02_round34_in_format : forall s m e d, round34 s m e = Some d -> in_format d = true.
Proof. exact round34_in_format. Qed.

(* division: the quotient is cut after >= 36 digits and one sticky digit records a non-zero remainder; rounding that number is rounding
   the exact quotient n/b (nearest, ties to even) as soon as two digits are dropped, and ddiv always drops at least three *)
Theorem C02_div_sticky : forall n b D, (0 < b)%N -> (2 <= D)%N ->
  let q := (n / b)%N in let r := (n mod b)%N in
  let m := (10 * q + (if (r =? 0)%N then 0 else 1))%N in
  let c := Z.of_N (round_half_even m D) in let P := Z.of_N (10 ^ (D - 1)) in
  2 * Z.abs (c * P * Z.of_N b - Z.of_N n) <= P * Z.of_N b /\
  (2 * Z.abs (c * P * Z.of_N b - Z.of_N n) = P * Z.of_N b -> Z.even c = true).
Proof. exact div_sticky. Qed.
Theorem C02_div_drops_at_least_3 : forall ca cb e, (0 < ca)%N -> (0 < cb)%N ->
  let k := Z.to_N (Z.max 0 (36 + Z.of_N (ndigits cb) - Z.of_N (ndigits ca))) in
  let q := (ca * 10 ^ k / cb)%N in
  forall s, (s <= 1)%N -> 3 <= target_exp (10 * q + s) e - e.
Proof. exact ddiv_drops_at_least_3. Qed.

(* square root: floor root plus a sticky digit; c is nearest to sqrt n / P (stated with squares of the half-way points), ties to even *)
Theorem C02_sqrt_sticky : forall n D, (2 <= D)%N ->
  let s := N.sqrt n in let m := (10 * s + (if (s * s =? n)%N then 0 else 1))%N in
  let c := Z.of_N (round_half_even m D) in let P := Z.of_N (10 ^ (D - 1)) in
  4 * Z.of_N n <= ((2 * c + 1) * P) ^ 2 /\ (0 < c -> ((2 * c - 1) * P) ^ 2 <= 4 * Z.of_N n) /\
  (4 * Z.of_N n = ((2 * c + 1) * P) ^ 2 -> Z.even c = true) /\
  (0 < c -> 4 * Z.of_N n = ((2 * c - 1) * P) ^ 2 -> Z.even c = true).
Proof. exact sqrt_sticky. Qed.

(* dsqrt's scaled radicand c * 10^(2k) always has a floor root of at least 36 digits, so at least three digits of 10*root + sticky are
   dropped by the rounding step: C02_sqrt_sticky applies to every square root the model computes (analogue of C02_div_drops_at_least_3) *)
Theorem C02_sqrt_root_digits : forall c, (0 < c)%N ->
  let k := Z.to_N (Z.max 0 (36 - Z.of_N (ndigits c) / 2)) in
  (10 ^ 35 <= N.sqrt (c * 10 ^ (2 * k)))%N.
Proof. exact dsqrt_root_digits. Qed.
Theorem C02_sqrt_drops_at_least_3 : forall c e, (0 < c)%N ->
  let k := Z.to_N (Z.max 0 (36 - Z.of_N (ndigits c) / 2)) in
  let s := N.sqrt (c * 10 ^ (2 * k)) in
  forall t, (t <= 1)%N -> 3 <= target_exp (10 * s + t) e - e.
Proof. exact dsqrt_drops_at_least_3. Qed.

(* HEADLINE for sqrt: for EVERY positive finite decimal d (any coefficient, any exponent) a result r of dsqrt is a decimal128 datum whose
   value is c * 10^q, where c * 10^q is a nearest multiple of 10^q to the exact square root of d, half-way cases going to an even c
   (integers only: at every common scale 10^B with B <= q and 2B <= expo d, X = 4 * d / 10^(2B) lies between the squares of the doubled
   half-way points lo = (2c-1) * 10^(q-B) and hi = (2c+1) * 10^(q-B)), c has at most 34 digits (c <= 10^34) and the quantum is the
   34-digit one (10^33 <= c) unless q is the smallest exponent -6176 *)
Theorem C02_sqrt_correctly_rounded : forall d r, (0 < coef d)%N -> neg d = false -> dsqrt d = Some r ->
  exists (c : N) (q : Z),
    in_format r = true /\ neg r = false /\ veq r (mkdec false c q) /\
    (c <= 10 ^ 34)%N /\ ETINY <= q /\ (ETINY < q -> (10 ^ 33 <= c)%N) /\
    forall B, B <= q -> 2 * B <= expo d ->
      let X := 4 * Z.of_N (coef d) * 10 ^ (expo d - 2 * B) in
      let lo := (2 * Z.of_N c - 1) * 10 ^ (q - B) in
      let hi := (2 * Z.of_N c + 1) * 10 ^ (q - B) in
      X <= hi ^ 2 /\ ((0 < c)%N -> lo ^ 2 <= X) /\
      (X = hi ^ 2 -> N.even c = true) /\ ((0 < c)%N -> X = lo ^ 2 -> N.even c = true).
Proof. exact dsqrt_correctly_rounded. Qed.

(* the square root of a non-negative decimal128 datum exists (never null: no overflow, no underflow) *)
Theorem C02_sqrt_defined : forall d, in_format d = true -> coef d = 0%N \/ neg d = false -> exists r, dsqrt d = Some r.
Proof. exact dsqrt_defined. Qed.

Example C02_sqrt_nonvacuous :
  dsqrt (mkdec false 2 0) = Some (mkdec false 1414213562373095048801688724209698 (-33)) /\
  f_sqrt (mkdec false 16 0) = Some (mkdec false 4 0) /\
  f_sqrt (mkdec false 1 (-6176)) = Some (mkdec false 1 (-3088)) /\
  f_sqrt (mkdec false 9999999999999999999999999999999999 6111) = Some (mkdec false 3162277660168379331998893544432718 3039) /\
  sqrt_nearest_even_at (mkdec false 2 0) 1414213562373095048801688724209698 (-33) (-33) /\
  (2 * 1414213562373095048801688724209698 - 1) ^ 2 < 4 * 2 * 10 ^ 66 < (2 * 1414213562373095048801688724209698 + 1) ^ 2.
Proof. exact sqrt_examples. Qed.

(* + and * : the exact integer result, then one rounding; exact when the exact result is representable *)
Theorem C02_add_exact_then_round : forall a b,
  dadd a b = round_Z (scaled a (emin2 a b) + scaled b (emin2 a b)) (emin2 a b) (neg a && neg b).
Proof. exact dadd_exact_then_round. Qed.
Theorem C02_mul_exact_then_round : forall a b,
  dmul a b = round34 (xorb (neg a) (neg b)) (coef a * coef b) (expo a + expo b).
Proof. exact dmul_exact_then_round. Qed.
Theorem C02_add_exact : forall a b, Z.abs (scaled a (emin2 a b) + scaled b (emin2 a b)) < 10 ^ 34 -> ETINY <= emin2 a b <= ETOP ->
  exists r, dadd a b = Some r /\ expo r = emin2 a b /\ sval r = scaled a (emin2 a b) + scaled b (emin2 a b).
Proof. exact dadd_exact. Qed.
Theorem C02_mul_exact : forall a b, (coef a * coef b < 10 ^ PREC)%N -> ETINY <= expo a + expo b <= ETOP ->
  dmul a b = Some (mkdec (xorb (neg a) (neg b)) (coef a * coef b) (expo a + expo b)).
Proof. exact dmul_exact. Qed.

(* comparison is by value: equal numbers compare equal whatever their trailing zeros; equality is an equivalence, < is transitive, antisymmetric *)
Theorem C02_trailing_zeros_equal : forall s c e k, 0 <= k -> dcmp (mkdec s c e) (mkdec s (c * 10 ^ Z.to_N k)%N (e - k)) = Eq.
Proof. exact trailing_zeros_equal. Qed.
Theorem C02_cmp_eq_iff_value : forall a b, dcmp a b = Eq <-> veq a b.
Proof. exact dcmp_eq_iff_veq. Qed.
Theorem C02_cmp_antisym : forall a b, dcmp b a = CompOpp (dcmp a b).
Proof. exact dcmp_antisym. Qed.
Theorem C02_value_eq_trans : forall a b c, veq a b -> veq b c -> veq a c.
Proof. exact veq_trans. Qed.
Theorem C02_cmp_lt_trans : forall a b c, dcmp a b = Lt -> dcmp b c = Lt -> dcmp a c = Lt.
Proof. exact dcmp_lt_trans. Qed.
(* reduce-after-operation does not change the value *)
Theorem C02_reduce_value : forall d, veq (dreduce d) d.
Proof. exact dreduce_value. Qed.

(* floor and ceiling are the integer floor and ceiling of the value *)
Theorem C02_floor_spec : forall d, expo d < 0 -> zfloor d * 10 ^ (- expo d) <= sval d < (zfloor d + 1) * 10 ^ (- expo d).
Proof. exact zfloor_spec. Qed.
Theorem C02_ceiling_spec : forall d, expo d < 0 -> (zceil d - 1) * 10 ^ (- expo d) < sval d <= zceil d * 10 ^ (- expo d).
Proof. exact zceil_spec. Qed.

(* modulo (Spec): the exact remainder a - b*floor(a/b), with the sign of the divisor *)
Theorem C02_mod_exact_remainder : forall a b, coef b <> 0%N ->
  let e := emin2 a b in let r := scaled a e - scaled b e * floor_div a b in
  r = (scaled a e) mod (scaled b e) /\ ((0 <= r < scaled b e) \/ (scaled b e < r <= 0)).
Proof. exact dmod_exact_remainder. Qed.

(* undefined results are null; a result of the model is a finite datum by construction (type dec has no Infinity and no NaN) *)
Theorem C02_div_by_zero_null : forall a b, coef b = 0%N -> ddiv a b = None /\ dmod a b = None.
Proof. exact div_by_zero_null. Qed.
Theorem C02_sqrt_negative_null : forall a, coef a <> 0%N -> neg a = true -> dsqrt a = None.
Proof. exact sqrt_negative_null. Qed.

(* the code's modulo (every step rounded) is not the Spec: known finding modulo-stepwise-rounding *)
Theorem C02_mod_steps_refuted : exists a b, mod_known a b = true /\ f_mod a b = Some (mkdec false 1 0) /\ f_mod_steps a b = Some (mkdec false 1 6).
Proof. exact mod_steps_refuted. Qed.

Example C02_nonvacuous :
  f_add (mkdec false 15 (-1)) (mkdec false 25 (-1)) = Some (mkdec false 4 0) /\
  f_div (mkdec false 2 0) (mkdec true 3 0) = Some (mkdec true 6666666666666666666666666666666667 (-34)) /\
  f_mul (mkdec false 1 6144) (mkdec false 10 0) = None /\
  f_mul (mkdec false 1 (-3100)) (mkdec false 15 (-3077)) = Some (mkdec false 2 (-6176)) /\
  f_cmp (mkdec false 10 (-1)) (mkdec false 100 (-2)) = Eq.
Proof. exact model_nontrivial. Qed.

(* ------------------------------------------------------------------ every result is a decimal128 datum, or null *)
(* HEADLINE.  For ALL operands in format (coefficient < 10^34, exponent -6176..6111) every operator and method of the model that produces a
   number gives either null (None) or a datum in format: + - * / modulo (the Spec and the stepwise ImplModel) negation abs floor ceiling
   truncation sqrt decimal(n, scale) and integer powers, including the reduce-after-operation step.  (The type dec has no Infinity / NaN.) *)
Theorem C02_results_in_format : forall a b, in_format a = true -> in_format b = true ->
  (forall r, f_add a b = Some r -> in_format r = true) /\
  (forall r, f_sub a b = Some r -> in_format r = true) /\
  (forall r, f_mul a b = Some r -> in_format r = true) /\
  (forall r, f_div a b = Some r -> in_format r = true) /\
  (forall r, f_mod a b = Some r -> in_format r = true) /\
  (forall r, f_mod_steps a b = Some r -> in_format r = true) /\
  (forall r, f_neg a = Some r -> in_format r = true) /\
  (forall r, f_abs a = Some r -> in_format r = true) /\
  (forall r, f_floor a = Some r -> in_format r = true) /\
  (forall r, f_ceiling a = Some r -> in_format r = true) /\
  (forall r, f_trunc a = Some r -> in_format r = true) /\
  (forall r, f_sqrt a = Some r -> in_format r = true) /\
  (forall scale r, f_decimal a scale = Some r -> in_format r = true) /\
  (forall n r, f_pow_nat a n = Some r -> in_format r = true).
Proof. exact results_in_format. Qed.

(* the operations that end with the rounding step need no hypothesis at all on the operands (any coefficient size, any exponent) *)
Theorem C02_rounded_results_in_format : forall a b,
  (forall r, f_add a b = Some r -> in_format r = true) /\
  (forall r, f_sub a b = Some r -> in_format r = true) /\
  (forall r, f_mul a b = Some r -> in_format r = true) /\
  (forall r, f_div a b = Some r -> in_format r = true) /\
  (forall r, f_mod a b = Some r -> in_format r = true) /\
  (forall r, f_mod_steps a b = Some r -> in_format r = true) /\
  (forall r, f_sqrt a = Some r -> in_format r = true) /\
  (forall n r, f_pow_nat a n = Some r -> in_format r = true).
Proof. exact rounded_results_in_format. Qed.

(* reduce-after-operation and decimal() keep a datum in format *)
Theorem C02_reduce_in_format : forall d, in_format d = true -> in_format (dreduce d) = true.
Proof. exact dreduce_in_format. Qed.
Theorem C02_decimal_in_format : forall d scale, in_format d = true -> -6111 <= scale < 6176 -> in_format (drescale d scale) = true.
Proof. exact drescale_in_format. Qed.

(* null is not a way out: the rounding step gives None EXACTLY when the exact value m * 10^e reaches the overflow threshold
   (10^34 - 1/2) * 10^6111 (written at the base exponent b = min e ETINY, doubled); below it there always is a result *)
Theorem C02_null_iff_overflow : forall s m e, let b := Z.min e ETINY in
  round34 s m e = None <-> (2 * 10 ^ 34 - 1) * 10 ^ (ETOP - b) <= 2 * Z.of_N m * 10 ^ (e - b).
Proof. exact round34_none_iff_overflow. Qed.
Theorem C02_defined_iff_in_range : forall s m e, let b := Z.min e ETINY in
  (exists r, round34 s m e = Some r) <-> 2 * Z.of_N m * 10 ^ (e - b) < (2 * 10 ^ 34 - 1) * 10 ^ (ETOP - b).
Proof. exact round34_defined_iff_in_range. Qed.
Theorem C02_mul_null_iff_overflow : forall a b, let e := expo a + expo b in let b0 := Z.min e ETINY in
  dmul a b = None <-> (2 * 10 ^ 34 - 1) * 10 ^ (ETOP - b0) <= 2 * Z.of_N (coef a * coef b) * 10 ^ (e - b0).
Proof. exact dmul_none_iff_overflow. Qed.
Theorem C02_add_null_iff_overflow : forall a b, let e := emin2 a b in let b0 := Z.min e ETINY in
  dadd a b = None <-> (2 * 10 ^ 34 - 1) * 10 ^ (ETOP - b0) <= 2 * Z.abs (scaled a e + scaled b e) * 10 ^ (e - b0).
Proof. exact dadd_none_iff_overflow. Qed.

Example C02_overflow_nonvacuous :
  round34 false 9999999999999999999999999999999999 6111 = Some (mkdec false 9999999999999999999999999999999999 6111) /\
  round34 false 99999999999999999999999999999999994 6110 = Some (mkdec false 9999999999999999999999999999999999 6111) /\
  round34 false 99999999999999999999999999999999995 6110 = None /\
  round34 false 1 6144 = Some (mkdec false 1000000000000000000000000000000000 6111) /\
  round34 false 1 6145 = None /\
  dmul (mkdec false 1 6144) (mkdec false 10 0) = None /\
  dadd (mkdec false 9999999999999999999999999999999999 6111) (mkdec false 5 6110) = None /\
  dadd (mkdec false 9999999999999999999999999999999999 6111) (mkdec false 4 6110) = Some (mkdec false 9999999999999999999999999999999999 6111).
Proof. exact overflow_examples. Qed.

Example C02_format_nonvacuous :
  f_floor (mkdec true 5 (-1)) = Some (mkdec true 1 0) /\
  f_ceiling (mkdec true 5 (-1)) = Some (mkdec false 0 0) /\
  f_decimal (mkdec false 9999999999999999999999999999999999 0) (-1) = Some (mkdec false 1000000000000000000000000000000000 1) /\
  f_decimal (mkdec false 1 20) 20 = Some (mkdec false 1 20) /\
  f_decimal (mkdec false 1 0) 6176 = None /\
  f_mul (mkdec false 1000000000000000000000000000000000 6111) (mkdec false 1 0) = Some (mkdec false 1000000000000000000000000000000000 6111) /\
  f_neg (mkdec true 0 (-6176)) = Some (mkdec false 0 (-6176)) /\
  f_neg (mkdec false 9999999999999999999999999999999999 6111) = Some (mkdec true 9999999999999999999999999999999999 6111) /\
  f_div (mkdec false 1 (-6176)) (mkdec false 2 0) = Some (mkdec false 0 0) /\
  f_pow_nat (mkdec false 1 3072) 2 = Some (mkdec false 1000000000000000000000000000000000 6111) /\
  f_pow_nat (mkdec false 10 3072) 2 = None /\
  f_pow_nat (mkdec true 3 0) 72 = Some (mkdec false 2252839954493917441184014787477264 1) /\
  in_format (mkdec false 9999999999999999999999999999999999 6111) = true /\
  in_format (mkdec true 0 (-6176)) = true /\
  in_format (mkdec false 10000000000000000000000000000000000 0) = false /\
  in_format (mkdec false 1 6112) = false.
Proof. exact format_examples. Qed.

(* ------------------------------------------------------------------ division is correctly rounded *)
(* HEADLINE for division: for EVERY pair of finite decimals with non-zero coefficients (any coefficient size, any exponent) a result r of
   ddiv is a decimal128 datum with the sign (sign a xor sign b) whose value is c * 10^q, where c * 10^q is a nearest multiple of 10^q to the
   exact rational quotient |a| / |b|, half-way cases going to an even c.  Integers only: at every common scale 10^B (B <= expo a,
   B <= q + expo b), with X = |a| / 10^B and Y = |b| * 10^q / 10^B the inequality |c * 10^q - |a|/|b|| <= 10^q / 2 reads
   2 * |c * Y - X| <= Y.  c has at most 34 digits (c <= 10^34) and the quantum is the 34-digit one (10^33 <= c) unless q is the smallest
   exponent -6176 (subnormal results).  This links C02_div_sticky and C02_div_drops_at_least_3 to the actual ddiv. *)
Theorem C02_div_correctly_rounded : forall a b r, (0 < coef a)%N -> (0 < coef b)%N -> ddiv a b = Some r ->
  exists (c : N) (q : Z),
    in_format r = true /\ neg r = xorb (neg a) (neg b) /\ veq r (mkdec (xorb (neg a) (neg b)) c q) /\
    (c <= 10 ^ 34)%N /\ ETINY <= q /\ (ETINY < q -> (10 ^ 33 <= c)%N) /\
    forall B, B <= expo a -> B <= q + expo b ->
      let X := Z.of_N (coef a) * 10 ^ (expo a - B) in
      let Y := Z.of_N (coef b) * 10 ^ (q + expo b - B) in
      2 * Z.abs (Z.of_N c * Y - X) <= Y /\ (2 * Z.abs (Z.of_N c * Y - X) = Y -> N.even c = true).
Proof. exact ddiv_correctly_rounded. Qed.

(* a zero dividend gives an exact zero (exponent clamped into the range); a zero divisor gives null (C02_div_by_zero_null) *)
Theorem C02_div_zero_dividend : forall a b, coef a = 0%N -> coef b <> 0%N ->
  ddiv a b = Some (mkdec (xorb (neg a) (neg b)) 0 (clamp_exp (expo a - expo b))).
Proof. exact ddiv_zero_dividend. Qed.

(* 1/3, 2/3, -2/3, two exact ties (35-digit quotients ending in 5: one goes up to the even neighbour, one down), an exact quotient,
   overflow -> null, a tie on the subnormal grid going to zero and one going up, gradual underflow of 1E-6143 / 3; the bound for 2/3 is
   strict, the first tie meets it with an even coefficient *)
Example C02_div_nonvacuous :
  ddiv (mkdec false 1 0) (mkdec false 3 0) = Some (mkdec false 3333333333333333333333333333333333 (-34)) /\
  ddiv (mkdec false 2 0) (mkdec false 3 0) = Some (mkdec false 6666666666666666666666666666666667 (-34)) /\
  ddiv (mkdec true 2 0) (mkdec false 3 0) = Some (mkdec true 6666666666666666666666666666666667 (-34)) /\
  ddiv (mkdec false 9999999999999999999999999999999999 0) (mkdec false 2 0) = Some (mkdec false 5000000000000000000000000000000000 0) /\
  ddiv (mkdec false 9999999999999999999999999999999997 0) (mkdec false 2 0) = Some (mkdec false 4999999999999999999999999999999998 0) /\
  f_div (mkdec false 1 0) (mkdec false 8 0) = Some (mkdec false 125 (-3)) /\
  ddiv (mkdec false 1 6111) (mkdec false 1 (-100)) = None /\
  ddiv (mkdec false 1 (-6176)) (mkdec false 2 0) = Some (mkdec false 0 (-6176)) /\
  ddiv (mkdec false 3 (-6176)) (mkdec false 2 0) = Some (mkdec false 2 (-6176)) /\
  ddiv (mkdec false 1 (-6143)) (mkdec false 3 0) = Some (mkdec false 333333333333333333333333333333333 (-6176)) /\
  div_nearest_even_at (mkdec false 2 0) (mkdec false 3 0) 6666666666666666666666666666666667 (-34) (-34) /\
  2 * Z.abs (6666666666666666666666666666666667 * 3 - 2 * 10 ^ 34) < 3 /\
  2 * Z.abs (5000000000000000000000000000000000 * (2 * 10) - 9999999999999999999999999999999999 * 10) = 2 * 10.
Proof. exact div_examples. Qed.

Print Assumptions C02_round34_nearest_even.
Print Assumptions C02_round_half_even.
Print Assumptions C02_round_exact.
Print Assumptions C02_round34_in_format.
Print Assumptions C02_div_sticky.
Print Assumptions C02_div_drops_at_least_3.
Print Assumptions C02_sqrt_sticky.
Print Assumptions C02_sqrt_root_digits.
Print Assumptions C02_sqrt_drops_at_least_3.
Print Assumptions C02_sqrt_correctly_rounded.
Print Assumptions C02_sqrt_defined.
Print Assumptions C02_sqrt_nonvacuous.
Print Assumptions C02_add_exact_then_round.
Print Assumptions C02_mul_exact_then_round.
Print Assumptions C02_add_exact.
Print Assumptions C02_mul_exact.
Print Assumptions C02_trailing_zeros_equal.
Print Assumptions C02_cmp_eq_iff_value.
Print Assumptions C02_cmp_antisym.
Print Assumptions C02_value_eq_trans.
Print Assumptions C02_cmp_lt_trans.
Print Assumptions C02_reduce_value.
Print Assumptions C02_floor_spec.
Print Assumptions C02_ceiling_spec.
Print Assumptions C02_mod_exact_remainder.
Print Assumptions C02_div_by_zero_null.
Print Assumptions C02_sqrt_negative_null.
Print Assumptions C02_mod_steps_refuted.
Print Assumptions C02_nonvacuous.
Print Assumptions C02_results_in_format.
Print Assumptions C02_rounded_results_in_format.
Print Assumptions C02_reduce_in_format.
Print Assumptions C02_decimal_in_format.
Print Assumptions C02_null_iff_overflow.
Print Assumptions C02_defined_iff_in_range.
Print Assumptions C02_mul_null_iff_overflow.
Print Assumptions C02_add_null_iff_overflow.
Print Assumptions C02_overflow_nonvacuous.
Print Assumptions C02_format_nonvacuous.
Print Assumptions C02_div_correctly_rounded.
Print Assumptions C02_div_zero_dividend.
Print Assumptions C02_div_nonvacuous.
