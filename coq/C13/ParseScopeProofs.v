(* C13 — a successful parse leaves the parsing scope as it found it, for every expression of the fragment. *)
From Coq Require Import List ZArith NArith Bool.
From DV Require Import C01.Syntax C13.ParseScope.
Import ListNotations.

Lemma pexec_app a b S : pexec (a ++ b) S = pexec b (pexec a S).
Proof. unfold pexec. apply fold_left_app. Qed.

Lemma pexec_flat_map {A} (g : A -> list pact) l S : (forall a S', pexec (g a) S' = S') -> pexec (flat_map g l) S = S.
Proof. intros H. induction l as [|a l IH]; cbn [flat_map]; [reflexivity|]. rewrite pexec_app, H. exact IH. Qed.

(* entries / variables add names to the context on top, which is the one pushed by the construct itself *)
Lemma pexec_adds {A} (g : A -> list pact) (k : A -> N) l : (forall a S', pexec (g a) S' = S') ->
  forall c S, exists c', pexec (flat_map (fun a => PAdd (k a) :: g a) l) (c :: S) = c' :: S.
Proof. intros H. induction l as [|a l IH]; intros c S; cbn [flat_map]; [exists c; reflexivity|].
  rewrite pexec_app. change (pexec (PAdd (k a) :: g a) (c :: S)) with (pexec (g a) ((k a :: c) :: S)). rewrite H. apply IH. Qed.

Lemma pexec_entries {A} (g : A -> list pact) (k : A -> N) l : (forall a S', pexec (g a) S' = S') ->
  forall c S, exists c', pexec (flat_map (fun a => g a ++ [PAdd (k a)]) l) (c :: S) = c' :: S.
Proof. intros H. induction l as [|a l IH]; intros c S; cbn [flat_map]; [exists c; reflexivity|].
  rewrite <- app_assoc, pexec_app, H, pexec_app. change (pexec [PAdd (k a)] (c :: S)) with ((k a :: c) :: S). apply IH. Qed.

Lemma pexec_names ps : forall c S, exists c', pexec (map PAdd ps) (c :: S) = c' :: S.
Proof. induction ps as [|p ps IH]; intros c S; cbn [map]; [exists c; reflexivity|].
  change (pexec (PAdd p :: map PAdd ps) (c :: S)) with (pexec (map PAdd ps) ((p :: c) :: S)). apply IH. Qed.

Theorem parse_scope_balanced : forall f e S, pexec (pacts f e) S = S.
Proof.
  induction f as [|f IH]; intros e S; [reflexivity|].
  destruct e; cbn [pacts]; rewrite ?pexec_app, ?IH; try reflexivity.
  - (* EIn *) apply pexec_flat_map. intros t S'. destruct t; rewrite ?pexec_app, ?IH; reflexivity.
  - (* EList *) apply pexec_flat_map. intros a S'. apply IH.
  - (* ECtx *) change (PPush :: ?x) with ([PPush] ++ x). cbn.
    change (fold_left pstep ?l ?s) with (pexec l s). rewrite pexec_app.
    destruct (pexec_entries (fun ke : N * expr => pacts f (snd ke)) fst es (fun a S' => IH (snd a) S') [] S) as [c' Hc].
    rewrite Hc. reflexivity.
  - (* EFor *) cbn. change (fold_left pstep ?l ?s) with (pexec l s). rewrite !pexec_app.
    destruct (pexec_adds (fun nd : N * dom => match snd nd with DList x => pacts f x | DRange lo hi => pacts f lo ++ pacts f hi end) fst ds) with (c := [n_partial]) (S := S) as [c' Hc].
    { intros [x d] S'. cbn [snd]. destruct d; rewrite ?pexec_app, ?IH; reflexivity. }
    rewrite Hc, IH. reflexivity.
  - (* ESome *) cbn. change (fold_left pstep ?l ?s) with (pexec l s). rewrite !pexec_app.
    destruct (pexec_adds (fun nd : N * expr => pacts f (snd nd)) fst ds (fun a S' => IH (snd a) S') [] S) as [c' Hc].
    rewrite Hc, IH. reflexivity.
  - (* EEvery *) cbn. change (fold_left pstep ?l ?s) with (pexec l s). rewrite !pexec_app.
    destruct (pexec_adds (fun nd : N * expr => pacts f (snd nd)) fst ds (fun a S' => IH (snd a) S') [] S) as [c' Hc].
    rewrite Hc, IH. reflexivity.
  - (* EFun *) cbn. change (fold_left pstep ?l ?s) with (pexec l s). rewrite !pexec_app.
    destruct (pexec_names (map fst ps) [] S) as [c' Hc]. rewrite Hc, IH. reflexivity.
  - (* ECall *) apply pexec_flat_map. intros a S'. apply IH.
  - (* ECallN *) apply pexec_flat_map. intros a S'. apply IH.
Qed.
