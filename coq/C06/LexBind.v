(* C06 — the lexer model with the flag policy for the binders: `for` / `some` / `every` (the till_in flag for the variable name,
   also after the comma that separates two iteration contexts / quantified contexts) and `function ( name [: type] , .. )` (the
   type_name flag after the colon of a formal parameter).  Owner: prover-C06-binders.  No proofs here.

   The flags are set by mid-rule actions of feel.y, i.e. by the parser's state.  C06.Lexer.policy decides from the last token
   alone (between after BETWEEN, type_name after OF, till_in after FOR / SOME / EVERY).  The two places that need more are
     iteration_context COMMA . iteration_contexts        (till_in:   `for a in b , c in d return ..`, not `for a in [ b , c ] ..`)
     NAME COLON . type   in formal_parameter              (type_name: `function ( a : number ) ..`,   not `{ a : number }`)
   Here the lexer carries a small pushdown `tstate` over the tokens it has delivered: the brackets that are open, the headers
   (for / some / every up to return / satisfies) that are open and the parameter list of a function definition.  A comma sets
   till_in when the innermost open thing is a header, a colon sets type_name when it is a parameter list.
   Ranges with reversed or mixed brackets (`] a .. b ]`, `( a .. b [`) do not nest like brackets: the pushdown recognises the
   five tokens  opener atom `..` atom closer  (`rq`, the phases of that recognition: the same look-ahead the Spec parser
   C06.ModelExt.range_head uses, spread over the tokens), a `]` is settled as closing or opening by the two tokens after it.
   That this policy is the one the real parser applies is what the correspondence checks (props/c06bind.py: the token stream and
   the flag-setting actions of the real parser, from its own trace, against lex_b_trace). *)
From Coq Require Import List NArith Bool Arith.
From DV Require Import C06.Model C06.Lexer.
Import ListNotations.

(* ------------------------------------------------------------------ the pushdown *)

Inductive frame := FHdr | FBrk | FPar.

(* phases of the range recognition: idle; after an opening ( or [; after that and an atom; a ] that is not settled yet; that and an
   atom; inside a range after `..`; after the second endpoint *)
Inductive rq := QIdle | QOp1 | QOp2 | QRb1 | QRb2 | QRg2 | QRg1.

(* what the pushdown distinguishes in a token *)
Inductive tclass := CAtom | CEll | CLp | CLb | CLc | CRp | CRb | CRc | CHdr | CEnd | CComma | CColon | CFun | COther.

Record tstate := { t_stk : list frame; t_q : rq; t_pf : bool; t_wb : bool; t_wt : bool }.
(* t_pf: the last token was `function`; t_wb: the next token is the variable of an iteration / quantified context (till_in);
   t_wt: the next token is the type of a formal parameter (type_name) *)

Definition tstate0 : tstate := {| t_stk := []; t_q := QIdle; t_pf := false; t_wb := false; t_wt := false |}.

Definition lclass (t : ltoken) : tclass :=
  match t with
  | LBool _ | LNull | LNum _ _ | LStr _ | LName _ => CAtom
  | LSym SEllipsis => CEll
  | LSym SLp => CLp | LSym SLb => CLb | LSym SLbrace => CLc
  | LSym SRp => CRp | LSym SRb => CRb | LSym SRbrace => CRc
  | LSym SComma => CComma | LSym SColon => CColon
  | LKw KFor | LKw KSome | LKw KEvery => CHdr
  | LKw KReturn | LKw KSatisfies => CEnd
  | LKw KFunction => CFun
  | _ => COther
  end.

(* a pending `]` is settled by the token that follows it (an atom keeps it pending) and by the one after that (`..`: it opens a range) *)
Definition settle (stk : list frame) (q : rq) (c : tclass) : list frame * rq :=
  match q, c with
  | QRb1, CAtom => (stk, QRb1)
  | QRb1, _ => (tl stk, QIdle)
  | QRb2, CEll => (stk, QRb2)
  | QRb2, _ => (tl stk, QIdle)
  | _, _ => (stk, q)
  end.

Definition normal (pf : bool) (stk : list frame) (c : tclass) : list frame * rq :=
  match c with
  | CLp => ((if pf then FPar else FBrk) :: stk, QOp1)
  | CLb => (FBrk :: stk, QOp1)
  | CLc => (FBrk :: stk, QIdle)
  | CRp | CRc => (tl stk, QIdle)
  | CRb => (stk, QRb1)
  | CHdr => (FHdr :: stk, QIdle)
  | CEnd => (tl stk, QIdle)
  | _ => (stk, QIdle)
  end.

Definition is_hdr (stk : list frame) : bool := match stk with FHdr :: _ => true | _ => false end.
Definition is_par (stk : list frame) : bool := match stk with FPar :: _ => true | _ => false end.

Definition cstep (st : tstate) (c : tclass) : tstate :=
  let '(stk1, q1) := settle (t_stk st) (t_q st) c in
  let '(stk2, q2) :=
    match q1, c with
    | QRb1, CAtom => (stk1, QRb2)
    | QRb2, CEll => (FBrk :: stk1, QRg2)
    | QOp1, CAtom => (stk1, QOp2)
    | QOp2, CEll => (stk1, QRg2)
    | QRg2, _ => (stk1, QRg1)
    | QRg1, _ => (tl stk1, QIdle)
    | _, _ => normal (t_pf st) stk1 c
    end in
  {| t_stk := stk2; t_q := q2;
     t_pf := match c with CFun => true | _ => false end;
     t_wb := match c with CHdr => true | CComma => is_hdr stk2 | _ => false end;
     t_wt := match c with CColon => is_par stk2 | _ => false end |}.

Definition lstep (st : tstate) (t : ltoken) : tstate := cstep st (lclass t).

(* ------------------------------------------------------------------ the policy and the token stream *)

(* the flags the parser sets after the token t (st' = the pushdown after t): 2 between, 4 type name, 8 till in *)
Definition policy_bits (st' : tstate) (t : ltoken) : N :=
  ((match t with LKw KBetween => 2 | _ => 0 end) +
   (if (match t with LKw KOf => true | _ => false end) || t_wt st' then 4 else 0) +
   (if t_wb st' then 8 else 0))%N.

Definition policy_b (st' : tstate) (t : ltoken) (fl : flags) : flags :=
  {| f_unary := f_unary fl;
     f_between := f_between fl || match t with LKw KBetween => true | _ => false end;
     f_type := f_type fl || (match t with LKw KOf => true | _ => false end) || t_wt st';
     f_tillin := f_tillin fl || t_wb st' |}.

Fixpoint lex_go_b (fuel : nat) (keys : list str) (st : tstate) (fl : flags) (cs : str) : option (list ltoken) :=
  match fuel with
  | O => None
  | S f =>
    match next_token keys fl cs with
    | RTok t fl' rest =>
      let st' := lstep st t in
      match lex_go_b f keys st' (policy_b st' t fl') rest with Some ts => Some (t :: ts) | None => None end
    | REof => Some []
    | RUndef | RErr => None
    end
  end.

Definition lex_b (keys : list str) (cs : str) : option (list ltoken) := lex_go_b (S (length cs)) keys tstate0 flags0 cs.

(* the stream with the flags the policy sets before every token (what the parser's trace shows: the tokens it reads and the
   flag-setting actions it runs in between); the last item tells how the stream ends *)
Fixpoint lex_trace_b (fuel : nat) (keys : list str) (st : tstate) (fl : flags) (bits : N) (cs : str) : list titem :=
  match fuel with
  | O => []
  | S f =>
    match next_token keys fl cs with
    | RTok t fl' rest =>
      let st' := lstep st t in
      ITok t 0 bits :: lex_trace_b f keys st' (policy_b st' t fl') (policy_bits st' t) rest
    | REof => [IEof]
    | RUndef => [IUndef]
    | RErr => [IErr]
    end
  end.

Definition trace_b (keys : list str) (cs : str) : list titem := lex_trace_b (S (length cs)) keys tstate0 flags0 0%N cs.

(* ------------------------------------------------------------------ the printable token lists *)

(* r: the tokens that follow.  While till_in is set the token is the variable of an iteration / quantified context: a single word
   that is no keyword, followed by `in`; it need not be a scope key (`item` included since the repair of the item branch of
   consume_name, which returned `item` before it looked at till_in and left the flag set).  `function` is a keyword only in front of `(` *)
Definition tok_ok_b (keys : list str) (fl : flags) (t : ltoken) (r : list ltoken) : bool :=
  if f_tillin fl then
    match t with
    | LName n => word_ok n && match r with LKw KIn :: _ => true | _ => false end
    | _ => false
    end
  else
    match t with
    | LKw KFor | LKw KSome | LKw KEvery => true
    | LKw KFunction => match r with LSym SLp :: _ => true | _ => false end
    | _ => tok_ok keys fl t
    end.

(* what next_token leaves in the flags *)
Definition after_b (fl0 : flags) (t : ltoken) : flags :=
  let fl := clr_unary fl0 in
  match t with
  | LKw KBetweenAnd => set_between false fl
  | LType _ => set_type false fl
  | LName _ => if f_tillin fl0 then set_tillin false fl else fl
  | _ => fl
  end.

Fixpoint printable_b (keys : list str) (st : tstate) (fl : flags) (ts : list ltoken) : bool :=
  match ts with
  | [] => true
  | t :: r => tok_ok_b keys fl t r && let st' := lstep st t in printable_b keys st' (policy_b st' t (after_b fl t)) r
  end.

(* layouts: after `function` (look-ahead to the parenthesis: white space only) and after the variable of an iteration context (the
   word `in` has to be the next name part: white space only; no white space character is a name character) the gap
   consists of white space; anywhere else it is any layout of the grammar of C06.Model *)
Definition ws_piece (p : piece) : bool :=
  match p with PWs c => is_ws c && negb (NM.is_name_part c) | _ => false end.

Definition tight_after (fl : flags) (t : ltoken) : bool :=
  match t with LKw KFunction => true | LName _ => f_tillin fl | _ => false end.

Fixpoint gaps_ok_b (st : tstate) (fl : flags) (ts : list ltoken) (gaps : list (list piece)) : bool :=
  match ts with
  | [] => true
  | t :: r =>
    (if tight_after fl t then forallb ws_piece (hd [] gaps) else true) &&
    let st' := lstep st t in gaps_ok_b st' (policy_b st' t (after_b fl t)) r (tl gaps)
  end.

(* ------------------------------------------------------------------ the stream with consume_name as it was before the repair of its `item` branch
   (Lexer.name_token_orig: `item` is returned with till_in left set): scan, next_token, lex_go_b, lex_b over it *)

Definition scan_orig (keys : list str) (fl0 : flags) (cs : str) : lres :=
  let fl := clr_unary fl0 in
  match cs with
  | [] => REof
  | c :: r =>
    match kw_scan kwtable (f_unary fl0) cs with
    | Some (o, r') => kw_result o fl r'
    | None =>
      match sym2 cs with
      | Some (s, r') => RTok (LSym s) fl r'
      | None =>
        if (c =? 46)%N && match r with d :: _ => NM.is_digit d | [] => false end
        then let '(a, r') := digits r in RTok (LNum [48%N] a) fl r'
        else match sym1 c with
             | Some s => RTok (LSym s) fl r
             | None =>
               if (c =? 34)%N then string_token fl r
               else if NM.is_digit c then let '(t, r') := numeric cs in RTok t fl r'
               else if NM.is_name_start c then name_token_orig keys fl cs
               else RUndef
             end
      end
    end
  end.

Definition next_token_orig (keys : list str) (fl : flags) (cs : str) : lres := scan_orig keys fl (skip_layout (length cs) cs).

Fixpoint lex_go_b_orig (fuel : nat) (keys : list str) (st : tstate) (fl : flags) (cs : str) : option (list ltoken) :=
  match fuel with
  | O => None
  | S f =>
    match next_token_orig keys fl cs with
    | RTok t fl' rest =>
      let st' := lstep st t in
      match lex_go_b_orig f keys st' (policy_b st' t fl') rest with Some ts => Some (t :: ts) | None => None end
    | REof => Some []
    | RUndef | RErr => None
    end
  end.

Definition lex_b_orig (keys : list str) (cs : str) : option (list ltoken) := lex_go_b_orig (S (length cs)) keys tstate0 flags0 cs.
