(* C15 — property theorems only.  Proofs are in Base/CalendarProofs.v and C15/Proofs.v. *)
From Coq Require Import ZArith Bool List.
From DV Require Import Base.Calendar Base.CalendarProofs C15.Model C15.Proofs C15.Chrono C15.ChronoProofs.
Import ListNotations.
Open Scope Z_scope.

(* --- the calendar, for every year --- *)
Theorem C15_civil_roundtrip : forall y m d, valid y m d = true ->
  civil_from_days (days_from_civil y m d) = (y, m, d).
Proof. exact civil_roundtrip. Qed.

Theorem C15_days_roundtrip : forall z,
  valid3 (civil_from_days z) = true /\ days3 (civil_from_days z) = z.
Proof. exact civil_from_days_correct. Qed.

Theorem C15_days_monotone : forall a b, valid3 a = true -> valid3 b = true ->
  cmp3 a b = (days3 a ?= days3 b).
Proof. exact days_monotone. Qed.

Theorem C15_valid_iff : forall y m d,
  valid y m d = true <-> (1 <= m <= 12 /\ 1 <= d <= last_day y m).
Proof. exact valid_iff. Qed.

Theorem C15_leap_iff : forall y, leap y = true <-> (y mod 4 = 0 /\ (y mod 100 <> 0 \/ y mod 400 = 0)).
Proof. exact leap_iff. Qed.

Theorem C15_year_length : forall y,
  days_from_civil (y + 1) 1 1 = days_from_civil y 1 1 + (if leap y then 366 else 365) /\
  days_from_civil (y + 1) 1 1 = days_from_civil y 12 31 + 1.
Proof. exact year_length. Qed.

Theorem C15_next_day_next_month : forall y m, 1 <= m <= 11 ->
  days_from_civil y (m + 1) 1 = days_from_civil y m (last_day y m) + 1.
Proof. exact next_day_next_month. Qed.

Theorem C15_weekday_spec : forall z,
  1 <= weekday_of_days z <= 7 /\ weekday_of_days (z + 1) = weekday_of_days z mod 7 + 1 /\
  weekday 1970 1 1 = 4.
Proof. exact weekday_spec_all. Qed.

(* --- validity as implemented (after the day-0 fix) --- *)
Theorem C15_is_valid_date : forall y m d, is_valid_date y m d = feel_date y m d.
Proof. exact is_valid_date_spec. Qed.

Theorem C15_is_valid_date_orig_refuted : is_valid_date_orig 2021 1 0 = true /\ valid 2021 1 0 = false.
Proof. exact is_valid_date_orig_refuted. Qed.

(* --- date from numbers (after the range fix): exactly the rounded components when they form a date, else nothing --- *)
Theorem C15_date_from_numbers : forall y m d, date_from_numbers y m d = date_from_numbers_spec y m d.
Proof. exact date_from_numbers_correct. Qed.

Theorem C15_date_from_numbers_rejects : forall y m d yy mm dd,
  date_from_numbers y m d = Some (yy, mm, dd) ->
  yy = round_he10 y /\ mm = round_he10 m /\ dd = round_he10 d /\
  -999999999 <= yy <= 999999999 /\ 1 <= mm <= 12 /\ 1 <= dd <= last_day yy mm.
Proof. exact date_from_numbers_rejects. Qed.

Theorem C15_date_from_numbers_orig_refuted :
  date_from_numbers_orig 20210 2570 10 = Some (2021, 1, 1) /\ date_from_numbers_spec 20210 2570 10 = None /\
  date_from_numbers_orig 999999999990 20 30 = Some (0, 2, 3) /\ date_from_numbers_spec 999999999990 20 30 = None.
Proof. exact date_from_numbers_orig_refuted. Qed.

(* --- ordering of dates (after the fix: triples compared) = order of UTC-midnight instants, every year --- *)
Theorem C15_date_order : forall a b, valid3 a = true -> valid3 b = true ->
  date_partial_cmp a b = Some (days3 a ?= days3 b).
Proof. exact date_order_is_day_order. Qed.

Theorem C15_date_order_total : forall a b,
  lt_of (date_partial_cmp a b) = negb (ge_of (date_partial_cmp a b)) /\
  le_of (date_partial_cmp a b) = negb (gt_of (date_partial_cmp a b)) /\
  lt_of (date_partial_cmp a b) = gt_of (date_partial_cmp b a).
Proof. exact date_order_total. Qed.

Theorem C15_date_order_orig_refuted :
  let a := (999999999, 1, 1) in let b := (999999999, 1, 2) in
  feel_date 999999999 1 1 = true /\ feel_date 999999999 1 2 = true /\ cmp3 a b = Lt /\
  lt_of (date_partial_cmp_orig a b) = false /\ gt_of (date_partial_cmp_orig b a) = false.
Proof. exact date_partial_cmp_orig_refuted. Qed.

(* --- weekday (after the fix: the day number is computed by the code itself): the calendar's weekday for every year;
   the original went through chrono and answered null outside its year range --- *)
Theorem C15_weekday : forall a, valid3 a = true -> weekday_impl a = weekday_spec a.
Proof. exact weekday_impl_correct. Qed.

Theorem C15_weekday_in_range : forall a, chrono_date3 a = true -> weekday_orig a = weekday_spec a.
Proof. exact weekday_orig_in_range. Qed.

Theorem C15_weekday_far_refuted : feel_date 999999999 1 1 = true /\ weekday_orig (999999999, 1, 1) = None.
Proof. exact weekday_orig_refuted. Qed.

(* --- whole months between two dates (after the fix) --- *)
Theorem C15_ym_duration : forall from to, ym_duration to from = months_between from to.
Proof. exact ym_duration_correct. Qed.

Theorem C15_months_between_spec : forall a b, valid3 a = true -> valid3 b = true -> cmp3 a b <> Gt ->
  let k := months_between a b in
  0 <= k /\
  md_le (month_index a + k) (day_of a) (month_index b) (day_of b) /\
  md_lt (month_index b) (day_of b) (month_index a + k + 1) (day_of a) /\
  (forall k', md_le (month_index a + k') (day_of a) (month_index b) (day_of b) ->
              md_lt (month_index b) (day_of b) (month_index a + k' + 1) (day_of a) -> k' = k).
Proof. exact months_between_spec. Qed.

Theorem C15_months_between_antisym : forall a b, months_between b a = - months_between a b.
Proof. exact months_between_antisym. Qed.

Theorem C15_ym_duration_orig_refuted :
  ym_duration_orig d_2020_01_31 d_2020_03_01 = -2 /\ months_between d_2020_03_01 d_2020_01_31 = -1 /\
  ym_duration_orig (2020, 3, 1) (2020, 3, 15) = -1 /\ months_between (2020, 3, 15) (2020, 3, 1) = 0.
Proof. exact ym_duration_orig_refuted. Qed.

(* --- date-times on the UTC time line --- *)
Theorem C15_instant_sub_exact : forall a b,
  dt_subtract_spec a b =
  (days3 (dt_date a) - days3 (dt_date b)) * DAY_NS + (tod_ns a - tod_ns b) - (dt_off a - dt_off b) * NS.
Proof. exact instant_sub_exact. Qed.

Theorem C15_instant_order_same_offset : forall a b, valid3 (dt_date a) = true -> valid3 (dt_date b) = true ->
  valid_tod a = true -> valid_tod b = true -> dt_off a = dt_off b ->
  (instant a ?= instant b) =
  match cmp3 (dt_date a) (dt_date b) with Eq => tod_ns a ?= tod_ns b | c => c end.
Proof. exact instant_order_same_offset. Qed.

Theorem C15_instant_offset_shift : forall dte h mi s ns off k,
  instant {| dt_date := dte; dt_h := h; dt_mi := mi; dt_s := s; dt_ns := ns; dt_off := off + k |} =
  instant {| dt_date := dte; dt_h := h; dt_mi := mi; dt_s := s; dt_ns := ns; dt_off := off |} - k * NS.
Proof. exact instant_offset_shift. Qed.

(* inside chrono's range (known findings far-datetime, dt-sub-range outside) the code compares and subtracts instants *)
Theorem C15_dt_compare_subtract : forall a b, chrono_dt a = true -> chrono_dt b = true ->
  dt_compare_impl a b = Some (instant a ?= instant b) /\
  (fits_i64 (dt_subtract_spec a b) = true -> dt_subtract_impl a b = Some (dt_subtract_spec a b)) /\
  (forall n, dt_subtract_impl a b = Some n -> n = dt_subtract_spec a b).
Proof. exact dt_compare_subtract. Qed.

Theorem C15_dt_subtract_range_refuted :
  let a := {| dt_date := (2400, 1, 1); dt_h := 0; dt_mi := 0; dt_s := 0; dt_ns := 0; dt_off := 0 |} in
  let b := {| dt_date := (2000, 1, 1); dt_h := 0; dt_mi := 0; dt_s := 0; dt_ns := 0; dt_off := 0 |} in
  chrono_dt a = true /\ chrono_dt b = true /\ dt_subtract_impl a b = None /\ dt_subtract_spec a b = 146097 * DAY_NS.
Proof. exact dt_subtract_impl_refuted. Qed.

(* --- durations: components recombine to the total length --- *)
Theorem C15_dtd_components : forall n,
  dtd_days n * DAY_NS + dtd_hours n * HOUR_NS + dtd_minutes n * MIN_NS + dtd_seconds n * NS + dtd_subsec n = Z.abs n /\
  0 <= dtd_days n /\ 0 <= dtd_hours n < 24 /\ 0 <= dtd_minutes n < 60 /\ 0 <= dtd_seconds n < 60 /\ 0 <= dtd_subsec n < NS.
Proof. exact dtd_components. Qed.

Theorem C15_ymd_components : forall n,
  12 * ymd_years n + ymd_months n = n /\ -12 < ymd_months n < 12 /\
  (0 <= n -> 0 <= ymd_years n /\ 0 <= ymd_months n) /\ (n <= 0 -> ymd_years n <= 0 /\ ymd_months n <= 0).
Proof. exact ymd_components. Qed.

Example C15_nonvacuous :
  civil_from_days (days_from_civil 2024 2 29) = (2024, 2, 29) /\ weekday 2024 2 29 = 4 /\
  days_from_civil (-1) 12 31 + 1 = days_from_civil 0 1 1 /\
  date_from_numbers 20240 20 290 = Some (2024, 2, 29) /\ date_from_numbers 20230 20 290 = None /\
  months_between (2020, 1, 31) (2020, 3, 1) = 1 /\ ym_duration (2020, 1, 31) (2020, 3, 1) = -1 /\
  dtd_days (-129600000000000) = 1 /\ dtd_hours (-129600000000000) = 12 /\ ymd_years (-14) = -1 /\ ymd_months (-14) = -2.
Proof. exact model_nonvacuous. Qed.


(* ====================================================================================================================
   Second layer (C15/Chrono.v, C15/ChronoProofs.v; after the audit: "dt_compare_impl is the Spec under a guard, validity
   and order are definitional").  The Spec is restated WITHOUT the arithmetic it is compared with, and the code is
   modelled in its own formulation.
   ==================================================================================================================== *)

(* (a) day numbers <-> civil dates: inverse on ALL valid dates and ALL day numbers, strictly monotone, successor-preserving *)
Theorem C15_civil_bijection :
  (forall a, valid3 a = true -> civil_from_days (days3 a) = a) /\
  (forall z, valid3 (civil_from_days z) = true /\ days3 (civil_from_days z) = z) /\
  (forall a b, valid3 a = true -> valid3 b = true ->
     (cmp3 a b = Lt <-> days3 a < days3 b) /\ (cmp3 a b = Gt <-> days3 a > days3 b) /\ (a = b <-> days3 a = days3 b)) /\
  (forall z, civil_from_days (z + 1) = next_date (civil_from_days z)).
Proof. exact civil_bijection. Qed.

(* the day number is pinned by the successor of a date (next day of the month, else first of the next month, else 1 January)
   and one anchor: days_from_civil satisfies the recurrence, and ANY function that does is days_from_civil on valid dates.
   So the closed formula of Base/Calendar.v (before_year, before_month) carries no freedom. *)
Theorem C15_day_number_recurrence :
  days3 epoch = 0 /\ forall a, valid3 a = true -> valid3 (next_date a) = true /\ days3 (next_date a) = days3 a + 1.
Proof. exact days_from_next. Qed.
Theorem C15_day_number_unique : forall f : date -> Z,
  f epoch = 0 -> (forall a, valid3 a = true -> f (next_date a) = f a + 1) ->
  forall a, valid3 a = true -> f a = days3 a.
Proof. exact day_number_unique. Qed.

(* (b) weekday: 1970-01-01 is a Thursday, from each date to the next the weekday advances Monday .. Sunday, Monday ..;
   any function with these two properties (and values 1..7) is the weekday; the code's weekday (FeelDate::weekday with its own
   March-based era arithmetic on i64, Rust `/` truncating) is that function on every valid date of every year.
   (weekday a = (days3 a + 3) mod 7 + 1 is the definition, Base/Calendar.v; C15_weekday_spec above has its recurrence on day numbers.) *)
Theorem C15_weekday_recurrence : weekday3 epoch = 4 /\
  forall a, valid3 a = true -> 1 <= weekday3 a <= 7 /\ weekday3 (next_date a) = weekday3 a mod 7 + 1.
Proof. exact (conj (proj1 weekday_epoch) weekday_next_date). Qed.
Theorem C15_weekday_unique : forall w : date -> Z,
  w epoch = 4 -> (forall a, valid3 a = true -> 1 <= w a <= 7) ->
  (forall a, valid3 a = true -> w (next_date a) = w a mod 7 + 1) ->
  forall a, valid3 a = true -> w a = weekday3 a.
Proof. exact weekday_unique. Qed.
Theorem C15_weekday_code : forall a, valid3 a = true -> weekday_impl a = Some (weekday3 a).
Proof. exact weekday_impl_is_calendar. Qed.

(* (c) validity: the Spec as a relation (table of month lengths, leap rule as the property states it: Leap y :=
   y mod 4 = 0 /\ (y mod 100 <> 0 \/ y mod 400 = 0)), and the code's formulation (Rust `%` truncates: Z.rem; match on the
   month with None otherwise; chrono conversion of the date at 00:00:00Z first, fallback for the far years) equal to it *)
Theorem C15_valid_date_spec : forall y m d,
  (valid y m d = true <-> ValidDate y m d) /\
  (is_leap_year_code y = true <-> Leap y) /\
  (forall n, last_day_of_month_code y m = Some n <-> MonthLength y m n) /\
  (is_valid_date_code y m d = true <-> (-999999999 <= y <= 999999999 /\ ValidDate y m d)) /\
  is_valid_date_code y m d = is_valid_date y m d.
Proof.
  exact (fun y m d => conj (valid_ValidDate y m d) (conj (is_leap_year_code_Leap y) (conj (fun n => last_day_of_month_code_MonthLength y m n)
         (conj (is_valid_date_code_spec y m d) (is_valid_date_code_eq y m d))))).
Qed.

(* (d) date-times.  Spec: dt_compare_spec a b = utc_ns a ?= utc_ns b, utc_ns = days * 86400 * 10^9 + local time of day - offset,
   NO guard.  Code: dt_compare_code / dt_subtract_code = the chrono 0.4.45 path (NaiveDate as year + ordinal, from_ymd_opt,
   overflowing_sub_offset, pred_opt / succ_opt with the range ends, lexicographic Ord, signed_duration_since through 400-year
   cycles and the YEAR_DELTAS table, TimeDelta::num_nanoseconds with checked i64 arithmetic).
   What the UTC conversion returns and exactly when it fails (chrono_dt of C15/Model.v is now a THEOREM about the code's path): *)
Theorem C15_chrono_utc_spec : forall x,
  match chrono_utc x with
  | Some u => ndt_ok u /\ ndt_val u = utc_ns x /\ chrono_dt x = true
  | None => chrono_dt x = false
  end.
Proof. exact chrono_utc_spec. Qed.
Theorem C15_chrono_dt_representable : forall x, chrono_dt x = true <-> chrono_representable x.
Proof. exact chrono_dt_representable. Qed.
(* the code answers exactly on pairs of values representable by chrono (local date in years -262143..262142, time of day and
   offset in range, UTC instant inside chrono's range) ... *)
Theorem C15_dt_compare_defined_iff : forall a b,
  dt_compare_code a b <> None <-> (chrono_representable a /\ chrono_representable b).
Proof. exact dt_compare_defined_iff. Qed.
(* ... and whenever it answers, with the order of the instants (no hypothesis) *)
Theorem C15_dt_compare_exact : forall a b c, dt_compare_code a b = Some c -> c = dt_compare_spec a b.
Proof. exact dt_compare_exact. Qed.
(* subtraction: the i64 nanosecond limit (known finding dt-sub-range) is the additional definedness condition; the value is exact *)
Theorem C15_dt_subtract_defined_iff : forall a b,
  dt_subtract_code a b <> None <->
  (chrono_representable a /\ chrono_representable b /\ - 2 ^ 63 <= utc_ns a - utc_ns b <= 2 ^ 63 - 1).
Proof. exact dt_subtract_defined_iff. Qed.
Theorem C15_dt_subtract_exact : forall a b n, dt_subtract_code a b = Some n -> n = utc_ns a - utc_ns b.
Proof. exact dt_subtract_exact. Qed.
(* the chrono path equals the model the correspondence check evaluates (C15/Model.v dt_compare_impl / dt_subtract_impl) *)
Theorem C15_chrono_path_is_model : forall a b,
  dt_compare_code a b = dt_compare_impl a b /\ dt_subtract_code a b = dt_subtract_impl a b.
Proof. exact (fun a b => conj (dt_compare_code_eq a b) (dt_subtract_code_eq a b)). Qed.

(* named zones: for EVERY zone-rule function (zone id, local date, local time of day -> offset, None for a skipped local time):
   an answer of the code is the order / difference of the instants the rule assigns, and the code answers iff the rule gives
   both offsets and the resolved values (and, for a named zone, the local date-time read at UTC: get_zone_offset) are representable *)
Theorem C15_zoned_compare_exact : forall zone_rule a b c, z_compare_code zone_rule a b = Some c ->
  exists ia ib, utc_ns_z zone_rule a = Some ia /\ utc_ns_z zone_rule b = Some ib /\ c = (ia ?= ib).
Proof. exact z_compare_exact. Qed.
Theorem C15_zoned_subtract_exact : forall zone_rule a b n, z_subtract_code zone_rule a b = Some n ->
  exists ia ib, utc_ns_z zone_rule a = Some ia /\ utc_ns_z zone_rule b = Some ib /\ n = ia - ib.
Proof. exact z_subtract_exact. Qed.
Theorem C15_zoned_compare_defined_iff : forall zone_rule a b,
  z_compare_code zone_rule a b <> None <-> exists oa ob, z_resolved zone_rule a oa /\ z_resolved zone_rule b ob.
Proof. exact z_compare_defined_iff. Qed.

Example C15_chrono_nonvacuous :
  chrono_utc (mkdt 2021 1 1 0 30 0 5 3600) = Some ((2020, 366), 84600, 5) /\
  chrono_utc (mkdt 2020 12 31 23 30 0 5 (-3600)) = Some ((2021, 1), 1800, 5) /\
  dt_compare_code (mkdt 2021 1 1 0 30 0 5 3600) (mkdt 2020 12 31 23 30 0 5 (-3600)) = Some Lt /\
  dt_subtract_code (mkdt 2021 1 1 0 30 0 5 3600) (mkdt 2020 12 31 23 30 0 6 (-3600)) = Some (-3600000000001) /\
  chrono_utc (mkdt (-262143) 1 1 0 0 0 0 0) = Some ((-262143, 1), 0, 0) /\
  chrono_utc (mkdt (-262143) 1 1 0 0 0 0 1) = None /\
  chrono_utc (mkdt 262142 12 31 23 59 59 0 (-1)) = None /\
  dt_subtract_code (mkdt 2262 4 11 23 47 16 854775807 0) (mkdt 1970 1 1 0 0 0 0 0) = Some 9223372036854775807 /\
  dt_subtract_code (mkdt 2262 4 11 23 47 16 854775808 0) (mkdt 1970 1 1 0 0 0 0 0) = None /\
  dt_subtract_code (mkdt 1970 1 1 0 0 0 0 0) (mkdt 2262 4 11 23 47 16 854775808 0) = Some (-9223372036854775808) /\
  is_leap_year_code (-4) = true /\ is_leap_year_code (-100) = false /\ is_leap_year_code (-400) = true /\
  is_valid_date_code 999999999 2 29 = false /\ is_valid_date_code (-999999996) 2 29 = true /\
  next_date (2023, 2, 28) = (2023, 3, 1) /\ next_date (2024, 2, 28) = (2024, 2, 29) /\ next_date (1999, 12, 31) = (2000, 1, 1).
Proof. exact chrono_nonvacuous. Qed.

Print Assumptions C15_civil_roundtrip.
Print Assumptions C15_days_roundtrip.
Print Assumptions C15_days_monotone.
Print Assumptions C15_valid_iff.
Print Assumptions C15_leap_iff.
Print Assumptions C15_year_length.
Print Assumptions C15_next_day_next_month.
Print Assumptions C15_weekday_spec.
Print Assumptions C15_is_valid_date.
Print Assumptions C15_is_valid_date_orig_refuted.
Print Assumptions C15_date_from_numbers.
Print Assumptions C15_date_from_numbers_rejects.
Print Assumptions C15_date_from_numbers_orig_refuted.
Print Assumptions C15_date_order.
Print Assumptions C15_date_order_total.
Print Assumptions C15_date_order_orig_refuted.
Print Assumptions C15_weekday.
Print Assumptions C15_weekday_in_range.
Print Assumptions C15_weekday_far_refuted.
Print Assumptions C15_ym_duration.
Print Assumptions C15_months_between_spec.
Print Assumptions C15_months_between_antisym.
Print Assumptions C15_ym_duration_orig_refuted.
Print Assumptions C15_instant_sub_exact.
Print Assumptions C15_instant_order_same_offset.
Print Assumptions C15_instant_offset_shift.
Print Assumptions C15_dt_compare_subtract.
Print Assumptions C15_dt_subtract_range_refuted.
Print Assumptions C15_dtd_components.
Print Assumptions C15_ymd_components.
Print Assumptions C15_nonvacuous.
Print Assumptions C15_civil_bijection.
Print Assumptions C15_day_number_recurrence.
Print Assumptions C15_day_number_unique.
Print Assumptions C15_weekday_recurrence.
Print Assumptions C15_weekday_unique.
Print Assumptions C15_weekday_code.
Print Assumptions C15_valid_date_spec.
Print Assumptions C15_chrono_utc_spec.
Print Assumptions C15_chrono_dt_representable.
Print Assumptions C15_dt_compare_defined_iff.
Print Assumptions C15_dt_compare_exact.
Print Assumptions C15_dt_subtract_defined_iff.
Print Assumptions C15_dt_subtract_exact.
Print Assumptions C15_chrono_path_is_model.
Print Assumptions C15_zoned_compare_exact.
Print Assumptions C15_zoned_subtract_exact.
Print Assumptions C15_zoned_compare_defined_iff.
Print Assumptions C15_chrono_nonvacuous.
